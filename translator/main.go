// Translator: reads the Go sources of truora/minidyn and writes the data tables the Coq model imports
// (theories/Gen/Tables.v). Anything that does not have the expected shape is a hard error.
package main

import (
	"fmt"
	"go/ast"
	"go/parser"
	"go/token"
	"os"
	"path/filepath"
	"sort"
	"strconv"
	"strings"
)

var fset = token.NewFileSet()

func die(format string, a ...interface{}) {
	fmt.Fprintf(os.Stderr, "translator: "+format+"\n", a...)
	os.Exit(2)
}

func parseFile(path string) *ast.File {
	f, err := parser.ParseFile(fset, path, nil, 0)
	if err != nil {
		die("cannot parse %s: %v", path, err)
	}
	return f
}

// coqStr renders a Go string as a Coq term of type str (list byte)
func coqStr(s string) string {
	printable := true
	for i := 0; i < len(s); i++ {
		if s[i] < 32 || s[i] > 126 {
			printable = false
		}
	}
	if printable {
		return `(bs "` + strings.ReplaceAll(s, `"`, `""`) + `")`
	}
	parts := []string{}
	for i := 0; i < len(s); i++ {
		parts = append(parts, fmt.Sprintf("x%02x", s[i]))
	}
	return "[" + strings.Join(parts, "; ") + "]%byte"
}

func unquote(e ast.Expr) (string, bool) {
	bl, ok := e.(*ast.BasicLit)
	if !ok || bl.Kind != token.STRING {
		return "", false
	}
	s, err := strconv.Unquote(bl.Value)
	return s, err == nil
}

// varValue finds the initialiser of a package-level variable
func varValue(f *ast.File, name string) ast.Expr {
	for _, d := range f.Decls {
		gd, ok := d.(*ast.GenDecl)
		if !ok || gd.Tok != token.VAR {
			continue
		}
		for _, sp := range gd.Specs {
			vs := sp.(*ast.ValueSpec)
			for i, n := range vs.Names {
				if n.Name == name && i < len(vs.Values) {
					return vs.Values[i]
				}
			}
		}
	}
	return nil
}

// constStrings collects package-level string constants (name -> value)
func constStrings(f *ast.File) map[string]string {
	out := map[string]string{}
	for _, d := range f.Decls {
		gd, ok := d.(*ast.GenDecl)
		if !ok || gd.Tok != token.CONST {
			continue
		}
		for _, sp := range gd.Specs {
			vs := sp.(*ast.ValueSpec)
			for i, n := range vs.Names {
				if i < len(vs.Values) {
					if s, ok := unquote(vs.Values[i]); ok {
						out[n.Name] = s
					}
				}
			}
		}
	}
	return out
}

// constInts collects integer constants, following iota inside one block
func constInts(f *ast.File) map[string]int {
	out := map[string]int{}
	for _, d := range f.Decls {
		gd, ok := d.(*ast.GenDecl)
		if !ok || gd.Tok != token.CONST {
			continue
		}
		isIota := false
		for i, sp := range gd.Specs {
			vs := sp.(*ast.ValueSpec)
			if len(vs.Values) == 1 {
				if id, ok := vs.Values[0].(*ast.Ident); ok && id.Name == "iota" {
					isIota = true
				} else if bl, ok := vs.Values[0].(*ast.BasicLit); ok && bl.Kind == token.INT {
					v, _ := strconv.Atoi(bl.Value)
					out[vs.Names[0].Name] = v
					isIota = false
					continue
				} else {
					isIota = false
				}
			}
			if isIota {
				for _, n := range vs.Names {
					out[n.Name] = i
				}
			}
		}
	}
	return out
}

func mapLit(e ast.Expr, what string) *ast.CompositeLit {
	cl, ok := e.(*ast.CompositeLit)
	if !ok {
		die("%s is not a composite literal", what)
	}
	return cl
}

var ttNames = map[string]bool{"ILLEGAL": true, "EOF": true, "IDENT": true, "LT": true, "LTE": true, "GT": true, "GTE": true,
	"EQ": true, "NotEQ": true, "COMMA": true, "LPAREN": true, "RPAREN": true, "LBRACKET": true, "RBRACKET": true, "DOT": true,
	"AND": true, "OR": true, "NOT": true, "BETWEEN": true, "IN": true, "SET": true, "REMOVE": true, "ADD": true, "DELETE": true,
	"PLUS": true, "MINUS": true}

func ttIdent(e ast.Expr, what string) string {
	id, ok := e.(*ast.Ident)
	if !ok || !ttNames[id.Name] {
		die("%s: unexpected token type expression", what)
	}
	return id.Name
}

func findFunc(f *ast.File, name string) *ast.FuncDecl {
	for _, d := range f.Decls {
		if fd, ok := d.(*ast.FuncDecl); ok && fd.Name.Name == name {
			return fd
		}
	}
	return nil
}

var prefixFns = map[string]string{"parseIdentifier": "PIdent", "parsePrefixExpression": "PNot", "parseGroupedExpression": "PGroup", "parseUpdateActionExpression": "PAction"}
var infixFns = map[string]string{"parseInfixExpression": "IInfix", "parseIndexExpression": "IIndex", "parseBetweenExpression": "IBetween", "parseCallExpression": "ICall", "parseInExpression": "IIn"}

// registrations reads the p.registerPrefix / p.registerInfix calls of a constructor, in order
func registrations(fd *ast.FuncDecl) (prefix, infix []string) {
	ast.Inspect(fd.Body, func(n ast.Node) bool {
		ce, ok := n.(*ast.CallExpr)
		if !ok {
			return true
		}
		sel, ok := ce.Fun.(*ast.SelectorExpr)
		if !ok || (sel.Sel.Name != "registerPrefix" && sel.Sel.Name != "registerInfix") {
			return true
		}
		if len(ce.Args) != 2 {
			die("%s: unexpected register call", fd.Name.Name)
		}
		tok := ttIdent(ce.Args[0], fd.Name.Name)
		fn, ok := ce.Args[1].(*ast.SelectorExpr)
		if !ok {
			die("%s: register call with a non-method argument", fd.Name.Name)
		}
		if sel.Sel.Name == "registerPrefix" {
			c, ok := prefixFns[fn.Sel.Name]
			if !ok {
				die("%s: unknown prefix parse function %s", fd.Name.Name, fn.Sel.Name)
			}
			prefix = append(prefix, fmt.Sprintf("(%s, %s)", tok, c))
		} else {
			c, ok := infixFns[fn.Sel.Name]
			if !ok {
				die("%s: unknown infix parse function %s", fd.Name.Name, fn.Sel.Name)
			}
			infix = append(infix, fmt.Sprintf("(%s, %s)", tok, c))
		}
		return true
	})
	return
}

func coqList(items []string, perLine int) string {
	var b strings.Builder
	b.WriteString("[")
	for i, it := range items {
		if i > 0 {
			b.WriteString("; ")
			if perLine > 0 && i%perLine == 0 {
				b.WriteString("\n   ")
			}
		}
		b.WriteString(it)
	}
	b.WriteString("]")
	return b.String()
}

func clientConsts(repo, v string) (limit int, namesRe, valuesRe string, emul []string) {
	f := parseFile(filepath.Join(repo, "aws-"+v, "client", "client.go"))
	ints := constInts(f)
	limit, ok := ints["batchRequestsLimit"]
	if !ok {
		die("%s: batchRequestsLimit not found", v)
	}
	re := func(name string) string {
		e := varValue(f, name)
		ce, ok := e.(*ast.CallExpr)
		if !ok || len(ce.Args) != 1 {
			die("%s: %s is not regexp.MustCompile(literal)", v, name)
		}
		s, ok := unquote(ce.Args[0])
		if !ok {
			die("%s: %s pattern is not a literal", v, name)
		}
		return s
	}
	namesRe, valuesRe = re("expressionAttributeNamesRegex"), re("expressionAttributeValuesRegex")

	m := parseFile(filepath.Join(repo, "aws-"+v, "client", "minidyn.go"))
	cs := constStrings(m)
	for _, kv := range mapLit(varValue(m, "emulatingErrors"), "emulatingErrors").Elts {
		e := kv.(*ast.KeyValueExpr)
		k, ok := cs[e.Key.(*ast.Ident).Name]
		if !ok {
			die("%s: emulatingErrors key is not a string constant", v)
		}
		kind := ""
		switch val := e.Value.(type) {
		case *ast.Ident:
			switch val.Name {
			case "nil":
				kind = "None"
			case "ErrForcedFailure":
				kind = "Some FDeprecated"
			case "emulatedInternalServeError":
				kind = "Some FInternal"
			}
		case *ast.UnaryExpr:
			if id, ok := val.X.(*ast.Ident); ok && id.Name == "emulatedInternalServeError" {
				kind = "Some FInternal"
			}
		}
		if kind == "" {
			die("%s: emulatingErrors has an unexpected value", v)
		}
		emul = append(emul, fmt.Sprintf("(%s, %s)", coqStr(k), kind))
	}
	sort.Strings(emul)
	return
}

func main() {
	if len(os.Args) != 3 {
		die("usage: translator <repo> <Gen directory>")
	}
	repo, gen := os.Args[1], os.Args[2]
	out := filepath.Join(gen, "Tables.v")
	writeLocks(repo, filepath.Join(gen, "Locks.v"))
	writeCopies(repo, filepath.Join(gen, "Copies.v"))
	writeFuncs(repo, filepath.Join(gen, "Funcs.v"))
	lang := filepath.Join(repo, "interpreter", "language")

	var b strings.Builder
	b.WriteString("(* GENERATED by /verif/translator from the Go sources; do not edit. *)\n")
	b.WriteString("From Coq Require Import List NArith.\nFrom Coq Require Import Strings.Byte Strings.String.\n")
	b.WriteString("From Minidyn Require Import Base.Str Base.Outcome Model.Token.\nImport ListNotations.\n\n")

	// token.go
	tok := parseFile(filepath.Join(lang, "token.go"))
	cs := constStrings(tok)
	texts := []string{}
	for _, n := range []string{"ILLEGAL", "EOF", "IDENT", "LT", "LTE", "GT", "GTE", "EQ", "NotEQ", "COMMA", "LPAREN", "RPAREN", "LBRACKET", "RBRACKET", "DOT", "AND", "OR", "NOT", "BETWEEN", "IN", "SET", "REMOVE", "ADD", "DELETE", "PLUS", "MINUS"} {
		v, ok := cs[n]
		if !ok {
			die("token.go: token type %s not found", n)
		}
		texts = append(texts, fmt.Sprintf("(%s, %s)", n, coqStr(v)))
	}
	fmt.Fprintf(&b, "Definition tok_text : list (tt * str) :=\n  %s.\n\n", coqList(texts, 6))

	kws := []string{}
	for _, kv := range mapLit(varValue(tok, "keywords"), "keywords").Elts {
		e := kv.(*ast.KeyValueExpr)
		k, ok := unquote(e.Key)
		if !ok {
			die("keywords: key is not a string literal")
		}
		kws = append(kws, fmt.Sprintf("(%s, %s)", coqStr(k), ttIdent(e.Value, "keywords")))
	}
	fmt.Fprintf(&b, "Definition keywords : list (str * tt) :=\n  %s.\n\n", coqList(kws, 5))

	rws := []string{}
	for _, kv := range mapLit(varValue(tok, "reservedWords"), "reservedWords").Elts {
		e := kv.(*ast.KeyValueExpr)
		k, ok := unquote(e.Key)
		if !ok {
			die("reservedWords: key is not a string literal")
		}
		if id, ok := e.Value.(*ast.Ident); !ok || id.Name != "true" {
			die("reservedWords: value of %q is not true", k)
		}
		rws = append(rws, coqStr(k))
	}
	fmt.Fprintf(&b, "Definition reserved_words : list str :=\n  %s.\n\n", coqList(rws, 6))

	// lexer.go
	lex := parseFile(filepath.Join(lang, "lexer.go"))
	chars := func(name string, withTok bool) []string {
		out := []string{}
		for _, kv := range mapLit(varValue(lex, name), name).Elts {
			e := kv.(*ast.KeyValueExpr)
			bl, ok := e.Key.(*ast.BasicLit)
			if !ok || bl.Kind != token.CHAR {
				die("%s: key is not a character literal", name)
			}
			r, _, _, err := strconv.UnquoteChar(bl.Value[1:len(bl.Value)-1], '\'')
			if err != nil || r > 255 {
				die("%s: bad character literal", name)
			}
			if withTok {
				out = append(out, fmt.Sprintf("(%d%%N, %s)", r, ttIdent(e.Value, name)))
			} else {
				if id, ok := e.Value.(*ast.Ident); !ok || id.Name != "true" {
					die("%s: value is not true", name)
				}
				out = append(out, fmt.Sprintf("%d%%N", r))
			}
		}
		return out
	}
	fmt.Fprintf(&b, "Definition single_char : list (N * tt) :=\n  %s.\n\n", coqList(chars("singleChar", true), 0))
	fmt.Fprintf(&b, "Definition special_chars : list N :=\n  %s.\n\n", coqList(chars("especialChars", false), 0))

	// parser.go
	par := parseFile(filepath.Join(lang, "parser.go"))
	ints := constInts(par)
	precs := []string{}
	for _, kv := range mapLit(varValue(par, "precedences"), "precedences").Elts {
		e := kv.(*ast.KeyValueExpr)
		v, ok := ints[e.Value.(*ast.Ident).Name]
		if !ok {
			die("precedences: unknown precedence constant")
		}
		precs = append(precs, fmt.Sprintf("(%s, %d)", ttIdent(e.Key, "precedences"), v))
	}
	fmt.Fprintf(&b, "Definition prec_table : list (tt * nat) :=\n  %s.\n\n", coqList(precs, 6))
	for _, n := range [][2]string{{"precedenceValueLowset", "prec_lowest"}, {"precedenceValueNOT", "prec_not"}} {
		v, ok := ints[n[0]]
		if !ok {
			die("parser.go: %s not found", n[0])
		}
		fmt.Fprintf(&b, "Definition %s : nat := %d.\n", n[1], v)
	}
	b.WriteString("\n")
	for _, c := range [][2]string{{"NewParser", "cond"}, {"NewUpdateParser", "upd"}} {
		fd := findFunc(par, c[0])
		if fd == nil {
			die("parser.go: %s not found", c[0])
		}
		p, i := registrations(fd)
		fmt.Fprintf(&b, "Definition %s_prefix : list (tt * pfn) :=\n  %s.\n", c[1], coqList(p, 0))
		fmt.Fprintf(&b, "Definition %s_infix : list (tt * ifn) :=\n  %s.\n\n", c[1], coqList(i, 7))
	}

	// functions.go
	fns := parseFile(filepath.Join(lang, "functions.go"))
	fl := []string{}
	for _, kv := range mapLit(varValue(fns, "functions"), "functions").Elts {
		e := kv.(*ast.KeyValueExpr)
		k, ok := unquote(e.Key)
		if !ok {
			die("functions: key is not a string literal")
		}
		val := e.Value
		if u, ok := val.(*ast.UnaryExpr); ok {
			val = u.X
		}
		forUpdate, arity, impl := "false", -1, ""
		for _, fe := range mapLit(val, "functions entry").Elts {
			fkv := fe.(*ast.KeyValueExpr)
			switch fkv.Key.(*ast.Ident).Name {
			case "ForUpdate":
				forUpdate = fkv.Value.(*ast.Ident).Name
			case "Arity":
				arity, _ = strconv.Atoi(fkv.Value.(*ast.BasicLit).Value)
			case "Value":
				impl = fkv.Value.(*ast.Ident).Name
			case "Name":
				if n, _ := unquote(fkv.Value); n != k {
					die("functions: entry %q has a different Name", k)
				}
			}
		}
		if arity < 0 || impl == "" {
			die("functions: entry %q lacks Arity or Value", k)
		}
		fl = append(fl, fmt.Sprintf("(%s, (%s, %d, %s))", coqStr(k), forUpdate, arity, coqStr(impl)))
	}
	fmt.Fprintf(&b, "(* name, (ForUpdate, Arity, implementing Go function) *)\nDefinition functions : list (str * (bool * nat * str)) :=\n  %s.\n\n", coqList(fl, 2))

	// object.go
	objf := parseFile(filepath.Join(lang, "object.go"))
	ocs := constStrings(objf)
	types := func(name string) []string {
		out := []string{}
		for _, kv := range mapLit(varValue(objf, name), name).Elts {
			e := kv.(*ast.KeyValueExpr)
			v, ok := ocs[e.Key.(*ast.Ident).Name]
			if !ok {
				die("%s: key is not an ObjectType constant", name)
			}
			out = append(out, coqStr(v))
		}
		return out
	}
	fmt.Fprintf(&b, "Definition dynamodb_types : list str :=\n  %s.\n", coqList(types("dynamodbTypes"), 0))
	fmt.Fprintf(&b, "Definition comparable_types : list str :=\n  %s.\n\n", coqList(types("comparableTypes"), 0))

	// clients
	l1, n1, v1, e1 := clientConsts(repo, "v1")
	l2, n2, v2, e2 := clientConsts(repo, "v2")
	fmt.Fprintf(&b, "Definition batch_limit_v1 : nat := %d.\nDefinition batch_limit_v2 : nat := %d.\n", l1, l2)
	fmt.Fprintf(&b, "Definition names_regex_v1 : str := %s.\nDefinition names_regex_v2 : str := %s.\n", coqStr(n1), coqStr(n2))
	fmt.Fprintf(&b, "Definition values_regex_v1 : str := %s.\nDefinition values_regex_v2 : str := %s.\n", coqStr(v1), coqStr(v2))
	fmt.Fprintf(&b, "Definition emulating_errors_v1 : list (str * option failure) :=\n  %s.\n", coqList(e1, 0))
	fmt.Fprintf(&b, "Definition emulating_errors_v2 : list (str * option failure) :=\n  %s.\n", coqList(e2, 0))

	// only rewrite when the content changed, so that an unchanged tree costs no Coq rebuild
	old, err := os.ReadFile(out)
	if err == nil && string(old) == b.String() {
		return
	}
	if err := os.WriteFile(out, []byte(b.String()), 0o644); err != nil {
		die("cannot write %s: %v", out, err)
	}
}
