package main

import (
	"fmt"
	"go/ast"
	"go/token"
	"path/filepath"
	"sort"
	"strings"
)

// Lock discipline summary of the native interpreter registry (interpreter/native.go): the four registry maps are
// guarded by an RWMutex that the methods take through the helpers rlock() / lock(), either for the whole body
// (`defer ni.rlock()()`) or for a stretch of it (`unlock := ni.rlock()` ... `unlock()`). Per method: does it take the
// registry lock, which registry fields does it touch while holding it / while not holding it, which methods of the
// interpreter does it call while holding it (m_calls) and while not holding it (m_pre). Source order is execution
// order only for statements of the function body itself, so an acquisition inside a nested block stops the translator.
func nativeLockSummary(repo string) []minfo {
	f := parseFile(filepath.Join(repo, "interpreter", "native.go"))
	fields := map[string]bool{}
	for _, d := range f.Decls {
		gd, ok := d.(*ast.GenDecl)
		if !ok || gd.Tok != token.TYPE {
			continue
		}
		for _, sp := range gd.Specs {
			ts := sp.(*ast.TypeSpec)
			st, ok := ts.Type.(*ast.StructType)
			if !ok || ts.Name.Name != "Native" {
				continue
			}
			for _, fl := range st.Fields.List {
				for _, n := range fl.Names {
					if n.Name != "mu" {
						fields[n.Name] = true
					}
				}
			}
		}
	}
	if len(fields) == 0 {
		die("interpreter/native.go: struct Native not found")
	}
	isNative := func(e ast.Expr) bool {
		st, ok := e.(*ast.StarExpr)
		if !ok {
			return false
		}
		id, ok := st.X.(*ast.Ident)
		return ok && id.Name == "Native"
	}
	out := []minfo{}
	for _, d := range f.Decls {
		fd, ok := d.(*ast.FuncDecl)
		if !ok || fd.Body == nil || fd.Recv == nil || len(fd.Recv.List) != 1 || !isNative(fd.Recv.List[0].Type) || len(fd.Recv.List[0].Names) != 1 {
			continue
		}
		recv := fd.Recv.List[0].Names[0].Name
		if fd.Name.Name == "rlock" || fd.Name.Name == "lock" {
			continue // the two helpers that wrap the mutex
		}
		m := minfo{name: fd.Name.Name, public: ast.IsExported(fd.Name.Name)}
		// acquire: a call recv.rlock() / recv.lock()
		isAcquire := func(e ast.Expr) bool {
			ce, ok := e.(*ast.CallExpr)
			if !ok {
				return false
			}
			sel, ok := ce.Fun.(*ast.SelectorExpr)
			if !ok || (sel.Sel.Name != "rlock" && sel.Sel.Name != "lock") {
				return false
			}
			id, ok := sel.X.(*ast.Ident)
			return ok && id.Name == recv
		}
		held := false
		releaseVar := ""
		seen := map[string]bool{}
		add := func(l *[]string, s string) {
			key := fmt.Sprintf("%p/%s", l, s)
			if !seen[key] {
				seen[key] = true
				*l = append(*l, s)
			}
		}
		scan := func(n ast.Node) {
			ast.Inspect(n, func(x ast.Node) bool {
				switch y := x.(type) {
				case *ast.SelectorExpr:
					if id, ok := y.X.(*ast.Ident); ok && id.Name == recv && fields[y.Sel.Name] {
						if held {
							add(&m.locked, y.Sel.Name)
						} else {
							add(&m.unlocked, y.Sel.Name)
						}
					}
				case *ast.CallExpr:
					if isAcquire(y) {
						die("interpreter/native.go: %s takes the registry lock in a way the translator does not understand", m.name)
					}
					if sel, ok := y.Fun.(*ast.SelectorExpr); ok {
						if id, ok := sel.X.(*ast.Ident); ok && id.Name == recv && !fields[sel.Sel.Name] && sel.Sel.Name != "mu" {
							if held {
								add(&m.calls, sel.Sel.Name)
							} else {
								add(&m.pre, sel.Sel.Name)
							}
						}
					}
				}
				return true
			})
		}
		for _, st := range fd.Body.List {
			switch x := st.(type) {
			case *ast.DeferStmt:
				// defer recv.rlock()()
				if inner, ok := x.Call.Fun.(*ast.CallExpr); ok && isAcquire(inner) {
					if held {
						die("interpreter/native.go: %s takes the registry lock while it holds it", m.name)
					}
					held, m.locks = true, true
					continue
				}
			case *ast.AssignStmt:
				// unlock := recv.rlock()
				if len(x.Lhs) == 1 && len(x.Rhs) == 1 && isAcquire(x.Rhs[0]) {
					if id, ok := x.Lhs[0].(*ast.Ident); ok {
						if held {
							die("interpreter/native.go: %s takes the registry lock while it holds it", m.name)
						}
						held, m.locks, releaseVar = true, true, id.Name
						continue
					}
				}
			case *ast.ExprStmt:
				// unlock()
				if ce, ok := x.X.(*ast.CallExpr); ok {
					if id, ok := ce.Fun.(*ast.Ident); ok && releaseVar != "" && id.Name == releaseVar {
						held, releaseVar = false, ""
						continue
					}
				}
			}
			scan(st)
		}
		if releaseVar != "" {
			die("interpreter/native.go: %s does not release the registry lock it took", m.name)
		}
		if m.locks && len(m.pre) > 0 {
			// calls made before / after the stretch in which the lock is held: kept apart from those made under it
			sort.Strings(m.pre)
		}
		out = append(out, m)
	}
	sort.Slice(out, func(i, j int) bool { return out[i].name < out[j].name })
	return out
}

func nativeLockTable(repo string) string {
	strs := func(l []string) string {
		x := []string{}
		for _, s := range l {
			x = append(x, coqStr(s))
		}
		return "[" + strings.Join(x, "; ") + "]"
	}
	items := []string{}
	for _, m := range nativeLockSummary(repo) {
		calls := m.calls
		if !m.locks {
			// a method that never takes the lock: everything it calls is called without the lock
			calls = append(append([]string{}, m.pre...), m.calls...)
			m.pre = nil
		}
		items = append(items, fmt.Sprintf("{| m_name := %s; m_public := %v; m_locks := %v; m_unlocked := %s; m_locked := %s; m_pre := %s; m_calls := %s; m_loops := [] |}",
			coqStr(m.name), m.public, m.locks, strs(m.unlocked), strs(m.locked), strs(m.pre), strs(calls)))
	}
	return fmt.Sprintf("(* interpreter/native.go: the registry of native expressions and its RWMutex *)\nDefinition lock_table_native : list minfo :=\n  [%s].\n\n", strings.Join(items, ";\n   "))
}
