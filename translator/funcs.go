// Translation of small pure Go functions (page accounting of core/table.go) into Gallina definitions
// (theories/Gen/Funcs.v). The supported subset: parameters of type string, bool, int64, interpreter.ExpressionType
// and map[string]*types.Item (only through len); bodies made of `if c { return e }` (optionally with else) and a final
// `return e`; expressions over == != < > <= >= && || ! parentheses, string / integer literals, parameters,
// len(x) and the ExpressionType constants. Anything else is a hard error.
package main

import (
	"fmt"
	"go/ast"
	"go/token"
	"os"
	"path/filepath"
	"strconv"
	"strings"
)

type gty int

const (
	tStr gty = iota
	tBool
	tNat
	tItem
	tByte
)

type fenv struct {
	vars   map[string]gty
	consts map[string]string // ExpressionType constants -> value
	funcs  map[string]bool   // already translated functions that may be called
	fname  string
}

func goType(e ast.Expr, fname string) gty {
	switch t := e.(type) {
	case *ast.Ident:
		switch t.Name {
		case "string":
			return tStr
		case "bool":
			return tBool
		case "int64", "int":
			return tNat
		case "byte":
			return tByte
		}
	case *ast.SelectorExpr:
		if t.Sel.Name == "ExpressionType" {
			return tStr
		}
	case *ast.MapType:
		return tItem
	}
	die("funcs: %s: unsupported parameter type", fname)
	return tStr
}

func (v *fenv) expr(e ast.Expr) (string, gty) {
	switch x := e.(type) {
	case *ast.ParenExpr:
		return v.expr(x.X)
	case *ast.Ident:
		if x.Name == "true" || x.Name == "false" {
			return x.Name, tBool
		}
		t, ok := v.vars[x.Name]
		if !ok {
			die("funcs: %s: unknown identifier %s", v.fname, x.Name)
		}
		if t == tByte {
			return "(b2n " + x.Name + ")", tByte
		}
		return x.Name, t
	case *ast.BasicLit:
		if x.Kind == token.STRING {
			s, _ := unquote(x)
			if s == "" {
				return "[]", tStr
			}
			return coqStr(s), tStr
		}
		if x.Kind == token.INT {
			return x.Value, tNat
		}
		if x.Kind == token.CHAR {
			c, _, _, err := strconv.UnquoteChar(x.Value[1:len(x.Value)-1], '\'')
			if err != nil || c > 255 {
				die("funcs: %s: unsupported character literal %s", v.fname, x.Value)
			}
			return fmt.Sprintf("%d%%N", c), tByte
		}
	case *ast.SelectorExpr:
		if c, ok := v.consts[x.Sel.Name]; ok {
			return coqStr(c), tStr
		}
		if x.Sel.Name == "ch" { // the lexer's current byte
			if t, ok := v.vars["ch"]; ok && t == tByte {
				return "(b2n ch)", tByte
			}
		}
	case *ast.IndexExpr:
		if id, ok := x.X.(*ast.Ident); ok && id.Name == "especialChars" {
			a, t := v.expr(x.Index)
			if t != tByte {
				die("funcs: %s: especialChars indexed by a non-byte", v.fname)
			}
			return "(existsb (N.eqb " + a + ") special_chars)", tBool
		}
	case *ast.CallExpr:
		if id, ok := x.Fun.(*ast.Ident); ok && id.Name == "len" && len(x.Args) == 1 {
			a, t := v.expr(x.Args[0])
			if t != tItem && t != tStr {
				die("funcs: %s: len of a non-sequence", v.fname)
			}
			return "(List.length " + a + ")", tNat
		}
		if id, ok := x.Fun.(*ast.Ident); ok && v.funcs[id.Name] && len(x.Args) == 1 {
			if arg, ok := x.Args[0].(*ast.Ident); ok && v.vars[arg.Name] == tByte {
				return "(go_" + id.Name + " " + arg.Name + ")", tBool
			}
		}
	case *ast.UnaryExpr:
		if x.Op == token.NOT {
			a, t := v.expr(x.X)
			if t != tBool {
				die("funcs: %s: ! on a non-boolean", v.fname)
			}
			return "(negb " + a + ")", tBool
		}
	case *ast.BinaryExpr:
		a, ta := v.expr(x.X)
		b, tb := v.expr(x.Y)
		if ta != tb {
			die("funcs: %s: operands of %s have different types", v.fname, x.Op)
		}
		switch x.Op {
		case token.LAND:
			return "(" + a + " && " + b + ")", tBool
		case token.LOR:
			return "(" + a + " || " + b + ")", tBool
		}
		cmp := func(eq, lt, le string) (string, gty) {
			switch x.Op {
			case token.EQL:
				return fmt.Sprintf("(%s %s %s)", eq, a, b), tBool
			case token.NEQ:
				return fmt.Sprintf("(negb (%s %s %s))", eq, a, b), tBool
			case token.LSS:
				return fmt.Sprintf("(%s %s %s)", lt, a, b), tBool
			case token.GTR:
				return fmt.Sprintf("(%s %s %s)", lt, b, a), tBool
			case token.LEQ:
				return fmt.Sprintf("(%s %s %s)", le, a, b), tBool
			case token.GEQ:
				return fmt.Sprintf("(%s %s %s)", le, b, a), tBool
			}
			die("funcs: %s: unsupported operator %s", v.fname, x.Op)
			return "", tBool
		}
		switch ta {
		case tStr:
			return cmp("str_eqb", "str_ltb", "str_leb")
		case tNat:
			return cmp("Nat.eqb", "Nat.ltb", "Nat.leb")
		case tByte:
			return cmp("N.eqb", "N.ltb", "N.leb")
		case tBool:
			if x.Op == token.EQL {
				return fmt.Sprintf("(Bool.eqb %s %s)", a, b), tBool
			}
			if x.Op == token.NEQ {
				return fmt.Sprintf("(negb (Bool.eqb %s %s))", a, b), tBool
			}
		}
	}
	die("funcs: %s: unsupported expression at %s", v.fname, fset.Position(e.Pos()))
	return "", tBool
}

func (v *fenv) stmts(l []ast.Stmt) string {
	if len(l) == 0 {
		die("funcs: %s: control reaches the end without a return", v.fname)
	}
	switch s := l[0].(type) {
	case *ast.ReturnStmt:
		if len(s.Results) != 1 {
			die("funcs: %s: return with %d results", v.fname, len(s.Results))
		}
		e, t := v.expr(s.Results[0])
		if t != tBool {
			die("funcs: %s: non-boolean result", v.fname)
		}
		return e
	case *ast.IfStmt:
		if s.Init != nil {
			die("funcs: %s: if with an init statement", v.fname)
		}
		c, t := v.expr(s.Cond)
		if t != tBool {
			die("funcs: %s: non-boolean condition", v.fname)
		}
		th := v.stmts(s.Body.List)
		var el string
		if s.Else != nil {
			blk, ok := s.Else.(*ast.BlockStmt)
			if !ok {
				die("funcs: %s: else-if is not supported", v.fname)
			}
			if len(l) > 1 {
				die("funcs: %s: statements after if/else", v.fname)
			}
			el = v.stmts(blk.List)
		} else {
			el = v.stmts(l[1:])
		}
		return fmt.Sprintf("(if %s then %s else %s)", c, th, el)
	}
	die("funcs: %s: unsupported statement at %s", v.fname, fset.Position(l[0].Pos()))
	return ""
}

func writeFuncs(repo, out string) {
	consts := constStrings(parseFile(filepath.Join(repo, "interpreter", "interpreter.go")))
	f := parseFile(filepath.Join(repo, "core", "table.go"))
	var b strings.Builder
	b.WriteString("(* GENERATED by /verif/translator (funcs.go) from core/table.go; do not edit. *)\n")
	b.WriteString("From Coq Require Import List Bool Arith.\nFrom Coq Require Import Strings.Byte Strings.String.\n")
	b.WriteString("From Coq Require Import NArith.\nFrom Minidyn Require Import Base.Str Base.FMap Model.Value Model.Token Gen.Tables.\nImport ListNotations.\nLocal Open Scope bool_scope.\n\n")
	tyName := map[gty]string{tStr: "str", tBool: "bool", tNat: "nat", tItem: "item", tByte: "byte"}
	for _, name := range []string{"afterStartKey", "shouldReturnNextKey", "shouldCountItem", "shouldBreakPage"} {
		var fd *ast.FuncDecl
		for _, d := range f.Decls {
			if x, ok := d.(*ast.FuncDecl); ok && x.Recv == nil && x.Name.Name == name {
				fd = x
			}
		}
		if fd == nil {
			die("funcs: core/table.go: function %s not found", name)
		}
		if fd.Type.Results == nil || len(fd.Type.Results.List) != 1 {
			die("funcs: %s: expected exactly one result", name)
		}
		if goType(fd.Type.Results.List[0].Type, name) != tBool {
			die("funcs: %s: expected a boolean result", name)
		}
		env := &fenv{vars: map[string]gty{}, consts: consts, funcs: map[string]bool{}, fname: name}
		params := []string{}
		for _, p := range fd.Type.Params.List {
			t := goType(p.Type, name)
			for _, n := range p.Names {
				env.vars[n.Name] = t
				params = append(params, fmt.Sprintf("(%s : %s)", n.Name, tyName[t]))
			}
		}
		body := env.stmts(fd.Body.List)
		fmt.Fprintf(&b, "Definition go_%s %s : bool :=\n  %s.\n\n", name, strings.Join(params, " "), body)
	}
	// lexer.go: character classes
	lx := parseFile(filepath.Join(repo, "interpreter", "language", "lexer.go"))
	done := map[string]bool{}
	for _, name := range []string{"isLetter", "isIdentifierLetter"} {
		var fd *ast.FuncDecl
		for _, d := range lx.Decls {
			if x, ok := d.(*ast.FuncDecl); ok && x.Recv == nil && x.Name.Name == name {
				fd = x
			}
		}
		if fd == nil || len(fd.Type.Params.List) != 1 || len(fd.Type.Params.List[0].Names) != 1 {
			die("funcs: lexer.go: function %s(ch byte) bool not found", name)
		}
		pn := fd.Type.Params.List[0].Names[0].Name
		if goType(fd.Type.Params.List[0].Type, name) != tByte {
			die("funcs: %s: expected a byte parameter", name)
		}
		env := &fenv{vars: map[string]gty{pn: tByte}, consts: consts, funcs: done, fname: name}
		fmt.Fprintf(&b, "Definition go_%s (%s : byte) : bool :=\n  %s.\n\n", name, pn, env.stmts(fd.Body.List))
		done[name] = true
	}
	// the loop condition of skipWhitespace, as a predicate on the current byte
	for _, d := range lx.Decls {
		if x, ok := d.(*ast.FuncDecl); ok && x.Recv != nil && x.Name.Name == "skipWhitespace" {
			if len(x.Body.List) != 1 {
				die("funcs: skipWhitespace: expected a single loop")
			}
			fs, ok := x.Body.List[0].(*ast.ForStmt)
			if !ok || fs.Init != nil || fs.Post != nil || fs.Cond == nil {
				die("funcs: skipWhitespace: expected `for cond { ... }`")
			}
			env := &fenv{vars: map[string]gty{"ch": tByte}, consts: consts, funcs: done, fname: "skipWhitespace"}
			c, t := env.expr(fs.Cond)
			if t != tBool {
				die("funcs: skipWhitespace: non-boolean loop condition")
			}
			fmt.Fprintf(&b, "Definition go_isWhitespace (ch : byte) : bool :=\n  %s.\n\n", c)
			done["skipWhitespace"] = true
		}
	}
	if !done["skipWhitespace"] {
		die("funcs: lexer.go: skipWhitespace not found")
	}
	for _, c := range []string{"ExpressionTypeKey", "ExpressionTypeFilter", "ExpressionTypeConditional"} {
		v, ok := consts[c]
		if !ok {
			die("funcs: interpreter.go: constant %s not found", c)
		}
		fmt.Fprintf(&b, "Definition go_%s : str := %s.\n", c, coqStr(v))
	}
	writeIfChanged(out, b.String())
}

func writeIfChanged(out, content string) {
	old, err := os.ReadFile(out)
	if err == nil && string(old) == content {
		return
	}
	if err := os.WriteFile(out, []byte(content), 0o644); err != nil {
		die("cannot write %s: %v", out, err)
	}
}
