package main

import (
	"fmt"
	"go/ast"
	"go/token"
	"os"
	"path/filepath"
	"sort"
	"strings"
)

// how a mapper fills one attribute-value field: from a fresh copy, or by sharing memory with its argument
// SDK helpers returning a fresh value (aws.String, aws.ToString, aws.StringValue: trusted by name) and the mappers
// themselves (recursive: their fields are what this table is about)
var freshCallees = map[string]bool{
	"ToString": true, "StringValue": true, "String": true,
	"mapAttributeValueToTypes": true, "mapAttributeValueListToTypes": true, "mapAttributeValueToDynamodb": true, "mapAttributeValueListToDynamodb": true,
}

// helpers of the mapper file (cloneString, cloneStrings, toStringSlice, ...) are not trusted by name: their bodies are
// checked. A helper is fresh when every value it returns is nil, the address of a local, a call of a fresh function,
// or a local container made in the function (make / composite literal) that is only ever filled with fresh values.
var helperFresh = map[string]bool{}

func checkHelpers(f *ast.File, sdk string) {
	for k := range helperFresh {
		delete(helperFresh, k)
	}
	cands := map[string]*ast.FuncDecl{}
	for _, d := range f.Decls {
		fd, ok := d.(*ast.FuncDecl)
		if !ok || fd.Recv != nil || fd.Body == nil {
			continue
		}
		if strings.HasPrefix(fd.Name.Name, "clone") || strings.HasPrefix(fd.Name.Name, "toString") {
			cands[fd.Name.Name] = fd
		}
	}
	// optimistic fixpoint: assume all fresh, drop those whose body does not check, until stable
	for n := range cands {
		helperFresh[n] = true
	}
	for changed := true; changed; {
		changed = false
		for n, fd := range cands {
			if helperFresh[n] && !helperBodyFresh(fd) {
				delete(helperFresh, n)
				changed = true
			}
		}
	}
}

func helperBodyFresh(fd *ast.FuncDecl) bool {
	locals := localNames(fd)
	made := map[string]bool{} // locals bound to a container made here
	ok := true
	freshExpr := func(e ast.Expr) bool {
		if id, isID := e.(*ast.Ident); isID && (id.Name == "nil" || made[id.Name]) {
			return true
		}
		if ce, isCall := e.(*ast.CallExpr); isCall {
			if id, isID := ce.Fun.(*ast.Ident); isID && id.Name == "append" && len(ce.Args) == 2 {
				a, isA := ce.Args[0].(*ast.Ident)
				return isA && made[a.Name] && classify(ce.Args[1], locals) == "false"
			}
		}
		if _, isID := e.(*ast.Ident); isID {
			return false // a parameter, or a local that is not a container made here
		}
		return classify(e, locals) == "false"
	}
	// parameters whose elements are themselves references (a slice of slices, of pointers, of maps): copying the outer
	// slice with copy() shares the elements
	refElems := map[string]bool{}
	for _, p := range fd.Type.Params.List {
		if at, isArr := p.Type.(*ast.ArrayType); isArr {
			switch at.Elt.(type) {
			case *ast.ArrayType, *ast.StarExpr, *ast.MapType:
				for _, n := range p.Names {
					refElems[n.Name] = true
				}
			}
		}
	}
	ast.Inspect(fd.Body, func(n ast.Node) bool {
		switch x := n.(type) {
		case *ast.CallExpr:
			if id, isID := x.Fun.(*ast.Ident); isID && id.Name == "copy" && len(x.Args) == 2 {
				dst, d := x.Args[0].(*ast.Ident)
				src, sOK := x.Args[1].(*ast.Ident)
				if d && sOK && made[dst.Name] && refElems[src.Name] {
					ok = false // a shallow copy of a container of references
				}
			}
		case *ast.AssignStmt:
			for i, l := range x.Lhs {
				if i >= len(x.Rhs) {
					continue
				}
				switch lv := l.(type) {
				case *ast.Ident:
					if x.Tok == token.DEFINE {
						switch r := x.Rhs[i].(type) {
						case *ast.CompositeLit:
							made[lv.Name] = len(r.Elts) == 0
						case *ast.CallExpr:
							if id, isID := r.Fun.(*ast.Ident); isID && id.Name == "make" {
								made[lv.Name] = true
							}
						}
					} else if made[lv.Name] && !freshExpr(x.Rhs[i]) {
						ok = false
					}
				case *ast.IndexExpr:
					if id, isID := lv.X.(*ast.Ident); isID && made[id.Name] && classify(x.Rhs[i], locals) != "false" {
						ok = false
					}
				}
			}
		case *ast.ReturnStmt:
			for _, r := range x.Results {
				if !freshExpr(r) {
					ok = false
				}
			}
		}
		return true
	})
	return ok
}

func classify(e ast.Expr, locals map[string]bool) string {
	switch x := e.(type) {
	case *ast.CallExpr:
		name := ""
		switch f := x.Fun.(type) {
		case *ast.Ident:
			name = f.Name
		case *ast.SelectorExpr:
			name = f.Sel.Name
		}
		if freshCallees[name] || helperFresh[name] {
			return "false"
		}
		return "UNKNOWN:" + name
	case *ast.StarExpr: // *p : a copy of the pointed-to value
		return "false"
	case *ast.BasicLit:
		return "false"
	case *ast.Ident:
		if x.Name == "true" || x.Name == "false" || locals[x.Name] {
			return "false"
		}
		return "true"
	case *ast.UnaryExpr:
		if x.Op == token.AND {
			if id, ok := x.X.(*ast.Ident); ok && locals[id.Name] {
				return "false" // address of a local copy
			}
			return "true" // address of a field of the argument
		}
	case *ast.SelectorExpr:
		return "true"
	}
	return "UNKNOWN"
}

// locals: identifiers declared inside the function body (short variable declarations)
func localNames(fd *ast.FuncDecl) map[string]bool {
	out := map[string]bool{}
	ast.Inspect(fd.Body, func(n ast.Node) bool {
		if as, ok := n.(*ast.AssignStmt); ok && as.Tok == token.DEFINE {
			for i, l := range as.Lhs {
				id, ok := l.(*ast.Ident)
				if !ok {
					continue
				}
				// a local bound to a type assertion or a range variable still aliases the argument
				if i < len(as.Rhs) {
					if _, isTA := as.Rhs[i].(*ast.TypeAssertExpr); isTA {
						continue
					}
				}
				out[id.Name] = true
			}
		}
		return true
	})
	return out
}

var avKinds = map[string]bool{"B": true, "BOOL": true, "BS": true, "L": true, "M": true, "N": true, "NS": true, "NULL": true, "S": true, "SS": true}

func copyEntries(f *ast.File, fnames []string, sdk, dir string) []string {
	out := []string{}
	seen := map[string]string{}
	for _, fname := range fnames {
		fd := findFunc(f, fname)
		if fd == nil {
			die("%s: mapper %s not found", sdk, fname)
		}
		locals := localNames(fd)
		ast.Inspect(fd.Body, func(n ast.Node) bool {
			cl, ok := n.(*ast.CompositeLit)
			if !ok {
				return true
			}
			tname := ""
			switch t := cl.Type.(type) {
			case *ast.SelectorExpr:
				tname = t.Sel.Name
			case *ast.Ident:
				tname = t.Name
			}
			for _, el := range cl.Elts {
				kv, ok := el.(*ast.KeyValueExpr)
				if !ok {
					continue
				}
				key := kv.Key.(*ast.Ident).Name
				kind := ""
				if (tname == "Item" || tname == "AttributeValue") && avKinds[key] {
					kind = key
				} else if strings.HasPrefix(tname, "AttributeValueMember") && key == "Value" {
					kind = strings.TrimPrefix(tname, "AttributeValueMember")
				}
				if kind == "" {
					continue
				}
				c := classify(kv.Value, locals)
				if strings.HasPrefix(c, "UNKNOWN") {
					die("%s %s: field %s of %s is filled in a way the translator does not understand (%s)", sdk, fname, key, tname, c)
				}
				if prev, ok := seen[kind]; ok && prev != c {
					c = "true" // shared in at least one place
				}
				seen[kind] = c
			}
			return true
		})
	}
	kinds := []string{}
	for k := range seen {
		kinds = append(kinds, k)
	}
	sort.Strings(kinds)
	for _, k := range kinds {
		out = append(out, fmt.Sprintf("(%s, %s, %s, %s)", coqStr(sdk), coqStr(dir), coqStr(k), seen[k]))
	}
	return out
}

func writeCopies(repo, out string) {
	var b strings.Builder
	b.WriteString("(* GENERATED by /verif/translator from the Go sources; do not edit. *)\n")
	b.WriteString("From Coq Require Import List.\nFrom Coq Require Import Strings.Byte Strings.String.\n")
	b.WriteString("From Minidyn Require Import Base.Str.\nImport ListNotations.\n\n")
	v1 := parseFile(filepath.Join(repo, "aws-v1", "client", "mapper.go"))
	v2 := parseFile(filepath.Join(repo, "aws-v2", "client", "mapper.go"))
	entries := []string{}
	checkHelpers(v1, "v1")
	entries = append(entries, copyEntries(v1, []string{"mapAttributeValueToTypes", "mapAttributeValueListToTypes"}, "v1", "in")...)
	entries = append(entries, copyEntries(v1, []string{"mapAttributeValueToDynamodb", "mapAttributeValueListToDynamodb", "mapLastEvaluatedKey"}, "v1", "out")...)
	checkHelpers(v2, "v2")
	entries = append(entries, copyEntries(v2, []string{"mapDynamoToTypesItem", "mapDynamoToTypesAttributeDefinitionMapOrList"}, "v2", "in")...)
	entries = append(entries, copyEntries(v2, []string{"mapTypesToDynamoItem", "mapTypesToDynamoAttributeDefinitionMapOrList", "mapLastEvaluatedKey"}, "v2", "out")...)
	b.WriteString("(* sdk, direction (in: request -> stored, out: stored -> response), attribute-value kind, shares memory with its argument *)\n")
	fmt.Fprintf(&b, "Definition copy_table : list (str * str * str * bool) :=\n  [%s].\n", strings.Join(entries, ";\n   "))
	old, err := os.ReadFile(out)
	if err == nil && string(old) == b.String() {
		return
	}
	if err := os.WriteFile(out, []byte(b.String()), 0o644); err != nil {
		die("cannot write %s: %v", out, err)
	}
}
