package main

import (
	"fmt"
	"go/ast"
	"go/token"
	"os"
	"path/filepath"
	"sort"
	"strings"
)

// lock discipline summary of every function of a client package that touches a *Client
type minfo struct {
	name     string
	locks    bool     // takes fd.mu.Lock() (with a deferred Unlock)
	unlocked []string // shared fields accessed while the function itself does not hold the lock
	locked   []string // shared fields accessed after the function took the lock
	calls    []string // client methods / package functions (receiving the client) it calls (a locking function: after it took the lock)
	pre      []string // the same, called by a locking function before it takes the lock
	loops    []string // callees that are called inside a loop (possibly many times in one execution)
	public   bool
}

func clientFields(files []*ast.File) map[string]bool {
	out := map[string]bool{}
	for _, f := range files {
		for _, d := range f.Decls {
			gd, ok := d.(*ast.GenDecl)
			if !ok || gd.Tok != token.TYPE {
				continue
			}
			for _, sp := range gd.Specs {
				ts := sp.(*ast.TypeSpec)
				st, ok := ts.Type.(*ast.StructType)
				if !ok || ts.Name.Name != "Client" {
					continue
				}
				for _, fl := range st.Fields.List {
					for _, n := range fl.Names {
						if n.Name != "mu" {
							out[n.Name] = true
						}
					}
				}
			}
		}
	}
	return out
}

func isClientPtr(e ast.Expr) bool {
	st, ok := e.(*ast.StarExpr)
	if !ok {
		return false
	}
	id, ok := st.X.(*ast.Ident)
	return ok && id.Name == "Client"
}

func lockSummary(dir string) []minfo {
	names, err := filepath.Glob(filepath.Join(dir, "*.go"))
	if err != nil {
		die("glob %s: %v", dir, err)
	}
	sort.Strings(names)
	files := []*ast.File{}
	for _, n := range names {
		if strings.HasSuffix(n, "_test.go") || strings.HasSuffix(n, "verif_hooks.go") {
			continue
		}
		files = append(files, parseFile(n))
	}
	fields := clientFields(files)
	if len(fields) == 0 {
		die("%s: struct Client not found", dir)
	}
	methods := map[string]bool{}
	funcs := map[string]bool{}
	for _, f := range files {
		for _, d := range f.Decls {
			if fd, ok := d.(*ast.FuncDecl); ok {
				if fd.Recv != nil && len(fd.Recv.List) == 1 && isClientPtr(fd.Recv.List[0].Type) {
					methods[fd.Name.Name] = true
				} else if fd.Recv == nil {
					funcs[fd.Name.Name] = true
				}
			}
		}
	}
	out := []minfo{}
	for _, f := range files {
		for _, d := range f.Decls {
			fd, ok := d.(*ast.FuncDecl)
			if !ok || fd.Body == nil {
				continue
			}
			cvars := map[string]bool{}
			if fd.Recv != nil && len(fd.Recv.List) == 1 && isClientPtr(fd.Recv.List[0].Type) {
				for _, n := range fd.Recv.List[0].Names {
					cvars[n.Name] = true
				}
			}
			for _, p := range fd.Type.Params.List {
				if isClientPtr(p.Type) {
					for _, n := range p.Names {
						cvars[n.Name] = true
					}
				}
				// the FakeClient / DynamoDBAPI interface values that are asserted to *Client
				if id, ok := p.Type.(*ast.Ident); ok && id.Name == "FakeClient" {
					for _, n := range p.Names {
						cvars[n.Name] = true
					}
				}
				if se, ok := p.Type.(*ast.SelectorExpr); ok && se.Sel.Name == "DynamoDBAPI" {
					for _, n := range p.Names {
						cvars[n.Name] = true
					}
				}
			}
			// locals obtained by a type assertion to *Client
			ast.Inspect(fd.Body, func(n ast.Node) bool {
				as, ok := n.(*ast.AssignStmt)
				if !ok {
					return true
				}
				for i, rhs := range as.Rhs {
					if ta, ok := rhs.(*ast.TypeAssertExpr); ok && isClientPtr(ta.Type) && i < len(as.Lhs) {
						if id, ok := as.Lhs[i].(*ast.Ident); ok {
							cvars[id.Name] = true
						}
					}
				}
				return true
			})
			if len(cvars) == 0 {
				continue
			}
			m := minfo{name: fd.Name.Name, public: ast.IsExported(fd.Name.Name)}
			hasDefer := false
			seen := map[string]bool{}
			add := func(l *[]string, s string) {
				key := fmt.Sprintf("%p/%s", l, s)
				if !seen[key] {
					seen[key] = true
					*l = append(*l, s)
				}
			}
			isMu := func(e ast.Expr, meth string) bool {
				ce, ok := e.(*ast.CallExpr)
				if !ok {
					return false
				}
				sel, ok := ce.Fun.(*ast.SelectorExpr)
				if !ok || sel.Sel.Name != meth {
					return false
				}
				mu, ok := sel.X.(*ast.SelectorExpr)
				if !ok || mu.Sel.Name != "mu" {
					return false
				}
				id, ok := mu.X.(*ast.Ident)
				return ok && cvars[id.Name]
			}
			pending := []string{}
			// the source ranges of the loop bodies of this function: a call inside one may happen many times
			type span struct{ lo, hi token.Pos }
			loopSpans := []span{}
			ast.Inspect(fd.Body, func(n ast.Node) bool {
				switch x := n.(type) {
				case *ast.ForStmt:
					loopSpans = append(loopSpans, span{x.Pos(), x.End()})
				case *ast.RangeStmt:
					loopSpans = append(loopSpans, span{x.Pos(), x.End()})
				}
				return true
			})
			curPos := token.NoPos
			addCall := func(name string) {
				for _, sp := range loopSpans {
					if curPos >= sp.lo && curPos < sp.hi {
						add(&m.loops, name)
					}
				}
				if m.locks {
					add(&m.calls, name)
				} else {
					add(&pending, name)
				}
			}
			topLevel := map[ast.Stmt]bool{}
			for _, st := range fd.Body.List {
				topLevel[st] = true
			}
			ast.Inspect(fd.Body, func(n ast.Node) bool {
				switch x := n.(type) {
				case *ast.ExprStmt:
					if isMu(x.X, "Lock") {
						// source order is execution order only for a statement of the function body itself
						if !topLevel[x] {
							die("%s: %s takes the mutex inside a nested block", dir, m.name)
						}
						m.locks = true
						return false
					}
				case *ast.DeferStmt:
					if isMu(x.Call, "Unlock") {
						hasDefer = true
						return false
					}
				case *ast.SelectorExpr:
					if id, ok := x.X.(*ast.Ident); ok && cvars[id.Name] {
						if fields[x.Sel.Name] {
							if m.locks {
								add(&m.locked, x.Sel.Name)
							} else {
								add(&m.unlocked, x.Sel.Name)
							}
						}
					}
				case *ast.CallExpr:
					curPos = x.Pos()
					if sel, ok := x.Fun.(*ast.SelectorExpr); ok {
						if id, ok := sel.X.(*ast.Ident); ok && cvars[id.Name] && (methods[sel.Sel.Name] || !fields[sel.Sel.Name] && sel.Sel.Name != "mu") {
							if methods[sel.Sel.Name] || ast.IsExported(sel.Sel.Name) {
								addCall(sel.Sel.Name)
							}
						}
					}
					if id, ok := x.Fun.(*ast.Ident); ok && funcs[id.Name] {
						for _, a := range x.Args {
							if aid, ok := a.(*ast.Ident); ok && cvars[aid.Name] {
								addCall(id.Name)
							}
						}
					}
				}
				return true
			})
			if m.locks {
				m.pre = pending
			} else {
				m.calls = append(m.calls, pending...)
			}
			if m.locks && !hasDefer {
				die("%s: %s locks the mutex without a deferred Unlock", dir, m.name)
			}
			out = append(out, m)
		}
	}
	sort.Slice(out, func(i, j int) bool { return out[i].name < out[j].name })
	return out
}

func writeLocks(repo, out string) {
	var b strings.Builder
	b.WriteString("(* GENERATED by /verif/translator from the Go sources; do not edit. *)\n")
	b.WriteString("From Coq Require Import List.\nFrom Coq Require Import Strings.Byte Strings.String.\n")
	b.WriteString("From Minidyn Require Import Base.Str.\nImport ListNotations.\n\n")
	b.WriteString("Record minfo := { m_name : str; m_public : bool; m_locks : bool; m_unlocked : list str; m_locked : list str; m_pre : list str; m_calls : list str; m_loops : list str }.\n\n")
	strs := func(l []string) string {
		x := []string{}
		for _, s := range l {
			x = append(x, coqStr(s))
		}
		return "[" + strings.Join(x, "; ") + "]"
	}
	for _, v := range []string{"v1", "v2"} {
		ms := lockSummary(filepath.Join(repo, "aws-"+v, "client"))
		items := []string{}
		for _, m := range ms {
			items = append(items, fmt.Sprintf("{| m_name := %s; m_public := %v; m_locks := %v; m_unlocked := %s; m_locked := %s; m_pre := %s; m_calls := %s; m_loops := %s |}",
				coqStr(m.name), m.public, m.locks, strs(m.unlocked), strs(m.locked), strs(m.pre), strs(m.calls), strs(m.loops)))
		}
		fmt.Fprintf(&b, "Definition lock_table_%s : list minfo :=\n  [%s].\n\n", v, strings.Join(items, ";\n   "))
	}
	b.WriteString(nativeLockTable(repo))
	old, err := os.ReadFile(out)
	if err == nil && string(old) == b.String() {
		return
	}
	if err := os.WriteFile(out, []byte(b.String()), 0o644); err != nil {
		die("cannot write %s: %v", out, err)
	}
}
