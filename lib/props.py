"""Per-property configuration of the checks, and the audit of the Coq theorems (Print Assumptions)."""
import os, re, json
from . import runner

TRUSTED_BASE = [
    "Coq 8.16.1 kernel (coqc, full .vo build); vm_compute is used for reflection proofs and for the in-kernel evaluation of the model on observed scripts; native_compute is not used",
    "no Axiom/Parameter/Admitted in the development; every property theorem is checked with Print Assumptions (expected: Closed under the global context)",
    "the hand-written Gallina model of the Go code (coq/theories/Model, Base), tied to /repo on every run by the correspondence check: the model is evaluated inside Coq on the very scripts the real clients ran and the projected observations must be equal",
    "the translator (/verif/translator, go/ast) that regenerates coq/theories/Gen/Tables.v from the Go sources on every run",
    "the Go harness (/verif/harness, build tag verif), the Python generators/driver (they can fail to find or mis-report, not make a theorem true)",
    "modelled, not verified: Go runtime and standard library (sort, strings, strconv.ParseFloat/FormatFloat, fmt %v, reflect.DeepEqual, regexp, maps), the AWS SDK request types and SDK v1 Validate()",
]

ASSUMPTIONS = [
    "requests stay in the domain of fidelity of the model (DESIGN.md section 3): one type per attribute value, key attributes of type S/N/B, attribute names not starting with ':' or '#', alias values that are plain attribute names, decimal numerals, ASCII expression text for natively dispatched expressions",
    "the unchanged tree's known findings are listed in known_findings.json and replayed by their witness scripts",
]

MEAN = {
    'C01': 'GetItem/UpdateItem/DeleteItem results, full scans, item counts and the stored items after every step must be those of a key->item map',
    'C02': 'items, order and Count of unlimited Query/Scan calls',
    'C03': 'reads through every secondary index, per-index counts of DescribeTable and the index internals after every step',
    'C04': 'items, Count and LastEvaluatedKey of every page',
    'C05': 'outcome class of conditional writes, the item carried by the failure, state after every step',
    'C06': 'verdict or error class of Language.Match',
    'C07': 'item after Language.Update / UpdateItem',
    'C08': 'state after every failing data operation',
    'C09': 'token streams, parser error counts, result classes on malformed input',
    'C10': 'items returned by GetItem/Query/Scan/BatchGetItem after PutItem',
    'C12': 'text of every number after ParseFloat/FormatFloat',
    'C13': 'result classes and stored items for near-colliding and malformed keys',
    'C15': 'result class of every data call under each failure condition, unprocessed items, state',
    'C16': 'acceptance or rejection of each request',
    'C17': 'observations of the same script through the v1 and the v2 client',
    'C18': 'management results, table descriptions, state of every table of every client',
    'C19': 'state after batch writes, responses and unprocessed keys of batch reads',
    'C20': 'which registered callback ran and the outcome of the operation',
    'C11': 'lock discipline of every client method; race detector and linearizability of recorded histories',
    'C14': 'visibility of caller-side mutations of inputs and outputs',
}

from . import special as _sp

PROPS = {
    'C01': dict(streams=[('single-item', 200, 3000), ('failing', 60, 1000)]),
    'C02': dict(streams=[('query', 200, 3000), ('page', 40, 1000)]),
    'C03': dict(streams=[('index', 200, 3000), ('page', 40, 1000)]),
    'C04': dict(streams=[('page', 150, 2000)]),
    'C05': dict(streams=[('conditional', 200, 3000)]),
    'C06': dict(streams=[('expr', 5000, 150000), ('conditional', 60, 1500)]),
    'C07': dict(streams=[('update', 5000, 150000), ('single-item', 80, 2000)]),
    'C08': dict(streams=[('failing', 200, 3000)]),
    'C09': dict(streams=[('malformed', 2000, 150000), ('expr', 1200, 50000), ('update', 600, 30000), ('conditional', 60, 1500), ('lazy', 80, 1500), ('native', 80, 1500)]),
    'C10': dict(streams=[('values', 200, 3000)]),
    'C12': dict(streams=[('numbers', 3000, 200000), ('update', 1200, 50000), ('numkeys', 120, 2000), ('expr', 2500, 50000), ('keys', 60, 1500)]),
    'C13': dict(streams=[('keys', 200, 3000), ('page', 50, 1000)]),
    'C15': dict(streams=[('faults', 200, 3000)]),
    'C16': dict(streams=[('restrictions', 200, 3000)]),
    'C17': dict(streams=[('mixed', 60, 2000), ('batch', 100, 2000)], special=_sp.twin_clients),
    'C18': dict(streams=[('lifecycle', 120, 2000)]),
    'C19': dict(streams=[('batch', 200, 3000)]),
    'C20': dict(streams=[('native', 250, 3000)]),
    'C11': dict(streams=[], special=_sp.race_stress),
    'C14': dict(streams=[], special=_sp.poke_matrix),
}
for k, v in PROPS.items():
    v['meaning'] = MEAN[k]

ALLOWED_AXIOMS = set()      # none expected; standard-library axioms would be listed here by name


def theorem_names(pid):
    p = os.path.join(runner.COQ, 'theories', 'Properties', pid + '.v')
    if not os.path.exists(p):
        return []
    return re.findall(r'^\s*(?:Theorem|Corollary)\s+(\w+)', open(p).read(), re.M)


def audit(pid):
    """Print Assumptions for every theorem of Properties/<pid>.v; returns (names, {name: assumptions})"""
    names = theorem_names(pid)
    if not names or not os.path.exists(os.path.join(runner.COQ, 'theories', 'Properties', pid + '.vo')):
        return names, {}
    d = os.path.join(runner.BUILD, 'cases')
    os.makedirs(d, exist_ok=True)
    path = os.path.join(d, 'audit_%s_%d.v' % (pid, os.getpid()))
    with open(path, 'w') as f:
        f.write('From Minidyn Require Import Properties.%s.\n' % pid)
        for n in names:
            f.write('Goal True. idtac "@@%s". Abort.\nPrint Assumptions %s.\n' % (n, n))
    rc, log = runner.coqc_file(path)
    for ext in ('.v', '.vo', '.vok', '.vos', '.glob'):
        try:
            os.remove(path[:-2] + ext)
        except OSError:
            pass
    out = {}
    if rc:
        return names, out
    parts = log.split('@@')[1:]
    for part in parts:
        name, _, rest = part.partition('\n')
        rest = rest.strip()
        out[name.strip()] = 'Closed under the global context' if rest.startswith('Closed under the global context') else rest
    return names, out


def coqchk(pid):
    """thorough tier: re-check the compiled property file and everything it depends on with the independent checker
    coqchk and read the axioms it lists. The result is cached per state of the sources (all properties share the
    dependencies, and one coqchk run takes minutes)."""
    import hashlib, json, time
    h = hashlib.sha256()
    for root, _, files in sorted(os.walk(os.path.join(runner.COQ, 'theories'))):
        for fn in sorted(files):
            if fn.endswith('.v'):
                h.update(fn.encode()); h.update(open(os.path.join(root, fn), 'rb').read())
    cache = os.path.join(runner.BUILD, 'coqchk.%s.%s.json' % (pid, h.hexdigest()[:16]))
    if os.path.exists(cache):
        return json.load(open(cache))
    t0 = time.time()
    rc, log = runner.sh(['coqchk', '-silent', '-o', '-Q', 'theories', 'Minidyn', 'Minidyn.Properties.%s' % pid], cwd=runner.COQ, timeout=7200)
    m = re.search(r'\* Axioms:(.*?)\n\s*\n\* Constants/Inductives relying on type-in-type:(.*?)\n\s*\n\* Constants/Inductives relying on unsafe \(co\)fixpoints:(.*?)\n\s*\n\* Inductives whose positivity is assumed:(.*?)\n', log + '\n', re.S)
    res = dict(exit=rc, seconds=round(time.time() - t0, 1), raw=log[-1500:])
    if m:
        res.update(axioms=m.group(1).strip(), type_in_type=m.group(2).strip(), unsafe_fixpoints=m.group(3).strip(), assumed_positivity=m.group(4).strip())
    res['ok'] = (rc == 0 and bool(m) and all(res[k] == '<none>' for k in ('axioms', 'type_in_type', 'unsafe_fixpoints', 'assumed_positivity')))
    json.dump(res, open(cache, 'w'))
    return res


def forbidden_axioms(audit_result):
    bad = {}
    for t, a in audit_result.items():
        if a == 'Closed under the global context':
            continue
        names = re.findall(r'^\s*([\w.]+)\s*:', a, re.M)
        extra = [n for n in names if n not in ALLOWED_AXIOMS]
        if extra:
            bad[t] = extra
    return bad


def affected_by(pid, broken_files):
    """does a failing Coq file affect this property's theorems? (Properties/<pid>.v or anything it depends on)"""
    if not broken_files:
        return True
    dep = os.path.join(runner.COQ, '.Makefile.d')
    target = 'theories/Properties/%s.vo' % pid
    if any(b.endswith('Properties/%s.v' % pid) for b in broken_files):
        return True
    # transitive dependencies from coqdep's output
    deps = {}
    if os.path.exists(dep):
        for line in open(dep).read().replace('\\\n', ' ').split('\n'):
            if ':' not in line:
                continue
            lhs, rhs = line.split(':', 1)
            for t in lhs.split():
                if t.endswith('.vo'):
                    deps.setdefault(t, set()).update(x for x in rhs.split() if x.endswith('.vo') or x.endswith('.v'))
    seen, todo = set(), [target]
    while todo:
        t = todo.pop()
        if t in seen:
            continue
        seen.add(t)
        todo += list(deps.get(t, []))
    srcs = set(x[:-1] if x.endswith('.vo') else x for x in seen)
    return any(b in srcs for b in broken_files)
