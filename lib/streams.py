"""Per-property streams: what is generated, which steps and components are compared, what counts as non-trivial."""
import json, os
from . import gen
from .coqterm import FULL_VIEW, NO_VIEW

S, N = gen.S, gen.N

DATA_OPS = {'put', 'get', 'update', 'delete', 'query', 'scan', 'batch_write', 'batch_get', 'transact'}


def V(**kw):
    v = dict(NO_VIEW)
    v.update(kw)
    return v


class Stream:
    """name, kind ('script' or 'unit'), sdks, gen(seed, n) -> list of scripts / unit ops, viewf, nontrivial"""
    def __init__(self, name, kind, make, viewf=None, sdks=('v2', 'v1'), nontrivial=None, rule=''):
        self.name, self.kind, self.make, self.viewf, self.sdks = name, kind, make, viewf, sdks
        self.nontrivial, self.rule = nontrivial or (lambda ops, obs: True), rule


def scripts_from(fn, prefix):
    def make(seed, n):
        out = []
        for i in range(n):
            g = gen.ExprGen(seed * 1000003 + i)
            out.append({"id": "%s%d" % (prefix, i), "ops": fn(g)})
        return out
    return make


# ---------------- C01: single-item operations ----------------
def single_item_script(g):
    r = g.r
    name = "tbl"
    t, ops = g.create_ops("c", name)
    n = r.randrange(12, 40)
    # a handful of keys that the script keeps coming back to (overwrite, delete then re-put, update of an existing
    # item, shrinking attribute sets), plus the occasional key from the whole key space
    pool = [g.key_of(t["schema"]) for _ in range(r.randrange(2, 5))]
    kattr = [a for a, ty in [t["schema"]["hash"]] + ([t["schema"]["range"]] if t["schema"]["range"] else []) if ty != "S"]
    retype_at = r.randrange(6, 20) if kattr and r.random() < 0.4 else -1
    def pick(exact=True):
        return dict(r.choice(pool)) if r.random() < 0.8 else g.key_of(t["schema"], exact=exact)
    while len(ops) < n:
        k = r.random()
        base = dict(client="c", table=name)
        if len(ops) == retype_at:
            # an attempt to re-type a key attribute of the table through the AddIndex helper (it declares strings): refused
            ops.append(dict(op="add_index", client="c", table=name, index="byk", hash="g", range=r.choice(kattr)))
        if k < 0.35:
            it = g.item_of(t)
            if r.random() < 0.8: it.update(pick())
            ops.append(dict(op="put", item=it, return_old=r.random() < 0.4, **base))
        elif k < 0.55:
            e, nm, vs = g.update_expr()
            key = pick()
            if nm and r.random() < 0.3:
                # an attribute literally named like the placeholder the update uses: an ordinary attribute, left alone
                ops.append(dict(op="put", item={**g.item_of(t), **key, sorted(nm)[0]: S("keep")}, **base))
            if r.random() < 0.08:
                key = dict(key); key["zz"] = S("extra")     # not a key attribute: not part of an item the update creates
            ops.append(dict(op="update", key=key, expr=e, names=nm, values=vs, **base))
        elif k < 0.7:
            ops.append(dict(op="delete", key=pick(), return_old=r.random() < 0.7, **base))
            r2 = gen.side_rng(ops[-1])
            if r2.random() < 0.2:
                # a ReturnValues that asks for nothing DeleteItem / PutItem can give: the write happens, nothing is returned
                ops[-1].pop("return_old"); ops[-1]["rv"] = r2.choice(["NONE", "ALL_NEW", "UPDATED_OLD", "UPDATED_NEW"])
        else: ops.append(dict(op="get", key=pick(exact=r.random() < 0.95), **base))
        if r.random() < 0.35:
            ops.append(dict(op="scan", **base))
            ops.append(dict(op="describe_table", **base))
    return ops


def view_all_but_fired(i, op):
    return V(res=True, pay=True, state=True, inv=True)


def nt_single(ops, obs):
    keys, overwrite, delete_reput, upsert = set(), False, False, False
    deleted = set()
    for o, ob in zip(ops, obs):
        if ob['r'] != 'ok': continue
        if o['op'] == 'put':
            k = json.dumps({a: v for a, v in o['item'].items() if a in ('h', 'r')}, sort_keys=True)
            if k in keys: overwrite = True
            if k in deleted: delete_reput = True
            keys.add(k)
        if o['op'] == 'update':
            k = json.dumps(o['key'], sort_keys=True)
            if k not in keys: upsert = True
            keys.add(k)
        if o['op'] == 'delete':
            deleted.add(json.dumps(o['key'], sort_keys=True))
    return len(keys) >= 2 and overwrite and (delete_reput or upsert)


# ---------------- C02/C03/C04: reads over populated tables ----------------
def populate(g, t, client="c", nmin=3, nmax=9):
    r = g.r
    ops = []
    for _ in range(r.randrange(nmin, nmax)):
        if r.random() < 0.25:
            # items created by UpdateItem (upsert) rather than PutItem
            ops.append(dict(op="update", client=client, table=t["name"], key=g.key_of(t["schema"]), expr="SET s = :v",
                            names={}, values={":v": S(r.choice(["x", "hello"]))}))
        else:
            ops.append(dict(op="put", client=client, table=t["name"], item=g.item_of(t)))
    return ops


def read_op(g, t, client="c", paged=False):
    r = g.r
    index = r.choice(t["indexes"]) if t["indexes"] and r.random() < 0.55 else None
    scan = r.random() < 0.4
    op = dict(op="scan" if scan else "query", client=client, table=t["name"], names={}, values={})
    if index: op["index"] = index["name"]
    if not scan:
        kc, vs = g.keycond(t, index)
        op["keycond"] = kc; op["values"].update(vs)
        if r.random() < 0.5: op["forward"] = r.random() < 0.5
    if r.random() < 0.4:
        for _ in range(5):
            e, nm, vs = g.cond()
            if not (set(vs) & set(op["values"])) and e.strip() and "missing" not in e and "unused" not in vs.get(":unused", {"S": ""}).get("S", ""):
                op["filter"] = e; op["names"].update(nm); op["values"].update(vs)
                break
    if paged: op["limit"] = r.randrange(1, 5)
    if r.random() < 0.2:
        pj = g.projection()
        if pj.get('projection'): op['projection'] = pj['projection']
        op['names'].update(pj.get('names') or {})
    return op


def interleaved_partitions(g):
    """partitions whose names extend one another ("a", "a.b", "ab"): their items interleave in the sorted key list"""
    r = g.r
    ops = [dict(op="create_table", client="c", table="tbl", hash=dict(name="h", type="S"), range=dict(name="r", type="S"),
                billing="PAY_PER_REQUEST", throughput=True, attrs=[dict(name="g", type="S")],
                gsi=[dict(name="gix", hash=dict(name="g"), throughput=True)])]
    t = dict(name="tbl", schema=gen.SCHEMAS[1], indexes=[dict(name="gix", hash="g", range=None)])
    for h in ["a", "a.b", "ab", "a"]:
        for rk in r.sample(["1", "b", "b.1", "c", "z", "10", "b!"], r.randrange(2, 6)):
            it = {"h": S(h), "r": S(rk)}
            if r.random() < 0.6: it["g"] = S(r.choice(gen.IDXVALS))
            ops.append(dict(op="put", client="c", table="tbl", item=it))
    for h in ["a", "a.b", "ab"]:
        for fw in (True, False):
            ops.append(dict(op="query", client="c", table="tbl", keycond="h = :h", names={}, values={":h": S(h)}, forward=fw))
    return t, ops


def binary_sort_keys(g):
    """a binary sort key: the order is the order of the byte sequences ([9] < [10] < [200], [1] < [1 0])"""
    r = g.r
    ops = [dict(op="create_table", client="c", table="tbl", hash=dict(name="h", type="S"), range=dict(name="r", type="B"),
                billing="PAY_PER_REQUEST", throughput=True)]
    for b_ in r.sample(["\x09", "\x0a", "\xc8", "\x01", "\x01\x00", "\x64", "\x02", "\xff", ""], r.randrange(4, 9)):
        ops.append(dict(op="put", client="c", table="tbl", item={"h": S("p"), "r": {"B": b_}}))
    for fw in (True, False):
        ops.append(dict(op="query", client="c", table="tbl", keycond="h = :h", names={}, values={":h": S("p")}, forward=fw))
    ops.append(dict(op="query", client="c", table="tbl", keycond="h = :h AND r > :r", names={}, values={":h": S("p"), ":r": {"B": "\x09"}}))
    # prefixes of binary keys: the operand also occurs at later offsets of other keys ([2] in [1 2], [3 2 128], [128 2])
    for b_ in r.sample(["\x01\x02", "\x02\x01", "\x02\x03", "\x03\x02\x80", "\x80\x02", "\x02"], r.randrange(3, 7)):
        ops.append(dict(op="put", client="c", table="tbl", item={"h": S("q"), "r": {"B": b_}, "c": {"B": b_}}))
    for pre in r.sample(["\x02", "\x01", "\x80", "\x02\x01", "\x03\x02"], 2):
        ops.append(dict(op="query", client="c", table="tbl", keycond="h = :h AND begins_with(r, :p)", names={}, values={":h": S("q"), ":p": {"B": pre}}))
        ops.append(dict(op="scan", client="c", table="tbl", filter="begins_with(c, :p)", names={}, values={":p": {"B": pre}}))
    return dict(name="tbl", schema=dict(hash=("h", "S"), range=("r", "B")), indexes=[]), ops


def query_script(g):
    r = g.r
    k0 = r.random()
    if k0 < 0.1:
        return binary_sort_keys(g)[1]
    if r.random() < 0.25:
        t, ops = interleaved_partitions(g)
    elif k0 < 0.25:
        # the index arrives when the table already holds items whose index-key order differs from their primary-key order;
        # it is read at once, before any write re-sorts it
        t, ops = g.create_ops("c", "tbl", style="helper")
        ops = ops[:1]; t["indexes"] = []
        ops += populate(g, t, nmin=3, nmax=8)
        ops.append(dict(op="add_index", client="c", table="tbl", index="gix", hash="g", range=r.choice(["", "f"])))
        t["indexes"].append(dict(name="gix", hash="g", range=ops[-1]["range"] or None))
        for fw in (True, False):
            ops.append(dict(op="query", client="c", table="tbl", index="gix", keycond="g = :h", names={}, values={":h": S(r.choice(gen.IDXVALS))}, forward=fw))
        ops.append(dict(op="scan", client="c", table="tbl", index="gix"))
    else:
        t, ops = g.create_ops("c", "tbl")
        ops += populate(g, t)
    for _ in range(r.randrange(4, 10)):
        if r.random() < 0.25:
            ops += g.data_op("c", [t], len(ops))[:1]
        rd = read_op(g, t)
        if rd.get("values") and r.random() < 0.2:
            ops += shadow_items(g, t, rd)
        ops.append(rd)
    kattrs = [t["schema"]["hash"][0]] + ([t["schema"]["range"][0]] if t["schema"]["range"] else [])
    own = [ix for ix in t["indexes"] if ix["hash"] in kattrs]
    if own:
        # an index keyed on the table's own key attributes: an item created by UpdateItem is in it from its first moment
        k_ = g.key_of(t["schema"])
        ops.append(dict(op="update", client="c", table=t["name"], key=k_, expr="SET s = :v", names={}, values={":v": S("upserted")}))
        for ix in own:
            ops.append(dict(op="scan", client="c", table=t["name"], index=ix["name"]))
    return ops


def shadow_items(g, t, op):
    """items that own an attribute literally named like a value placeholder of the request, holding ANOTHER value of the
    same type: the placeholder means what the request says, whatever an item stores under that name"""
    r = g.r
    out = []
    for _ in range(r.randrange(1, 3)):
        it = g.item_of(t)
        for ph, v in op["values"].items():
            if r.random() < 0.7:
                if "S" in v: it[ph] = S(r.choice([x for x in gen.IDXVALS + gen.HASHES + gen.RANGES if x != v["S"]]))
                elif "N" in v: it[ph] = N(r.choice([x for x in ["0", "5", "11", "1000"] if x != v["N"]]))
        # the item should be among those the request looks at: same partition / same index key when that is a placeholder
        for ph, v in op["values"].items():
            for attr in ("h", "g"):
                if ("%s = %s" % (attr, ph)) in (op.get("keycond") or ""): it[attr] = v
        out.append(dict(op="put", client=op["client"], table=op["table"], item=it))
    return out


def view_reads(i, op):
    if op['op'] in ('query', 'scan'):
        return V(res=True, pay=True)
    return V(inv=True)


def nt_reads(ops, obs):
    total = 0
    for o, ob in zip(ops, obs):
        if o['op'] in ('query', 'scan') and ob['r'] == 'ok' and len(ob['items']) >= 2:
            return True
    return False


def retype_script(g):
    """an index whose key attribute is declared N; a later index creation / UpdateTable tries to re-declare it as S"""
    r = g.r
    ops = [dict(op="create_table", client="c", table="tbl", hash=dict(name="h", type="S"), billing="PAY_PER_REQUEST", throughput=True,
                attrs=[dict(name="n", type="N")], gsi=[dict(name="nix", hash=dict(name="n"), throughput=True)])]
    base = dict(client="c", table="tbl")
    for i in range(r.randrange(1, 4)):
        ops.append(dict(op="put", item={"h": S("k%d" % i), "n": N(str(i)), "g": S("x")}, **base))
    if r.random() < 0.5:
        ops.append(dict(op="add_index", index="gix", hash=r.choice(["g", "n"]), range=r.choice(["", "n", "h"]), **base))
    else:
        ops.append(dict(op="update_table", attrs=[dict(name=r.choice(["n", "h", "g"]), type=r.choice(["S", "N", "B"]))],
                        create=dict(name="gix", hash=dict(name="g"), throughput=True) if r.random() < 0.5 else None, **base))
        if ops[-1]["create"] is None: del ops[-1]["create"]
    ops.append(dict(op="describe_table", **base))
    ops.append(dict(op="put", item={"h": S("k9"), "n": N("9"), "g": S("y")}, **base))
    ops.append(dict(op="get", key={"h": S("k0")}, **base))
    for ixn in ("nix", "gix"): ops.append(dict(op="scan", index=ixn, **base))
    return ops


def index_script(g):
    r = g.r
    if r.random() < 0.12:
        return retype_script(g)
    style = r.choice(["create", "helper", "late", "tablekeys"])
    if style == "tablekeys":
        # indexes keyed on the table's own key attributes (an inverted index, hash-only indexes on h and on r): an item
        # created by UpdateItem has its index keys from the very first moment, nothing "changes" when it is written
        ops = [dict(op="create_table", client="c", table="tbl", hash=dict(name="h", type="S"), range=dict(name="r", type="S"),
                    billing="PAY_PER_REQUEST", throughput=True, attrs=[dict(name="g", type="S")],
                    gsi=[dict(name="inv", hash=dict(name="r"), range=dict(name="h"), throughput=True),
                         dict(name="hix", hash=dict(name="h"), throughput=True), dict(name="rix", hash=dict(name="r"), throughput=True)]
                        + ([dict(name="gix", hash=dict(name="g"), throughput=True)] if r.random() < 0.5 else []))]
        t = dict(name="tbl", schema=gen.SCHEMAS[1], indexes=[dict(name="inv", hash="r", range="h"), dict(name="hix", hash="h", range=None),
                                                              dict(name="rix", hash="r", range=None)])
        ops += populate(g, t, nmin=1, nmax=4)
    elif style == "late":
        # the index is created after the data exists
        t, ops = g.create_ops("c", "tbl", style="helper")
        ops = ops[:1]; t["indexes"] = []
        ops += populate(g, t, nmin=2, nmax=6)
        ops.append(dict(op="add_index", client="c", table="tbl", index="gix", hash="g", range=r.choice(["", "f"])))
        t["indexes"].append(dict(name="gix", hash="g", range=ops[-1]["range"] or None))
    else:
        t, ops = g.create_ops("c", "tbl", style=style)
        ops += populate(g, t, nmin=2, nmax=6)
    base = dict(client="c", table="tbl")
    for _ in range(r.randrange(6, 16)):
        k = r.random()
        if k < 0.3: ops.append(dict(op="put", item=g.item_of(t), **base))
        elif k < 0.6:
            v = r.choice(gen.IDXVALS)
            e, vs = r.choice([("SET g = :v", {":v": S(v)}), ("REMOVE g", {}), ("SET f = :v", {":v": S(v)}), ("REMOVE f", {}),
                              ("SET g = :v, f = :w", {":v": S(v), ":w": S(r.choice(gen.IDXVALS))}), ("SET g = :n", {":n": N("1")})])
            ops.append(dict(op="update", key=g.key_of(t["schema"]), expr=e, names={}, values=vs, **base))
        elif k < 0.75: ops.append(dict(op="delete", key=g.key_of(t["schema"]), **base))
        elif k < 0.8: ops.append(dict(op="clear_table", **base))
        elif k < 0.85 and t["indexes"]:
            ix = r.choice(t["indexes"])
            ops.append(dict(op="update_table", delete=ix["name"], **base)); t["indexes"].remove(ix)
        for ix in t["indexes"]:
            if r.random() < 0.6: ops.append(dict(op="scan", index=ix["name"], **base))
        if r.random() < 0.5: ops.append(dict(op="describe_table", **base))
    return ops


def view_index(i, op):
    if op['op'] in ('query', 'scan', 'describe_table'):
        return V(res=True, pay=True, state=True, inv=True)
    return V(res=True, state=True, inv=True)


def nt_index(ops, obs):
    shared = False
    for ob in obs:
        st = ob.get('state') or {}
        for t in st.values():
            for ix in t['indexes'].values():
                vals = list(ix['refs'].values())
                if len(vals) != len(set(vals)): shared = True
    changed = any(o['op'] == 'update' and ob['r'] == 'ok' and ('g' in o['expr'] or 'f' in o['expr']) for o, ob in zip(ops, obs))
    return shared and changed


def equal_index_keys(g):
    """a run of entries sharing one index key (ties are ordered by primary key), walked in both directions"""
    r = g.r
    rng = r.random() < 0.5
    ops = [dict(op="create_table", client="c", table="tbl", hash=dict(name="h", type="S"),
                **(dict(range=dict(name="r", type="S")) if rng else {}),
                billing="PAY_PER_REQUEST", throughput=True, attrs=[dict(name="g", type="S")],
                gsi=[dict(name="gix", hash=dict(name="g"), throughput=True)])]
    t = dict(name="tbl", schema=gen.SCHEMAS[1] if rng else gen.SCHEMAS[0], indexes=[dict(name="gix", hash="g", range=None)])
    keys = r.sample(["a", "b", "c", "ab", "a.b", "k1", "k2", "z"], r.randrange(4, 8))
    for k in keys:
        it = {"h": S(k), "g": S("x" if r.random() < 0.75 else r.choice(["w", "y"]))}
        if rng: it["r"] = S(r.choice(["1", "2"]))
        ops.append(dict(op="put", client="c", table="tbl", item=it))
    return t, ops


def boundary_walk(g):
    """a paginated read in which the item every page ended on is deleted before the next page is asked for: the first page
    boundary of a backward read is the greatest key of the partition (here also of the whole table), of a forward read the
    smallest; what remains is still returned completely"""
    r = g.r
    if r.random() < 0.25:
        # a hash-only table that holds the empty string as a key: it is the first entry, and it names a position like any other
        base = dict(client="c", table="tbl")
        ops = [dict(op="add_table", client="c", table="tbl", hash="h", range="")]
        for k in [""] + r.sample(["a", "b", "c", "d"], r.randrange(2, 5)):
            ops.append(dict(op="put", item={"h": S(k), "g": S("x")}, **base))
        rd = dict(op="scan", limit=r.choice([1, 1, 2]), **base)
        ops.append(rd)
        for _ in range(5):
            if r.random() < 0.75: ops.append(dict(op="delete", key={"$lek": len(ops) - 1, "attrs": ["h"]}, **base))
            nxt = json.loads(json.dumps(rd)); nxt["esk"] = {"$lek": len(ops) - 1 if ops[-1]["op"] != "delete" else len(ops) - 2}
            ops.append(nxt)
        ops.append(dict(op="scan", **base))
        return ops
    ops = [dict(op="add_table", client="c", table="tbl", hash="h", range="r")]
    base = dict(client="c", table="tbl")
    part = r.choice(["p", "z", "z", "z", "a"])          # "z": the partition with the greatest key strings of the table
    for k in r.sample(["1", "2", "3", "4", "5"], r.randrange(3, 6)):
        ops.append(dict(op="put", item={"h": S(part), "r": S(k), "g": S("x")}, **base))
    for h in r.sample(["a", "m", "b"], r.randrange(0, 3)):
        ops.append(dict(op="put", item={"h": S(h), "r": S("1")}, **base))
    fwd = r.random() < 0.35
    rd = dict(op="query", keycond="h = :h", names={}, values={":h": S(part)}, forward=fwd, limit=r.choice([1, 1, 2]), **base)
    if r.random() < 0.25: rd = dict(op="scan", limit=r.choice([1, 2]), **base)
    ops.append(rd)
    for _ in range(6):
        if r.random() < 0.75: ops.append(dict(op="delete", key={"$lek": len(ops) - 1, "attrs": ["h", "r"]}, **base))
        nxt = json.loads(json.dumps(rd)); nxt["esk"] = {"$lek": len(ops) - 1 if ops[-1]["op"] != "delete" else len(ops) - 2}
        ops.append(nxt)
    full = json.loads(json.dumps(rd)); full.pop("limit")
    ops.append(full)
    return ops


def moving_index_key(g):
    """an UpdateItem moves an item inside a secondary index (its index key attribute changes: a string, a number or a binary),
    then the index is read page by page in both directions and in one piece"""
    r = g.r
    ty = r.choice(["B", "B", "S", "N"])
    val = {"B": lambda s: {"B": s}, "S": S, "N": lambda s: N(str(ord(s[0])))}[ty]
    base = dict(client="c", table="tbl")
    ops = [dict(op="create_table", client="c", table="tbl", hash=dict(name="h", type="S"), billing="PAY_PER_REQUEST", throughput=True,
                attrs=[dict(name="p", type="S"), dict(name="g", type=ty)],
                gsi=[dict(name="gix", hash=dict(name="p"), range=dict(name="g"), throughput=True)])]
    keys = r.sample(["a", "c", "e", "g", "i"], r.randrange(3, 6))
    for i, k in enumerate(keys):
        ops.append(dict(op="put", item={"h": S("k%d" % i), "p": S("P"), "g": val(k)}, **base))
    for _ in range(r.randrange(1, 3)):
        i = r.randrange(len(keys))
        ops.append(dict(op="update", key={"h": S("k%d" % i)}, expr="SET g = :g", names={}, values={":g": val(r.choice(["b", "d", "f", "h", "j", "\x01"]))}, **base))
    for fwd in r.sample([True, False], 2)[:r.randrange(1, 3)]:
        rd = dict(op="query", index="gix", keycond="p = :p", names={}, values={":p": S("P")}, forward=fwd, limit=r.choice([1, 2, 3]), **base)
        ops.append(rd)
        for _ in range(6):
            nxt = json.loads(json.dumps(rd)); nxt["esk"] = {"$lek": len(ops) - 1}
            ops.append(nxt)
        full = json.loads(json.dumps(rd)); full.pop("limit"); ops.append(full)
    ops.append(dict(op="scan", index="gix", **base))
    return ops


def page_script(g):
    r = g.r
    if r.random() < 0.1:
        return moving_index_key(g)
    if r.random() < 0.2:
        return boundary_walk(g)
    tie = r.random() < 0.3
    if tie:
        t, ops = equal_index_keys(g)
    else:
        t, ops = g.create_ops("c", "tbl")
        ops += populate(g, t, nmin=3, nmax=10)
        kattr = [a for a, ty in [t["schema"]["hash"]] + ([t["schema"]["range"]] if t["schema"]["range"] else []) if ty != "S"]
        if kattr and r.random() < 0.3:
            # an attempt to re-type a key attribute of the table (the AddIndex helper declares strings): refused, and the
            # LastEvaluatedKeys of the table keep being accepted as start keys
            ops.append(dict(op="add_index", client="c", table="tbl", index="byk", hash="g", range=kattr[0]))
        r2 = gen.side_rng(ops)
        if t["indexes"] and r2.random() < 0.35:
            # refused updates that would give an index key attribute the wrong type: the items stay where they were in
            # the index, and the keys the pages end on keep being accepted
            ia = r2.choice(t["indexes"])["hash"]
            stored = [o["item"] for o in ops if o["op"] == "put"] or [g2 for g2 in []]
            kattrs0 = [t["schema"]["hash"][0]] + ([t["schema"]["range"][0]] if t["schema"]["range"] else [])
            for _ in range(r2.randrange(1, 4)):
                if not stored: break
                it0 = r2.choice(stored)
                ops.append(dict(op="update", client="c", table="tbl", key={a: it0[a] for a in kattrs0 if a in it0}, expr="SET %s = :n" % ia,
                                names={}, values={":n": N("5")}))
    base = dict(client="c", table="tbl")
    for _ in range(r.randrange(2, 5)):
        op = read_op(g, t, paged=True)
        if tie:
            op = dict(op="query", client="c", table="tbl", index="gix", keycond="g = :g", names={}, values={":g": S("x")},
                      forward=r.random() < 0.5, limit=r.randrange(1, 4))
            if r.random() < 0.3:
                op = dict(op="scan", client="c", table="tbl", index="gix", names={}, values={}, limit=r.randrange(1, 4))
        full = json.loads(json.dumps(op)); full.pop("limit")
        ops.append(full)
        ops.append(op)
        kattrs = [t["schema"]["hash"][0]] + ([t["schema"]["range"][0]] if t["schema"]["range"] else [])
        for _ in range(12):
            q = r.random()
            if q < 0.15:
                # the very item the page ended on is deleted before the next page is asked for (also the first or the
                # greatest key of the table, also read backward)
                ops.append(dict(op="delete", key={"$lek": len(ops) - 1, "attrs": kattrs}, **base))
                nxt = json.loads(json.dumps(op)); nxt["esk"] = {"$lek": len(ops) - 2}
            elif q < 0.3:
                ops.append(dict(op="delete", key=g.key_of(t["schema"]), **base))
                nxt = json.loads(json.dumps(op)); nxt["esk"] = {"$lek": len(ops) - 2}
            else:
                nxt = json.loads(json.dumps(op)); nxt["esk"] = {"$lek": len(ops) - 1}
            ops.append(nxt)
        if r.random() < 0.35:
            # a start key written by hand: positioned at a stored item, at an absent one, or malformed (a key attribute of
            # the table or of the index missing or of the wrong type): the malformed ones are rejected, not dropped
            hand = json.loads(json.dumps(op))
            esk = g.key_of(t["schema"], exact=r.random() < 0.5)
            q = r.random()
            if q < 0.25 and t["schema"]["range"]: esk.pop(t["schema"]["range"][0], None)
            elif q < 0.4: esk[t["schema"]["hash"][0]] = {"BOOL": True}
            ix = [i for i in t["indexes"] if i["name"] == op.get("index")]
            if ix:
                esk[ix[0]["hash"]] = S(r.choice(gen.IDXVALS)) if r.random() < 0.75 else N("1")
                if ix[0]["range"] and r.random() < 0.8: esk[ix[0]["range"]] = S(r.choice(gen.IDXVALS)) if r.random() < 0.8 else {"BOOL": True}
            hand["esk"] = esk
            ops.append(hand)
    return ops


def nt_pages(ops, obs):
    pages = sum(1 for o, ob in zip(ops, obs) if o['op'] in ('query', 'scan') and 'limit' in o and ob['r'] == 'ok' and ob.get('lek'))
    return pages >= 2


# ---------------- C05: conditional writes ----------------
def conditional_script(g):
    r = g.r
    t, ops = g.create_ops("c", "tbl")
    ops += populate(g, t, nmin=0, nmax=5)
    base = dict(client="c", table="tbl")
    for _ in range(r.randrange(6, 14)):
        e, nm, vs = g.cond()
        k = r.random()
        if k < 0.35: op = dict(op="put", item=g.item_of(t), cond=e, names=nm, values=vs, **base)
        elif k < 0.7:
            ue, un, uv = g.update_expr()
            if set(uv) & set(vs): continue
            op = dict(op="update", key=g.key_of(t["schema"]), expr=ue, cond=e, names={**un, **nm}, values={**uv, **vs}, **base)
            if r.random() < 0.6: op["rvoccf"] = "ALL_OLD"
        else: op = dict(op="delete", key=g.key_of(t["schema"]), cond=e, names=nm, values=vs, return_old=r.random() < 0.5, **base)
        if r.random() < 0.12:
            # a condition that compares a stored document with one that contains it / is contained in it / equals it:
            # the target is an item written a moment ago, so the comparison is about THAT item
            doc = {"M": {"x": g.scalar(), "k": S("1")}}
            key = g.key_of(t["schema"])
            ops.append(dict(op="put", item={**key, "m": doc, "g": S("x")}, **base))
            rel = r.choice([{"M": dict(doc["M"], zz=S("extra"))}, {"M": {"x": doc["M"]["x"]}}, {"M": dict(doc["M"])}, {"M": {}}])
            ce = r.choice(["m = :m", "m <> :m", "m IN (:o, :m)", "NOT m = :m", "contains(l, :m) OR m = :m"])
            cv = {":m": rel}
            if ":o" in ce: cv[":o"] = S("no")
            kind = r.random()
            if kind < 0.4: op = dict(op="update", key=key, expr="SET touched = :t", cond=ce, names={}, values={**cv, ":t": S("y")}, **base)
            elif kind < 0.7: op = dict(op="delete", key=key, cond=ce, names={}, values=cv, return_old=True, **base)
            else: op = dict(op="put", item={**key, "g": S("replaced")}, cond=ce, names={}, values=cv, **base)
        if op.get("values") and r.random() < 0.15:
            # the target item owns an attribute named like a value placeholder of the condition, with another value
            tgt = dict(op.get("item") or op.get("key"))
            sh = shadow_items(g, t, op)[0]
            sh["item"].update({k: v for k, v in tgt.items() if k in ("h", "r")})
            ops.append(sh)
        ops.append(op)
        if r.random() < 0.3: ops.append(dict(op="scan", **base))
    return ops


def view_writes(i, op):
    return V(res=True, pay=True, state=True, inv=True)


def nt_conditional(ops, obs):
    rs = set(ob['r'] for o, ob in zip(ops, obs) if o.get('cond') is not None)
    return 'ok' in rs and 'CondFailed' in rs


# ---------------- C08: failing requests ----------------
def failing_script(g):
    r = g.r
    if r.random() < 0.12:
        # native updaters are arbitrary code working in place on the item they are handed (also inside nested maps, also
        # empty ones): when the request is then rejected (the index key got the wrong type), nothing of it may be seen
        base = dict(client="c", table="tbl")
        ops = [dict(op="activate_native", client="c"),
               dict(op="create_table", client="c", table="tbl", hash=dict(name="h", type="S"), billing="PAY_PER_REQUEST", throughput=True,
                    attrs=[dict(name="g", type="S")], gsi=[dict(name="gix", hash=dict(name="g"), throughput=True)]),
               dict(op="add_updater", client="c", table="tbl", expr="SET g = :n", id=1, set={"g": N("7"), "@poke": S("1")}),
               dict(op="add_updater", client="c", table="tbl", expr="SET v = :v", id=2, set={"v": S("ok"), "@poke": S("1")}),
               dict(op="add_updater", client="c", table="tbl", expr="SET g = :s", id=3, set={"g": S("z"), "w": {"M": {}}}),
               dict(op="add_updater", client="c", table="tbl", expr="SET g = :m", id=4, set={"g": N("8"), "@pokes": S("1")}),
               dict(op="add_updater", client="c", table="tbl", expr="SET y = :y", id=5, set={"y": S("ok"), "@pokes": S("1")})]
        for h in ["a", "b", "c"]:
            ops.append(dict(op="put", item={"h": S(h), "g": S("x"), "m": {"M": r.choice([{}, {"x": S("1")}, {"y": {"M": {}}}])},
                                             "e": {"M": {}}, "l": {"L": [{"M": {}}]}, "x": r.choice([S("v"), N("5"), S("")])}, **base))
        for _ in range(r.randrange(3, 8)):
            h = r.choice(["a", "b", "c", "d"])
            e, vs = r.choice([("SET g = :n", {":n": N("7")}), ("SET v = :v", {":v": S("ok")}), ("SET g = :s", {":s": S("z")}),
                              ("SET g = :m", {":m": N("8")}), ("SET y = :y", {":y": S("ok")})])
            ops.append(dict(op="update", key={"h": S(h)}, expr=e, names={}, values=vs, **base))
            ops.append(dict(op="get", key={"h": S(h)}, **base))
        ops.append(dict(op="scan", **base))
        ops.append(dict(op="scan", index="gix", **base))
        return ops
    if r.random() < 0.2:
        # an index added after the data: items whose index key attribute has another type than the index declares stay
        # out of it (backfill skips them); a later update that repairs or breaks such an item is all-or-nothing too
        base = dict(client="c", table="tbl")
        ops = [dict(op="create_table", client="c", table="tbl", hash=dict(name="h", type="S"), billing="PAY_PER_REQUEST", throughput=True)]
        for h in r.sample(["a", "b", "c", "d"], r.randrange(2, 5)):
            ops.append(dict(op="put", item={"h": S(h), "g": r.choice([N("7"), S("x"), S("y"), {"BOOL": True}]), "f": r.choice([S("p"), N("1")])}, **base))
        ops.append(dict(op="update_table", attrs=[dict(name="g", type="S")], create=dict(name="gix", hash=dict(name="g"), throughput=True), **base))
        if r.random() < 0.5:
            ops.append(dict(op="update_table", attrs=[dict(name="f", type="S")], create=dict(name="fix", hash=dict(name="f"), throughput=True), **base))
        for _ in range(r.randrange(3, 8)):
            h = r.choice(["a", "b", "c", "d"])
            e, vs = r.choice([("SET g = :s", {":s": S("z")}), ("SET g = :n", {":n": N("8")}), ("REMOVE g", {}), ("SET f = :s", {":s": S("q")}),
                              ("SET g = :s, f = :n", {":s": S("z"), ":n": N("2")}), ("SET f = :n", {":n": N("3")}), ("SET v = :s", {":s": S("w")})])
            q = r.random()
            if q < 0.2:
                ops.append(dict(op="delete", key={"h": S(h)}, return_old=r.random() < 0.5, **base))
                if r.random() < 0.3: ops[-1].pop("return_old"); ops[-1]["rv"] = r.choice(["ALL_NEW", "UPDATED_OLD", "UPDATED_NEW", "NONE"])
            elif q < 0.3: ops.append(dict(op="batch_write", client="c", requests={"tbl": [dict(put={"h": S("n%d" % len(ops)), "g": S("q")}), dict(delete={"h": S(h)})]}))
            else: ops.append(dict(op="update", key={"h": S(h)}, expr=e, names={}, values=vs, **base))
            ops.append(dict(op="get", key={"h": S(h)}, **base))
            if r.random() < 0.5: ops.append(dict(op="scan", index="gix", **base))
        ops.append(dict(op="scan", **base))
        return ops
    t, ops = g.create_ops("c", "tbl")
    ops += [dict(op="add_table", client="c", table="tb2", hash="h", range=""), dict(op="add_table", client="c", table="tb3", hash="h", range="")]
    ops += populate(g, t, nmin=1, nmax=5)
    base = dict(client="c", table="tbl")
    for _ in range(r.randrange(6, 14)):
        ops += g.data_op("c", [t], len(ops))
        if r.random() < 0.3:
            # a write whose index key has the wrong type, after the base key is fine
            it = g.item_of(t); it["g"] = N("7")
            ops.append(dict(op="put", item=it, **base))
        if r.random() < 0.2:
            ops.append(dict(op="update", key=g.key_of(t["schema"]), expr="SET g = :n", names={}, values={":n": N("7")}, **base))
        if r.random() < 0.25:
            # a read that aborts while it evaluates an item (a type mismatch is an error raised as a panic), forward or
            # backward, on the table or an index: the next reads see the table as it was
            bad = r.choice([("begins_with(n, :p)", {":p": S("1")}), ("n > :s", {":s": S("a")}), ("contains(n, :p)", {":p": S("1")}), ("g.x = :p", {":p": S("1")}), ("size(l) > :z", {":z": N("0")})])
            rd = dict(op="scan", filter=bad[0], names={}, values=dict(bad[1]), **base)
            if r.random() < 0.6:
                hv = g.key_of(t["schema"])[t["schema"]["hash"][0]]
                rd = dict(op="query", keycond="%s = :h" % t["schema"]["hash"][0], filter=bad[0], names={}, values={":h": hv, **bad[1]}, forward=r.random() < 0.4, **base)
            if t["indexes"] and r.random() < 0.3 and rd["op"] == "scan": rd["index"] = r.choice(t["indexes"])["name"]
            ops.append(rd)
            ops.append(dict(op="scan", **base))
            if r.random() < 0.5: ops.append(dict(op="scan", limit=1, **base))
        if r.random() < 0.25:
            # a batch with an invalid request at the first, a middle or the last position of one table's list
            good = [dict(put=g.item_of(t)) if r.random() < 0.7 else dict(delete=g.key_of(t["schema"])) for _ in range(r.randrange(2, 5))]
            bad_it = g.item_of(t); bad_it["g"] = N("7")
            bad = r.choice([dict(put=bad_it), dict(delete={"zz": S("nokey")}), dict(put={"zz": S("nokey")})])
            good.insert(r.randrange(0, len(good) + 1), bad)
            if r.random() < 0.5:
                ops.append(dict(op="batch_write", client="c", requests={"tbl": good}))
            else:
                # ... or over several tables: valid requests for some, the impossible one in another (a table that holds
                # other requests too, or a table that does not exist)
                reqs = {"tb2": [dict(put={"h": S("p%d" % i)}) for i in range(r.randrange(1, 3))], "tb3": [dict(put={"h": S("q")})]}
                reqs[r.choice(["tbl", "tbl", "nope"])] = good if r.random() < 0.7 else [bad]
                ops.append(dict(op="batch_write", client="c", requests=reqs))
                ops.append(dict(op="scan", client="c", table="tb2")); ops.append(dict(op="scan", client="c", table="tb3"))
            ops.append(dict(op="scan", **base))
    return ops


def nt_failing(ops, obs):
    seen_ok_write = False
    for o, ob in zip(ops, obs):
        if o['op'] in ('put', 'update') and ob['r'] == 'ok': seen_ok_write = True
        if seen_ok_write and o['op'] in DATA_OPS and ob['r'] != 'ok': return True
    return False


# ---------------- C10: value round trip ----------------
def values_script(g):
    r = g.r
    if r.random() < 0.2:
        # number-keyed table: numerals that differ only beyond float64 precision, or only in notation, are different keys
        ops = [dict(op="create_table", client="c", table="tbl", hash=dict(name="h", type="N"), billing="PAY_PER_REQUEST", throughput=True)]
        ks = r.sample(["9007199254740993", "9007199254740992", "1", "1.0", "0.1", "0.1000000000000000000000000000000000001", "10", "1e1"], r.randrange(3, 7))
        for i, k in enumerate(ks):
            ops.append(dict(op="put", client="c", table="tbl", item={"h": N(k), "v": g.value(2), "i": N(str(i))}))
        for k in ks:
            ops.append(dict(op="get", client="c", table="tbl", key={"h": N(k)}))
        ops.append(dict(op="scan", client="c", table="tbl"))
        ops.append(dict(op="batch_get", client="c", requests={"tbl": [{"h": N(k)} for k in ks[:3]]}))
        return ops
    ops = [dict(op="add_table", client="c", table="tbl", hash="h", range="")]
    for i in range(r.randrange(2, 6)):
        it = {"h": S("k%d" % i)}
        for a in r.sample(["a", "b", "c", "d", "e"], r.randrange(1, 5)):
            it[a] = g.value(3)
        if r.random() < 0.25:
            # a number set whose members differ only beyond float64 precision, or only in notation: every member is kept
            ns = {"NS": r.sample(["9007199254740993", "9007199254740992", "0.1", "0.10000000000000000001", "123456789012345678901234567890",
                                  "123456789012345678901234567891", "7"], r.randrange(2, 5))}
            it[r.choice(["ns", "deep"])] = ns if r.random() < 0.6 else {"L": [ns]}
        ops.append(dict(op="put", client="c", table="tbl", item=it))
        ops.append(dict(op="get", client="c", table="tbl", key={"h": it["h"]}))
        if r.random() < 0.3:
            # a copy of one attribute made by an update expression, then the whole item is read again
            src = r.choice(sorted(a for a in it if a != "h"))
            ops.append(dict(op="update", client="c", table="tbl", key={"h": it["h"]}, expr="SET cp = " + src, names={}, values={}))
            ops.append(dict(op="get", client="c", table="tbl", key={"h": it["h"]}))
        if r.random() < 0.3:
            # an update of ANOTHER attribute, then the whole item is read again
            ops.append(dict(op="update", client="c", table="tbl", key={"h": it["h"]}, expr="SET touched = :t", names={}, values={":t": S("yes")}))
            ops.append(dict(op="get", client="c", table="tbl", key={"h": it["h"]}))
    if r.random() < 0.3:
        # an item owns an attribute literally named like the value placeholder of the reads below: it comes back whole,
        # and the reads still find it by its key
        ops.append(dict(op="put", client="c", table="tbl", item={"h": S("k0"), ":h": S("not the key"), ":v": N("5"), "a": g.value(2)}))
        ops.append(dict(op="scan", client="c", table="tbl", filter="h = :h", names={}, values={":h": S("k0")}))
    ops.append(dict(op="scan", client="c", table="tbl"))
    ops.append(dict(op="query", client="c", table="tbl", keycond="h = :h", names={}, values={":h": S("k0")}))
    ops.append(dict(op="batch_get", client="c", requests={"tbl": [{"h": S("k0")}, {"h": S("k1")}]}))
    if r.random() < 0.5:
        # the items come back whole also on pages that end with a LastEvaluatedKey
        lim = r.randrange(1, 3)
        rd = r.choice([dict(op="scan", client="c", table="tbl", limit=lim),
                       dict(op="query", client="c", table="tbl", keycond="h = :h", names={}, values={":h": S("k%d" % r.randrange(2))}, limit=1)])
        ops.append(rd)
        for _ in range(3):
            nxt = json.loads(json.dumps(rd)); nxt["esk"] = {"$lek": len(ops) - 1}
            ops.append(nxt)
    if r.random() < 0.5:
        # a second table stores OTHER values under the same keys: a batch read over both answers each table with its own
        ops.append(dict(op="add_table", client="c", table="tb2", hash="h", range=""))
        for i in range(r.randrange(1, 4)):
            ops.append(dict(op="put", client="c", table="tb2", item={"h": S("k%d" % i), "a": g.value(2), "z": S("second")}))
        ops.append(dict(op="batch_get", client="c", requests={"tbl": [{"h": S("k%d" % i)} for i in range(r.randrange(1, 4))],
                                                              "tb2": [{"h": S("k%d" % i)} for i in range(r.randrange(1, 4))]}))
    return ops


def view_values(i, op):
    if op['op'] in ('get', 'scan', 'query', 'batch_get'):
        return V(res=True, pay=True)
    return V(res=True)


# ---------------- C13: keys ----------------
def keys_script(g):
    r = g.r
    schema = r.choice(gen.SCHEMAS + [dict(hash=("h", "B"), range=None), dict(hash=("h", "S"), range=("r", "B"))])
    op = dict(op="create_table", client="c", table="tbl", hash=dict(name=schema["hash"][0], type=schema["hash"][1]),
              billing="PAY_PER_REQUEST", throughput=True)
    if schema["range"]:
        op["range"] = dict(name=schema["range"][0], type=schema["range"][1])
        if r.random() < 0.2: op["range_first"] = True      # the RANGE element listed first: the same schema
    if r.random() < 0.06:
        # a key attribute declared with a type that is no key type: the table is refused (and nothing below finds it)
        op[r.choice(["hash", "range"] if schema["range"] else ["hash"])]["type"] = r.choice(["BOOL", "SS", "NS", "BS", "L", "M", "NULL", "s", ""])
    ops = [op]
    t = dict(name="tbl", schema=schema, indexes=[])
    pool = ["a", "a.b", "b", "b.c", "a.", ".b", "c", "a.b.c", "ab", "1", "1.0", "[1 2]"]
    def kv(typ):
        if typ == "S": return S(r.choice(pool))
        if typ == "N": return N(r.choice(["1", "1.0", "01", "10", "9", "1e1", "9007199254740993", "9007199254740992", "0.1", "0.10", "7"]))
        return {"B": r.choice(["\x01\x02", "\x01", "1 2", "\x0c", "ab"])}
    def key(exact=True):
        k = {schema["hash"][0]: kv(schema["hash"][1])}
        if schema["range"]: k[schema["range"][0]] = kv(schema["range"][1])
        if not exact:
            q = r.random()
            if q < 0.3 and schema["range"]: del k[schema["range"][0]]
            elif q < 0.45: k[schema["hash"][0]] = {"BOOL": True}
            elif q < 0.6:
                # the other scalar type with the same text: "7" for a number key, 7 for a string key
                an, at = r.choice([schema["hash"]] + ([schema["range"]] if schema["range"] else []))
                k[an] = S(r.choice(["7", "1", "10"])) if at == "N" else N("7") if at == "S" else S("\x01")
            elif q < 0.8: k = {}
            else: k["zz"] = S("extra")
        return k
    base = dict(client="c", table="tbl")
    retype_at = r.randrange(2, 8) if r.random() < 0.35 else -1
    for step in range(r.randrange(8, 20)):
        if step == retype_at:
            # the AddIndex helper declares every key attribute of the new index as a string: on a table whose own hash or
            # range key is a number or a binary that would re-type the key, and is refused
            an, at = r.choice([schema["hash"]] + ([schema["range"]] if schema["range"] else []))
            ops.append(r.choice([dict(op="add_index", client="c", table="tbl", index="byg", hash="g", range=an),
                                 dict(op="add_index", client="c", table="tbl", index="byk", hash=an, range=""),
                                 dict(op="update_table", client="c", table="tbl", attrs=[dict(name=an, type=r.choice(["S", "N", "B"]))])]))
        q = r.random()
        if q < 0.4:
            it = key(exact=r.random() < 0.85); it["v"] = S(str(len(ops)))
            ops.append(dict(op="put", item=it, return_old=r.random() < 0.5, **base))
        elif q < 0.55: ops.append(dict(op="get", key=key(exact=r.random() < 0.8), **base))
        elif q < 0.7: ops.append(dict(op="delete", key=key(exact=r.random() < 0.8), return_old=True, **base))
        elif q < 0.85:
            k = key(exact=r.random() < 0.85)
            if r.random() < 0.2: k["zz"] = S("extra")      # not a key attribute: it is not part of an item the update creates
            numk = [a for a, ty in [schema["hash"]] + ([schema["range"]] if schema["range"] else []) if ty == "N"]
            if numk and r.random() < 0.4:
                # a copy of the key attribute is changed in place by a later action: the key attribute itself stays
                ops.append(dict(op="update", key=k, expr=r.choice(["SET nx = %s ADD nx :one", "SET nx = %s, ny = nx ADD ny :one", "ADD nz :one SET nw = %s ADD nw :one"]) % numk[0],
                                names={}, values={":one": N("1")}, **base))
                ops.append(dict(op="scan", **base))
            else:
                ops.append(dict(op="update", key=k, expr="SET v = :v", names={}, values={":v": S("u%d" % len(ops))}, **base))
            ops.append(dict(op="get", key=key(), **base))
        elif q < 0.93: ops.append(dict(op="scan", **base))
        else: ops.append(dict(op="scan", esk=key(exact=r.random() < 0.5), **base))     # a start key written by hand
    return ops


# ---------------- C09: expressions are checked even when no item is evaluated ----------------
MALFORMED = ["contains(g, NOT f)", "contains(g, nosuch(f))", "begins_with(zq, NOT f)", "contains(g, f = :v)", "begins_with(g, nosuch(:v))",
             "lvl = = :one AND (", "g != :v", "g >>> :v )) AND", "g = :v AND", "(g = :v", "g = :v )", "g = :v f = :w", "g IN ()",
             "g IN ( )", "NOT", "g BETWEEN :v AND", "m. = :v", "g = :v OR", ",", "g :v", "= :v"]


def lazy_script(g):
    """Query / Scan with malformed (and with well-formed) expressions on an empty table, on a table where the key
    condition matches nothing, and on a table where items are evaluated"""
    r = g.r
    ops = [dict(op="add_table", client="c", table="tbl", hash="h", range="r")]
    base = dict(client="c", table="tbl")
    vals = {":v": S("x"), ":w": S("y"), ":one": N("1"), ":h": S("nokey")}
    def reads():
        out = []
        for _ in range(r.randrange(2, 5)):
            e = r.choice(MALFORMED) if r.random() < 0.7 else r.choice(["g = :v", "g = :v AND f = :w", "attribute_exists(g)"])
            used = {k: v for k, v in vals.items() if k in e}
            k = r.random()
            if k < 0.4: out.append(dict(op="scan", filter=e, names={}, values=used, **base))
            elif k < 0.7: out.append(dict(op="query", keycond="h = :h", filter=e, names={}, values={**used, ":h": S(r.choice(["nokey", "a"]))}, **base))
            else: out.append(dict(op="query", keycond=e, names={}, values=used, **base))
        return out
    ops += reads()
    for h in r.sample(["a", "b"], r.randrange(1, 3)):
        ops.append(dict(op="put", item={"h": S(h), "r": S("1"), "g": S("x")}, **base))
    ops += reads()
    return ops


# ---------------- C12: numbers as keys ----------------
def numkeys_script(g):
    """number-typed hash or range keys whose numerals differ only beyond float64 precision or only in notation:
    on the unchanged tree they are different keys (the key string is the numeral's text)"""
    r = g.r
    rng = r.random() < 0.5
    op = dict(op="create_table", client="c", table="tbl", hash=dict(name="h", type="S" if rng else "N"), billing="PAY_PER_REQUEST", throughput=True)
    if rng: op["range"] = dict(name="r", type="N")
    ops = [op]
    pool = ["9007199254740993", "9007199254740992", "1", "1.0", "0.1", "0.10000000000000000001", "10", "1e1", "123456789012345678", "123456789012345679"]
    ks = r.sample(pool, r.randrange(3, 8))
    key = (lambda k: {"h": S("p"), "r": N(k)}) if rng else (lambda k: {"h": N(k)})
    for i, k in enumerate(ks):
        it = key(k); it["i"] = N(str(i))
        ops.append(dict(op="put", client="c", table="tbl", item=it))
    for k in ks: ops.append(dict(op="get", client="c", table="tbl", key=key(k)))
    ops.append(dict(op="scan", client="c", table="tbl"))
    if rng:
        # range conditions on the number sort key, with no filter, both directions: the keys are stored in the order of
        # their text (2, 3, 10 are filed as 10, 2, 3) but compared by value, so the matches need not be neighbours
        for i, k in enumerate(["2", "3", "10", "25", "100"][:r.randrange(2, 6)]):
            ops.append(dict(op="put", client="c", table="tbl", item={"h": S("p"), "r": N(k), "i": N("9%d" % i)}))
        for _ in range(r.randrange(2, 5)):
            c = r.choice(["r >= :a", "r > :a", "r < :a", "r <= :a", "r BETWEEN :a AND :b", "r = :a"])
            vals = {":h": S("p"), ":a": N(r.choice(["3", "2", "10", "9", "1.0", "25"]))}
            if ":b" in c: vals[":b"] = N(r.choice(["10", "30", "100", "9007199254740993"]))
            q = dict(op="query", client="c", table="tbl", keycond="h = :h AND " + c, names={}, values=vals)
            if r.random() < 0.5: q["forward"] = r.random() < 0.5
            if r.random() < 0.3: q["limit"] = r.randrange(1, 4)
            ops.append(q)
    ops.append(dict(op="delete", client="c", table="tbl", key=key(ks[0]), return_old=True))
    ops.append(dict(op="update", client="c", table="tbl", key=key(ks[1]), expr="SET v = :v", names={}, values={":v": S("u")}))
    ops.append(dict(op="scan", client="c", table="tbl"))
    return ops


# ---------------- C15: emulated failures ----------------
def faults_script(g):
    r = g.r
    t, ops = g.create_ops("c", "tbl")
    ops += populate(g, t, nmin=1, nmax=4)
    two = r.random() < 0.4
    if two:
        t2, o2 = g.create_ops("c", "tb2"); ops += o2
    for _ in range(r.randrange(2, 5)):
        tog = r.choice([dict(op="emulate_failure", client="c", cond=r.choice(["internal_server", "deprecated", "none", "bogus"])),
                        dict(op="activate_force_failure", client="c")])
        ops.append(tog)
        while r.random() < 0.4:
            # a failure replaced by another one without passing through "none"
            ops.append(r.choice([dict(op="emulate_failure", client="c", cond=r.choice(["internal_server", "deprecated"])),
                                 dict(op="activate_force_failure", client="c")]))
            if r.random() < 0.5: ops += g.data_op("c", [t], len(ops))[:1]
        for _ in range(r.randrange(1, 5)):
            ops += g.data_op("c", [t], len(ops))[:1]
        if r.random() < 0.35:
            # a request that the SDK v1 client-side validation refuses (table name shorter than 3): under a failure the
            # failure is what the caller sees, in both SDKs
            k = g.key_of(t["schema"])
            ops.append(r.choice([dict(op="get", client="c", table="t", key=k), dict(op="put", client="c", table="t", item=k),
                                 dict(op="delete", client="c", table="t", key=k),
                                 dict(op="update", client="c", table="t", key=k, expr="SET v = :v", names={}, values={":v": S("x")})]))
        if r.random() < 0.5:
            # while the failure is on, requests that would be refused for a reason of their own (a table that does not exist, an
            # unused or undefined placeholder, a reserved word, a malformed key or start key): the failure is what they answer
            kk = g.key_of(t["schema"])
            defects = [dict(table="nope"), dict(names={"#zz": "g"}), dict(projection="#undef"), dict(projection="size"), dict(badkey=True), dict(esk={"zz": S("q")})]
            for _ in range(r.randrange(1, 4)):
                d = dict(r.choice(defects))
                kind = r.choice(["get", "put", "delete", "update", "query", "scan", "batch_get", "batch_write"])
                tbl = d.pop("table", "tbl")
                key = {"zz": S("nokey")} if d.pop("badkey", False) else kk
                if kind == "get": op = dict(op="get", client="c", table=tbl, key=key)
                elif kind == "put": op = dict(op="put", client="c", table=tbl, item=key, cond="attribute_exists(h)", names={}, values={})
                elif kind == "delete": op = dict(op="delete", client="c", table=tbl, key=key, cond="attribute_exists(h)", names={}, values={})
                elif kind == "update": op = dict(op="update", client="c", table=tbl, key=key, expr="SET v = :v", names={}, values={":v": S("x")})
                elif kind == "query": op = dict(op="query", client="c", table=tbl, keycond="h = :h", names={}, values={":h": S("a")})
                elif kind == "scan": op = dict(op="scan", client="c", table=tbl, names={}, values={})
                elif kind == "batch_get": op = dict(op="batch_get", client="c", requests={tbl: [key]})
                else: op = dict(op="batch_write", client="c", requests={tbl: [dict(put=key)]})
                if kind in ("get", "query", "scan") and "projection" in d: op["projection"] = d["projection"]
                if kind == "batch_get" and "projection" in d: op["opts"] = {tbl: dict(names={}, projection=d["projection"])}
                if "names" in d and "names" in op: op["names"] = dict(d["names"])
                if "names" in d and kind == "get": op["names"] = dict(d["names"])
                if "esk" in d and kind in ("query", "scan"): op["esk"] = d["esk"]
                ops.append(op)
        if r.random() < 0.25:
            # batches that name no table, or no request / key for their table, while the failure is active
            ops.append(r.choice([dict(op="batch_get", client="c", requests={}), dict(op="batch_get", client="c", requests={"tbl": []}),
                                 dict(op="batch_write", client="c", requests={}), dict(op="batch_write", client="c", requests={"tbl": []})]))
        if two and r.random() < 0.7:
            # a batch over two tables while the failure is active: every request must come back under its own table
            reqs = {}
            for tt in (t, t2):
                reqs[tt["name"]] = [dict(put=g.item_of(tt)) if r.random() < 0.7 else dict(delete=g.key_of(tt["schema"])) for _ in range(r.randrange(1, 4))]
            ops.append(dict(op="batch_write", client="c", requests=reqs))
        ops.append(r.choice([dict(op="deactivate_force_failure", client="c"), dict(op="emulate_failure", client="c", cond="none")]))
        ops.append(dict(op="scan", client="c", table="tbl"))
        for _ in range(r.randrange(0, 3)):
            ops += g.data_op("c", [t], len(ops))[:1]
    return ops


def nt_faults(ops, obs):
    rs = [ob['r'] for o, ob in zip(ops, obs) if o['op'] in DATA_OPS]
    return any(x in ('InternalServer', 'ForcedFailure') for x in rs) and 'ok' in rs


# ---------------- C18: lifecycle ----------------
def lifecycle_script(g):
    return g.mixed_script(r_n(g, 25, 45), clients=("c", "d"))


def r_n(g, a, b):
    return g.r.randrange(a, b)


def nt_lifecycle(ops, obs):
    created = sum(1 for o, ob in zip(ops, obs) if o['op'] in ('create_table', 'add_table') and ob['r'] == 'ok')
    removed = any(o['op'] in ('delete_table', 'clear_table') and ob['r'] == 'ok' for o, ob in zip(ops, obs))
    return created >= 2 and removed


# ---------------- C19: batch ----------------
def batch_script(g):
    r = g.r
    ops, tabs = [], []
    for name in r.sample(gen.TABLES, r.randrange(1, 3)):
        t, o = g.create_ops("c", name); tabs.append(t); ops += o
    for t in tabs: ops += populate(g, t, nmin=0, nmax=4)
    for _ in range(r.randrange(3, 8)):
        reqs = {}
        for _ in range(r.randrange(1, 6)):
            tt = r.choice(tabs)
            l = reqs.setdefault(tt["name"], [])
            l.append({"put": g.item_of(tt)} if r.random() < 0.6 else {"delete": g.key_of(tt["schema"], exact=r.random() < 0.8)})
        if r.random() < 0.08: reqs[tabs[0]["name"]] = [{"put": g.item_of(tabs[0])} for _ in range(r.choice([25, 26]))]
        if r.random() < 0.05: reqs.setdefault(tabs[0]["name"], []).append({})
        failing = r.random() < 0.15
        if failing: ops.append(dict(op="emulate_failure", client="c", cond="internal_server"))
        ops.append(dict(op="batch_write", client="c", requests=reqs))
        if failing:
            # every request comes back as unprocessed; once the failure is over the same batch is submitted again
            ops.append(dict(op="emulate_failure", client="c", cond="none"))
            ops.append(dict(op="batch_write", client="c", requests=reqs))
        for t in tabs: ops.append(dict(op="scan", client="c", table=t["name"]))
        greq = {}
        for _ in range(r.randrange(1, 5)):
            tt = r.choice(tabs)
            greq.setdefault(tt["name"], []).append(g.key_of(tt["schema"]))
        bg = dict(op="batch_get", client="c", requests=greq)
        opts = {tn: g.projection() for tn in greq if r.random() < 0.5}
        opts = {tn: o for tn, o in opts.items() if o}
        if opts: bg["opts"] = opts
        if r.random() < 0.3:
            # the legacy parameter AttributesToGet, on the batch and on the single reads of its keys alike: the library
            # ignores it, in both
            atg = r.sample(["h", "g", "f", "n"], r.randrange(1, 3))
            bg["atg"] = atg
            for tn, ks in greq.items():
                for k_ in ks: ops.append(dict(op="get", client="c", table=tn, key=k_, atg=atg))
        ops.append(bg)
    return ops


def nt_batch(ops, obs):
    for o, ob in zip(ops, obs):
        if o['op'] == 'batch_write' and ob['r'] == 'ok':
            n = sum(len(v) for v in o['requests'].values())
            kinds = set(k for v in o['requests'].values() for rq in v for k in rq)
            if n >= 2 and (len(kinds) >= 2 or len(o['requests']) >= 2): return True
    return False


# ---------------- C20: native interpreter ----------------
NATIVE_EXPRS = ["x = :y", "y = :x", "x  =  :y", " x = :y ", "x\t=\n:y", ":y = x", "g = :v", "g=:v", "SET g = :v", "SET  g = :v",
                "attribute_exists(h)", "attribute_exists( h )", "h = :h", "h = :h AND g = :v",
                # texts that differ only in letter case are different registrations
                "X = :y", "G = :v", "SET G = :v", "set g = :v", "H = :h",
                # only space, tab, newline and carriage return separate words (the language's white space): a vertical tab,
                # a form feed, NEL, a no-break space or an em space (UTF-8 bytes, one JSON character per byte) are part of the text
                "x\x0b=\x0c:y", "x\u00c2\u00a0=\u00c2\u00a0:y", "g\u00e2\u0080\u0083= :v", "x\u00c2\u0085= :y", "x\r=\r:y",
                # texts the built-in language can not read: only a registration gives them a meaning
                "x matches :y", "g ~ :v", "custom rule 7", "x = :y AND"]


def native_script(g):
    r = g.r
    ops = []
    tabs = ["tbl", "tb2"]
    # a few texts per script, so that registrations and uses meet: some texts and close variants of them (blanks, letter
    # case, other white space), at least one that the built-in language can not read
    base_texts = r.sample(NATIVE_EXPRS[:19], 2) + [r.choice(NATIVE_EXPRS[19:24])] + [r.choice(NATIVE_EXPRS[24:])]
    texts = list(base_texts)
    for e in base_texts[:2]:
        texts.append(r.choice([e.replace(" ", "  "), " " + e + " ", e.replace(" ", "\t"), e.swapcase() if e.isascii() else e, e.replace(" ", ""),
                               # a character at an end that only LOOKS like white space (no-break space, form feed, vertical tab, NEL)
                               e + "\u00c2\u00a0", "\x0c" + e, e + "\x0b", "\u00c2\u0085" + e,
                               # a blank INSIDE a word makes another text
                               e[:1] + " " + e[1:], e.replace("attribute", "attri bute").replace("SET", "S ET") if ("attribute" in e or "SET" in e) else e[:2] + " " + e[2:]]))
    when_activate = r.choice(["before", "after", "before", "never"])
    if when_activate == "before": ops.append(dict(op="activate_native", client="c"))
    for name in tabs: ops.append(dict(op="add_table", client="c", table=name, hash="h", range=""))
    if r.random() < 0.2: ops.append(dict(op="set_interpreter", client="c"))
    if when_activate == "after": ops.append(dict(op="activate_native", client="c"))
    nid = 0
    for _ in range(r.randrange(2, 7)):
        nid += 1
        tname = r.choice(tabs)
        if r.random() < 0.7:
            ops.append(dict(op="add_matcher", client="c", table=tname, kind=r.choice(["key", "filter", "conditional"]),
                            expr=r.choice(texts), id=nid, verdict=r.random() < 0.6))
        else:
            # an updater is arbitrary code: some set an attribute, some also delete one (what is stored, answered and
            # indexed is the item as the updater left it)
            st = {"u": S("n%d" % nid)}
            r2 = gen.side_rng(ops)
            if r2.random() < 0.4: st["@drop"] = S(r2.choice(["g", "x", "u"]))
            ops.append(dict(op="add_updater", client="c", table=tname, expr=r.choice(texts), id=nid, set=st))
    # reads of a table that is still empty: nothing is evaluated, only the check of the expressions can speak
    vals_for = lambda e: {k: S(k[1:]) for k in [":y", ":x", ":v", ":h"] if k in e}
    for _ in range(r.randrange(0, 3)):
        e = r.choice(texts)
        ops.append(r.choice([dict(op="scan", filter=e, names={}, values=vals_for(e), client="c", table=r.choice(tabs)),
                             dict(op="query", keycond=e, names={}, values=vals_for(e), client="c", table=r.choice(tabs))]))
    for h in ["a", "b"]:
        for name in tabs:
            ops.append(dict(op="put", client="c", table=name, item={"h": S(h), "g": S(r.choice(["v", "w"])), "x": S("y")}))
    for _ in range(r.randrange(5, 14)):
        tname = r.choice(tabs)
        e = r.choice(texts)
        k = r.random()
        base = dict(client="c", table=tname)
        if k < 0.25: ops.append(dict(op="scan", filter=e, names={}, values=vals_for(e), **base))
        elif k < 0.38: ops.append(dict(op="query", keycond=e, names={}, values=vals_for(e), **base))
        elif k < 0.45:
            # the same text (or another one) as key condition AND as filter of one Query: the two kinds are looked up separately
            f = e if r.random() < 0.6 else r.choice(texts)
            ops.append(dict(op="query", keycond=e, filter=f, names={}, values={**vals_for(e), **vals_for(f)}, **base))
        elif k < 0.6: ops.append(dict(op="put", item={"h": S(r.choice("ab")), "g": S("v")}, cond=e, names={}, values=vals_for(e), **base))
        elif k < 0.7: ops.append(dict(op="delete", key={"h": S(r.choice("ab"))}, cond=e, names={}, values=vals_for(e), **base))
        elif k < 0.95: ops.append(dict(op="update", key={"h": S(r.choice("abc"))}, expr=e, names={}, values=vals_for(e), **base))
        else:
            if r.random() < 0.5: ops.append(dict(op="set_interpreter", client="c"))
            else: ops.append(dict(op="activate_native", client="c"))
        r2 = gen.side_rng(ops)
        if r2.random() < 0.12:
            # the table is emptied: its registrations, and the interpreter it is on, stay
            ops.append(dict(op="clear_table", **base))
            ops.append(dict(op="put", item={"h": S(r2.choice("ab")), "g": S("v"), "x": S("y")}, **base))
        if r.random() < 0.3: ops.append(dict(op="get", key={"h": S(r.choice("ab"))}, **base))
        if r.random() < 0.2:
            # a registration that arrives late, for a text that has been used before (and fell back): it counts from now on,
            # and a second registration under the same text replaces the first
            nid += 1
            if r.random() < 0.6:
                ops.append(dict(op="add_matcher", client="c", table=tname, kind=r.choice(["key", "filter", "conditional"]), expr=e, id=nid, verdict=r.random() < 0.5))
            else:
                ops.append(dict(op="add_updater", client="c", table=tname, expr=e, id=nid, set={"u": S("late%d" % nid)}))
    return ops


def view_native(i, op):
    return V(res=True, pay=True, fired=True, state=True)


def nt_native(ops, obs):
    regs = [(o['table'], o.get('kind', 'update')) for o in ops if o['op'] in ('add_matcher', 'add_updater')]
    fired = any(ob.get('fired') for ob in obs)
    return len(regs) != len(set(regs)) and fired


# ---------------- C16: restrictions ----------------
_RESERVED = []


def reserved_word_list():
    """the reserved words, read from the committed reference tables (coq/ref/Tables.v)"""
    if not _RESERVED:
        import re
        txt = open(os.path.join(os.path.dirname(os.path.dirname(os.path.abspath(__file__))), 'coq', 'ref', 'Tables.v')).read()
        m = re.search(r'Definition reserved_words : list str :=(.*?)\]\.', txt, re.S)
        _RESERVED.extend(re.findall(r'\(bs "([A-Z_]+)"\)', m.group(1)))
        assert len(_RESERVED) > 500
    return _RESERVED


def restrictions_script(g):
    r = g.r
    ops = [dict(op="add_table", client="c", table="tbl", hash="h", range="r"), dict(op="add_table", client="c", table="tb2", hash="h", range="")]
    base = dict(client="c", table="tbl")
    ops.append(dict(op="put", item={"h": S("a"), "r": S("1"), "g": S("x")}, **base))
    words = ["name", "size", "status", "count", "data", "user", "zone", "comment", "hidden", "abort", "year", "ttl", "hash", "range", "key"]
    allw = reserved_word_list()
    by_len = sorted(allw, key=len)
    # boundary lengths of the list, and near misses that are NOT reserved (one letter more / less)
    edge = by_len[:6] + by_len[-6:] + [by_len[-1] + "S", by_len[-1][:-1], by_len[0] + "Q"]
    for _ in range(r.randrange(6, 14)):
        k = r.random()
        q = r.random()
        w = r.choice(words) if q < 0.5 else r.choice(allw).lower() if q < 0.8 else r.choice(edge).lower()
        if r.random() < 0.15:
            # reserved words that are also keywords of the expression language (they lex as keywords only in upper case)
            w = r.choice(["set", "add", "delete", "remove", "in", "not", "and", "or", "between"])
        w = r.choice([w, w.upper(), w.capitalize()])
        if r.random() < 0.2:
            # in a projection (never parsed, only scanned for reserved words), alone or after an ordinary attribute
            proj = r.choice(["%s", "g, %s", "%s, g", "g,%s", "#g, %s"]) % w
            rd = dict(projection=proj, names=({"#g": "g"} if "#g" in proj else {}))
            ops.append(r.choice([dict(op="get", key={"h": S("a"), "r": S("1")}, **rd, **base), dict(op="scan", values={}, **rd, **base),
                                 dict(op="query", keycond="h = :h", values={":h": S("a")}, **rd, **base),
                                 dict(op="batch_get", client="c", requests={"tbl": [{"h": S("a"), "r": S("1")}]}, opts={"tbl": rd})]))
            continue
        if r.random() < 0.12:
            # every expression of a request is looked at on its own: a reserved word that ends one expression stays a
            # reserved word when the next expression of the same request begins with a parenthesis
            ops.append(r.choice([
                dict(op="scan", projection="g, %s" % w, filter="(g = :v)", names={}, values={":v": S("x")}, **base),
                dict(op="query", keycond="h = :h", projection="%s" % w, filter="(g = :v)", names={}, values={":h": S("a"), ":v": S("x")}, **base),
                dict(op="update", key={"h": S("a"), "r": S("1")}, expr="REMOVE g.%s" % w, cond="(attribute_exists(h))", names={}, values={}, **base),
                dict(op="update", key={"h": S("a"), "r": S("1")}, expr="SET f = %s" % w, cond="(attribute_exists(h))", names={}, values={}, **base)]))
            continue
        if r.random() < 0.1:
            # a function name stays a function name when white space separates it from its parenthesis
            sp_ = r.choice([" ", "  ", "\t", "\n", "\r\n"])
            e = r.choice(["size%s(g) > :n", "attribute_exists%s(g)", "begins_with%s(g, :v)", "contains%s(g, :v)", "attribute_type%s(g, :v)",
                          "NOT size%s(g) = :n", "g = :v AND size%s(g) >= :n"]) % sp_
            vals = {k2: (N("0") if k2 == ":n" else S("S") if "attribute_type" in e else S("x")) for k2 in [":n", ":v"] if k2 in e}
            ops.append(r.choice([dict(op="scan", filter=e, names={}, values=vals, **base),
                                 dict(op="delete", key={"h": S("zz"), "r": S("9")}, cond=e, names={}, values=vals, **base)]))
            continue
        if gen.side_rng(ops).random() < 0.06:
            # one string in both roles, in either order: a "#k" that was a well-formed name is still no value placeholder,
            # and a ":k" refused as a name is still a fine value placeholder afterwards
            r2 = gen.side_rng(ops); kk = r2.choice(["#k", "#role", ":k", ":role"])
            as_name = dict(op="scan", filter="%s = :v" % kk, names={kk: "g"}, values={":v": S("x")}, **base)
            as_value = dict(op="scan", filter="g = %s" % kk, names={}, values={kk: S("x")}, **base)
            both = dict(op="scan", filter="#n = :v", names={"#n": "g"}, values={":v": S("x"), kk: S("x")} if kk[0] == "#" else {":v": S("x")}, **base)
            if kk[0] == ":": both["names"][kk] = "f"
            seq = r2.choice([[as_name, as_value, as_name], [as_value, as_name, as_value], [as_name, both], [as_value, both, as_name]])
            ops += [json.loads(json.dumps(o)) for o in seq]
            continue
        if r.random() < 0.08:
            # names are scoped to one table entry of a BatchGetItem: a name supplied for one table and used only by the
            # projection of the other is unused here and undefined there
            ops.append(dict(op="batch_get", client="c", requests={"tbl": [{"h": S("a"), "r": S("1")}], "tb2": [{"h": S("a")}]},
                            opts=r.choice([{"tbl": dict(names={"#x": "g"}, projection="g"), "tb2": dict(names={}, projection="#x")},
                                           {"tbl": dict(names={"#x": "g", "#y": "h"}, projection="#x"), "tb2": dict(names={}, projection="#y")},
                                           {"tbl": dict(names={"#x": "g"}, projection="#x"), "tb2": dict(names={"#x": "h"}, projection="#x")}])))
            continue
        if k < 0.14: ops.append(dict(op="scan", filter="%s = :v" % w, names={}, values={":v": S("x")}, **base))
        elif k < 0.2:
            e = r.choice(["%s.code = :v", "%s[0] = :v", ":v = %s", "attribute_exists(%s.x)", "g = :v AND %s = :v", "NOT %s = :v", "contains(%s, :v)", "%s IN (:v)", "%s BETWEEN :v AND :v"]) % w
            ops.append(dict(op="scan", filter=e, names={}, values={":v": S("x")}, **base))
        elif k < 0.3: ops.append(dict(op="scan", filter="#w = :v", names={"#w": w}, values={":v": S("x")}, **base))
        elif k < 0.36: ops.append(dict(op="update", key={"h": S("a"), "r": S("1")}, expr="SET %s = :v" % w, names={}, values={":v": S("x")}, **base))
        elif k < 0.4:
            e = r.choice(["SET %s.code = :v", "SET %s[0] = :v", "REMOVE %s[1]", "REMOVE %s.x", "SET g = %s.x", "ADD %s :v", "DELETE %s :v"]) % w
            ops.append(dict(op="update", key={"h": S("a"), "r": S("1")}, expr=e, names={}, values=({":v": S("x")} if ":v" in e else {}), **base))
        elif k < 0.5: ops.append(dict(op="put", item={"h": S("a"), "r": S("2")}, cond="attribute_not_exists(%s)" % w, names={}, values={}, **base))
        elif k < 0.62:
            names = {r.choice(["#a", "#ab", "#a1", "a", "#", "#a-b", "#0", "#1a", "#_"]): "g"}
            used = r.choice(["#a", "#ab", "#a1", "g", "#0", "#1a", "#_"])
            ops.append(dict(op="scan", filter="%s = :v" % used, names=names, values={":v": S("x")}, **base))
        elif k < 0.74:
            vals = {r.choice([":v", ":vv", ":v1", "v", ":", ":v-1", ":0", ":2_", ":_"]): S("x")}
            used = r.choice([":v", ":vv", ":v1", ":0", ":2_", ":_"])
            ops.append(dict(op="scan", filter="g = %s" % used, names={}, values=vals, **base))
        elif k < 0.80:
            n = r.choice([1, 24, 25, 26, 30])
            ops.append(dict(op="batch_write", client="c", requests={"tbl": [{"put": {"h": S("b%d" % i), "r": S("1")}} for i in range(n)]}))
        elif k < 0.86:
            n1, n2 = r.choice([(13, 13), (25, 1), (20, 20), (12, 13), (1, 25), (24, 1)])
            ops.append(dict(op="batch_write", client="c", requests={"tbl": [{"put": {"h": S("b%d" % i), "r": S("1")}} for i in range(n1)],
                                                                   "tb2": [{"put": {"h": S("c%d" % i)}} for i in range(n2)]}))
        elif k < 0.93:
            ops.append(dict(op="batch_write", client="c", requests={"tbl": [r.choice([{}, {"put": {"h": S("q"), "r": S("1")}, "delete": {"h": S("q"), "r": S("1")}}])]}))
        else:
            kc = r.choice(["h = :h", "h = :h AND r = :r", "h = :h AND r > :r", "h = :h AND begins_with(r, :r)"])
            ops.append(dict(op="query", keycond=kc, names={}, values={k2: S("a" if k2 == ":h" else "1") for k2 in [":h", ":r"] if k2 in kc}, **base))
    return ops


def view_res(i, op):
    return V(res=True, state=True)


# ---------------- unit streams ----------------
def unit_stream(kinds):
    def make(seed, n):
        g = gen.ExprGen(seed)
        ops = []
        for i in range(n):
            k = kinds[i % len(kinds)]
            if k == 'match': c = g.match_case()
            elif k == 'update': c = g.update_case()
            elif k == 'malformed':
                c = g.malformed_case()
                if i % 3 == 0: ops.append(c)
            elif k == 'float': c = g.numeral()
            elif k == 'lexparse':
                c0 = g.malformed_case() if i % 3 else g.match_case()
                ops += g.lex_parse_cases(c0)
                continue
            ops.append(c)
        return ops
    return make


STREAMS = {
    'single-item': Stream('single-item', 'script', scripts_from(single_item_script, 's'), view_all_but_fired, nontrivial=nt_single,
                          rule='>=2 distinct keys written, an overwrite, and a delete followed by a re-put or an update-created item'),
    'query': Stream('query', 'script', scripts_from(query_script, 'q'), view_reads, nontrivial=nt_reads,
                    rule='some unlimited read returns >=2 items'),
    'index': Stream('index', 'script', scripts_from(index_script, 'i'), view_index, nontrivial=nt_index,
                    rule='>=2 items share an index key at some point and an update changes an index key attribute'),
    'page': Stream('page', 'script', scripts_from(page_script, 'p'), view_reads, nontrivial=nt_pages,
                   rule='some paginated read spans >=2 pages'),
    'conditional': Stream('conditional', 'script', scripts_from(conditional_script, 'c'), view_writes, nontrivial=nt_conditional,
                          rule='conditional writes with both outcomes (applied and refused)'),
    'failing': Stream('failing', 'script', scripts_from(failing_script, 'f'), view_writes, nontrivial=nt_failing,
                      rule='a failing data operation preceded by a successful write'),
    'values': Stream('values', 'script', scripts_from(values_script, 'v'), view_values,
                     rule='trees of depth <=3 over all ten types with boundary members'),
    'keys': Stream('keys', 'script', scripts_from(keys_script, 'k'), view_all_but_fired,
                   rule='keys over S/N/B with separator characters, near-colliding and malformed keys'),
    'lazy': Stream('lazy', 'script', scripts_from(lazy_script, 'lz'), view_all_but_fired,
                   rule='malformed and well-formed expressions on Query/Scan of an empty table, of a table where the key condition matches nothing, and of a table with items'),
    'numkeys': Stream('numkeys', 'script', scripts_from(numkeys_script, 'nk'), view_all_but_fired,
                      rule='number-typed keys whose numerals differ only beyond float64 precision or only in notation'),
    'faults': Stream('faults', 'script', scripts_from(faults_script, 'e'), view_all_but_fired, nontrivial=nt_faults,
                     rule='a failure is active during a data op and inactive during a later one'),
    'lifecycle': Stream('lifecycle', 'script', scripts_from(lifecycle_script, 'l'), view_all_but_fired, nontrivial=nt_lifecycle,
                        rule='>=2 tables created and one deleted or cleared'),
    'batch': Stream('batch', 'script', scripts_from(batch_script, 'b'), view_all_but_fired, nontrivial=nt_batch,
                    rule='a successful batch of >=2 requests mixing put and delete or touching >=2 tables'),
    'native': Stream('native', 'script', scripts_from(native_script, 'n'), view_native, nontrivial=nt_native,
                     rule='>=2 registrations on the same table and kind, and a callback fired'),
    'restrictions': Stream('restrictions', 'script', scripts_from(restrictions_script, 'r'), view_res,
                           rule='reserved words x casing x position, placeholder subsets, batch sizes around 25'),
    'mixed': Stream('mixed', 'script', scripts_from(lambda g: g.mixed_script(30), 'm'), lambda i, op: dict(FULL_VIEW),
                    rule='random mixed client scripts'),
    'expr': Stream('expr', 'unit', unit_stream(['match']), rule='generated (condition, item, bindings) triples'),
    'update': Stream('update', 'unit', unit_stream(['update']), rule='generated (update expression, item, bindings) triples'),
    'malformed': Stream('malformed', 'unit', unit_stream(['malformed', 'lexparse']), rule='token-level mutations of valid sentences and random bytes'),
    'numbers': Stream('numbers', 'unit', unit_stream(['float']), rule='numerals in all notations through ParseFloat/FormatFloat'),
}
