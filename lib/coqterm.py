"""Rendering of scripts (abstract operations) and harness observations as Coq terms of the model's types."""

def b(s):
    """latin-1 JSON string -> bytes"""
    return s.encode('latin-1')

def cstr(s):
    bb = b(s) if isinstance(s, str) else s
    if all(32 <= c <= 126 and c != 34 for c in bb):
        return '(bs "%s")' % bb.decode('ascii')
    return '[' + '; '.join('x%02x' % c for c in bb) + ']'

def clist(xs):
    return '[' + '; '.join(xs) + ']'

def cbool(x):
    return 'true' if x else 'false'

def copt(x, f=lambda y: y):
    return 'None' if x is None else '(Some %s)' % f(x)

def cav(v):
    (k, x), = v.items()
    if k == 'S': return '(AS %s)' % cstr(x)
    if k == 'N': return '(AN %s)' % cstr(x)
    if k == 'B': return '(AB %s)' % cstr(x)
    if k == 'BOOL': return '(ABOOL %s)' % cbool(x)
    if k == 'NULL': return 'ANULL'
    if k == 'L': return '(AL %s)' % clist([cav(e) for e in x])
    if k == 'M': return '(AM %s)' % citem(x)
    if k == 'SS': return '(ASS %s)' % clist([cstr(e) for e in x])
    if k == 'NS': return '(ANS %s)' % clist([cstr(e) for e in x])
    if k == 'BS': return '(ABS %s)' % clist([cstr(e) for e in x])
    if k == 'NONE': return '(AS (bs "<NONE>"))'
    raise ValueError(v)

def citem(it):
    if not it:
        return '[]'
    return clist(['(%s, %s)' % (cstr(k), cav(it[k])) for k in sorted(it, key=b)])

def cnames(m):
    if not m:
        return '[]'
    return clist(['(%s, %s)' % (cstr(k), cstr(m[k])) for k in sorted(m, key=b)])

def cindexdef(d):
    h, r = d.get('hash'), d.get('range')
    return '{| id_name := %s; id_hash := %s; id_range := %s; id_throughput := %s |}' % (
        cstr(d['name']), copt(h and h['name'], cstr), copt(r and r['name'], cstr), cbool(d.get('throughput', False)))

def defs_of(op):
    out = []
    for part in ('hash', 'range'):
        p = op.get(part)
        if p and p.get('type') is not None:
            out.append((p['name'], p['type']))
    for d in op.get('attrs') or []:
        out.append((d['name'], d['type']))
    return out

def cdefs(l):
    return clist(['(%s, %s)' % (cstr(n), cstr(t)) for n, t in l])

KINDS = {'key': 'KKey', 'filter': 'KFilter', 'conditional': 'KCond'}

def cwreq(r):
    p, d = r.get('put'), r.get('delete')
    if p is not None and d is not None: return '(WBoth %s %s)' % (citem(p), citem(d))
    if p is not None: return '(WPut %s)' % citem(p)
    if d is not None: return '(WDelete %s)' % citem(d)
    return 'WNeither'

def cop(op):
    """abstract op (JSON) -> Coq term of type (str * op)"""
    o = op['op']
    t = cstr(op.get('table', ''))
    cond = copt(op.get('cond'), cstr)
    names, vals = cnames(op.get('names')), citem(op.get('values'))
    if o == 'new_client': body = 'ONewClient'
    elif o == 'create_table':
        h, r = op.get('hash'), op.get('range')
        body = ('(OCreateTable {| ct_table := %s; ct_hash := %s; ct_range := %s; ct_defs := %s; ct_pay_per_request := %s; '
                'ct_throughput := %s; ct_gsi := %s; ct_lsi := %s |})') % (
            t, copt(h and h['name'], cstr), copt(r and r['name'], cstr), cdefs(defs_of(op)),
            cbool(op.get('billing') == 'PAY_PER_REQUEST'), cbool(op.get('throughput', False)),
            clist([cindexdef(g) for g in op.get('gsi') or []]), clist([cindexdef(g) for g in op.get('lsi') or []]))
    elif o == 'add_table': body = '(OAddTable %s %s %s)' % (t, cstr(op['hash']), cstr(op.get('range', '')))
    elif o == 'add_index': body = '(OAddIndex %s %s %s %s)' % (t, cstr(op['index']), cstr(op['hash']), cstr(op.get('range', '')))
    elif o == 'delete_table': body = '(ODeleteTable %s)' % t
    elif o == 'describe_table': body = '(ODescribeTable %s)' % t
    elif o == 'update_table':
        c = op.get('create')
        body = '(OUpdateTable %s %s %s %s)' % (t, cdefs([(d['name'], d['type']) for d in op.get('attrs') or []]),
                                               copt(c, cindexdef), copt(op.get('delete'), cstr))
    elif o == 'clear_table': body = '(OClearTable %s)' % t
    elif o == 'put': body = '(OPut %s %s %s %s %s %s)' % (t, citem(op.get('item')), cond, names, vals, cbool(op.get('return_old', False)))
    elif o == 'get': body = '(OGet %s %s %s %s)' % (t, citem(op.get('key')), names, cstr(op.get('projection') or ''))
    elif o == 'update':
        body = '(OUpdate %s %s %s %s %s %s %s)' % (t, citem(op.get('key')), cstr(op['expr']), cond, names, vals,
                                                   cbool(op.get('rvoccf') == 'ALL_OLD'))
    elif o == 'delete':
        body = '(ODelete %s %s %s %s %s %s)' % (t, citem(op.get('key')), cond, names, vals, cbool(op.get('return_old', False)))
    elif o == 'query':
        body = '(OQuery %s %s %s %s %s %s %d %s %s %s)' % (
            t, copt(op.get('index'), cstr), copt(op.get('keycond'), cstr), copt(op.get('filter'), cstr), names, vals,
            op.get('limit') or 0, citem(op.get('esk')), copt(op.get('forward'), cbool), cstr(op.get('projection') or ''))
    elif o == 'scan':
        body = '(OScan %s %s %s %s %s %d %s %s)' % (
            t, copt(op.get('index'), cstr), copt(op.get('filter'), cstr), names, vals, op.get('limit') or 0, citem(op.get('esk')),
            cstr(op.get('projection') or ''))
    elif o == 'batch_write':
        rq = op['requests']
        body = '(OBatchWrite %s)' % clist(['(%s, %s)' % (cstr(k), clist([cwreq(r) for r in rq[k]])) for k in sorted(rq, key=b)])
    elif o == 'batch_get':
        rq = op['requests']
        opts = op.get('opts') or {}
        body = '(OBatchGet %s %s)' % (clist(['(%s, %s)' % (cstr(k), clist([citem(r) for r in rq[k]])) for k in sorted(rq, key=b)]),
                                      clist(['(%s, (%s, %s))' % (cstr(k), cnames(opts[k].get('names') or {}), cstr(opts[k].get('projection') or '')) for k in sorted(opts, key=b)]))
    elif o == 'transact': body = 'OTransact'
    elif o == 'emulate_failure': body = '(OEmulateFailure %s)' % cstr(op['cond'])
    elif o == 'activate_force_failure': body = 'OActivateForce'
    elif o == 'deactivate_force_failure': body = 'ODeactivateForce'
    elif o == 'activate_native': body = 'OActivateNative'
    elif o == 'set_interpreter': body = 'OSetInterpreter'
    elif o == 'add_matcher':
        body = '(OAddMatcher %s %s %s %d %s)' % (t, KINDS[op['kind']], cstr(op['expr']), op['id'], cbool(op['verdict']))
    elif o == 'add_updater':
        body = '(OAddUpdater %s %s %d %s)' % (t, cstr(op['expr']), op['id'], citem(op.get('set')))
    else:
        raise ValueError(o)
    return '(%s, %s)' % (cstr(op.get('client', 'c')), body)

ERRS = {'Validation', 'CondFailed', 'NotFound', 'InUse', 'InternalServer', 'ForcedFailure', 'Unsupported', 'Syntax', 'InvalidParam'}
PANICS = {'SyntaxPanic', 'UnsupportedPanic', 'RuntimePanic'}

def cres(r):
    if r == 'ok': return 'ROk'
    if r in ERRS: return '(RErr %s)' % r
    if r in PANICS: return '(RPanic %s)' % r
    return 'RFuel'      # anything the model has no name for: guaranteed mismatch

def cschema(l):
    return clist(['(%s, %s)' % (cstr(e['name']), cstr(e['type'])) for e in l])

def cdesc(d):
    ix = lambda l: clist(['((%s, %d), %s)' % (cstr(x['name']), x['count'], cschema(x['schema']))
                          for x in sorted(l, key=lambda x: b(x['name']))])
    return '{| d_name := %s; d_count := %d; d_schema := %s; d_gsi := %s; d_lsi := %s |}' % (
        cstr(d['name']), d['count'], cschema(d['schema']), ix(d['gsi']), ix(d['lsi']))

def ctmap(m, f):
    return clist(['(%s, %s)' % (cstr(k), clist([f(x) for x in m[k]])) for k in sorted(m, key=b)])

def cpayload(op, ob, sdk):
    o, r = op['op'], ob['r']
    if o in ('update', 'put', 'delete') and r == 'CondFailed' and sdk == 'v2':
        return '(PCondItem %s)' % citem(ob.get('cf_item') or {})
    if r != 'ok':
        return 'PNone'
    if o in ('get', 'update'):
        return '(PItem %s)' % citem(ob.get('item') or {})
    if o in ('delete', 'put'):
        return '(PItem %s)' % citem(ob['item']) if 'item' in ob else 'PNone'
    if o in ('query', 'scan'):
        return '(PItems %s %d %s)' % (clist([citem(i) for i in ob['items']]), ob['count'], citem(ob.get('lek') or {}))
    if o in ('create_table', 'delete_table', 'describe_table', 'update_table'):
        return '(PDesc %s)' % cdesc(ob['desc'])
    if o == 'batch_write':
        return '(PBatchWrite %s)' % ctmap(ob.get('unproc') or {}, cwreq)
    if o == 'batch_get':
        return '(PBatchGet %s %s)' % (ctmap(ob.get('resp') or {}, citem), ctmap(ob.get('unproc') or {}, citem))
    return 'PNone'

def cabs_state(st):
    tabs = []
    for tn in sorted(st, key=b):
        t = st[tn]
        items = clist([citem(t['data'].get(k, {})) for k in t['sorted']])
        ixs = []
        for name in sorted(t['indexes'], key=b):
            ix = t['indexes'][name]
            refs = sorted(ix['refs'].items(), key=lambda kv: (b(kv[1]), b(kv[0])))
            ixs.append('(%s, %s)' % (cstr(name), clist([citem(t['data'].get(pk, {})) for pk, _ in refs])))
        tabs.append('(%s, {| a_items := %s; a_indexes := %s |})' % (cstr(tn), items, clist(ixs)))
    return clist(tabs)

FULL_VIEW = dict(res=True, pay=True, fired=True, state=True, inv=True)
NO_VIEW = dict(res=False, pay=False, fired=False, state=False, inv=False)

def cview(v):
    return '{| v_res := %s; v_pay := %s; v_fired := %s; v_state := %s; v_inv := %s |}' % tuple(
        cbool(v.get(k, False)) for k in ('res', 'pay', 'fired', 'state', 'inv'))

def cexpected(op, ob, sdk, view=None):
    st = ob.get('state')
    return '{| x_obs := {| o_res := %s; o_pay := %s; o_fired := %s |}; x_state := %s; x_view := %s |}' % (
        cres(ob['r']), cpayload(op, ob, sdk), clist([str(i) for i in ob.get('fired') or []]),
        'None' if st is None else '(Some %s)' % cabs_state(st), cview(view or FULL_VIEW))

def ccase(ops, obs, sdk, viewf=None):
    """viewf(index, op) -> view dict for that step (default: compare everything)"""
    return '(%s,\n   %s)' % (clist([cop(o) for o in ops]),
                             clist([cexpected(o, x, sdk, viewf(i, o) if viewf else None) for i, (o, x) in enumerate(zip(ops, obs))]))

def state_invariants(st):
    """Structural invariants evaluated directly on the implementation's dump; returns a list of violations."""
    bad = []
    for tn, t in st.items():
        ks = [b(k) for k in t['sorted']]
        if any(not x < y for x, y in zip(ks, ks[1:])):
            bad.append('%s: SortedKeys not strictly sorted' % tn)
        if sorted(ks) != sorted(b(k) for k in t['data']):
            bad.append('%s: SortedKeys differs from the key set of Data' % tn)
        for name, ix in t['indexes'].items():
            sk = [b(k) for k in ix['sorted']]
            if sk != sorted(sk):
                bad.append('%s.%s: sortedKeys not sorted' % (tn, name))
            if sorted(sk) != sorted(b(v) for v in ix['refs'].values()):
                bad.append('%s.%s: sortedKeys is not the multiset of refs values' % (tn, name))
            if any(k not in t['data'] for k in ix['refs']):
                bad.append('%s.%s: ref to a key absent from Data' % (tn, name))
    return bad


# ---------- unit-level cases ----------
TOKCON = {'ILLEGAL': 'ILLEGAL', 'EOF': 'EOF', 'IDENT': 'IDENT', '<': 'LT', '<=': 'LTE', '>': 'GT', '>=': 'GTE', '=': 'EQ',
          '<>': 'NotEQ', ',': 'COMMA', '(': 'LPAREN', ')': 'RPAREN', '[': 'LBRACKET', ']': 'RBRACKET', '.': 'DOT',
          'AND': 'AND', 'OR': 'OR', 'NOT': 'NOT', 'BETWEEN': 'BETWEEN', 'IN': 'IN', 'SET': 'SET', 'REMOVE': 'REMOVE',
          'ADD': 'ADD', 'DELETE': 'DELETE', '+': 'PLUS', '-': 'MINUS'}

def cures(ob, kind):
    r = ob['r']
    if r == 'ok':
        return '(UOkB %s)' % cbool(ob['verdict']) if kind == 'match' else '(UOkI %s)' % citem(ob.get('item') or {})
    if r in ERRS:
        return '(UErrC %s)' % r
    return 'UPanicC'

def cucase(op, ob):
    o = op['op']
    if o == 'lex':
        if ob['r'] != 'ok':
            return '(ULex %s [(ILLEGAL, (bs "<harness panic>"))])' % cstr(op['text'])
        return '(ULex %s %s)' % (cstr(op['text']), clist(['(%s, %s)' % (TOKCON[t], cstr(l)) for t, l in ob['tokens']]))
    if o == 'parse':
        ast = ob.get('ast')
        return '(UParse %s %s %d %s)' % (cbool(op.get('update', False)), cstr(op['text']), ob['errors'], copt(ast, cstr))
    if o == 'match':
        return '(UMatch %s %s %s %s %s)' % (cstr(op['expr']), citem(op.get('item')), citem(op.get('values')), cnames(op.get('names')), cures(ob, 'match'))
    if o == 'lang_update':
        return '(UUpdate %s %s %s %s %s)' % (cstr(op['expr']), citem(op.get('item')), citem(op.get('values')), cnames(op.get('names')), cures(ob, 'update'))
    if o == 'float':
        return '(UFloat %s %s)' % (cstr(op['text']), copt(ob.get('text') if ob['r'] == 'ok' else None, cstr))
    raise ValueError(o)
