"""Build steps and the two executors (Go harness on the real code, coqc on the model)."""
import json, os, subprocess, sys, hashlib, re, time, fcntl
from concurrent.futures import ThreadPoolExecutor
from . import coqterm

ROOT = os.path.dirname(os.path.dirname(os.path.abspath(__file__)))
BUILD = os.path.join(ROOT, 'build')
COQ = os.path.join(ROOT, 'coq')
REPO = os.environ.get('VERIF_REPO') or '/repo'
GOENV = dict(os.environ, GOFLAGS='-mod=mod', GOPROXY='off', GOSUMDB='off', GOTOOLCHAIN='local', CGO_ENABLED='0')


class BuildError(Exception):
    def __init__(self, stage, log):
        super().__init__(stage)
        self.stage, self.log = stage, log


class HarnessCrash(BuildError):
    """the library killed the harness process (a fatal Go runtime error can not be recovered); script / step name the
    operation that was running"""
    def __init__(self, log, sdk, script, step):
        super().__init__('harness-run', log)
        self.sdk, self.script, self.step = sdk, script, step


def sh(cmd, cwd=None, env=None, timeout=3600):
    p = subprocess.run(cmd, cwd=cwd, env=env, stdout=subprocess.PIPE, stderr=subprocess.STDOUT, timeout=timeout, text=True)
    return p.returncode, p.stdout


class Lock:
    def __init__(self, name):
        os.makedirs(BUILD, exist_ok=True)
        self.path = os.path.join(BUILD, name + '.lock')
    def __enter__(self):
        self.f = open(self.path, 'w')
        fcntl.flock(self.f, fcntl.LOCK_EX)
    def __exit__(self, *a):
        fcntl.flock(self.f, fcntl.LOCK_UN)
        self.f.close()


def build_translator():
    out = os.path.join(BUILD, 'translator')
    rc, log = sh(['go', 'build', '-o', out, '.'], cwd=os.path.join(ROOT, 'translator'), env=GOENV)
    if rc:
        raise BuildError('translator-build', log)
    return out


def regenerate_tables():
    """Gen/Tables.v is regenerated from /repo on every run (only rewritten when it changes)."""
    tr = build_translator()
    rc, log = sh([tr, REPO, os.path.join(COQ, 'theories', 'Gen')])
    if rc:
        raise BuildError('translator', log)


def build_coq(clean=False):
    with Lock('coq'):
        regenerate_tables()
        if clean:
            sh(['make', 'clean'], cwd=COQ)
        if not os.path.exists(os.path.join(COQ, 'Makefile')):
            rc, log = sh(['coq_makefile', '-f', '_CoqProject', '-o', 'Makefile'], cwd=COQ)
            if rc:
                raise BuildError('coq_makefile', log)
        rc, log = sh(['make', '-j16'], cwd=COQ, timeout=7200)
        if rc:
            raise BuildError('coq', log)
        return log


def build_harness():
    """The harness is rebuilt from the repository's current working tree (VERIF_REPO, default /repo) with the verif tag."""
    with Lock('harness'):
        hdir = os.path.join(ROOT, 'harness')
        os.makedirs(BUILD, exist_ok=True)
        # module file pointing at the repository under test; go.sum of the repository covers the dependencies
        mod = open(os.path.join(hdir, 'go.mod')).read().replace('=> /repo', '=> ' + REPO)
        modfile = os.path.join(BUILD, 'harness.mod')
        open(modfile, 'w').write(mod)
        with open(os.path.join(REPO, 'go.sum')) as f:
            open(os.path.join(BUILD, 'harness.sum'), 'w').write(f.read())
        out = os.path.join(BUILD, 'harness')
        rc, log = sh(['go', 'build', '-modfile', modfile, '-tags', 'verif', '-o', out, '.'], cwd=hdir, env=GOENV)
        if rc:
            raise BuildError('harness-build', log)
        return out


def run_harness(sdk, scripts, dump=True, tag='x'):
    """scripts: list of {'id', 'ops'}; returns {id: [obs]}"""
    h = os.path.join(BUILD, 'harness')
    os.makedirs(os.path.join(BUILD, 'io'), exist_ok=True)
    fin = os.path.join(BUILD, 'io', '%s.%s.%d.in.jsonl' % (tag, sdk, os.getpid()))
    fout = os.path.join(BUILD, 'io', '%s.%s.%d.out.jsonl' % (tag, sdk, os.getpid()))
    with open(fin, 'w') as f:
        for s in scripts:
            f.write(json.dumps(s) + '\n')
    cmd = [h, '-sdk', sdk, '-in', fin, '-out', fout] + (['-dump'] if dump else [])
    fprog = fout + '.progress'
    rc, log = sh(cmd, timeout=3600, env=dict(os.environ, VERIF_PROGRESS=fprog))
    if rc:
        last = None
        try:
            lines = open(fprog).read().strip().split('\n')
            sid, idx = lines[-1].split('\t')
            last = (sid, int(idx))
        except (OSError, ValueError):
            pass
        for f in (fin, fout, fprog):
            try: os.remove(f)
            except OSError: pass
        head = log[:1500] if ('fatal error' in log[:3000] or 'panic' in log[:3000]) else log[-4000:]
        if last:
            scr = [s for s in scripts if s['id'] == last[0]]
            if scr:
                raise HarnessCrash(head, sdk, scr[0], last[1])
        raise BuildError('harness-run', head)
    try: os.remove(fprog)
    except OSError: pass
    out = {}
    with open(fout) as f:
        for line in f:
            r = json.loads(line)
            out[r['id']] = r['obs']
    os.remove(fin)
    os.remove(fout)
    return out


HEADER = """From Coq Require Import List Strings.Byte Strings.String.
From Minidyn Require Import Base.Str Base.FMap Base.Outcome Model.Value Model.Key Model.Index Model.Table Model.Client Model.Observe.
Import ListNotations.
Local Open Scope byte_scope.
"""


THEORIES = [os.path.join(COQ, 'theories')]      # the model the cases are evaluated with (switched to the reference model by use_theories)


def use_theories(path=None):
    THEORIES[0] = path or os.path.join(COQ, 'theories')


def coqc_file(path, timeout=1800):
    rc, log = sh(['coqc', '-Q', THEORIES[0], 'Minidyn', path], cwd=os.path.dirname(path), timeout=timeout)
    return rc, log


def tables_differ_from_reference():
    """Gen/Tables.v (regenerated from /repo) vs coq/ref/Tables.v (the tables the proofs were written against)"""
    a = open(os.path.join(COQ, 'theories', 'Gen', 'Tables.v')).read()
    b = open(os.path.join(COQ, 'ref', 'Tables.v')).read()
    return a != b


def build_ref_model():
    """A copy of the executable model built with the committed reference tables: used to search for a concrete
    failing input when the generated tables (precedences, keywords, reserved words, limits, ...) changed."""
    import shutil
    with Lock('refmodel'):
        ref = os.path.join(BUILD, 'ref')
        th = os.path.join(ref, 'theories')
        if os.path.isdir(ref):
            shutil.rmtree(ref)
        for d in ('Base', 'Model', 'Gen'):
            shutil.copytree(os.path.join(COQ, 'theories', d), os.path.join(th, d),
                            ignore=shutil.ignore_patterns('*.vo', '*.vok', '*.vos', '*.glob', '.*.aux'))
        shutil.copy(os.path.join(COQ, 'ref', 'Tables.v'), os.path.join(th, 'Gen', 'Tables.v'))
        files = [l.strip() for l in open(os.path.join(COQ, '_CoqProject')) if l.startswith('theories/') and
                 l.split('/')[1] in ('Base', 'Model', 'Gen')]
        with open(os.path.join(ref, '_CoqProject'), 'w') as f:
            f.write('-Q theories Minidyn\n' + '\n'.join(files) + '\n')
        rc, log = sh(['coq_makefile', '-f', '_CoqProject', '-o', 'Makefile'], cwd=ref)
        rc, log = sh(['make', '-j16'], cwd=ref, timeout=3600)
        if rc:
            raise BuildError('ref-model', log[-3000:])
        return th


def check_cases(sdk, cases, tag='cases', shard=None, viewf=None):
    """cases: list of (id, ops, obs). Evaluates `mismatches` inside Coq (vm_compute).
    Returns list of (id, step) for failing cases; raises BuildError when coqc itself fails."""
    d = os.path.join(BUILD, 'cases')
    os.makedirs(d, exist_ok=True)
    shard = min(shard or max(4, (len(cases) + 13) // 14), 150)     # bounded, so that one coqc process stays small
    shards = [cases[i:i + shard] for i in range(0, len(cases), shard)]
    import itertools
    counter = itertools.count()

    def one(sh_cases):
        name = '%s_%s_%d_%d' % (re.sub(r'\W', '_', tag), sdk, os.getpid(), next(counter))
        path = os.path.join(d, name + '.v')
        with open(path, 'w') as f:
            f.write(HEADER)
            f.write('Definition cases : list (list (str * op) * list expected) :=\n [\n')
            f.write(';\n'.join(coqterm.ccase(ops, obs, sdk, viewf) for _, ops, obs in sh_cases))
            f.write('\n ].\n')
            f.write('Definition M := Eval vm_compute in mismatches %s cases.\nPrint M.\n' % sdk.upper())
        rc, log = coqc_file(path)
        for ext in ('.v', '.vo', '.vok', '.vos', '.glob'):
            try:
                os.remove(path[:-2] + ext)
            except OSError:
                pass
        try:
            os.remove(os.path.join(os.path.dirname(path), '.' + os.path.basename(path)[:-2] + '.aux'))
        except OSError:
            pass
        if rc and resource_failure(rc, log) and len(sh_cases) > 1:
            # the evaluator ran out of memory / stack / time on this shard: not a verdict; evaluate it in two halves
            h = len(sh_cases) // 2
            return one(sh_cases[:h]) + one(sh_cases[h:])
        if rc:
            raise BuildError('coqc-cases', log[-3000:])
        m = re.search(r'M\s*=\s*(.*?)\s*:\s*list', log, re.S)
        if not m:
            raise BuildError('coqc-cases-output', log[-3000:])
        body = m.group(1)
        bad = []
        for a, b_ in re.findall(r'\((\d+),\s*(\d+)\)', body):
            bad.append((sh_cases[int(a)][0], int(b_)))
        if not bad and not re.fullmatch(r'\[\s*\]|nil', body.strip()):
            raise BuildError('coqc-cases-parse', body[:500])
        return bad

    with ThreadPoolExecutor(max_workers=14) as ex:
        res = list(ex.map(one, shards))
    return [x for r in res for x in r]


def resource_failure(rc, log):
    """coqc did not answer for lack of resources (memory, stack, time, killed): says nothing about the cases"""
    return rc < 0 or rc in (137, 124) or any(m in log for m in ('Out of memory', 'Stack overflow', 'Timeout!', 'Killed', 'Cannot allocate memory'))


UHEADER = """From Coq Require Import List Strings.Byte Strings.String.
From Minidyn Require Import Base.Str Base.FMap Base.Outcome Model.Value Model.Token Model.Unit.
Import ListNotations.
Local Open Scope byte_scope.
"""


def check_units(units, tag='units', shard=None):
    """units: list of (id, op, ob). Returns the ids whose model result differs from the implementation's."""
    d = os.path.join(BUILD, 'cases')
    os.makedirs(d, exist_ok=True)
    shard = min(shard or max(20, (len(units) + 13) // 14), 600)     # bounded, so that one coqc process stays small
    shards = [units[i:i + shard] for i in range(0, len(units), shard)]
    import itertools
    counter = itertools.count()

    def one(su):
        name = '%s_%d_%d' % (re.sub(r'\W', '_', tag), os.getpid(), next(counter))
        path = os.path.join(d, name + '.v')
        with open(path, 'w') as f:
            f.write(UHEADER)
            f.write('Definition cases : list ucase :=\n [\n')
            f.write(';\n'.join(coqterm.cucase(op, ob) for _, op, ob in su))
            f.write('\n ].\nDefinition M := Eval vm_compute in umismatches cases.\nPrint M.\n')
        rc, log = coqc_file(path)
        for ext in ('.v', '.vo', '.vok', '.vos', '.glob'):
            try:
                os.remove(path[:-2] + ext)
            except OSError:
                pass
        try:
            os.remove(os.path.join(os.path.dirname(path), '.' + os.path.basename(path)[:-2] + '.aux'))
        except OSError:
            pass
        if rc and resource_failure(rc, log) and len(su) > 1:
            h = len(su) // 2
            return one(su[:h]) + one(su[h:])
        if rc:
            raise BuildError('coqc-units', log[-3000:])
        m = re.search(r'M\s*=\s*(.*?)\s*:\s*list', log, re.S)
        if not m:
            raise BuildError('coqc-units-output', log[-3000:])
        return [su[int(i)][0] for i in re.findall(r'\d+', m.group(1))]

    with ThreadPoolExecutor(max_workers=14) as ex:
        res = list(ex.map(one, shards))
    return [x for r in res for x in r]


def model_obs(sdk, ops, upto, obs=None):
    """Diagnostics: what the model observes for the step `upto` of a script (printed Coq term)."""
    d = os.path.join(BUILD, 'cases')
    os.makedirs(d, exist_ok=True)
    path = os.path.join(d, 'diag_%d.v' % os.getpid())
    with open(path, 'w') as f:
        f.write(HEADER)
        f.write('Definition ops : list (str * op) := %s.\n' % coqterm.clist([coqterm.cop(o) for o in ops[:upto + 1]]))
        if obs is not None:
            f.write('Definition x : expected := %s.\n' % coqterm.cexpected(ops[upto], obs[upto], sdk))
            f.write('Definition D := Eval vm_compute in diag_step %s (fst (sys_run %s [] (removelast ops))) (last ops (bs "", ONewClient)) x.\nPrint D.\n' % (sdk.upper(), sdk.upper()))
        f.write('Definition R := Eval vm_compute in (let r := sys_run %s [] ops in (last (snd r) (ok_obs PNone []), '
                'map (fun nc => (fst nc, abs_of_client (snd nc))) (fst r))).\nPrint R.\n' % sdk.upper())
        if obs is not None and obs[upto].get('state') is not None:
            f.write('Definition X := Eval vm_compute in %s.\nPrint X.\n' % coqterm.cabs_state(obs[upto]['state']))
    rc, log = coqc_file(path)
    for ext in ('.v', '.vo', '.vok', '.vos', '.glob'):
        try:
            os.remove(path[:-2] + ext)
        except OSError:
            pass
    return log
