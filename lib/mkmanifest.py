"""Writes MANIFEST.json from the per-property configuration (claimed = has a Properties/<id>.v file and streams)."""
import json, os, sys
ROOT = os.path.dirname(os.path.dirname(os.path.abspath(__file__)))
sys.path.insert(0, ROOT)
from lib import props

NOTES = {
    'C14': ('PARTIAL. Proved: the copy policy of the four attribute-value mappers, read from the sources on every run, copies every kind of value in both directions; a copy under such a policy shares no mutable cell with its argument, for value trees of any shape',
            'not expressible in the model: actual pointer identity in the Go heap. It is OBSERVED by the poke matrix (2 clients x 7 directions x 15 mutable locations: mutate the caller-side structure after the call returned and read again), which must agree with the extracted policy'),
    'C11': ('PARTIAL. Proved: the lock discipline extracted from the sources of both clients on every run (every access to the shared fields under the mutex, no re-entrant locking), every public method - batch calls, table management and test helpers included - enters at most one critical section per call (call graph with calls before / while holding the lock and calls inside loops), and, for the mutex semantics, the accesses of every concurrent execution are ordered as a serial execution of whole critical sections',
            'not expressible in the model: the Go memory model and real schedules. Data-race freedom and linearizability of outcomes are OBSERVED (go test -race stress of every method mix; N concurrent ADD 1 = N; one winner among racing conditional puts and racing CreateTable; the reproducers of the seven repaired concurrency defects), not proved'),
    'C02': ('an unlimited read of the base table is exactly the selection of the matching items in key order (reverse for backward), for every interpreter, in every TInv state',
            'also proved through secondary indexes: under IInv the read evaluates exactly the indexed items in (index key, primary key) order; N/B sort keys are ordered as text (known finding C12-2)'),
    'C04': ('base table AND secondary indexes, every interpreter, key condition/filter, both directions, Limit >= 1: following LastEvaluatedKey ends within |entries|+1 pages and the pages concatenate to exactly the unpaginated result (every entry once, in order, also inside runs of equal index keys); on the base table resuming after any start key (stored or deleted meanwhile) returns exactly the matching items ordered after it; resume position decided by order; page size <= Limit',
            'premises: TInv, IInv (proved for every reachable state), KInv (proved for reachable states of histories whose updates keep the key attributes, cf. known finding C13-2), the request\'s expressions evaluate without error; non-vacuity witnesses in coq/theories/Witness/W04.v; resume-after-deleted-boundary on indexes is covered by the page stream (the theorem there follows the LastEvaluatedKey chain of an unchanged table)'),
    'C06': ('precedence chain from the generated tables; missing-attribute, type-sensitivity, ordering, NULL-exists and connective laws for all values',
            'a DynamoDB reference semantics is not available offline: the laws are those the property text states; BETWEEN/IN on paths and size() on sets are known findings'),
    'C07': ('frame theorem: attributes no action targets keep their value (through the evaluator representation) for every update expression, item and bindings, an attribute named like a value placeholder of the request is kept exactly; removed means gone; SET stores a copy; plain values pass through unchanged',
            'right-hand sides see earlier actions of the same expression (known finding C07-1); ADD on nested paths ignored (C07-2)'),
    'C09': ('totality: both parsers return a tree and an error count for EVERY byte string (fuel adequacy by a measure on the unconsumed input, mutual induction over the nine parse functions; uses the generated tables: no parse function registered for EOF, no single-character token or keyword of type EOF), hence Match/Update always end in a verdict/item or a syntax/unsupported error; strictness (accepted => fully consumed; BETWEEN / "." / "[" operands are identifier tokens, IN requires its parenthesis, or an error is recorded; the formerly accepted dangling sentences are syntax errors), lone identifier rejected, keywords case-sensitive, rejections surface as panic/error with unchanged table',
            'the absence of Go runtime faults (nil dereference, index out of range) is a property of the Go code, not of the model: it is covered by the correspondence on the malformed/expr/update streams, where a runtime panic of the implementation is a mismatch (five such panics were found and fixed)'),
    'C12': ('exactness of canonical integers < 2000 (exhaustive, in-kernel), notation normalisation; refutation witnesses for 38-digit precision and decimal arithmetic',
            'numbers are float64 in the implementation: the property is largely refuted on the unchanged tree (known findings C12-1, C12-2); float64 parse/format are modelled on SpecFloat and validated against strconv on every run'),
    'C01': ('refinement of single-item operations to a key->item map: TInv for all histories, effect/frame lemmas for every interpreter',
            'envelope: key strings of distinct keys are distinct (hash-only schemas, or hash values without "."; see C13 known finding on the "." separator)'),
    'C03': ('IInv (refs = exactly the items with the index key attributes; sortedKeys = sorted multiset of index keys) for every reachable state, index creation with backfill included',
            'no side condition on the history (UpdateTable can not re-type a key attribute: fix c854008); index ItemCount = number of indexed items'),
    'C05': ('condition locality (only the item under the request key is read) and atomicity of refused writes, for every interpreter', ''),
    'C08': ('every failing single-request data operation returns the state unchanged; writes are all-or-nothing over base table and indexes; rejected batches are rejected before any write; every failing BatchWriteItem of any reachable client (no failure emulated) has changed nothing', 'batch writes that succeed partially under an emulated internal-server failure report the rest as unprocessed (not an error result)'),
    'C15': ('active failure => configured error and unchanged state for every single data call; toggles change only the flag; activate/calls/deactivate is the identity; a BatchWriteItem under the internal-server failure returns every request of every table as unprocessed and changes nothing, for any batch; under the deprecated forced failure it fails as a whole whatever it holds; the identity also holds for episodes that contain batch writes', '-'),
    'C13': ('key injectivity (hash-only S/N schemas; dot-free hash values), a key is rejected iff a key attribute is missing or ill-typed, every stored item is filed under the key string of its own key attributes (reachable states of histories whose updates keep key attributes), the schema check demands key types S/N/B and the key attributes of every table have one in every reachable state',
            'known findings: "." separator collisions (C13-1), UpdateItem may rewrite a key attribute (C13-2, the existing suite relies on it), BatchGetItem keeps malformed keys as unprocessed (C13-3)'),
    'C20': ('registration key equality <=> same word sequence under the four white-space characters of the language, for every table name and expression (length-prefixed key, injective); exact dispatch; fallback on a miss; update miss = Unsupported with the table untouched', ''),
    'C19': ('a batch of succeeding write requests = the fold of the single operations (one table, several tables); closure without hypotheses: a BatchWriteItem that answers success with nothing unprocessed has left exactly the fold of its single requests, each succeeding where it is performed; the up-front validation alone decides which batches succeed; BatchGetItem answers per table with exactly the items of the individual GetItem calls; an invalid table entry or an unknown table rejects the whole call', 'known findings: absent keys and malformed keys are reported as unprocessed (the existing suite relies on it); the SDK v1 client has no BatchGetItem'),
    'C16': ('a well-formed batch of any reachable client is never rejected; reserved words (573, generated) rejected in every token position of every expression of a request, in any letter case; undefined, unused and malformed placeholders; batch limit 25 exact in both clients; write-request shape', 'known findings C16-1..3 (placeholder usage is a substring test, key-condition shape unchecked)'),
    'C18': ('table frame (an operation on table A leaves table B untouched), ItemCount = number of stored items in every reachable state', ''),
}


def main():
    all_ids = [json.loads(l)['id'] for l in open(os.path.join(ROOT, 'properties.jsonl'))]
    checks, na = [], []
    for pid in all_ids:
        if pid in props.PROPS and props.theorem_names(pid):
            text, note = NOTES.get(pid, ('', ''))
            checks.append(dict(
                property_id=pid,
                quick_cmd='./check %s --tier quick' % pid,
                thorough_cmd='./check %s --tier thorough' % pid,
                evidence_file='/verif/evidence/%s.json' % pid,
                replay_cmd_template='./check %s --replay {path}' % pid,
                engine='coq-model',
                level_claimed=dict(category='proof',
                                   text='Coq theorems about the Gallina model of the Go code (%s); the model is tied to /repo on every run by regenerated tables and by evaluating it inside Coq on the scripts the real clients ran.' % text,
                                   design_ref='DESIGN.md section 7 (%s)' % pid),
                level_note=('Trusted: Coq 8.16.1 kernel and vm_compute; no axioms (Print Assumptions: closed under the global context); hand-written model validated by the correspondence check; translator; Go harness. ' + note).strip(),
                technique='machine-checked proof in Coq over an executable model + in-kernel correspondence check against the implementation'))
        else:
            na.append(dict(property_id=pid, reason='not claimed yet: model slice, theorems or dedicated harness still under construction (see DESIGN.md section 12)'))
    m = dict(version=1,
             setup_cmd='./setup.sh',
             hooks=dict(guard='verif', enable='go build -tags verif (files core/verif_hooks.go, aws-v1/client/verif_hooks.go, aws-v2/client/verif_hooks.go)',
                        baseline_off_cmd='cd /repo && GOFLAGS=-mod=mod GOPROXY=off go test -count=1 ./...', add_only=True,
                        source_commits=['0200b1f']),
             engines=[dict(name='coq-model', path='/verif/coq', serves_properties=[c['property_id'] for c in checks],
                           kind_free_text='Coq 8.16.1 development: executable Gallina model of minidyn, theorems per property, in-kernel evaluation of the model on observed scripts')],
             checks=checks, not_applicable=na,
             notes='See DESIGN.md. Known findings of the unchanged tree are listed in known_findings.json and replayed by every check of the property they belong to.')
    json.dump(m, open(os.path.join(ROOT, 'MANIFEST.json'), 'w'), indent=1)
    print('claimed:', [c['property_id'] for c in checks])


if __name__ == '__main__':
    main()
