"""Script generators. Every random choice derives from one random.Random(seed)."""
import random, json

S = lambda s: {"S": s}
N = lambda s: {"N": s}

HASHES = ["a", "b", "c", "a.b", "ab", ""]
RANGES = ["1", "2", "10", "b.c", "c", "b"]
NUMKEYS = ["1", "2", "10", "1.0", "007"]
IDXVALS = ["x", "y", "z", "x.y", "xy", ""]
NUMS = ["1", "2", "10", "1.5", "0.1", "-3", "100", "1e2", "007", "2.50", "0", "010", "0017", "8", "1234567890123456", "9007199254740991",
        # integer-valued numbers beyond the 64-bit integers (exactly representable in binary floating point)
        "100000000000000000000", "-10000000000000000000", "1E+30", "9223372036854775808", "2e19",
        # zero in several notations (negative zero is zero)
        "-0", "0.0", "-0.0", "0e5"]
TABLES = ["tbl", "tb2"]

# binary keys: bytes below and above 0x10 mixed, values that are prefixes of each other, different lengths
BINKEYS = ["\x01\x23", "\x12\x03", "\x0a\x0b", "\xab", "\x01", "a", "\x00", ""]
SCHEMAS = [
    dict(hash=("h", "S"), range=None),
    dict(hash=("h", "S"), range=("r", "S")),
    dict(hash=("h", "S"), range=("r", "N")),
    dict(hash=("h", "N"), range=None),
    dict(hash=("h", "S"), range=None),
    dict(hash=("h", "S"), range=("r", "S")),
    dict(hash=("h", "B"), range=None),
    dict(hash=("h", "S"), range=("r", "B")),
]


def keyval(r, typ, spool):
    if typ == "S": return S(r.choice(spool))
    if typ == "N": return N(r.choice(NUMKEYS))
    return {"B": r.choice(BINKEYS)}


def side_rng(obj):
    """a generator of its own, derived from what has been generated so far: choices added to a generator later draw from
    it, so that the scripts the main generator produced before stay what they were (recorded seeded changes keep being
    met by the inputs that found them)"""
    import json as _j
    return random.Random(_j.dumps(obj, sort_keys=True, default=str))


class Gen:
    def __init__(self, seed):
        self.r = random.Random(seed)

    # ---------- values ----------
    def scalar(self):
        r = self.r
        k = r.randrange(6)
        if k == 0: return S(r.choice(["", "x", "y", "xy", "hello", "a b"]))
        if k == 1: return N(r.choice(NUMS))
        if k == 2: return {"BOOL": r.random() < 0.5}
        if k == 3: return {"NULL": self.r.random() < 0.8}      # {"NULL": false} is NULL too (both SDK clients normalise it)
        if k == 4: return {"B": r.choice(["", "\x01\x02", "xy", "\xff\x00"])}
        return S(r.choice(IDXVALS))

    def value(self, depth=2):
        r = self.r
        k = r.randrange(10)
        if depth <= 0 or k < 5: return self.scalar()
        if k == 5: return {"L": [self.value(depth - 1) for _ in range(r.randrange(0, 4))]}
        if k == 6: return {"M": {r.choice(["x", "y", "z", "k"]): self.value(depth - 1) for _ in range(r.randrange(0, 3))}}
        if k == 7: return {"SS": r.sample(["p", "q", "r", "x"], r.randrange(1, 4))}
        if k == 8: return {"NS": r.sample(["1", "2", "3", "10"], r.randrange(1, 4))}
        return {"BS": r.sample(["\x01", "ab", "b"], r.randrange(1, 3))}

    # ---------- table setup ----------
    def key_of(self, schema, exact=True):
        r = self.r
        k = {}
        hn, ht = schema["hash"]
        k[hn] = keyval(r, ht, HASHES)
        if schema["range"]:
            rn, rt = schema["range"]
            k[rn] = keyval(r, rt, RANGES)
        if not exact:
            q = r.random()
            if q < 0.04 and schema["range"]: del k[schema["range"][0]]
            elif q < 0.08: k[hn] = N("1") if ht == "S" else S("a")
            elif q < 0.10: del k[hn]
            elif q < 0.25: k["zz"] = S("extra")      # more than the key attributes
        return k

    def item_of(self, t):
        r = self.r
        it = self.key_of(t["schema"], exact=r.random() < 0.9)
        if r.random() < 0.65:
            it["g"] = S(r.choice(IDXVALS)) if r.random() < 0.95 else N("1")
        if r.random() < 0.5:
            it["f"] = S(r.choice(IDXVALS)) if r.random() < 0.95 else {"BOOL": True}
        if r.random() < 0.04:
            # an attribute literally named like a name placeholder: it is an ordinary attribute, no expression touches it
            it[r.choice(["#g", "#n", "#a"])] = S(r.choice(IDXVALS))
        if r.random() < 0.05:
            # ... or like a value placeholder: the value sent with the request is what ":v" means, not this attribute
            it[r.choice([":v", ":n", ":w", ":h", ":r", ":a"])] = r.choice([S(r.choice(IDXVALS)), N(r.choice(NUMS)), S(r.choice(HASHES))])
        if r.random() < 0.08:
            # an attribute whose own name contains a dot, reached through a name placeholder (no attribute "dd" exists, so the
            # reading of the name as a document path - known finding - does not come into play)
            it["dd.y"] = S(r.choice(IDXVALS))
        if side_rng(it).random() < 0.2:
            # an attribute that exists and holds NULL
            it["nl"] = {"NULL": True}
        if r.random() < 0.06:
            # empty containers among the attributes (also nested): they are values like any other
            it[r.choice(["e", "m"])] = r.choice([{"M": {}}, {"L": []}, {"M": {"in": {"M": {}}}}, {"L": [{"M": {}}]}])
        for name in ["n", "s", "ss", "l", "m", "x"]:
            if r.random() < 0.3:
                it[name] = {"n": lambda: N(r.choice(NUMS)), "s": lambda: S(r.choice(["", "x", "hello"])),
                            "ss": lambda: {"SS": r.sample(["p", "q", "r"], r.randrange(1, 3))},
                            "l": lambda: {"L": [self.scalar() for _ in range(r.randrange(0, 3))]},
                            "m": lambda: {"M": {"x": self.scalar()}}, "x": lambda: self.value(2)}[name]()
        return it

    def create_ops(self, client, name, style=None):
        r = self.r
        schema = r.choice(SCHEMAS)
        t = dict(name=name, schema=schema, indexes=[])
        ops = []
        style = style or r.choice(["helper", "create", "create"])
        if style == "helper" and schema["hash"][1] == "S" and (not schema["range"] or schema["range"][1] == "S"):
            ops.append(dict(op="add_table", client=client, table=name, hash=schema["hash"][0],
                            range=schema["range"][0] if schema["range"] else ""))
            if r.random() < 0.7:
                ops.append(dict(op="add_index", client=client, table=name, index="gix", hash="g", range=""))
                t["indexes"].append(dict(name="gix", hash="g", range=None))
            if r.random() < 0.4:
                ops.append(dict(op="add_index", client=client, table=name, index="gfx", hash="g", range="f"))
                t["indexes"].append(dict(name="gfx", hash="g", range="f"))
            return t, ops
        op = dict(op="create_table", client=client, table=name,
                  hash=dict(name=schema["hash"][0], type=schema["hash"][1]),
                  billing=r.choice(["PAY_PER_REQUEST", "PAY_PER_REQUEST", "PROVISIONED"]), throughput=r.random() < 0.8,
                  attrs=[dict(name="g", type="S"), dict(name="f", type="S")], gsi=[], lsi=[])
        if schema["range"]:
            op["range"] = dict(name=schema["range"][0], type=schema["range"][1])
        if r.random() < 0.7:
            op["gsi"].append(dict(name="gix", hash=dict(name="g"), throughput=r.random() < 0.85))
            t["indexes"].append(dict(name="gix", hash="g", range=None))
        if r.random() < 0.4:
            op["gsi"].append(dict(name="gfx", hash=dict(name="g"), range=dict(name="f"), throughput=True))
            t["indexes"].append(dict(name="gfx", hash="g", range="f"))
        if schema["range"] and r.random() < 0.4:
            op["lsi"].append(dict(name="lix", hash=dict(name=schema["hash"][0]), range=dict(name="f")))
            t["indexes"].append(dict(name="lix", hash=schema["hash"][0], range="f"))
        if schema["range"] and schema["range"][1] == "S" and schema["hash"][1] == "S" and r.random() < 0.3:
            # inverted index: keyed on the table's own key attributes
            op["gsi"].append(dict(name="inv", hash=dict(name=schema["range"][0]), range=dict(name=schema["hash"][0]), throughput=True))
            t["indexes"].append(dict(name="inv", hash=schema["range"][0], range=schema["hash"][0]))
        if r.random() < 0.02 and op["gsi"]:
            # an index name of two characters: refused by the request validation of the SDK v1 client only
            op["gsi"][0]["name"] = "gx"; t["indexes"][0]["name"] = "gx"
        r2 = side_rng(op)
        if r2.random() < 0.25:
            # the same key schemas with the RANGE element listed first (the order of the elements carries no meaning)
            if schema["range"] and r2.random() < 0.7: op["range_first"] = True
            for ix in op["gsi"] + op["lsi"]:
                if "range" in ix and r2.random() < 0.6: ix["range_first"] = True
        if not op["gsi"]: del op["gsi"]
        if not op["lsi"]: del op["lsi"]
        if r.random() < 0.03:
            # a key attribute (of the table or of an index) declared with a type that is no key type: rejected
            bad = r.choice(["BOOL", "SS", "L", "M", "NULL", "X", ""])
            if r.random() < 0.5 or not t["indexes"]: op[r.choice(["hash", "range"] if schema["range"] else ["hash"])]["type"] = bad
            else: op["attrs"][0]["type"] = bad
        ops.append(op)
        return t, ops

    # ---------- expressions (templates over the attributes the generators use) ----------
    def cond(self):
        """returns (expression, names, values)"""
        r = self.r
        v, w = r.choice(IDXVALS), r.choice(IDXVALS)
        n1, n2 = r.choice(NUMS), r.choice(NUMS)
        T = [
            ("attribute_exists(h)", {}, {}), ("attribute_not_exists(h)", {}, {}),
            ("attribute_exists(g)", {}, {}), ("attribute_not_exists(g)", {}, {}),
            ("attribute_exists(nl)", {}, {}), ("attribute_not_exists(nl)", {}, {}), ("attribute_type(nl, :t)", {}, {":t": S("NULL")}),
            ("g = :v", {}, {":v": S(v)}), ("g <> :v", {}, {":v": S(v)}), ("g < :v", {}, {":v": S(v)}),
            ("n < :n", {}, {":n": N(n1)}), ("n >= :n", {}, {":n": N(n1)}), ("n = :n", {}, {":n": N(n1)}),
            ("n BETWEEN :a AND :b", {}, {":a": N(n1), ":b": N(n2)}),
            ("g IN (:v, :w)", {}, {":v": S(v), ":w": S(w)}),
            ("begins_with(g, :v)", {}, {":v": S(v[:1])}),
            ("contains(ss, :v)", {}, {":v": S(r.choice(["p", "q"]))}),
            ("contains(s, :v)", {}, {":v": S("ell")}),
            ("NOT (g = :v)", {}, {":v": S(v)}), ("NOT g = :v", {}, {":v": S(v)}),
            ("#d = :v", {"#d": "dd.y"}, {":v": S(v)}), ("attribute_not_exists(#d)", {"#d": "dd.y"}, {}), ("#d <> :v AND attribute_exists(#d)", {"#d": "dd.y"}, {":v": S(v)}),
            ("g IN (f, :v)", {}, {":v": S(v)}), ("zq IN (nope, :v)", {}, {":v": S(v)}), ("zq IN (nope)", {}, {}), ("f IN (zq, g)", {}, {}),
            ("n IN (:z, :n)", {}, {":z": N(r.choice(["-0", "0", "0.0"])), ":n": N(n1)}), ("contains(l, :z)", {}, {":z": N(r.choice(["-0", "0", "1.0", "1"]))}),
            ("NOT g = :v AND attribute_exists(f)", {}, {":v": S(v)}), ("attribute_exists(h) AND NOT g = :v AND f = :w", {}, {":v": S(v), ":w": S(w)}),
            ("NOT attribute_exists(f) AND g = :v", {}, {":v": S(v)}), ("NOT g = :v OR f = :w AND NOT n > :n", {}, {":v": S(v), ":w": S(w), ":n": N(n1)}),
            ("n > :n", {}, {":n": N(r.choice(["1.5", "9.5", "0.6", "99.75"]))}), ("n <= :n", {}, {":n": N(r.choice(["1.5", "9.5", "0.6", "2.25"]))}),
            ("m = :m", {}, {":m": {"M": {"x": self.scalar()}}}), ("m <> :m", {}, {":m": {"M": {"x": self.scalar(), "y": S("more")}}}),
            ("m = :m", {}, {":m": {"M": {}}}), ("m IN (:o, :m)", {}, {":o": S("no"), ":m": {"M": {"x": self.scalar(), "zz": S("extra")}}}),
            ("g = :v AND attribute_exists(f)", {}, {":v": S(v)}),
            ("g = :v OR n > :n", {}, {":v": S(v), ":n": N(n1)}),
            ("g = :v OR f = :w AND n > :n", {}, {":v": S(v), ":w": S(w), ":n": N(n1)}),
            ("size(g) > :n", {}, {":n": N("1")}),
            ("attribute_type(g, :t)", {}, {":t": S(r.choice(["S", "N", "NULL", "Q"]))}),
            ("#g = :v", {"#g": "g"}, {":v": S(v)}),
            # several name placeholders standing for different attributes
            ("#a = :v AND #b = :w", {"#a": "g", "#b": "f"}, {":v": S(v), ":w": S(w)}),
            ("#a = :v OR #b = :w", {"#a": "g", "#b": "f"}, {":v": S(v), ":w": S(w)}),
            ("#a = #b", {"#a": "g", "#b": "f"}, {}), ("#a <> #b", {"#a": "g", "#b": "h"}, {}),
            ("attribute_exists(#a) AND attribute_not_exists(#b)", {"#a": "h", "#b": "f"}, {}),
            ("m.x = :v", {}, {":v": S(v)}), ("l[0] = :v", {}, {":v": S(v)}), ("l[5] = :v", {}, {":v": S(v)}),
            ("x = :x", {}, {":x": self.value(2)}), ("x <> :x", {}, {":x": self.value(1)}),
            ("g = :v AND", {}, {":v": S(v)}), ("g = = :v", {}, {":v": S(v)}), ("(g = :v", {}, {":v": S(v)}),
            ("g = :v f = :w", {}, {":v": S(v), ":w": S(w)}), ("g = :v and f = :w", {}, {":v": S(v), ":w": S(w)}),
            ("size = :v", {}, {":v": S(v)}), ("name = :v", {}, {":v": S(v)}),
            ("g = :v", {}, {":v": S(v), ":unused": S(w)}), ("g = :missing", {}, {}),
            ("n = :s", {}, {":s": S("1")}), ("n < :s", {}, {":s": S("1")}), ("", {}, {}), (" ", {}, {}),
        ]
        return r.choice(T)

    def projection(self):
        """ProjectionExpression / ExpressionAttributeNames of a read (validated by the clients, not applied)"""
        r = self.r
        k = r.random()
        if k < 0.6: return {}
        if k < 0.7: return dict(projection="g, n")
        if k < 0.85: return dict(projection="#p, g", names={"#p": "name"})
        if k < 0.92: return dict(projection="g", names={"#p": "name"})          # a name the projection does not use
        if k < 0.96: return dict(names={"#p": "name"})                            # names without any expression
        return dict(projection="#p", names={"#p": "name", "#q": "size"})

    def update_expr(self):
        r = self.r
        v = r.choice(IDXVALS)
        n1 = r.choice(NUMS)
        T = [
            ("SET g = :v", {}, {":v": S(v)}), ("SET f = :v", {}, {":v": S(v)}), ("REMOVE g", {}, {}), ("REMOVE f", {}, {}),
            ("SET g = :v, f = :w", {}, {":v": S(v), ":w": S(r.choice(IDXVALS))}),
            ("SET n = n + :n", {}, {":n": N(n1)}), ("SET n = n - :n", {}, {":n": N(n1)}),
            ("SET n = if_not_exists(n, :z) + :n", {}, {":z": N("0"), ":n": N(n1)}),
            ("ADD n :n", {}, {":n": N(n1)}), ("ADD ss :s", {}, {":s": {"SS": ["q", "z"]}}),
            ("SET before = if_not_exists(n, :z) ADD n :n", {}, {":z": N("0"), ":n": N(n1)}), ("SET prev = if_not_exists(m, :e), m.x = :v", {}, {":e": {"M": {}}, ":v": S(v)}),
            ("SET nx = n ADD nx :n", {}, {":n": N(n1)}), ("SET l2 = list_append(l, :l) REMOVE l[0]", {}, {":l": {"L": [S(v)]}}),
            ("DELETE ss :s", {}, {":s": {"SS": ["q"]}}), ("DELETE ss :s", {}, {":s": {"SS": ["p", "q", "r"]}}),
            ("SET l = list_append(l, :l)", {}, {":l": {"L": [S(v)]}}), ("SET l2 = list_append(l, :l)", {}, {":l": {"L": [S(v)]}}),
            ("SET l2 = list_append(:l, l), l3 = l", {}, {":l": {"L": [N(n1)]}}), ("SET n = n - :n - :n", {}, {":n": N(n1)}), ("SET n = :a - n - :n", {}, {":a": N("100"), ":n": N(n1)}),
            ("SET l = list_append(if_not_exists(l, :e), :l)", {}, {":e": {"L": []}, ":l": {"L": [N(n1)]}}),
            ("REMOVE l[0]", {}, {}), ("REMOVE l[0], l[1]", {}, {}), ("SET l[1] = :v", {}, {":v": S(v)}),
            ("SET m.x = :v", {}, {":v": S(v)}), ("REMOVE m.x", {}, {}), ("SET m = :m", {}, {":m": {"M": {"x": S(v)}}}),
            ("SET s = :v REMOVE x", {}, {":v": S(v)}), ("SET x = :x", {}, {":x": self.value(2)}),
            ("SET #n = :v", {"#n": "s"}, {":v": S(v)}), ("SET g = f", {}, {}),
            ("REMOVE #n", {"#n": r.choice(["g", "f", "s", "x"])}, {}), ("DELETE #n :s", {"#n": "ss"}, {":s": {"SS": ["p", "q", "r"]}}),
            ("REMOVE #n.x", {"#n": "m"}, {}), ("SET #n = :v REMOVE #o", {"#n": "g", "#o": "f"}, {":v": S(v)}), ("SET x = g, g = :v", {}, {":v": S(v)}),
            ("SET g = :n", {}, {":n": N("1")}), ("SET g :v", {}, {":v": S(v)}), ("SET", {}, {}), ("g = :v", {}, {":v": S(v)}),
            ("SET size = :v", {}, {":v": S(v)}), ("ADD g :v", {}, {":v": S(v)}), ("SET h = :v", {}, {":v": S(v)}),
            ("SET n = :n", {}, {":n": N(r.choice(["9007199254740993", "0.1", "1e2", "007", "2.50", "-0"]))}),
        ]
        return r.choice(T)

    def keycond(self, t, index):
        r = self.r
        if index is None:
            hn, ht = t["schema"]["hash"]
            rng = t["schema"]["range"]
            hv = keyval(r, ht, HASHES)
            rn = rng[0] if rng else None
            rv = lambda: keyval(r, rng[1], RANGES)
        else:
            hn, rn = index["hash"], index["range"]
            hv = S(r.choice(IDXVALS)) if hn in ("g", "f") else S(r.choice(RANGES if hn == "r" else HASHES))
            rv = lambda: S(r.choice(IDXVALS if rn in ("g", "f") else HASHES))
        if rn is None or r.random() < 0.4:
            return "%s = :h" % hn, {":h": hv}
        k = r.randrange(8)
        if k < 5:
            opr = ["=", "<", "<=", ">", ">="][k]
            return "%s = :h AND %s %s :r" % (hn, rn, opr), {":h": hv, ":r": rv()}
        if k == 5:
            return "%s = :h AND %s BETWEEN :a AND :b" % (hn, rn), {":h": hv, ":a": rv(), ":b": rv()}
        if k == 6:
            p = rv()
            if "S" in p: p = S(p["S"][:1])
            return "%s = :h AND begins_with(%s, :p)" % (hn, rn), {":h": hv, ":p": p}
        return "%s > :r" % rn, {":r": rv()}

    # ---------- scripts ----------
    def data_op(self, client, tabs, nops):
        """one data operation; on a table that does not exist the request sometimes ALSO breaks an expression rule (an unused
        name): which of the two errors is reported must not depend on the SDK flavour"""
        out = self._data_op(client, tabs, nops)
        if out and out[0].get("table") == "nope" and out[0]["op"] in ("put", "get", "update", "delete", "query", "scan") and self.r.random() < 0.5:
            out[0]["names"] = dict(out[0].get("names") or {}, **{"#zz": "g"})
        return out

    def _data_op(self, client, tabs, nops):
        """one data operation on a (usually existing) table; may reference earlier LastEvaluatedKeys"""
        r = self.r
        t = r.choice(tabs)
        name = t["name"] if r.random() < 0.96 else r.choice(["nope", "nope", "t"])     # "t": refused by the SDK v1 request validation only
        k = r.random()
        base = dict(client=client, table=name)
        if k < 0.28:
            op = dict(op="put", item=self.item_of(t), **base)
            if r.random() < 0.35: op["return_old"] = True
            if r.random() < 0.25:
                e, nm, vs = self.cond()
                op.update(cond=e, names=nm, values=vs)
            return [op]
        if k < 0.45:
            e, nm, vs = self.update_expr()
            op = dict(op="update", key=self.key_of(t["schema"], exact=r.random() < 0.95), expr=e, names=dict(nm), values=dict(vs), **base)
            if r.random() < 0.3:
                ce, cn, cv = self.cond()
                if not (set(cv) & set(op["values"])) :
                    op["cond"] = ce; op["names"].update(cn); op["values"].update(cv)
                    if r.random() < 0.5: op["rvoccf"] = "ALL_OLD"
            return [op]
        if k < 0.55:
            op = dict(op="delete", key=self.key_of(t["schema"], exact=r.random() < 0.95), return_old=r.random() < 0.5, **base)
            if r.random() < 0.3:
                e, nm, vs = self.cond()
                op.update(cond=e, names=nm, values=vs)
            return [op]
        if k < 0.65:
            op = dict(op="get", key=self.key_of(t["schema"], exact=r.random() < 0.9), **base)
            op.update(self.projection())
            return [op]
        if k < 0.85:
            index = r.choice(t["indexes"]) if t["indexes"] and r.random() < 0.5 else None
            scan = r.random() < 0.45
            op = dict(op="scan" if scan else "query", names={}, values={}, **base)
            if index: op["index"] = index["name"]
            elif r.random() < 0.03: op["index"] = "nope"
            if not scan:
                kc, vs = self.keycond(t, index)
                op["keycond"] = kc; op["values"].update(vs)
                if r.random() < 0.4: op["forward"] = r.random() < 0.5
            if r.random() < 0.35:
                e, nm, vs = self.cond()
                if not (set(vs) & set(op["values"])):
                    op["filter"] = e; op["names"].update(nm); op["values"].update(vs)
            if r.random() < 0.08:
                # a start key written by hand: complete, lacking a key attribute, or with a key attribute (of the table
                # or of the index) of the wrong type - the last two are rejected, not dropped
                esk = self.key_of(t["schema"], exact=r.random() < 0.4)
                if r.random() < 0.3 and t["schema"]["range"]: esk.pop(t["schema"]["range"][0], None)
                if index:
                    esk[index["hash"]] = S(r.choice(IDXVALS)) if r.random() < 0.7 else N("1")
                    if index["range"] and r.random() < 0.8:
                        esk[index["range"]] = S(r.choice(IDXVALS)) if r.random() < 0.8 else {"BOOL": True}
                op["esk"] = esk
                if r.random() < 0.5: op["limit"] = r.randrange(1, 4)
                return [op]
            if r.random() < 0.5:
                op["limit"] = r.randrange(1, 4)
                out = [op]
                # follow the pages, sometimes deleting or writing in between
                for _ in range(r.randrange(1, 4)):
                    if r.random() < 0.3:
                        out.append(dict(op="delete", key=self.key_of(t["schema"]), **base))
                    nxt = json.loads(json.dumps(op))
                    nxt["esk"] = {"$lek": nops + len(out) - 1 if out[-1]["op"] in ("scan", "query") else nops + len(out) - 2}
                    out.append(nxt)
                return out
            return [op]
        if k < 0.90:
            reqs = {}
            for _ in range(r.randrange(1, 4)):
                tt = r.choice(tabs)
                l = reqs.setdefault(tt["name"], [])
                q = r.random()
                if q < 0.6: l.append({"put": self.item_of(tt)})
                elif q < 0.95: l.append({"delete": self.key_of(tt["schema"], exact=r.random() < 0.85)})
                else: l.append({})
            if r.random() < 0.05:
                reqs[t["name"]] = [{"put": self.item_of(t)} for _ in range(26)]
            return [dict(op="batch_write", client=client, requests=reqs)]
        if k < 0.94:
            reqs = {}
            for _ in range(r.randrange(1, 4)):
                tt = r.choice(tabs)
                reqs.setdefault(tt["name"], []).append(self.key_of(tt["schema"], exact=r.random() < 0.9))
            op = dict(op="batch_get", client=client, requests=reqs)
            opts = {tn: self.projection() for tn in reqs if r.random() < 0.4}
            opts = {tn: o for tn, o in opts.items() if o}
            if opts: op["opts"] = opts
            return [op]
        if k < 0.97:
            return [dict(op="describe_table", **base)]
        return [dict(op="transact", client=client)]

    def mixed_script(self, n=30, clients=("c",)):
        r = self.r
        ops, tabs = [], {c: [] for c in clients}
        for c in clients:
            for name in r.sample(TABLES, r.randrange(1, 3)):
                t, o = self.create_ops(c, name)
                tabs[c].append(t); ops += o
        while len(ops) < n:
            c = r.choice(clients)
            k = r.random()
            if not tabs[c]:
                t, o = self.create_ops(c, r.choice(TABLES)); tabs[c].append(t); ops += o
                continue
            if k < 0.88:
                ops += self.data_op(c, tabs[c], len(ops))
            elif k < 0.91:
                ops.append(dict(op=r.choice(["emulate_failure"]), client=c, cond=r.choice(["internal_server", "deprecated", "none", "bogus"])))
                ops += self.data_op(c, tabs[c], len(ops))
                if r.random() < 0.5:
                    # a request that the SDK v1 request validation refuses (table name of one character), while the failure is on:
                    # the failure is what both clients answer
                    kk = self.key_of(tabs[c][0]["schema"])
                    ops += r.sample([dict(op="get", client=c, table="t", key=kk), dict(op="put", client=c, table="t", item=kk),
                                     dict(op="delete", client=c, table="t", key=kk), dict(op="scan", client=c, table="t"),
                                     dict(op="query", client=c, table="t", keycond="h = :h", names={}, values={":h": S("a")}),
                                     dict(op="update", client=c, table="t", key=kk, expr="SET v = :v", names={}, values={":v": S("x")})], 3)
                if r.random() < 0.8: ops.append(dict(op="deactivate_force_failure", client=c))
            elif k < 0.93:
                t = r.choice(tabs[c])
                # the description is read right before and right after (no write in between): counts follow the table
                if r.random() < 0.6: ops.append(dict(op="describe_table", client=c, table=t["name"]))
                ops.append(dict(op="clear_table", client=c, table=t["name"]))
                if r.random() < 0.7: ops.append(dict(op="describe_table", client=c, table=t["name"]))
            elif k < 0.95:
                t = r.choice(tabs[c]); ops.append(dict(op="delete_table", client=c, table=t["name"])); tabs[c].remove(t)
            elif k < 0.97:
                t, o = self.create_ops(c, r.choice(TABLES))
                if any(x["name"] == t["name"] for x in tabs[c]):
                    ops += o      # expected to fail: table exists (the helper indexes still apply to the old table)
                    old = [x for x in tabs[c] if x["name"] == t["name"]][0]
                    for ix in t["indexes"]:
                        if o[0]["op"] == "add_table" and not any(i["name"] == ix["name"] for i in old["indexes"]):
                            old["indexes"].append(ix)
                else:
                    tabs[c].append(t); ops += o
            elif k < 0.99:
                t = r.choice(tabs[c])
                kattr = [a for a, ty in [t["schema"]["hash"]] + ([t["schema"]["range"]] if t["schema"]["range"] else []) if ty != "S"]
                if kattr and r.random() < 0.5:
                    # the AddIndex helper declares a new attribute first and one of the table's own number / binary key
                    # attributes second, both as strings: the re-typing of the key attribute is refused as a whole
                    ops.append(dict(op="add_index", client=c, table=t["name"], index="byk", hash="g", range=kattr[0]))
                    ops.append(dict(op="describe_table", client=c, table=t["name"]))
                    ops += self.data_op(c, [t], len(ops))
                elif r.random() < 0.4:
                    # the definitions arrive in a request of their own; the index that relies on them comes later and
                    # does not repeat them (or names an attribute nobody declared)
                    an = r.choice(["fd", "fd", "w"])
                    ops.append(dict(op="update_table", client=c, table=t["name"], attrs=[dict(name="fd", type="S")]))
                    if r.random() < 0.5: ops.append(dict(op="describe_table", client=c, table=t["name"]))
                    ops.append(dict(op="update_table", client=c, table=t["name"], create=dict(name="fix", hash=dict(name=an), throughput=True)))
                    ops.append(dict(op="describe_table", client=c, table=t["name"]))
                    ops.append(dict(op="scan", client=c, table=t["name"], index="fix"))
                elif r.random() < 0.5:
                    ops.append(dict(op="update_table", client=c, table=t["name"], attrs=[dict(name="f", type="S")],
                                    create=dict(name="fix", hash=dict(name="f"), throughput=r.random() < 0.7)))
                    # the index may or may not be created (billing mode); queries on it tolerate both
                elif t["indexes"]:
                    ix = r.choice(t["indexes"]); ops.append(dict(op="update_table", client=c, table=t["name"], delete=ix["name"]))
                    t["indexes"].remove(ix)
            else:
                ops.append(dict(op="describe_table", client=c, table=r.choice(TABLES)))
        return ops


# ======================= expression-level generators =======================
ATTRS = ["a", "b", "c", "d", "e"]
TYPES = ["S", "N", "B", "BOOL", "NULL", "L", "M", "SS", "NS", "BS"]
RESERVED_SAMPLE = ["name", "size", "status", "Count", "DATA", "user", "values", "Zone", "comment", "hidden"]


class ExprGen(Gen):
    def typed_value(self, t, depth=1):
        r = self.r
        if t == "S": return S(r.choice(["", "x", "xy", "y", "hello", "a b", "S", "N"]))
        if t == "N": return N(r.choice(NUMS + ["0", "-0", "0.0"]))
        if t == "B": return {"B": r.choice(["", "x", "xy", "\x01\x02", "\xff"])}
        if t == "BOOL": return {"BOOL": r.random() < 0.5}
        if t == "NULL": return {"NULL": r.random() < 0.85}
        if t == "L": return {"L": [self.typed_value(r.choice(TYPES[:5]), 0) for _ in range(r.randrange(0, 4))]}
        if t == "M": return {"M": {k: self.typed_value(r.choice(TYPES[:6] if depth > 0 else TYPES[:5]), depth - 1)
                                   for k in r.sample(["x", "y", "z"], r.randrange(0, 3))}}
        if t == "SS": return {"SS": r.sample(["x", "y", "xy", "p"], r.randrange(1, 4))}
        if t == "NS":
            if r.random() < 0.15: return {"NS": r.sample(["9007199254740993", "9007199254740992", "0.1", "0.10000000000000000001", "7"], r.randrange(2, 5))}
            if r.random() < 0.2: return {"NS": r.sample(["010", "20", "017", "1.5", "7"], r.randrange(1, 4))}
            return {"NS": r.sample(["1", "2", "10", "1.5"], r.randrange(1, 4))}
        return {"BS": r.sample(["x", "xy", "\x01"], r.randrange(1, 4))}

    def related_value(self, own):
        """a value of the same type that contains, or is contained in, the given one"""
        import json as _json
        r = self.r
        v = _json.loads(_json.dumps(own))
        t = list(v)[0]
        grow = r.random() < 0.5
        if t == "M":
            if grow or not v["M"]: v["M"]["zz" if "zz" not in v["M"] else "zy"] = S("extra")
            else: v["M"].pop(r.choice(sorted(v["M"])))
        elif t == "L":
            if grow or not v["L"]: v["L"].append(S("extra"))
            else: v["L"].pop()
        elif t in ("SS", "BS"):
            if len(v[t]) >= 2 and r.random() < 0.5: v[t] = v[t][::-1]     # the same set, members listed in another order
            elif grow or len(v[t]) < 2: v[t] = v[t] + ["zz"]
            else: v[t] = v[t][:-1]
        elif t == "NS":
            if len(v[t]) >= 2 and r.random() < 0.5: v[t] = v[t][::-1]
            elif grow or len(v[t]) < 2: v[t] = v[t] + ["77"]
            else: v[t] = v[t][:-1]
        elif t in ("S", "B"):
            v[t] = v[t] + "x" if grow or not v[t] else v[t][:-1]
        elif t == "N":
            # a number close to the given one (less than 1 apart), or far beyond the 64-bit integers
            from decimal import Decimal, InvalidOperation
            try:
                d = Decimal(v["N"])
                if d == 0 and r.random() < 0.7:
                    v["N"] = r.choice([z for z in ["0", "-0", "0.0", "-0.0", "0e3", "-0E1"] if z != own["N"]])     # zero is zero, whatever its sign and notation
                    return v
                v["N"] = format(d + Decimal(r.choice(["0.5", "-0.5", "0.25", "-0.75", "0.001", "1", "-1", "1e25", "-1e25"])), "f")
            except InvalidOperation:
                pass
        return v

    def expr_item(self):
        r = self.r
        it = {}
        for a in ATTRS:
            if r.random() < 0.75:
                it[a] = self.typed_value(r.choice(TYPES + ["N", "S"]))
        if r.random() < 0.06:
            # an attribute whose name is a digit string: a list index written with that digit is still a position
            it[r.choice(["0", "1", "2"])] = N(r.choice(["0", "1", "2", "7"]))
        return it

    def path(self, ctx):
        r = self.r
        k = r.random()
        base = r.choice(ATTRS)
        item = ctx.get("item") or {}
        if k < 0.08:
            alias = "#" + r.choice(["n", "p", "q_1"])
            ctx["names"][alias] = base
            base = alias
        elif k < 0.10 and "item" in ctx and not ctx.get("update"):
            # the documented use of a name placeholder: an attribute whose own name contains a dot (the item has it)
            dotted = r.choice(["a.b", "meta.version", "c.d.e"])
            ctx["item"].setdefault(dotted, self.typed_value(r.choice(["S", "N", "BOOL", "SS"])))
            ctx["names"]["#d"] = dotted
            return "#d"
        elif k < 0.11:
            base = r.choice(RESERVED_SAMPLE)
        v = item.get(base)
        if v and "L" in v and r.random() < 0.6:
            # index at, just before and just past the end of the list
            n = len(v["L"])
            if r.random() < 0.3:
                # the index given through a value placeholder, negative and fractional numbers included
                name = ":i%d" % len(ctx["values"])
                ctx["values"][name] = N(r.choice(["-1", "-1", "-1.5", "-2", "0", str(n), "1.5", "-0", "1e0"]))
                return base + "[%s]" % name
            idx = r.choice([max(n - 1, 0), n, n, n + 1, 0])
            if r.random() < 0.2 and "item" in ctx:
                # the item also owns a number attribute NAMED like the index: the index is a position, never that attribute
                ctx["item"][str(idx)] = N(str(r.choice([j for j in range(0, 4) if j != idx])))
            return base + "[%d]" % idx
        if v and "M" in v and v["M"] and r.random() < 0.6:
            return base + "." + r.choice(list(v["M"]))
        k = r.random()
        if k < 0.7: return base
        if k < 0.82: return base + "." + r.choice(["x", "y", "z"])
        if k < 0.94: return base + "[%d]" % r.randrange(0, 4)
        return base + "." + r.choice(["x", "y"]) + r.choice([".z", "[0]", ""])

    def val(self, ctx, t=None):
        r = self.r
        name = ":v%d" % len(ctx["values"])
        item = ctx.get("item") or {}
        same = [v for v in item.values() if t is None or t in v]
        if same and r.random() < 0.35:
            ctx["values"][name] = r.choice(same)       # exactly the value some attribute holds: boundaries of <, <=, BETWEEN
        else:
            ctx["values"][name] = self.typed_value(t or r.choice(TYPES))
        return name

    def operand(self, ctx):
        r = self.r
        k = r.random()
        if k < 0.45: return self.path(ctx)
        if k < 0.92: return self.val(ctx, r.choice(["S", "N", "B", "S", "N", "BOOL", "NULL", "SS", "L"]))
        return "size(%s)" % self.path(ctx)

    def cond_expr(self, ctx, depth):
        r = self.r
        k = r.random()
        if depth <= 0 or k < 0.45:
            k = r.random()
            if k < 0.40:
                if r.random() < 0.3:
                    pth = self.path(ctx)
                    own = (ctx.get("item") or {}).get(pth)
                    is_multi_set = bool(own) and list(own)[0] in ("SS", "BS", "NS") and len(list(own.values())[0]) >= 2
                    is_num = bool(own) and list(own)[0] == "N"
                    if own and r.random() < (0.85 if is_multi_set or is_num else 0.4):
                        # a value structurally close to the attribute's own: a sub- or super-container of it, a nearby number
                        rel = self.related_value(own)
                        name = ":v%d" % len(ctx["values"]); ctx["values"][name] = rel
                        form = r.choice(["%s = %s", "%s <> %s", "%s IN (%s)", "contains(%s, %s)"] if not is_num else
                                        ["%s = %s", "%s <> %s", "%s < %s", "%s <= %s", "%s > %s", "%s >= %s", "%s IN (%s)", "%s BETWEEN %s AND :big"])
                        if ":big" in form: ctx["values"][":big"] = N("1e30")
                        a, b_ = (pth, name) if r.random() < 0.6 or "IN" in form or "contains" in form else (name, pth)
                        return form % (a, b_)
                    if own:
                        name = ":v%d" % len(ctx["values"]); ctx["values"][name] = own
                        return "%s %s %s" % ((pth, r.choice(["=", "<>", "<", "<=", ">", ">="]), name) if r.random() < 0.5 else (name, r.choice(["=", "<=", ">=", "<", ">"]), pth))
                return "%s %s %s" % (self.operand(ctx), r.choice(["=", "<>", "<", "<=", ">", ">="]), self.operand(ctx))
            if k < 0.50:
                t = r.choice(["S", "N", "B"])
                pth = self.path(ctx)
                own = (ctx.get("item") or {}).get(pth)
                if own and r.random() < 0.5:
                    # a bound equal to the attribute's own value
                    t = list(own)[0]
                    n1, n2 = ":v%d" % len(ctx["values"]), ":v%d" % (len(ctx["values"]) + 1)
                    other = self.typed_value(t if t in ("S", "N", "B") else "S")
                    lo, hi = (own, other) if r.random() < 0.5 else (other, own)
                    if r.random() < 0.3: lo = hi = own
                    ctx["values"][n1] = lo; ctx["values"][n2] = hi
                    return "%s BETWEEN %s AND %s" % (pth, n1, n2)
                return "%s BETWEEN %s AND %s" % (pth, self.val(ctx, t), self.val(ctx, r.choice([t, t, "S"])))
            if k < 0.60:
                t = r.choice(["S", "N", "BOOL"])
                if r.random() < 0.25:
                    # operands that are attribute paths themselves, stored or missing (a missing attribute equals nothing, not even another missing one)
                    ops_ = [r.choice([self.path(ctx), r.choice(["nope", "zq"]), self.val(ctx, t)]) for _ in range(r.randrange(1, 4))]
                    return "%s IN (%s)" % (r.choice([self.path(ctx), "nope", "zq"]), ", ".join(ops_))
                return "%s IN (%s)" % (self.path(ctx), ", ".join(self.val(ctx, r.choice([t, t, "S"])) for _ in range(r.randrange(1, 4))))
            if k < 0.70: return "attribute_exists(%s)" % self.path(ctx)
            if k < 0.78: return "attribute_not_exists(%s)" % self.path(ctx)
            if k < 0.85:
                name = ":v%d" % len(ctx["values"])
                ctx["values"][name] = S(r.choice(TYPES + ["Q", ""]))
                return "attribute_type(%s, %s)" % (self.path(ctx), name)
            if k < 0.92: return "begins_with(%s, %s)" % (self.path(ctx), self.val(ctx, r.choice(["S", "S", "B", "N"])))
            return "contains(%s, %s)" % (self.path(ctx), self.val(ctx, r.choice(["S", "N", "B", "SS", "BOOL"])))
        if k < 0.62: return "%s AND %s" % (self.cond_expr(ctx, depth - 1), self.cond_expr(ctx, depth - 1))
        if k < 0.78: return "%s OR %s" % (self.cond_expr(ctx, depth - 1), self.cond_expr(ctx, depth - 1))
        if k < 0.90: return "NOT %s" % self.cond_expr(ctx, depth - 1)
        return "(%s)" % self.cond_expr(ctx, depth - 1)

    def match_case(self, depth=3):
        r = self.r
        if r.random() < 0.04:
            # sets are compared as sets: the same members listed in another order, also nested in a list / a map
            t = r.choice(["SS", "NS", "BS"])
            pool = {"SS": ["x", "y", "xy", "p"], "NS": ["1", "2", "10", "1.5"], "BS": ["x", "xy", "\x01", "b"]}[t]
            members = r.sample(pool, r.randrange(2, 4))
            own, other = {t: members}, {t: members[::-1]}
            wrap = r.choice(["none", "list", "map"])
            if wrap == "list": own, other = {"L": [own]}, {"L": [other]}
            if wrap == "map": own, other = {"M": {"k": own}}, {"M": {"k": other}}
            e = r.choice(["a = :v", "a <> :v", "a IN (:v, :w)", "NOT a = :v", ":v = a"])
            return dict(op="match", expr=e, item={"a": own, "b": S("x")}, names={}, values={":v": other, ":w": S("x")})
        if r.random() < 0.03:
            # zero is zero: the same number in another notation (sign, fraction, exponent) is equal to it everywhere a number
            # is compared - alone, as operand of IN, as element of a list, as member of a map or of a number set
            zs = ["0", "-0", "0.0", "-0.0", "0e3", "-0E1", "00"]
            z1, z2 = r.sample(zs, 2)
            if r.random() < 0.3: z1, z2 = r.choice([("1", "1.0"), ("10", "1e1"), ("2.50", "2.5"), ("100", "1E+2")])
            e = r.choice(["a IN (:w, :v)", "contains(l, :v)", "l = :lv", "m = :mv", "ns = :nsv", "a = :v", "NOT a IN (:v)", "contains(ns, :v)", "a BETWEEN :v AND :v"])
            item = {"a": N(z1), "l": {"L": [S("x"), N(z1)]}, "m": {"M": {"k": N(z1)}}, "ns": {"NS": [z1, "7"]}}
            vals = {":v": N(z2), ":w": S("no"), ":lv": {"L": [S("x"), N(z2)]}, ":mv": {"M": {"k": N(z2)}}, ":nsv": {"NS": ["7", z2]}}
            return dict(op="match", expr=e, item=item, names={}, values={k: v for k, v in vals.items() if k in e})
        ctx = dict(names={}, values={}, item=self.expr_item())
        e = self.cond_expr(ctx, self.r.randrange(0, depth + 1))
        if r.random() < 0.12:
            # the same sentence written without the optional blanks around operators, commas and parentheses
            import re as _re
            e = _re.sub(r" ?(<>|<=|>=|=|<|>|,|\(|\)) ?", lambda m: r.choice([m.group(1), m.group(1) + " ", " " + m.group(1), m.group(0)]), e)
        if ctx["values"] and r.random() < 0.08:
            # the item owns an attribute named like a value placeholder of the condition: the request's value is what counts
            ph = r.choice(sorted(ctx["values"]))
            ctx["item"][ph] = self.typed_value(r.choice(["S", "N", "BOOL"]))
        return dict(op="match", expr=e, item=ctx["item"], names=ctx["names"], values=ctx["values"])

    # ---- update expressions: every action targets a different top-level attribute ----
    def upd_operand(self, ctx, t):
        r = self.r
        if r.random() < 0.4: return self.path(ctx)
        return self.val(ctx, t)

    def alias_probe(self):
        """an expression that reads an attribute in one action and changes it in place in a later one"""
        r = self.r
        ctx = dict(names={}, values={}, item=self.expr_item(), update=True)
        it = ctx["item"]
        src = r.choice(ATTRS)
        kind = r.choice(["N", "SS", "L", "NS"])
        it[src] = self.typed_value(kind)
        if kind == "L": it[src] = {"L": [{"M": {"q": N("1")}}, S("x")]}
        rhs = r.choice(["%s", "if_not_exists(f, %s)", "if_not_exists(%s, :d)"]) % src if kind != "L" else \
            r.choice(["%s", "list_append(%s, :l)", "list_append(:l, %s)", "if_not_exists(f, %s)"]) % src
        if ":d" in rhs: ctx["values"][":d"] = N("0")
        if ":l" in rhs: ctx["values"][":l"] = {"L": [S("z")]}
        if kind == "N": later = "ADD %s %s" % (src, self.val(ctx, "N"))
        elif kind == "SS": later = r.choice(["ADD %s %s", "DELETE %s %s"]) % (src, self.val(ctx, "SS"))
        elif kind == "NS": later = r.choice(["ADD %s %s", "DELETE %s %s"]) % (src, self.val(ctx, "NS"))
        else: later = r.choice(["SET %s[0].q = %s" % (src, self.val(ctx, "N")), "REMOVE %s[0].q" % src, "ADD %s %s" % (src, self.val(ctx, "S"))])
        tgt = r.choice(["g", "g.x" if "g" in it and "M" in it.get("g", {}) else "g"])
        if later.startswith("SET "):
            e = "SET %s = %s, %s" % (tgt, rhs, later[4:])
        else:
            e = "SET %s = %s %s" % (tgt, rhs, later)
        return dict(op="lang_update", expr=e, item=it, names=ctx["names"], values=ctx["values"])

    def remove_probe(self):
        """REMOVE of map members and of elements of lists at different depths (a list inside a map, a list inside a list),
        several in one expression and in any order"""
        r = self.r
        it = {"m": {"M": {"x": S("x"), "l": {"L": [S("a"), S("b")]}, "k": N("1")}}, "l": {"L": [N("1"), N("2"), N("3")]},
              "ll": {"L": [{"L": [N("1"), N("2")]}, {"L": [N("3")]}]}, "c": S("keep")}
        paths = r.sample(["m.x", "m.l[0]", "m.l[1]", "l[0]", "l[2]", "ll[0][1]", "ll[1][0]", "m.k", "l[1]", "ll[0]"], r.randrange(1, 4))
        e = "REMOVE " + ", ".join(paths)
        vals = {}
        q = r.random()
        if q < 0.3:
            e = r.choice(["SET c = :v " + e, e + " SET c = :v"]); vals = {":v": S("new")}
        elif q < 0.6:
            # a later action of the same expression reads a list that has just lost an element
            it["k"] = {"L": [S("z")]}
            src = r.choice(["l", "m.l", "ll", "ll[0]"])
            later = r.choice(["ADD k %s", "SET k = list_append(k, %s)", "SET k = %s", "SET k = list_append(%s, k)", "SET d = if_not_exists(nope, %s)"]) % src
            e = r.choice([e + " " + later, later + " " + e])
        return dict(op="lang_update", expr=e, item=it, names={}, values=vals)

    def dotted_probe(self):
        """a top-level attribute whose own name contains a dot, addressed through a name placeholder: every action reads
        and writes THAT attribute (the item has no map the dotted name could be read as a path into)"""
        r = self.r
        it = {k: v for k, v in self.expr_item().items() if k not in ("ver", "meta", "tags")}
        dn = r.choice(["ver.count", "meta.version", "tags.all"])
        kind = r.choice(["N", "N", "SS", "S"])
        if r.random() < 0.85: it[dn] = self.typed_value(kind)
        names = {"#c": dn}
        e, vals = r.choice([
            ("ADD #c :one", {":one": N("1")}), ("SET #c = if_not_exists(#c, :zero)", {":zero": N("0")}), ("SET seen = #c", {}),
            ("DELETE #c :a", {":a": {"SS": ["a"]}}), ("ADD #c :a", {":a": {"SS": ["a", "zz"]}}), ("REMOVE #c", {}), ("SET #c = :v", {":v": S("new")}),
            ("SET #c = #c + :one", {":one": N("1")}), ("SET seen = if_not_exists(#c, :zero), #c = :zero", {":zero": N("0")}),
            ("SET l2 = list_append(:l, :l), seen = #c", {":l": {"L": [S("x")]}})])
        return dict(op="lang_update", expr=e, item=it, names=names, values=vals)

    def arith_probe(self):
        """a subtraction whose right operand is an attribute of the item, or a value used again later in the expression:
        the operands keep their values"""
        r = self.r
        it = {"amount": N(r.choice(["100", "20", "0.5", "7"])), "rebate": N(r.choice(["30", "3", "0.25", "7"])), "b": N(r.choice(["20", "1"])), "keep": S("k")}
        e, vals = r.choice([
            ("SET amount = amount - rebate", {}), ("SET net = amount - rebate", {}), ("SET amount = amount - rebate, b = b - rebate", {}),
            ("SET amount = amount - :d, b = b - :d", {":d": N(r.choice(["3", "0.5"]))}), ("SET amount = :d - rebate, b = rebate", {":d": N("50")}),
            ("SET amount = amount + rebate, b = b - rebate", {}), ("SET net = amount - rebate - rebate", {})])
        return dict(op="lang_update", expr=e, item=it, names={}, values=vals)

    def update_case(self):
        r = self.r
        if r.random() < 0.03:
            return self.arith_probe()
        if r.random() < 0.04:
            return self.dotted_probe()
        if r.random() < 0.12:
            return self.alias_probe()
        if r.random() < 0.06:
            return self.remove_probe()
        ctx = dict(names={}, values={}, item=self.expr_item(), update=True)
        targets = r.sample(ATTRS + ["f", "g"], r.randrange(1, 5))
        clauses = {"SET": [], "REMOVE": [], "ADD": [], "DELETE": []}
        for tg in targets:
            k = r.random()
            tgt = tg
            if r.random() < 0.05: tg = tgt = r.choice(RESERVED_SAMPLE)
            if r.random() < 0.25: tgt = tg + r.choice([".x", "[0]", "[1]", ".y.z", "[7]"])
            own = ctx["item"].get(tg)
            if own and "L" in own and r.random() < 0.5:
                # a list element addressed through a value placeholder: negative, zero, past the end, fractional
                name = ":i%d" % len(ctx["values"])
                ctx["values"][name] = N(r.choice(["-1", "-1", "0", str(len(own["L"])), "1.5", "-2"]))
                tgt = "%s[%s]" % (tg, name)
            if r.random() < 0.06:
                ctx["names"]["#t"] = tg; tgt = "#t" if "." not in tgt and "[" not in tgt else tgt
            if k < 0.5:
                q = r.random()
                t = r.choice(TYPES)
                if q < 0.45: rhs = self.val(ctx, t)
                elif q < 0.52: rhs = "%s %s %s" % (self.upd_operand(ctx, "N"), r.choice("+-"), self.upd_operand(ctx, "N"))
                elif q < 0.6:
                    # a chain of additions and subtractions groups from the left: a - b - c is (a - b) - c
                    rhs = "%s %s %s %s %s" % (self.upd_operand(ctx, "N"), r.choice("-+-"), self.upd_operand(ctx, "N"), r.choice("-+-"), self.upd_operand(ctx, "N"))
                    if r.random() < 0.3: rhs += " %s %s" % (r.choice("+-"), self.upd_operand(ctx, "N"))
                elif q < 0.75: rhs = "if_not_exists(%s, %s)" % (self.path(ctx), self.val(ctx, t) if r.random() < 0.6 else self.path(ctx))
                elif q < 0.9: rhs = "list_append(%s, %s)" % (self.upd_operand(ctx, "L"), self.upd_operand(ctx, "L"))
                else: rhs = self.path(ctx)
                clauses["SET"].append("%s = %s" % (tgt, rhs))
            elif k < 0.7:
                clauses["REMOVE"].append(tgt)
            elif k < 0.88:
                clauses["ADD"].append("%s %s" % (tg, self.val(ctx, r.choice(["N", "SS", "NS", "BS", "S", "L"]))))
            else:
                clauses["DELETE"].append("%s %s" % (tg, self.val(ctx, r.choice(["SS", "NS", "BS", "S", "N"]))))
        order = [c for c in ["SET", "REMOVE", "ADD", "DELETE"] if clauses[c]]
        r.shuffle(order)
        e = " ".join("%s %s" % (c, ", ".join(clauses[c])) for c in order)
        if ctx["names"] and r.random() < 0.25:
            # an attribute literally named like a placeholder of the expression: an ordinary attribute, left alone
            ctx["item"][r.choice(sorted(ctx["names"]))] = S("keep")
        if ctx["values"] and r.random() < 0.12:
            # ... or like a value placeholder: out of the expression's reach, it keeps its value
            ctx["item"][r.choice(sorted(ctx["values"]))] = r.choice([S("keep"), N("5"), {"L": [S("x")]}])
        return dict(op="lang_update", expr=e, item=ctx["item"], names=ctx["names"], values=ctx["values"])

    # ---- malformed: token-level mutations of valid sentences, stray bytes ----
    def mutate(self, e):
        import re as _re
        r = self.r
        toks = _re.findall(r"[A-Za-z0-9_:#]+|<>|<=|>=|\s+|.", e)
        if not toks: return e
        k = r.randrange(9)
        i = r.randrange(len(toks))
        if k == 0: del toks[i]
        elif k == 1: toks.insert(i, toks[i])
        elif k == 2 and len(toks) > 1:
            j = r.randrange(len(toks)); toks[i], toks[j] = toks[j], toks[i]
        elif k == 3: toks[i] = ''.join(c.swapcase() if c.isascii() else c for c in toks[i])
        elif k == 4: toks.insert(i, r.choice(["\x00", "\x80", "$", "!", "\xff", "\t", "'", '"', "{", "&"]))
        elif k == 5: toks = toks[:i]
        elif k == 6: toks.insert(i, r.choice([" AND ", " OR ", " NOT ", "(", ")", ",", " BETWEEN ", " IN ", " SET ", " = ", ".", "[", "]", " IN () ", " IN ( ) "]))
        elif k == 7: toks.append(" " + r.choice(toks))
        else: toks[i] = r.choice(["and", "or", "not", "between", "in", "set", "Remove", "add"])
        return "".join(toks)

    def malformed_case(self):
        r = self.r
        if r.random() < 0.5:
            c = self.match_case(2)
            for _ in range(r.randrange(1, 3)): c["expr"] = self.mutate(c["expr"])
            return c
        if r.random() < 0.8:
            c = self.update_case()
            for _ in range(r.randrange(1, 3)): c["expr"] = self.mutate(c["expr"])
            return c
        n = r.randrange(0, 40)
        alphabet = "ab:#_01 =<>(),.[]ANDORNTSEBWI\x00\x80\xff\t\n+-"
        return dict(op=r.choice(["match", "lang_update"]), expr="".join(r.choice(alphabet) for _ in range(n)),
                    item=self.expr_item(), names={}, values={})

    def lex_parse_cases(self, c):
        return [dict(op="lex", text=c["expr"]), dict(op="parse", text=c["expr"], update=(c["op"] == "lang_update"))]

    def numeral(self):
        r = self.r
        k = r.random()
        digits = lambda n: "".join(r.choice("0123456789") for _ in range(n))
        if k < 0.3: s = str(r.randrange(-1000, 1000))
        elif k < 0.5: s = digits(r.randrange(1, 39))
        elif k < 0.7: s = digits(r.randrange(1, 20)) + "." + digits(r.randrange(1, 20))
        elif k < 0.85: s = digits(r.randrange(1, 10)) + r.choice(["e", "E"]) + r.choice(["", "+", "-"]) + str(r.randrange(0, 40))
        elif k < 0.9: s = r.choice(["9007199254740993", "0.1", "0.30000000000000004", "1e23", "-0", "0.0", "1e-7", "123456789012345678", ".5", "5.", "1e", "--1", "1.2.3", ""])
        else: s = "0." + "0" * r.randrange(0, 10) + digits(r.randrange(1, 25))
        if r.random() < 0.1 and not s.startswith("-"): s = "-" + s
        if r.random() < 0.5:
            return dict(op="float", text=s)
        # through the library: every number of an item is re-serialised by an update that targets another attribute
        k = r.random()
        item = {"n": N(s)} if k < 0.6 else ({"m": {"M": {"x": N(s)}}} if k < 0.8 else {"ns": {"NS": [s, "1"]}})
        return dict(op="lang_update", expr="SET z = :o", item=item, names={}, values={":o": S("x")})
