"""Property-specific machinery around the generic stream check."""
import os, json
from . import runner, coqterm, streams

ROOT = runner.ROOT


def regression_tests(pid):
    """reproducers of REPAIRED defects (findings/repaired/<pid>_*_test.go): they must pass; a failure means the defect
    is back. Returns a list of violations (payload, suffix)."""
    import re
    from concurrent.futures import ThreadPoolExecutor
    d = os.path.join(ROOT, 'findings', 'repaired')
    files = sorted(f for f in os.listdir(d) if f.startswith(pid + '_') and f.endswith('_test.go')) if os.path.isdir(d) else []
    def one(fn):
        src = open(os.path.join(d, fn)).read()
        place = re.search(r'PLACE:\s*(\S+)', src.split('\n')[0]).group(1).strip('`')
        tests = re.findall(r'^func (Test\w+)\(', src, re.M)
        failed, log, built = gotest(os.path.join(d, fn), place, tests)
        return fn, place, tests, failed, log, built
    out = []
    with ThreadPoolExecutor(max_workers=6) as ex:
        for fn, place, tests, failed, log, built in ex.map(one, files):
            if failed or not built:
                out.append((dict(kind='regression-test', file='findings/repaired/' + fn, place=place, failed_tests=failed, built=built,
                                 how_to_run='copy the file into %s of the repository and run go test -run "%s"' % (place, '|'.join(tests)),
                                 log=log[-3000:], meaning='the reproducer of a defect that was repaired fails again'), ''))
    return files, out


def corpus_scripts(pid, sname):
    d = os.path.join(ROOT, 'corpus', pid)
    out = []
    if os.path.isdir(d):
        for fn in sorted(os.listdir(d)):
            if fn.endswith('.json'):
                c = json.load(open(os.path.join(d, fn)))
                if c.get('stream') == sname:
                    out.append({'id': 'corpus_' + fn[:-5], 'ops': c['ops']})
    return out


def in_envelope(pid, ops):
    """Is the script inside the envelope of the property's theorems? Outside it the unchanged tree already deviates
    from the property (known findings), so a deviation from the model there is not a new concrete violation."""
    txt = json.dumps(ops)
    return True


def project(ob, keys):
    return {k: ob.get(k) for k in keys}


def gotest(path, place, tests, race=None):
    """run the Go tests of one witness file against the repository under test WITHOUT touching it: the file is injected
    into the package with `go test -overlay`. Returns (failed test names, whole log, built?)."""
    import re, subprocess, tempfile
    ov = tempfile.NamedTemporaryFile('w', suffix='.json', delete=False, dir=runner.BUILD)
    json.dump({'Replace': {os.path.join(runner.REPO, place, 'zz_verif_' + os.path.basename(path)): os.path.abspath(path)}}, ov)
    ov.close()
    if race is None:     # a reproducer that needs the race detector says so in its first line
        race = '-race' in open(path).readline()
    env = dict(runner.GOENV)
    if race:
        env.pop('CGO_ENABLED', None)     # the race detector needs cgo
    try:
        p = subprocess.run(['go', 'test', '-count=1', '-vet=off'] + (['-race'] if race else []) + ['-overlay', ov.name, '-run', '^(%s)$' % '|'.join(tests), './' + place + '/'],
                           cwd=runner.REPO, env=env, stdout=subprocess.PIPE, stderr=subprocess.STDOUT, text=True, timeout=900)
    finally:
        os.remove(ov.name)
    log = p.stdout
    failed = sorted(set(re.findall(r'--- FAIL: (\w+)', log)))
    built = 'build failed' not in log and 'setup failed' not in log
    if p.returncode != 0 and built and not failed:
        failed = ['(panic or timeout)']
    return failed, log, built


def witness_still_fails(k):
    """replay the witness of a known finding on the implementation: does it still behave as recorded?"""
    if k.get('witness_gotest'):
        failed, log, built = gotest(os.path.join(ROOT, k['witness_gotest']), k['place'], k['tests'])
        if not built:
            raise RuntimeError('witness does not build: ' + log[-400:])
        return bool(failed)
    w = json.load(open(os.path.join(ROOT, k['witness'])))
    sdk = w.get('sdk', 'v2')
    obs = runner.run_harness(sdk, [{'id': 'w', 'ops': w['ops']}], dump=False, tag='witness')['w']
    for chk in w['expect']:
        ob = obs[chk['step']]
        for key, val in chk['observed'].items():
            if ob.get(key) != val:
                return False
    return True


def unit_nontrivial(sname, ops, obs):
    seen, n = set(), 0
    for o, ob in zip(ops, obs):
        key = json.dumps(o, sort_keys=True)
        if key in seen:
            continue
        seen.add(key)
        if sname == 'expr':
            # the verdict depends on the item: counted when the expression mentions an attribute that the item has
            if ob['r'] == 'ok' and any(a in o['expr'] for a in o.get('item', {})): n += 1
        elif sname == 'update':
            if ob['r'] == 'ok' and ob.get('item') != o.get('item'): n += 1
        elif sname == 'malformed':
            if ob['r'] != 'ok' or o['op'] in ('lex', 'parse'): n += 1
        else:
            n += 1
    return n


def replay(pid, rp, run_script_stream):
    kind = rp.get('kind')
    if kind == 'correspondence':
        st = streams.STREAMS[rp['stream']]
        cases, bad = run_script_stream(st, rp['sdk'], [{'id': 'r', 'ops': rp['ops']}], 'replay')
        return bool(bad)
    if kind == 'unit-correspondence':
        obs = runner.run_harness('v2', [{'id': 'u', 'ops': [rp['case']]}], dump=False, tag='replay')['u']
        return bool(runner.check_units([(0, rp['case'], obs[0])], tag='replay'))
    if kind == 'twin':
        return bool(twin_diff(rp['ops']))
    return True


# ---------------- C17: the two clients side by side ----------------
def norm_obs(ob):
    o = {k: v for k, v in ob.items() if k not in ('state', 'panic', 'resolved_esk')}
    o = json.loads(json.dumps(o, sort_keys=True))
    # logically equal: no item and an empty item; index descriptions come in Go map order
    if o.get('item') == {}:
        del o['item']
    if isinstance(o.get('desc'), dict):
        for k in ('gsi', 'lsi'):
            o['desc'][k] = sorted(o['desc'].get(k) or [], key=lambda x: x['name'])
    return o


def canon_json(x):
    if isinstance(x, dict):
        # known findings C10-1 / C17-2 (identified by their call site, the v2 output mapper): a container that is or
        # became empty is returned as NULL by the v2 client; both sides are compared modulo exactly that
        if len(x) == 1 and list(x)[0] in ('L', 'M', 'SS', 'NS', 'BS', 'B') and list(x.values())[0] in ([], {}, ''):
            return {'NULL': True}
        if len(x) == 1 and list(x)[0] in ('SS', 'NS', 'BS'):
            k = list(x)[0]
            return {k: sorted(x[k])}
        return {k: canon_json(v) for k, v in x.items()}
    if isinstance(x, list):
        return [canon_json(v) for v in x]
    return x


V1_ONLY = {'InvalidParam'}


def twin_diff(ops):
    o1 = runner.run_harness('v1', [{'id': 't', 'ops': ops}], dump=False, tag='twin1')['t']
    o2 = runner.run_harness('v2', [{'id': 't', 'ops': ops}], dump=False, tag='twin2')['t']
    for i, (a, b) in enumerate(zip(o1, o2)):
        if ops[i]['op'] == 'batch_get':
            continue           # known finding: the v1 client has no BatchGetItem
        a, b = canon_json(norm_obs(a)), canon_json(norm_obs(b))
        b.pop('cf_item', None)     # known finding: only the v2 client carries the item of a failed condition
        if a != b:
            return dict(step=i, v1=a, v2=b)
    return None


def env_c17(ops):
    """envelope of the equivalence theorem: no v1-only request validation, no empty containers (v2 returns NULL)"""
    txt = json.dumps(ops)
    if '"L": []' in txt or '"M": {}' in txt or '"B": ""' in txt:
        return False
    for o in ops:
        for k in ('table', 'index'):
            if k in o and len(o[k]) < 3:
                return False
        # index names inside CreateTable / UpdateTable requests, the name of an index to delete
        for ix in (o.get('gsi') or []) + (o.get('lsi') or []) + ([o['create']] if isinstance(o.get('create'), dict) else []):
            if len(ix.get('name', 'xxx')) < 3:
                return False
        if isinstance(o.get('delete'), str) and len(o['delete']) < 3:
            return False
        if o.get('op') == 'batch_write' and (not o.get('requests') or any(len(tn) < 3 for tn in o['requests'])):
            return False      # SDK v1 refuses a batch without tables (and short names inside the single requests)
    return True


def twin_clients(pid, tier, seed, known):
    st = streams.STREAMS['mixed']
    n = 60 if tier == 'quick' else 3000
    scripts = st.make(seed + 17, n)
    viol, nt, ev = [], 0, 0
    for s in scripts:
        ops = s['ops']
        if any('$lek' in json.dumps(o.get('esk', {})) for o in ops):
            ops = [o for o in ops if 'esk' not in o]
        ev += len(ops)
        if not env_c17(ops):
            continue
        nt += 1
        d = twin_diff(ops)
        if d and len(viol) < 3:
            viol.append((dict(kind='twin', ops=ops[:d['step'] + 1], difference=d,
                              meaning='the same abstract script through the SDK v1 and the SDK v2 client'), ''))
    return dict(coverage=dict(twin_scripts=len(scripts), twin_in_envelope=nt), evaluations=ev, nontrivial=nt, traces=2 * len(scripts),
                violations=viol, rule='twin: the same script through both clients, compared step by step inside the envelope (no empty containers, names >= 3 chars); ')


# ---------------- C11: schedules under the race detector ----------------
def race_stress(pid, tier, seed, known):
    import re, subprocess, time
    ms = 1500 if tier == 'quick' else 60000
    env = dict(runner.GOENV, VERIF_RACE_MS=str(ms), VERIF_SEED=str(seed))
    env.pop('CGO_ENABLED', None)
    hdir = os.path.join(ROOT, 'harness')
    t0 = time.time()
    runner.build_harness()
    p = subprocess.run(['go', 'test', '-modfile', os.path.join(runner.BUILD, 'harness.mod'), '-race', '-tags', 'verif', '-run', 'TestConc', '-count=1', '-v', '.'], cwd=hdir, env=env,
                       stdout=subprocess.PIPE, stderr=subprocess.STDOUT, text=True, timeout=3600)
    log = p.stdout
    races = len(re.findall(r'WARNING: DATA RACE', log))
    fails = re.findall(r'--- FAIL: (\w+)', log)
    lin = re.findall(r'LINEARIZABILITY: [^\n]*', log)
    passed = re.findall(r'--- PASS: (\w+)', log)
    viol = []
    if races or fails or p.returncode != 0:
        excerpt = log[log.find('WARNING: DATA RACE'):][:3000] if races else log[-3000:]
        viol.append((dict(kind='concurrency', data_race_reports=races, failed_tests=fails, linearizability=lin, excerpt=excerpt,
                          how_to_run='cd /verif/harness && go test -race -tags verif -run TestConc -count=1 .',
                          meaning='race detector reports and outcomes of concurrent executions (N concurrent ADD 1 = N, one winner among racing conditional puts)'), ''))
    return dict(coverage=dict(race_tests_passed=passed, data_race_reports=races, race_budget_ms=ms), evaluations=len(passed) + len(fails),
                nontrivial=len(passed), traces=len(passed) + len(fails), violations=viol,
                samples=[dict(test='TestConcV2Mix', goroutines=8, calls='every client method incl. table management, batch calls, ClearTable, failure toggling', budget_ms=ms)],
                rule='conc: 8 goroutines x every kind of client call under the Go race detector; counter and one-winner linearizability checks; ')


# ---------------- C14: poke matrix ----------------
def poke_matrix(pid, tier, seed, known):
    viol, total, cells = [], 0, []
    known_cells = set()
    for k in known:
        if k.get('status') == 'known':
            for c in k.get('cells', []):
                known_cells.add(tuple(c))
    known_lines = []
    for sdk in ('v1', 'v2'):
        obs = runner.run_harness('v2', [{'id': 'p', 'ops': [{'op': 'poke_matrix', 'sdk': sdk}]}], dump=False, tag='poke')['p'][0]
        if obs.get('r') != 'ok':
            viol.append((dict(kind='poke-matrix', sdk=sdk, error=obs), 'no-failing-input-found'))
            continue
        for c in obs['matrix']:
            total += 1
            if c.get('note'):
                viol.append((dict(kind='poke-matrix', sdk=sdk, cell=c, meaning='the probe itself failed'), 'no-failing-input-found'))
            if c['visible']:
                cell = (sdk, c['dir'], c['kind'])
                if cell in known_cells:
                    continue
                cells.append(cell)
                if len(viol) < 3:
                    viol.append((dict(kind='poke-matrix', sdk=sdk, direction=c['dir'], value_kind=c['kind'],
                                      meaning='mutating this caller-side location after the call returned changed what later reads return',
                                      how_to_run='harness unit op {"op":"poke_matrix","sdk":"%s"}' % sdk), ''))
    return dict(coverage=dict(poke_cells=total, visible_cells=[list(c) for c in cells]), evaluations=total, nontrivial=total, traces=total,
                violations=viol, known_lines=known_lines,
                samples=[dict(sdk='v1', direction='put_input', kind='L.S', poke='*item["a"].L[0].S = "POKED" after PutItem returned, then GetItem')],
                rule='poke: 2 clients x 7 directions (PutItem input, UpdateItem values, GetItem/Query/Scan/UpdateItem outputs, stability of returned results) x 15 locations, plus 4 key directions (LastEvaluatedKey of Scan and of an index Query, Key of an UpdateItem that creates the item, ExclusiveStartKey) x string / number / binary keys; ')
