// PLACE: aws-v2/client  RUN: TestC05Find4
package client_test

// C05 finding 4: sets are unordered. A binary set attribute is equal to the same set given in another
// order (string sets and number sets are handled correctly), so "tokens = :expected" is true and the
// write must take effect. minidyn compares binary sets element by element in the order they were given
// and answers ConditionalCheckFailedException.

import (
	"context"
	"testing"

	"github.com/aws/aws-sdk-go-v2/aws"
	"github.com/aws/aws-sdk-go-v2/service/dynamodb"
	"github.com/aws/aws-sdk-go-v2/service/dynamodb/types"
	minidyn "github.com/truora/minidyn/aws-v2/client"
)

func TestC05Find4_BinarySetEqualityIgnoresOrder(t *testing.T) {
	c := minidyn.NewClient()
	if err := minidyn.AddTable(context.Background(), c, "sessions", "id", ""); err != nil {
		t.Fatal(err)
	}

	_, err := c.PutItem(context.Background(), &dynamodb.PutItemInput{TableName: aws.String("sessions"), Item: map[string]types.AttributeValue{
		"id":     &types.AttributeValueMemberS{Value: "s1"},
		"tokens": &types.AttributeValueMemberBS{Value: [][]byte{[]byte("aa"), []byte("bb")}},
		"labels": &types.AttributeValueMemberSS{Value: []string{"aa", "bb"}},
	}})
	if err != nil {
		t.Fatal(err)
	}

	// reference: the same test on a string set passes
	_, err = c.UpdateItem(context.Background(), &dynamodb.UpdateItemInput{
		TableName:                 aws.String("sessions"),
		Key:                       map[string]types.AttributeValue{"id": &types.AttributeValueMemberS{Value: "s1"}},
		UpdateExpression:          aws.String("SET checked = :one"),
		ConditionExpression:       aws.String("labels = :expected"),
		ExpressionAttributeValues: map[string]types.AttributeValue{":one": &types.AttributeValueMemberN{Value: "1"}, ":expected": &types.AttributeValueMemberSS{Value: []string{"bb", "aa"}}},
	})
	if err != nil {
		t.Fatalf("string set: %v", err)
	}

	_, err = c.UpdateItem(context.Background(), &dynamodb.UpdateItemInput{
		TableName:                 aws.String("sessions"),
		Key:                       map[string]types.AttributeValue{"id": &types.AttributeValueMemberS{Value: "s1"}},
		UpdateExpression:          aws.String("SET checked = :two"),
		ConditionExpression:       aws.String("tokens = :expected"),
		ExpressionAttributeValues: map[string]types.AttributeValue{":two": &types.AttributeValueMemberN{Value: "2"}, ":expected": &types.AttributeValueMemberBS{Value: [][]byte{[]byte("bb"), []byte("aa")}}},
	})
	if err != nil {
		t.Fatalf("binary set {aa, bb} = {bb, aa} is true, UpdateItem must succeed: %v", err)
	}

	// and the negation must fail
	_, err = c.DeleteItem(context.Background(), &dynamodb.DeleteItemInput{
		TableName:                 aws.String("sessions"),
		Key:                       map[string]types.AttributeValue{"id": &types.AttributeValueMemberS{Value: "s1"}},
		ConditionExpression:       aws.String("tokens <> :expected"),
		ExpressionAttributeValues: map[string]types.AttributeValue{":expected": &types.AttributeValueMemberBS{Value: [][]byte{[]byte("bb"), []byte("aa")}}},
	})
	if err == nil {
		t.Fatalf("binary set {aa, bb} <> {bb, aa} is false, DeleteItem must fail")
	}
}
