// PLACE: aws-v2/client  RUN: go test -run TestC15TransactFailureKind
package client_test

// C15 (census of the pinned commit, known finding C15-1 until it was repaired): under EmulateFailure with the
// internal-server condition TransactWriteItems answered ErrForcedFailure, the error of the deprecated condition; every
// data operation returns the error that is configured.

import (
	"context"
	"errors"
	"testing"

	"github.com/aws/aws-sdk-go-v2/service/dynamodb"
	"github.com/aws/aws-sdk-go-v2/service/dynamodb/types"
	"github.com/truora/minidyn/aws-v2/client"
)

func TestC15TransactFailureKind(t *testing.T) {
	c := client.NewClient()

	client.EmulateFailure(c, client.FailureConditionInternalServerError)

	_, err := c.TransactWriteItems(context.Background(), &dynamodb.TransactWriteItemsInput{})

	var ise *types.InternalServerError
	if !errors.As(err, &ise) {
		t.Fatalf("under the internal-server condition TransactWriteItems answered %v", err)
	}

	client.ActiveForceFailure(c)

	if _, err := c.TransactWriteItems(context.Background(), &dynamodb.TransactWriteItemsInput{}); !errors.Is(err, client.ErrForcedFailure) {
		t.Fatalf("under the forced failure TransactWriteItems answered %v", err)
	}

	client.DeactiveForceFailure(c)

	if _, err := c.TransactWriteItems(context.Background(), &dynamodb.TransactWriteItemsInput{}); err != nil {
		t.Fatalf("after deactivation: %v", err)
	}
}
