// PLACE: aws-v2/client  RUN: go test -run TestC09RemoveThenAddList
package client_test

// C09 (reported by a round-3 sub-agent as an aside, confirmed here): "REMOVE l[0] ADD k l" on two list attributes made
// UpdateItem crash with a nil pointer dereference: ADD appended the not yet compacted elements of l, the nil slot of the
// removed element included, and writing the item back dereferenced it. An update expression never ends in a runtime fault.

import (
	"context"
	"testing"

	"github.com/aws/aws-sdk-go-v2/aws"
	"github.com/aws/aws-sdk-go-v2/service/dynamodb"
	"github.com/aws/aws-sdk-go-v2/service/dynamodb/types"
	"github.com/truora/minidyn/aws-v2/client"
)

func TestC09RemoveThenAddList(t *testing.T) {
	c := client.NewClient()
	ctx := context.Background()

	if err := client.AddTable(ctx, c, "tbl", "h", ""); err != nil {
		t.Fatal(err)
	}

	_, err := c.PutItem(ctx, &dynamodb.PutItemInput{TableName: aws.String("tbl"), Item: map[string]types.AttributeValue{
		"h": &types.AttributeValueMemberS{Value: "k"},
		"l": &types.AttributeValueMemberL{Value: []types.AttributeValue{&types.AttributeValueMemberS{Value: "a"}, &types.AttributeValueMemberS{Value: "b"}}},
		"k": &types.AttributeValueMemberL{Value: []types.AttributeValue{&types.AttributeValueMemberS{Value: "z"}}},
	}})
	if err != nil {
		t.Fatal(err)
	}

	defer func() {
		if p := recover(); p != nil {
			if e, ok := p.(error); ok && e.Error() == "runtime error: invalid memory address or nil pointer dereference" {
				t.Fatalf("UpdateItem crashed: %v", p)
			}
		}
	}()

	_, _ = c.UpdateItem(ctx, &dynamodb.UpdateItemInput{TableName: aws.String("tbl"),
		Key:              map[string]types.AttributeValue{"h": &types.AttributeValueMemberS{Value: "k"}},
		UpdateExpression: aws.String("REMOVE l[0] ADD k l")})

	out, err := c.GetItem(ctx, &dynamodb.GetItemInput{TableName: aws.String("tbl"), Key: map[string]types.AttributeValue{"h": &types.AttributeValueMemberS{Value: "k"}}})
	if err != nil || out.Item == nil {
		t.Fatalf("the item is gone or unreadable after the update: %v %v", out, err)
	}
}
