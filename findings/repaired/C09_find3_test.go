// PLACE: aws-v2/client  RUN: TestAuditC09Find3
package client

// C09 finding 3: "a IN ()" - an IN with an empty operand list - is accepted and
// evaluates to false.  The grammar requires at least one operand; the neighbour
// forms "a IN (:x,)" and "a IN (:x" are rejected.

import (
	"context"
	"errors"
	"testing"

	"github.com/aws/aws-sdk-go-v2/aws"
	"github.com/aws/aws-sdk-go-v2/service/dynamodb"
	dynamodbtypes "github.com/aws/aws-sdk-go-v2/service/dynamodb/types"
)

func find3Outcome(t *testing.T, condition string, values map[string]dynamodbtypes.AttributeValue) (outcome string) {
	t.Helper()

	client := NewClient()

	if err := AddTable(context.Background(), client, "find3", "id", ""); err != nil {
		t.Fatal(err)
	}

	item := map[string]dynamodbtypes.AttributeValue{
		"id":    &dynamodbtypes.AttributeValueMemberS{Value: "001"},
		"title": &dynamodbtypes.AttributeValueMemberS{Value: "x"},
	}

	if _, err := client.PutItem(context.Background(), &dynamodb.PutItemInput{TableName: aws.String("find3"), Item: item}); err != nil {
		t.Fatal(err)
	}

	defer func() {
		if r := recover(); r != nil {
			outcome = "rejected"
		}
	}()

	_, err := client.DeleteItem(context.Background(), &dynamodb.DeleteItemInput{
		TableName:                 aws.String("find3"),
		Key:                       map[string]dynamodbtypes.AttributeValue{"id": item["id"]},
		ConditionExpression:       aws.String(condition),
		ExpressionAttributeValues: values,
	})

	var apiErr interface{ ErrorCode() string }

	switch {
	case err == nil:
		return "evaluated: condition true"
	case errors.As(err, &apiErr) && apiErr.ErrorCode() == "ConditionalCheckFailedException":
		return "evaluated: condition false"
	}

	return "rejected"
}

func TestAuditC09Find3EmptyInList(t *testing.T) {
	x := map[string]dynamodbtypes.AttributeValue{":x": &dynamodbtypes.AttributeValueMemberS{Value: "x"}}

	// controls
	if got := find3Outcome(t, "title IN (:x)", x); got != "evaluated: condition true" {
		t.Errorf("control %q: got %s", "title IN (:x)", got)
	}

	for _, condition := range []string{"title IN (:x,)", "title IN (:x", "title IN :x"} {
		if got := find3Outcome(t, condition, x); got != "rejected" {
			t.Errorf("control %q: want rejected, got %s", condition, got)
		}
	}

	for _, condition := range []string{"title IN ()", "NOT title IN ()", "nope IN ( )"} {
		if got := find3Outcome(t, condition, nil); got != "rejected" {
			t.Errorf("condition %q has an empty IN list: want rejected, got %s", condition, got)
		}
	}
}
