// PLACE: interpreter  RUN: go test -run TestC07AddSharesOperand
package interpreter_test

// C07 (found by the update stream once the quick tier ran more cases): "ADD k ll REMOVE ll[1][0]" - ADD appended the
// element objects of ll themselves to k, so the REMOVE that follows emptied the copy inside k as well. Every right-hand
// side reads the item as it is, and what it stores is a copy (as SET does since 66afe2b).

import (
	"testing"

	"github.com/truora/minidyn/interpreter"
	"github.com/truora/minidyn/types"
)

func TestC07AddSharesOperand(t *testing.T) {
	n := func(s string) *types.Item { return &types.Item{N: &s} }
	item := map[string]*types.Item{
		"k":  {L: []*types.Item{}},
		"ll": {L: []*types.Item{{L: []*types.Item{n("1"), n("2")}}, {L: []*types.Item{n("3")}}}},
	}

	lang := &interpreter.Language{}

	err := lang.Update(interpreter.UpdateInput{TableName: "t", Expression: "ADD k ll REMOVE ll[1][0]", Item: item})
	if err != nil {
		t.Fatal(err)
	}

	k := item["k"].L
	if len(k) != 2 || len(k[1].L) != 1 || k[1].L[0].N == nil || *k[1].L[0].N != "3" {
		t.Fatalf("k holds what ll held BEFORE the update ([[1 2] [3]]); got %d elements, second: %+v", len(k), k[len(k)-1])
	}
}
