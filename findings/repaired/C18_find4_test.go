// PLACE: aws-v1/client  RUN: go test ./aws-v1/client -run 'TestC18Find4'
package client

import (
	"testing"

	"github.com/aws/aws-sdk-go/aws"
	"github.com/aws/aws-sdk-go/service/dynamodb"
)

// Property C18: separate clients share no state (and operations on one table never affect another).
// The SDK v1 client stores the caller's Projection pointers in the index and hands the very same pointers out
// in DescribeTable / CreateTable / UpdateTable / DeleteTable outputs. Two clients (or two tables) whose indexes were
// declared with the same Projection value therefore share it: editing the description returned by one client
// changes what the other client reports.

func c18find4Input(gsis []*dynamodb.GlobalSecondaryIndex) *dynamodb.CreateTableInput {
	return &dynamodb.CreateTableInput{
		TableName:   aws.String("tbl"),
		BillingMode: aws.String("PAY_PER_REQUEST"),
		AttributeDefinitions: []*dynamodb.AttributeDefinition{
			{AttributeName: aws.String("h"), AttributeType: aws.String("S")},
			{AttributeName: aws.String("g"), AttributeType: aws.String("S")},
		},
		KeySchema:              []*dynamodb.KeySchemaElement{{AttributeName: aws.String("h"), KeyType: aws.String("HASH")}},
		GlobalSecondaryIndexes: gsis,
	}
}

func c18find4Projection(t *testing.T, c *Client) (string, string) {
	t.Helper()

	d, err := c.DescribeTable(&dynamodb.DescribeTableInput{TableName: aws.String("tbl")})
	if err != nil {
		t.Fatal(err)
	}

	p := d.Table.GlobalSecondaryIndexes[0].Projection

	return aws.StringValue(p.ProjectionType), aws.StringValue(p.NonKeyAttributes[0])
}

func TestC18Find4ProjectionSharedBetweenClients(t *testing.T) {
	// a shared fixture, as test suites have them
	gsis := []*dynamodb.GlobalSecondaryIndex{{
		IndexName:  aws.String("gidx"),
		KeySchema:  []*dynamodb.KeySchemaElement{{AttributeName: aws.String("g"), KeyType: aws.String("HASH")}},
		Projection: &dynamodb.Projection{ProjectionType: aws.String("INCLUDE"), NonKeyAttributes: []*string{aws.String("x")}},
	}}

	one, two := NewClient(), NewClient()

	if _, err := one.CreateTable(c18find4Input(gsis)); err != nil {
		t.Fatal(err)
	}

	if _, err := two.CreateTable(c18find4Input(gsis)); err != nil {
		t.Fatal(err)
	}

	// the caller edits the answer it got from client one
	d, err := one.DescribeTable(&dynamodb.DescribeTableInput{TableName: aws.String("tbl")})
	if err != nil {
		t.Fatal(err)
	}

	*d.Table.GlobalSecondaryIndexes[0].Projection.ProjectionType = "ALL"
	*d.Table.GlobalSecondaryIndexes[0].Projection.NonKeyAttributes[0] = "edited"

	if typ, attr := c18find4Projection(t, one); typ != "INCLUDE" || attr != "x" {
		t.Errorf("client one: editing a DescribeTable output changed the table: projection is now %s [%s]", typ, attr)
	}

	if typ, attr := c18find4Projection(t, two); typ != "INCLUDE" || attr != "x" {
		t.Errorf("client two shares state with client one: projection is now %s [%s], want INCLUDE [x]", typ, attr)
	}
}
