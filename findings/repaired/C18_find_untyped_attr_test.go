// PLACE: aws-v2/client  RUN: go test -run TestC18UntypedAttributeDefinition
package client_test

// C18 (found by the correspondence check, lifecycle stream): CreateTable with an attribute definition whose AttributeType
// is left unset (the zero value of the SDK v2 enum) crashed with a nil pointer dereference in core.SetAttributeDefinition.
// A key attribute without a type is rejected; a client that survives the call keeps working.

import (
	"context"
	"testing"

	"github.com/aws/aws-sdk-go-v2/aws"
	"github.com/aws/aws-sdk-go-v2/service/dynamodb"
	"github.com/aws/aws-sdk-go-v2/service/dynamodb/types"
	"github.com/truora/minidyn/aws-v2/client"
)

func TestC18UntypedAttributeDefinition(t *testing.T) {
	c := client.NewClient()

	defer func() {
		if r := recover(); r != nil {
			t.Fatalf("CreateTable panicked: %v", r)
		}
	}()

	_, err := c.CreateTable(context.Background(), &dynamodb.CreateTableInput{
		TableName:   aws.String("tbl"),
		BillingMode: types.BillingModePayPerRequest,
		AttributeDefinitions: []types.AttributeDefinition{
			{AttributeName: aws.String("h"), AttributeType: "S"},
			{AttributeName: aws.String("r")},
		},
		KeySchema: []types.KeySchemaElement{{AttributeName: aws.String("h"), KeyType: "HASH"}, {AttributeName: aws.String("r"), KeyType: "RANGE"}},
	})
	if err == nil {
		t.Fatalf("a range key without a type was accepted")
	}

	if _, err := c.DescribeTable(context.Background(), &dynamodb.DescribeTableInput{TableName: aws.String("tbl")}); err == nil {
		t.Fatalf("the rejected table exists")
	}
}
