// PLACE: aws-v2/client  RUN: go test ./aws-v2/client -run 'TestC18Find1'
package client

import (
	"context"
	"errors"
	"testing"

	"github.com/aws/aws-sdk-go-v2/aws"
	"github.com/aws/aws-sdk-go-v2/service/dynamodb"
	"github.com/aws/aws-sdk-go-v2/service/dynamodb/types"
)

// Property C18: operating on a table that does not exist fails with a resource-not-found error.
// SDK v2 BatchGetItem on a table that was never created (or was deleted) answers without an error:
// the table shows up in Responses (as if it existed and were empty) and its keys are "unprocessed",
// so a caller that retries unprocessed keys loops forever.

func c18find1Key(v string) map[string]types.AttributeValue {
	return map[string]types.AttributeValue{"h": &types.AttributeValueMemberS{Value: v}}
}

func c18find1Check(t *testing.T, c *Client, table string) {
	t.Helper()

	out, err := c.BatchGetItem(context.Background(), &dynamodb.BatchGetItemInput{
		RequestItems: map[string]types.KeysAndAttributes{
			table: {Keys: []map[string]types.AttributeValue{c18find1Key("a")}},
		},
	})

	var notFound *types.ResourceNotFoundException
	if !errors.As(err, &notFound) {
		t.Fatalf("BatchGetItem on the non-existent table %q: want ResourceNotFoundException, got err=%v output=%+v", table, err, out)
	}
}

func TestC18Find1BatchGetItemOnMissingTable(t *testing.T) {
	ctx := context.Background()
	c := NewClient()

	// the other read of the same client does fail as required
	_, err := c.GetItem(ctx, &dynamodb.GetItemInput{TableName: aws.String("never-created"), Key: c18find1Key("a")})

	var notFound *types.ResourceNotFoundException
	if !errors.As(err, &notFound) {
		t.Fatalf("GetItem on a non-existent table: want ResourceNotFoundException, got %v", err)
	}

	t.Run("never created", func(t *testing.T) {
		c18find1Check(t, c, "never-created")
	})

	t.Run("deleted", func(t *testing.T) {
		if err := AddTable(ctx, c, "short-lived", "h", ""); err != nil {
			t.Fatal(err)
		}

		if _, err := c.PutItem(ctx, &dynamodb.PutItemInput{TableName: aws.String("short-lived"), Item: c18find1Key("a")}); err != nil {
			t.Fatal(err)
		}

		if _, err := c.DeleteTable(ctx, &dynamodb.DeleteTableInput{TableName: aws.String("short-lived")}); err != nil {
			t.Fatal(err)
		}

		c18find1Check(t, c, "short-lived")
	})

	t.Run("one existing and one missing table", func(t *testing.T) {
		if err := AddTable(ctx, c, "present", "h", ""); err != nil {
			t.Fatal(err)
		}

		out, err := c.BatchGetItem(ctx, &dynamodb.BatchGetItemInput{
			RequestItems: map[string]types.KeysAndAttributes{
				"present": {Keys: []map[string]types.AttributeValue{c18find1Key("a")}},
				"absent":  {Keys: []map[string]types.AttributeValue{c18find1Key("a")}},
			},
		})

		var notFound *types.ResourceNotFoundException
		if !errors.As(err, &notFound) {
			t.Fatalf("BatchGetItem naming a non-existent table: want ResourceNotFoundException, got err=%v output=%+v", err, out)
		}
	})
}
