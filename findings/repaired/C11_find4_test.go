// PLACE: aws-v2/client  RUN: go test -race -run TestC11Find4
// (the data-race subtests need -race; the last test fails without it too)
package client_test

// C11 finding 4 (SDK v2; aws-v1/client/client.go Query has the same statement): Query WRITES to the input structure
// of the caller: `if input.ScanIndexForward == nil { input.ScanIndexForward = aws.Bool(true) }`.
// The AWS SDK treats inputs as read-only, so programs share prepared inputs between goroutines. The write is done
// under the lock of ONE client only, so it is a data race with
//   - a Query of the same prepared input on another fake client (parallel tests, one client each),
//   - any goroutine that just reads the input it owns while a Query is in flight.
// Run with -race: the race detector reports "WARNING: DATA RACE ... Write at ... (*Client).Query" and fails the test.

import (
	"context"
	"sync"
	"testing"

	"github.com/aws/aws-sdk-go-v2/aws"
	"github.com/aws/aws-sdk-go-v2/service/dynamodb"
	"github.com/aws/aws-sdk-go-v2/service/dynamodb/types"
	"github.com/truora/minidyn/aws-v2/client"
)

func c11f4Client(t *testing.T) *client.Client {
	t.Helper()

	c := client.NewClient()
	if err := client.AddTable(context.Background(), c, "tbl", "h", "r"); err != nil {
		t.Fatal(err)
	}

	return c
}

func c11f4Input() *dynamodb.QueryInput {
	return &dynamodb.QueryInput{
		TableName:                 aws.String("tbl"),
		KeyConditionExpression:    aws.String("h = :h"),
		ExpressionAttributeValues: map[string]types.AttributeValue{":h": &types.AttributeValueMemberS{Value: "a"}},
	}
}

// the same prepared input, queried on two clients by two goroutines
func TestC11Find4_SharedInputTwoClients(t *testing.T) {
	ctx := context.Background()
	clients := []*client.Client{c11f4Client(t), c11f4Client(t)}
	shared := c11f4Input()

	var wg sync.WaitGroup

	for _, c := range clients {
		wg.Add(1)

		go func(c *client.Client) {
			defer wg.Done()

			if _, err := c.Query(ctx, shared); err != nil {
				t.Error(err)
			}
		}(c)
	}

	wg.Wait()
}

// one client; the second goroutine only READS the input it shares (as a logger or a retry wrapper would)
func TestC11Find4_CallerReadsItsInput(t *testing.T) {
	ctx := context.Background()
	c := c11f4Client(t)
	shared := c11f4Input()

	var wg sync.WaitGroup

	wg.Add(2)

	go func() {
		defer wg.Done()

		if _, err := c.Query(ctx, shared); err != nil {
			t.Error(err)
		}
	}()

	go func() {
		defer wg.Done()

		_ = shared.ScanIndexForward == nil
	}()

	wg.Wait()
}

// the same defect without any concurrency: the input of the caller is not what it was before the call
func TestC11Find4_InputIsModified(t *testing.T) {
	c := c11f4Client(t)
	in := c11f4Input()

	if _, err := c.Query(context.Background(), in); err != nil {
		t.Fatal(err)
	}

	if in.ScanIndexForward != nil {
		t.Fatalf("Query modified its input: ScanIndexForward was nil, is now a pointer to %v", *in.ScanIndexForward)
	}
}
