// PLACE: aws-v2/client  RUN: go test ./aws-v2/client/ -run 'TestC16Find3'
package client_test

// C16 finding 3: Query and Scan check their expressions only while evaluating them against a
// stored item. When no item is visited (empty table) or, for the filter of a Query, when no item
// satisfies the key condition, a reserved word used as a bare attribute name is accepted. The very
// same request is refused as soon as a matching item exists, so the verdict depends on the data.
// Real DynamoDB validates the request before it reads anything. Same for the SDK v1 client.

import (
	"context"
	"fmt"
	"testing"

	"github.com/aws/aws-sdk-go-v2/aws"
	"github.com/aws/aws-sdk-go-v2/service/dynamodb"
	"github.com/aws/aws-sdk-go-v2/service/dynamodb/types"
	"github.com/truora/minidyn/aws-v2/client"
)

func f3Outcome(f func() error) (res string) {
	defer func() {
		if r := recover(); r != nil {
			res = fmt.Sprintf("rejected (panic): %v", r)
		}
	}()

	if err := f(); err != nil {
		return "rejected: " + err.Error()
	}

	return "ACCEPTED"
}

func TestC16Find3ReservedWordNotDetectedWithoutMatchingItem(t *testing.T) {
	ctx := context.Background()
	c := client.NewClient()

	if err := client.AddTable(ctx, c, "tbl", "h", "r"); err != nil {
		t.Fatal(err)
	}

	str := func(v string) types.AttributeValue { return &types.AttributeValueMemberS{Value: v} }

	scan := func() error {
		_, err := c.Scan(ctx, &dynamodb.ScanInput{TableName: aws.String("tbl"),
			FilterExpression:          aws.String("name = :v"),
			ExpressionAttributeValues: map[string]types.AttributeValue{":v": str("x")}})
		return err
	}
	queryKey := func() error {
		_, err := c.Query(ctx, &dynamodb.QueryInput{TableName: aws.String("tbl"),
			KeyConditionExpression:    aws.String("h = :h AND status = :v"),
			ExpressionAttributeValues: map[string]types.AttributeValue{":h": str("a"), ":v": str("x")}})
		return err
	}
	queryFilter := func(h string) func() error {
		return func() error {
			_, err := c.Query(ctx, &dynamodb.QueryInput{TableName: aws.String("tbl"),
				KeyConditionExpression:    aws.String("h = :h"),
				FilterExpression:          aws.String("name = :v"),
				ExpressionAttributeValues: map[string]types.AttributeValue{":h": str(h), ":v": str("x")}})
			return err
		}
	}

	// empty table
	if got := f3Outcome(scan); got == "ACCEPTED" {
		t.Errorf("empty table: Scan with FilterExpression \"name = :v\" accepted")
	}

	if got := f3Outcome(queryKey); got == "ACCEPTED" {
		t.Errorf("empty table: Query with KeyConditionExpression \"h = :h AND status = :v\" accepted")
	}

	if got := f3Outcome(queryFilter("a")); got == "ACCEPTED" {
		t.Errorf("empty table: Query with FilterExpression \"name = :v\" accepted")
	}

	_, err := c.PutItem(ctx, &dynamodb.PutItemInput{TableName: aws.String("tbl"), Item: map[string]types.AttributeValue{"h": str("a"), "r": str("1")}})
	if err != nil {
		t.Fatal(err)
	}

	// control: with an item that reaches the expression the requests are refused
	if got := f3Outcome(scan); got == "ACCEPTED" {
		t.Fatalf("control: Scan accepted with an item in the table")
	}

	if got := f3Outcome(queryFilter("a")); got == "ACCEPTED" {
		t.Fatalf("control: Query accepted with a matching item in the table")
	}

	// one item in the table, but the key condition selects another partition
	if got := f3Outcome(queryFilter("other")); got == "ACCEPTED" {
		t.Errorf("no item matches the key condition: Query with FilterExpression \"name = :v\" accepted")
	}
}
