// PLACE: aws-v2/client  RUN: go test -run TestC15EmptyBatchUnderForcedFailure
package client_test

// C15 (reported by a round-7 reader of the code, confirmed by the correspondence check once the model said "every data
// call fails"): while ActiveForceFailure was on, a BatchWriteItem that held no request - no table entry, or table entries
// without requests - answered success, because the failure was only noticed while a request was looked at.

import (
	"context"
	"testing"

	"github.com/aws/aws-sdk-go-v2/service/dynamodb"
	"github.com/aws/aws-sdk-go-v2/service/dynamodb/types"
	"github.com/truora/minidyn/aws-v2/client"
)

func TestC15EmptyBatchUnderForcedFailure(t *testing.T) {
	c := client.NewClient()

	if err := client.AddTable(context.Background(), c, "tbl", "h", ""); err != nil {
		t.Fatal(err)
	}

	client.ActiveForceFailure(c)

	for name, in := range map[string]*dynamodb.BatchWriteItemInput{
		"no tables":   {RequestItems: map[string][]types.WriteRequest{}},
		"no requests": {RequestItems: map[string][]types.WriteRequest{"tbl": {}}},
	} {
		if _, err := c.BatchWriteItem(context.Background(), in); err == nil {
			t.Errorf("%s: the batch succeeded while the forced failure was active", name)
		}
	}

	client.DeactiveForceFailure(c)

	if _, err := c.BatchWriteItem(context.Background(), &dynamodb.BatchWriteItemInput{RequestItems: map[string][]types.WriteRequest{"tbl": {}}}); err != nil {
		t.Errorf("after deactivation: %v", err)
	}
}
