// PLACE: aws-v2/client  RUN: go test -race -run TestC11Find6
// (needs -race to fail reliably; without it the run can die with "fatal error: concurrent map read and map write")
package client_test

// C11 finding 6 (both flavours share interpreter.Native): the registry of native expressions handed out by the test
// helper client.GetNativeInterpreter() is four plain maps with no synchronisation. AddMatcher / AddUpdater write to
// them without any lock while Query / Scan / UpdateItem / conditional writes read the SAME maps (the tables hold a
// by-value copy of the struct, that is, the same map headers) under the client lock only. Registering an expression
// from one goroutine (parallel subtests that share one fake client, each registering its own expressions, as the
// README shows for a single test) while another goroutine runs an operation is a data race.

import (
	"context"
	"fmt"
	"sync"
	"testing"

	"github.com/aws/aws-sdk-go-v2/aws"
	"github.com/aws/aws-sdk-go-v2/service/dynamodb"
	dynamodbtypes "github.com/aws/aws-sdk-go-v2/service/dynamodb/types"
	"github.com/truora/minidyn/aws-v2/client"
	"github.com/truora/minidyn/interpreter"
	"github.com/truora/minidyn/types"
)

func TestC11Find6_RegisteringNativeExpressionsRacesWithOperations(t *testing.T) {
	ctx := context.Background()

	c := client.NewClient()
	if err := client.AddTable(ctx, c, "tbl", "h", ""); err != nil {
		t.Fatal(err)
	}

	c.ActivateNativeInterpreter()

	always := func(map[string]*types.Item, map[string]*types.Item) bool { return true }
	c.GetNativeInterpreter().AddMatcher("tbl", interpreter.ExpressionTypeFilter, "attribute_exists(h)", always)

	if _, err := c.PutItem(ctx, &dynamodb.PutItemInput{TableName: aws.String("tbl"), Item: map[string]dynamodbtypes.AttributeValue{
		"h": &dynamodbtypes.AttributeValueMemberS{Value: "a"},
	}}); err != nil {
		t.Fatal(err)
	}

	var wg sync.WaitGroup

	wg.Add(2)

	// goroutine 1: a data operation that uses the registered expression
	go func() {
		defer wg.Done()

		for i := 0; i < 200; i++ {
			out, err := c.Scan(ctx, &dynamodb.ScanInput{TableName: aws.String("tbl"), FilterExpression: aws.String("attribute_exists(h)")})
			if err != nil || len(out.Items) != 1 {
				t.Errorf("scan: %v %v", out, err)
				return
			}
		}
	}()

	// goroutine 2: the test helper, registering the expressions of another test
	go func() {
		defer wg.Done()

		for i := 0; i < 200; i++ {
			c.GetNativeInterpreter().AddMatcher("tbl", interpreter.ExpressionTypeFilter, fmt.Sprintf("v = :v%d", i), always)
		}
	}()

	wg.Wait()
}
