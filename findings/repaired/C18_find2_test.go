// PLACE: core  RUN: go test ./core -run 'TestC18Find2'
package core_test

import (
	"testing"

	"github.com/truora/minidyn/core"
	"github.com/truora/minidyn/types"
)

// Property C18: clearing a table removes all its items from the table and from every index.
// core.Table.Clear (exported; "removes data and sorted keys from a table") empties the table but leaves the
// entries of the secondary indexes: the index still counts the item and a scan of the index returns a phantom,
// attribute-less item. (The two clients' ClearTable helpers compensate by clearing every index themselves.)

func c18find2Str(v string) *string { return &v }

func TestC18Find2CoreTableClearLeavesIndexEntries(t *testing.T) {
	s := c18find2Str

	tbl := core.NewTable("tbl")
	tbl.BillingMode = s("PAY_PER_REQUEST")
	tbl.SetAttributeDefinition([]*types.AttributeDefinition{
		{AttributeName: s("h"), AttributeType: s("S")},
		{AttributeName: s("g"), AttributeType: s("S")},
	})

	if err := tbl.CreatePrimaryIndex(&types.CreateTableInput{KeySchema: []*types.KeySchemaElement{{AttributeName: "h", KeyType: "HASH"}}}); err != nil {
		t.Fatal(err)
	}

	err := tbl.AddGlobalIndexes([]*types.GlobalSecondaryIndex{{
		IndexName:  s("gi"),
		KeySchema:  []*types.KeySchemaElement{{AttributeName: "g", KeyType: "HASH"}},
		Projection: &types.Projection{ProjectionType: s("ALL")},
	}})
	if err != nil {
		t.Fatal(err)
	}

	if _, err := tbl.Put(&types.PutItemInput{Item: map[string]*types.Item{"h": {S: s("a")}, "g": {S: s("x")}}}); err != nil {
		t.Fatal(err)
	}

	tbl.Clear()

	desc := tbl.Description("tbl")
	if desc.ItemCount != 0 {
		t.Fatalf("table item count after Clear: %d", desc.ItemCount)
	}

	if n := desc.GlobalSecondaryIndexes[0].ItemCount; n != 0 {
		t.Errorf("index item count after Clear: got %d, want 0", n)
	}

	items, _ := tbl.SearchData(core.QueryInput{Index: "gi", Scan: true, ScanIndexForward: true})
	if len(items) != 0 {
		t.Errorf("scan of the index after Clear: got %d item(s) %v, want none", len(items), items)
	}
}
