// PLACE: aws-v1/client  RUN: go test ./aws-v1/client/ -run 'TestAuditC08Find1'
package client

// C08 finding 1 (SDK v1 client): a PutItem whose item contains a list with a nil element aborts (nil pointer
// panic in the output mapper) AFTER the item has been written to the table and to its indexes. The aborted
// request leaves a trace: the item is stored, the item count and the index grow, and every later Scan / GetItem /
// Query that touches the item panics as well. Same abort-after-write through BatchWriteItem and through
// DeleteItem(ReturnValues=ALL_OLD).

import (
	"fmt"
	"testing"

	"github.com/aws/aws-sdk-go/aws"
	"github.com/aws/aws-sdk-go/service/dynamodb"
)

func auditC08Find1Setup(t *testing.T) *Client {
	t.Helper()

	c := NewClient()

	if err := AddTable(c, "tbl", "h", ""); err != nil {
		t.Fatal(err)
	}

	if err := AddIndex(c, "tbl", "idx", "g", ""); err != nil {
		t.Fatal(err)
	}

	_, err := c.PutItem(&dynamodb.PutItemInput{
		TableName: aws.String("tbl"),
		Item: map[string]*dynamodb.AttributeValue{
			"h": {S: aws.String("old")},
			"g": {S: aws.String("g0")},
		},
	})
	if err != nil {
		t.Fatal(err)
	}

	return c
}

// auditC08Find1Observe reads the table and the index; a panic while reading is reported as an error
func auditC08Find1Observe(c *Client) (desc string, err error) {
	defer func() {
		if p := recover(); p != nil {
			err = fmt.Errorf("read panicked: %v", p)
		}
	}()

	d, derr := c.DescribeTable(&dynamodb.DescribeTableInput{TableName: aws.String("tbl")})
	if derr != nil {
		return "", derr
	}

	scan, serr := c.Scan(&dynamodb.ScanInput{TableName: aws.String("tbl")})
	if serr != nil {
		return "", serr
	}

	iscan, ierr := c.Scan(&dynamodb.ScanInput{TableName: aws.String("tbl"), IndexName: aws.String("idx")})
	if ierr != nil {
		return "", ierr
	}

	return fmt.Sprintf("count=%d scan=%d index=%d", *d.Table.ItemCount, len(scan.Items), len(iscan.Items)), nil
}

func TestAuditC08Find1PutItem(t *testing.T) {
	c := auditC08Find1Setup(t)

	before, err := auditC08Find1Observe(c)
	if err != nil {
		t.Fatal(err)
	}

	var (
		putErr   error
		panicked interface{}
	)

	func() {
		defer func() { panicked = recover() }()

		_, putErr = c.PutItem(&dynamodb.PutItemInput{
			TableName: aws.String("tbl"),
			Item: map[string]*dynamodb.AttributeValue{
				"h": {S: aws.String("new")},
				"g": {S: aws.String("g1")},
				"l": {L: []*dynamodb.AttributeValue{{S: aws.String("x")}, nil}},
			},
		})
	}()

	if putErr == nil && panicked == nil {
		t.Log("the request did not fail, nothing to check for C08")

		return
	}

	t.Logf("PutItem failed: err=%v panic=%v", putErr, panicked)

	after, err := auditC08Find1Observe(c)
	if err != nil {
		t.Fatalf("the failed PutItem left a trace, reads now fail: %v (before: %s)", err, before)
	}

	if after != before {
		t.Fatalf("the failed PutItem left a trace: before %s, after %s", before, after)
	}
}

func TestAuditC08Find1BatchWriteItem(t *testing.T) {
	c := auditC08Find1Setup(t)

	before, err := auditC08Find1Observe(c)
	if err != nil {
		t.Fatal(err)
	}

	var (
		batchErr error
		panicked interface{}
	)

	func() {
		defer func() { panicked = recover() }()

		_, batchErr = c.BatchWriteItem(&dynamodb.BatchWriteItemInput{
			RequestItems: map[string][]*dynamodb.WriteRequest{
				"tbl": {
					{PutRequest: &dynamodb.PutRequest{Item: map[string]*dynamodb.AttributeValue{
						"h": {S: aws.String("good")},
					}}},
					{PutRequest: &dynamodb.PutRequest{Item: map[string]*dynamodb.AttributeValue{
						"h": {S: aws.String("bad")},
						"l": {L: []*dynamodb.AttributeValue{nil}},
					}}},
				},
			},
		})
	}()

	if batchErr == nil && panicked == nil {
		t.Log("the request did not fail, nothing to check for C08")

		return
	}

	t.Logf("BatchWriteItem failed: err=%v panic=%v", batchErr, panicked)

	after, err := auditC08Find1Observe(c)
	if err != nil {
		t.Fatalf("the failed BatchWriteItem left a trace, reads now fail: %v (before: %s)", err, before)
	}

	if after != before {
		t.Fatalf("the failed BatchWriteItem left a trace: before %s, after %s", before, after)
	}
}
