// PLACE: aws-v2/client  RUN: go test ./aws-v2/client/ -run 'TestFind1C17'
package client_test

// C17 finding 1: the SDK v2 client hands the coded validation errors of the core
// (ValidationException) to the caller as a bare Go error that is NOT a smithy.APIError,
// whereas the SDK v1 client hands the very same error out as an awserr.Error with
// Code() == "ValidationException".  The same logical request therefore fails with a
// different error class on the two clients (PutItem / DeleteItem / UpdateItem with a bad
// key, PutItem with an ill-typed index key, CreateTable / UpdateTable with a bad schema).

import (
	"context"
	"errors"
	"testing"

	v2aws "github.com/aws/aws-sdk-go-v2/aws"
	v2ddb "github.com/aws/aws-sdk-go-v2/service/dynamodb"
	v2types "github.com/aws/aws-sdk-go-v2/service/dynamodb/types"
	v1aws "github.com/aws/aws-sdk-go/aws"
	"github.com/aws/aws-sdk-go/aws/awserr"
	v1ddb "github.com/aws/aws-sdk-go/service/dynamodb"
	"github.com/aws/smithy-go"
	v1client "github.com/truora/minidyn/aws-v1/client"
	v2client "github.com/truora/minidyn/aws-v2/client"
)

// find1ClassV1 is the error class as a user of aws-sdk-go reads it
func find1ClassV1(err error) string {
	if err == nil {
		return "success"
	}

	var aerr awserr.Error
	if errors.As(err, &aerr) {
		return "api error " + aerr.Code()
	}

	return "not an API error (" + err.Error() + ")"
}

// find1ClassV2 is the error class as a user of aws-sdk-go-v2 reads it
func find1ClassV2(err error) string {
	if err == nil {
		return "success"
	}

	var aerr smithy.APIError
	if errors.As(err, &aerr) {
		return "api error " + aerr.ErrorCode()
	}

	return "not an API error (" + err.Error() + ")"
}

func TestFind1C17ValidationErrorClass(t *testing.T) {
	ctx := context.Background()
	c1 := v1client.NewClient()
	c2 := v2client.NewClient()

	if err := v1client.AddTable(c1, "tbl", "h", "r"); err != nil {
		t.Fatal(err)
	}

	if err := v2client.AddTable(ctx, c2, "tbl", "h", "r"); err != nil {
		t.Fatal(err)
	}

	type step struct {
		name string
		v1   func() error
		v2   func() error
	}

	steps := []step{
		{
			name: "PutItem without the range key",
			v1: func() error {
				_, err := c1.PutItem(&v1ddb.PutItemInput{TableName: v1aws.String("tbl"), Item: map[string]*v1ddb.AttributeValue{"h": {S: v1aws.String("a")}}})
				return err
			},
			v2: func() error {
				_, err := c2.PutItem(ctx, &v2ddb.PutItemInput{TableName: v2aws.String("tbl"), Item: map[string]v2types.AttributeValue{"h": &v2types.AttributeValueMemberS{Value: "a"}}})
				return err
			},
		},
		{
			name: "PutItem with a number in the string range key",
			v1: func() error {
				_, err := c1.PutItem(&v1ddb.PutItemInput{TableName: v1aws.String("tbl"), Item: map[string]*v1ddb.AttributeValue{"h": {S: v1aws.String("a")}, "r": {N: v1aws.String("1")}}})
				return err
			},
			v2: func() error {
				_, err := c2.PutItem(ctx, &v2ddb.PutItemInput{TableName: v2aws.String("tbl"), Item: map[string]v2types.AttributeValue{"h": &v2types.AttributeValueMemberS{Value: "a"}, "r": &v2types.AttributeValueMemberN{Value: "1"}}})
				return err
			},
		},
		{
			name: "DeleteItem without the range key",
			v1: func() error {
				_, err := c1.DeleteItem(&v1ddb.DeleteItemInput{TableName: v1aws.String("tbl"), Key: map[string]*v1ddb.AttributeValue{"h": {S: v1aws.String("a")}}})
				return err
			},
			v2: func() error {
				_, err := c2.DeleteItem(ctx, &v2ddb.DeleteItemInput{TableName: v2aws.String("tbl"), Key: map[string]v2types.AttributeValue{"h": &v2types.AttributeValueMemberS{Value: "a"}}})
				return err
			},
		},
		{
			name: "UpdateItem without the range key",
			v1: func() error {
				_, err := c1.UpdateItem(&v1ddb.UpdateItemInput{
					TableName: v1aws.String("tbl"), Key: map[string]*v1ddb.AttributeValue{"h": {S: v1aws.String("a")}},
					UpdateExpression:          v1aws.String("SET a = :v"),
					ExpressionAttributeValues: map[string]*v1ddb.AttributeValue{":v": {S: v1aws.String("x")}},
				})
				return err
			},
			v2: func() error {
				_, err := c2.UpdateItem(ctx, &v2ddb.UpdateItemInput{
					TableName: v2aws.String("tbl"), Key: map[string]v2types.AttributeValue{"h": &v2types.AttributeValueMemberS{Value: "a"}},
					UpdateExpression:          v2aws.String("SET a = :v"),
					ExpressionAttributeValues: map[string]v2types.AttributeValue{":v": &v2types.AttributeValueMemberS{Value: "x"}},
				})
				return err
			},
		},
		{
			name: "CreateTable whose hash key has no attribute definition",
			v1: func() error {
				_, err := c1.CreateTable(&v1ddb.CreateTableInput{
					TableName: v1aws.String("other"), BillingMode: v1aws.String("PAY_PER_REQUEST"),
					AttributeDefinitions: []*v1ddb.AttributeDefinition{{AttributeName: v1aws.String("x"), AttributeType: v1aws.String("S")}},
					KeySchema:            []*v1ddb.KeySchemaElement{{AttributeName: v1aws.String("h"), KeyType: v1aws.String("HASH")}},
				})
				return err
			},
			v2: func() error {
				_, err := c2.CreateTable(ctx, &v2ddb.CreateTableInput{
					TableName: v2aws.String("other"), BillingMode: v2types.BillingModePayPerRequest,
					AttributeDefinitions: []v2types.AttributeDefinition{{AttributeName: v2aws.String("x"), AttributeType: v2types.ScalarAttributeTypeS}},
					KeySchema:            []v2types.KeySchemaElement{{AttributeName: v2aws.String("h"), KeyType: v2types.KeyTypeHash}},
				})
				return err
			},
		},
		{
			name: "UpdateTable creating an index on an undefined attribute",
			v1: func() error {
				_, err := c1.UpdateTable(&v1ddb.UpdateTableInput{
					TableName: v1aws.String("tbl"),
					GlobalSecondaryIndexUpdates: []*v1ddb.GlobalSecondaryIndexUpdate{{Create: &v1ddb.CreateGlobalSecondaryIndexAction{
						IndexName: v1aws.String("idx"), Projection: &v1ddb.Projection{ProjectionType: v1aws.String("ALL")},
						KeySchema: []*v1ddb.KeySchemaElement{{AttributeName: v1aws.String("g"), KeyType: v1aws.String("HASH")}},
					}}},
				})
				return err
			},
			v2: func() error {
				_, err := c2.UpdateTable(ctx, &v2ddb.UpdateTableInput{
					TableName: v2aws.String("tbl"),
					GlobalSecondaryIndexUpdates: []v2types.GlobalSecondaryIndexUpdate{{Create: &v2types.CreateGlobalSecondaryIndexAction{
						IndexName: v2aws.String("idx"), Projection: &v2types.Projection{ProjectionType: v2types.ProjectionTypeAll},
						KeySchema: []v2types.KeySchemaElement{{AttributeName: v2aws.String("g"), KeyType: v2types.KeyTypeHash}},
					}}},
				})
				return err
			},
		},
	}

	for _, s := range steps {
		got1, got2 := find1ClassV1(s.v1()), find1ClassV2(s.v2())

		if got1 == "success" || got2 == "success" {
			t.Errorf("%s: expected both clients to fail, v1: %s, v2: %s", s.name, got1, got2)

			continue
		}

		if got1 != got2 {
			t.Errorf("%s: the clients disagree on the error class\n  SDK v1: %s\n  SDK v2: %s", s.name, got1, got2)
		}
	}
}
