// PLACE: aws-v2/client  RUN: go test ./aws-v2/client/ -run 'TestC16Find4'
package client_test

// C16 finding 4: SDK v2 BatchGetItem turns EVERY error of the per-key GetItem into an
// "unprocessed key". A request with an expression attribute name that no expression uses, or with a
// malformed placeholder key, is therefore answered with err == nil. Real DynamoDB rejects the whole
// call with a ValidationException (and GetItem of this fake rejects the same parameters).

import (
	"context"
	"testing"

	"github.com/aws/aws-sdk-go-v2/aws"
	"github.com/aws/aws-sdk-go-v2/service/dynamodb"
	"github.com/aws/aws-sdk-go-v2/service/dynamodb/types"
	"github.com/truora/minidyn/aws-v2/client"
)

func TestC16Find4BatchGetItemSwallowsValidationErrors(t *testing.T) {
	ctx := context.Background()
	c := client.NewClient()

	if err := client.AddTable(ctx, c, "tbl", "h", "r"); err != nil {
		t.Fatal(err)
	}

	str := func(v string) types.AttributeValue { return &types.AttributeValueMemberS{Value: v} }
	key := map[string]types.AttributeValue{"h": str("a"), "r": str("1")}

	_, err := c.PutItem(ctx, &dynamodb.PutItemInput{TableName: aws.String("tbl"), Item: map[string]types.AttributeValue{"h": str("a"), "r": str("1"), "x": str("1")}})
	if err != nil {
		t.Fatal(err)
	}

	// control: GetItem rejects the parameters
	_, err = c.GetItem(ctx, &dynamodb.GetItemInput{TableName: aws.String("tbl"), Key: key,
		ProjectionExpression: aws.String("h"), ExpressionAttributeNames: map[string]string{"#unused": "x"}})
	if err == nil {
		t.Fatal("control: GetItem accepted an unused expression attribute name")
	}

	// control: a correct BatchGetItem is accepted and returns the item
	out, err := c.BatchGetItem(ctx, &dynamodb.BatchGetItemInput{RequestItems: map[string]types.KeysAndAttributes{
		"tbl": {Keys: []map[string]types.AttributeValue{key}, ProjectionExpression: aws.String("h, #x"), ExpressionAttributeNames: map[string]string{"#x": "x"}},
	}})
	if err != nil || len(out.Responses["tbl"]) != 1 {
		t.Fatalf("control: valid BatchGetItem: err=%v out=%v", err, out)
	}

	cases := map[string]types.KeysAndAttributes{
		"unused name": {Keys: []map[string]types.AttributeValue{key},
			ProjectionExpression: aws.String("h"), ExpressionAttributeNames: map[string]string{"#unused": "x"}},
		"names without any expression": {Keys: []map[string]types.AttributeValue{key},
			ExpressionAttributeNames: map[string]string{"#x": "x"}},
		"malformed name key": {Keys: []map[string]types.AttributeValue{key},
			ProjectionExpression: aws.String("h"), ExpressionAttributeNames: map[string]string{"h": "h"}},
	}

	for name, req := range cases {
		out, err := c.BatchGetItem(ctx, &dynamodb.BatchGetItemInput{RequestItems: map[string]types.KeysAndAttributes{"tbl": req}})
		if err == nil {
			t.Errorf("%s: BatchGetItem answered err == nil (responses=%d, unprocessed keys=%d), DynamoDB rejects the request with a ValidationException",
				name, len(out.Responses["tbl"]), len(out.UnprocessedKeys["tbl"].Keys))
		}
	}
}
