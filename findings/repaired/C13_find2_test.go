// PLACE: aws-v2/client  RUN: go test ./aws-v2/client/ -run 'TestC13Find2'
package client_test

// C13 finding 2: SDK v2 PutItem, UpdateItem and DeleteItem reject a key that lacks a key attribute (or has the wrong
// type) with an internal error type (*types.baseError of minidyn) that is not a smithy.APIError: the standard SDK v2
// test `errors.As(err, &apiErr) && apiErr.ErrorCode() == "ValidationException"` does not recognise it as a
// validation error, whereas GetItem and BatchWriteItem on the same key do answer a smithy ValidationException.

import (
	"context"
	"errors"
	"testing"

	"github.com/aws/aws-sdk-go-v2/aws"
	"github.com/aws/aws-sdk-go-v2/service/dynamodb"
	ddbtypes "github.com/aws/aws-sdk-go-v2/service/dynamodb/types"
	"github.com/aws/smithy-go"
	"github.com/truora/minidyn/aws-v2/client"
)

func c13f2Setup(t *testing.T) *client.Client {
	t.Helper()

	c := client.NewClient()

	_, err := c.CreateTable(context.Background(), &dynamodb.CreateTableInput{
		TableName:   aws.String("c13f2"),
		BillingMode: ddbtypes.BillingModePayPerRequest,
		AttributeDefinitions: []ddbtypes.AttributeDefinition{
			{AttributeName: aws.String("h"), AttributeType: ddbtypes.ScalarAttributeTypeS},
			{AttributeName: aws.String("r"), AttributeType: ddbtypes.ScalarAttributeTypeS},
		},
		KeySchema: []ddbtypes.KeySchemaElement{
			{AttributeName: aws.String("h"), KeyType: ddbtypes.KeyTypeHash},
			{AttributeName: aws.String("r"), KeyType: ddbtypes.KeyTypeRange},
		},
	})
	if err != nil {
		t.Fatalf("CreateTable: %v", err)
	}

	// control: GetItem answers a smithy ValidationException for the same keys
	for name, key := range c13f2Keys() {
		_, err := c.GetItem(context.Background(), &dynamodb.GetItemInput{TableName: aws.String("c13f2"), Key: key})
		if !c13f2IsValidation(err) {
			t.Fatalf("control failed: GetItem, key %s: want smithy ValidationException, got %T: %v", name, err, err)
		}
	}

	return c
}

func c13f2IsValidation(err error) bool {
	var apiErr smithy.APIError

	return errors.As(err, &apiErr) && apiErr.ErrorCode() == "ValidationException"
}

func c13f2Keys() map[string]map[string]ddbtypes.AttributeValue {
	return map[string]map[string]ddbtypes.AttributeValue{
		"lacks range attribute": {
			"h": &ddbtypes.AttributeValueMemberS{Value: "a"},
		},
		"wrong type": {
			"h": &ddbtypes.AttributeValueMemberS{Value: "a"},
			"r": &ddbtypes.AttributeValueMemberN{Value: "1"},
		},
	}
}

func TestC13Find2PutItem(t *testing.T) {
	c := c13f2Setup(t)

	for name, key := range c13f2Keys() {
		_, err := c.PutItem(context.Background(), &dynamodb.PutItemInput{TableName: aws.String("c13f2"), Item: key})
		if err == nil {
			t.Fatalf("PutItem, key %s: accepted", name)
		}

		if !c13f2IsValidation(err) {
			t.Errorf("PutItem, key %s: the error is not a smithy.APIError with code ValidationException, got %T: %v", name, err, err)
		}
	}
}

func TestC13Find2UpdateItem(t *testing.T) {
	c := c13f2Setup(t)

	for name, key := range c13f2Keys() {
		_, err := c.UpdateItem(context.Background(), &dynamodb.UpdateItemInput{
			TableName:                 aws.String("c13f2"),
			Key:                       key,
			UpdateExpression:          aws.String("SET v = :v"),
			ExpressionAttributeValues: map[string]ddbtypes.AttributeValue{":v": &ddbtypes.AttributeValueMemberS{Value: "x"}},
		})
		if err == nil {
			t.Fatalf("UpdateItem, key %s: accepted", name)
		}

		if !c13f2IsValidation(err) {
			t.Errorf("UpdateItem, key %s: the error is not a smithy.APIError with code ValidationException, got %T: %v", name, err, err)
		}
	}
}

func TestC13Find2DeleteItem(t *testing.T) {
	c := c13f2Setup(t)

	for name, key := range c13f2Keys() {
		_, err := c.DeleteItem(context.Background(), &dynamodb.DeleteItemInput{TableName: aws.String("c13f2"), Key: key})
		if err == nil {
			t.Fatalf("DeleteItem, key %s: accepted", name)
		}

		if !c13f2IsValidation(err) {
			t.Errorf("DeleteItem, key %s: the error is not a smithy.APIError with code ValidationException, got %T: %v", name, err, err)
		}
	}
}
