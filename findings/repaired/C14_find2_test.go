// PLACE: aws-v1/client  RUN: go test ./aws-v1/client/ -run 'TestC14Find2BillingModeSharesCallerMemory'
package client

import (
	"testing"

	"github.com/aws/aws-sdk-go/aws"
	"github.com/aws/aws-sdk-go/service/dynamodb"
)

// C14: the SDK v1 CreateTable stores the BillingMode *string of the caller's input as it is. Writing through that
// pointer after the call has returned changes the billing mode of the stored table, which decides whether a later
// UpdateTable may create an index without provisioned throughput.

func c14f2AddIndex(c *Client) error {
	_, err := c.UpdateTable(&dynamodb.UpdateTableInput{
		TableName: aws.String("c14f2"),
		GlobalSecondaryIndexUpdates: []*dynamodb.GlobalSecondaryIndexUpdate{{Create: &dynamodb.CreateGlobalSecondaryIndexAction{
			IndexName:  aws.String("gix"),
			KeySchema:  []*dynamodb.KeySchemaElement{{AttributeName: aws.String("g"), KeyType: aws.String("HASH")}},
			Projection: &dynamodb.Projection{ProjectionType: aws.String("ALL")},
		}}},
	})

	return err
}

func c14f2Create(t *testing.T, c *Client, billingMode *string) {
	t.Helper()

	_, err := c.CreateTable(&dynamodb.CreateTableInput{
		TableName:   aws.String("c14f2"),
		BillingMode: billingMode,
		AttributeDefinitions: []*dynamodb.AttributeDefinition{
			{AttributeName: aws.String("h"), AttributeType: aws.String("S")},
			{AttributeName: aws.String("g"), AttributeType: aws.String("S")},
		},
		KeySchema: []*dynamodb.KeySchemaElement{{AttributeName: aws.String("h"), KeyType: aws.String("HASH")}},
	})
	if err != nil {
		t.Fatal(err)
	}
}

func TestC14Find2BillingModeSharesCallerMemory(t *testing.T) {
	// control: an on-demand table accepts an index without provisioned throughput
	control := NewClient()
	c14f2Create(t, control, aws.String("PAY_PER_REQUEST"))

	if err := c14f2AddIndex(control); err != nil {
		t.Fatalf("control: %v", err)
	}

	// same sequence, but the caller reuses its string after CreateTable has returned
	c := NewClient()
	mode := aws.String("PAY_PER_REQUEST")
	c14f2Create(t, c, mode)

	*mode = "PROVISIONED"

	if err := c14f2AddIndex(c); err != nil {
		t.Errorf("the table was created on-demand, yet after the caller overwrote its own BillingMode string UpdateTable answers: %v", err)
	}
}
