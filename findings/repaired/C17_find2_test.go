// PLACE: aws-v2/client  RUN: go test ./aws-v2/client/ -run 'TestFind2C17'
package client_test

// C17 finding 2: the table descriptions differ.  The SDK v1 client reports the projection
// type of every secondary index (ALL / KEYS_ONLY / INCLUDE), the SDK v2 client drops it:
// Projection.ProjectionType is always empty in CreateTable / DescribeTable / UpdateTable /
// DeleteTable outputs (only NonKeyAttributes survive).

import (
	"context"
	"fmt"
	"sort"
	"strings"
	"testing"

	v2aws "github.com/aws/aws-sdk-go-v2/aws"
	v2ddb "github.com/aws/aws-sdk-go-v2/service/dynamodb"
	v2types "github.com/aws/aws-sdk-go-v2/service/dynamodb/types"
	v1aws "github.com/aws/aws-sdk-go/aws"
	v1ddb "github.com/aws/aws-sdk-go/service/dynamodb"
	v1client "github.com/truora/minidyn/aws-v1/client"
	v2client "github.com/truora/minidyn/aws-v2/client"
)

func find2ProjectionsV1(d *v1ddb.TableDescription) string {
	out := []string{}

	for _, i := range d.GlobalSecondaryIndexes {
		out = append(out, fmt.Sprintf("gsi %s: type=%q nonKey=%q", v1aws.StringValue(i.IndexName),
			v1aws.StringValue(i.Projection.ProjectionType), v1aws.StringValueSlice(i.Projection.NonKeyAttributes)))
	}

	for _, i := range d.LocalSecondaryIndexes {
		out = append(out, fmt.Sprintf("lsi %s: type=%q nonKey=%q", v1aws.StringValue(i.IndexName),
			v1aws.StringValue(i.Projection.ProjectionType), v1aws.StringValueSlice(i.Projection.NonKeyAttributes)))
	}

	sort.Strings(out)

	return strings.Join(out, "\n")
}

func find2ProjectionsV2(d *v2types.TableDescription) string {
	out := []string{}

	for _, i := range d.GlobalSecondaryIndexes {
		nonKey := i.Projection.NonKeyAttributes
		if nonKey == nil {
			nonKey = []string{}
		}

		out = append(out, fmt.Sprintf("gsi %s: type=%q nonKey=%q", v2aws.ToString(i.IndexName), string(i.Projection.ProjectionType), nonKey))
	}

	for _, i := range d.LocalSecondaryIndexes {
		nonKey := i.Projection.NonKeyAttributes
		if nonKey == nil {
			nonKey = []string{}
		}

		out = append(out, fmt.Sprintf("lsi %s: type=%q nonKey=%q", v2aws.ToString(i.IndexName), string(i.Projection.ProjectionType), nonKey))
	}

	sort.Strings(out)

	return strings.Join(out, "\n")
}

func TestFind2C17DescribeTableProjectionType(t *testing.T) {
	ctx := context.Background()
	c1 := v1client.NewClient()
	c2 := v2client.NewClient()

	ks1 := func(hash, rng string) []*v1ddb.KeySchemaElement {
		return []*v1ddb.KeySchemaElement{
			{AttributeName: v1aws.String(hash), KeyType: v1aws.String("HASH")},
			{AttributeName: v1aws.String(rng), KeyType: v1aws.String("RANGE")},
		}
	}
	ks2 := func(hash, rng string) []v2types.KeySchemaElement {
		return []v2types.KeySchemaElement{
			{AttributeName: v2aws.String(hash), KeyType: v2types.KeyTypeHash},
			{AttributeName: v2aws.String(rng), KeyType: v2types.KeyTypeRange},
		}
	}

	defs1 := []*v1ddb.AttributeDefinition{}
	defs2 := []v2types.AttributeDefinition{}

	for _, name := range []string{"h", "r", "g", "k", "a"} {
		defs1 = append(defs1, &v1ddb.AttributeDefinition{AttributeName: v1aws.String(name), AttributeType: v1aws.String("S")})
		defs2 = append(defs2, v2types.AttributeDefinition{AttributeName: v2aws.String(name), AttributeType: v2types.ScalarAttributeTypeS})
	}

	out1, err := c1.CreateTable(&v1ddb.CreateTableInput{
		TableName: v1aws.String("tbl"), BillingMode: v1aws.String("PAY_PER_REQUEST"),
		AttributeDefinitions: defs1, KeySchema: ks1("h", "r"),
		GlobalSecondaryIndexes: []*v1ddb.GlobalSecondaryIndex{
			{IndexName: v1aws.String("by-g"), KeySchema: ks1("g", "k"), Projection: &v1ddb.Projection{ProjectionType: v1aws.String("ALL")}},
			{IndexName: v1aws.String("by-k"), KeySchema: ks1("k", "g"), Projection: &v1ddb.Projection{ProjectionType: v1aws.String("INCLUDE"), NonKeyAttributes: v1aws.StringSlice([]string{"a"})}},
		},
		LocalSecondaryIndexes: []*v1ddb.LocalSecondaryIndex{
			{IndexName: v1aws.String("by-a"), KeySchema: ks1("h", "a"), Projection: &v1ddb.Projection{ProjectionType: v1aws.String("KEYS_ONLY")}},
		},
	})
	if err != nil {
		t.Fatal(err)
	}

	out2, err := c2.CreateTable(ctx, &v2ddb.CreateTableInput{
		TableName: v2aws.String("tbl"), BillingMode: v2types.BillingModePayPerRequest,
		AttributeDefinitions: defs2, KeySchema: ks2("h", "r"),
		GlobalSecondaryIndexes: []v2types.GlobalSecondaryIndex{
			{IndexName: v2aws.String("by-g"), KeySchema: ks2("g", "k"), Projection: &v2types.Projection{ProjectionType: v2types.ProjectionTypeAll}},
			{IndexName: v2aws.String("by-k"), KeySchema: ks2("k", "g"), Projection: &v2types.Projection{ProjectionType: v2types.ProjectionTypeInclude, NonKeyAttributes: []string{"a"}}},
		},
		LocalSecondaryIndexes: []v2types.LocalSecondaryIndex{
			{IndexName: v2aws.String("by-a"), KeySchema: ks2("h", "a"), Projection: &v2types.Projection{ProjectionType: v2types.ProjectionTypeKeysOnly}},
		},
	})
	if err != nil {
		t.Fatal(err)
	}

	if p1, p2 := find2ProjectionsV1(out1.TableDescription), find2ProjectionsV2(out2.TableDescription); p1 != p2 {
		t.Errorf("CreateTable: the table descriptions differ\nSDK v1:\n%s\nSDK v2:\n%s", p1, p2)
	}

	d1, err := c1.DescribeTable(&v1ddb.DescribeTableInput{TableName: v1aws.String("tbl")})
	if err != nil {
		t.Fatal(err)
	}

	d2, err := c2.DescribeTable(ctx, &v2ddb.DescribeTableInput{TableName: v2aws.String("tbl")})
	if err != nil {
		t.Fatal(err)
	}

	if p1, p2 := find2ProjectionsV1(d1.Table), find2ProjectionsV2(d2.Table); p1 != p2 {
		t.Errorf("DescribeTable: the table descriptions differ\nSDK v1:\n%s\nSDK v2:\n%s", p1, p2)
	}
}
