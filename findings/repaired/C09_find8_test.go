// PLACE: aws-v2/client  RUN: TestAuditC09Find8
package client

// C09 finding 8: evaluating a name placeholder takes time (and memory)
// exponential in the number of ExpressionAttributeNames when the names form a
// chain "#n00" -> "#n01.#n01", "#n01" -> "#n02.#n02", ...  (a legal request: the
// values are attribute names that happen to contain '#' and '.').  With 20
// names and a 650 byte condition one PutItem takes seconds, every two more
// names quadruple it; with 40 names (1.3 KB, well inside the 4 KB limit) the
// call does not come back.  Commit a3b4134 cut the infinite recursion on
// alias cycles, the fan-out is still there.

import (
	"context"
	"fmt"
	"strings"
	"testing"
	"time"

	"github.com/aws/aws-sdk-go-v2/aws"
	"github.com/aws/aws-sdk-go-v2/service/dynamodb"
	dynamodbtypes "github.com/aws/aws-sdk-go-v2/service/dynamodb/types"
)

func find8Put(t *testing.T, chain int) time.Duration {
	t.Helper()

	client := NewClient()

	if err := AddTable(context.Background(), client, "find8", "id", ""); err != nil {
		t.Fatal(err)
	}

	names := map[string]string{}
	conditions := []string{}

	for i := 0; i <= chain; i++ {
		name := fmt.Sprintf("#n%02d", i)
		next := fmt.Sprintf("#n%02d", i+1)

		names[name] = next + "." + next
		if i == chain {
			names[name] = "leaf"
		}

		conditions = append(conditions, "attribute_not_exists("+name+")")
	}

	expression := strings.Join(conditions, " AND ")
	if len(expression) > 4096 {
		t.Fatalf("expression too long: %d", len(expression))
	}

	done := make(chan time.Duration, 1)

	go func() {
		defer func() {
			_ = recover()
			done <- -1
		}()

		start := time.Now()

		_, _ = client.PutItem(context.Background(), &dynamodb.PutItemInput{
			TableName:                aws.String("find8"),
			Item:                     map[string]dynamodbtypes.AttributeValue{"id": &dynamodbtypes.AttributeValueMemberS{Value: "1"}},
			ConditionExpression:      aws.String(expression),
			ExpressionAttributeNames: names,
		})

		done <- time.Since(start)
	}()

	select {
	case d := <-done:
		return d
	case <-time.After(60 * time.Second):
		return 60 * time.Second
	}
}

func TestAuditC09Find8AliasChainTakesExponentialTime(t *testing.T) {
	small := find8Put(t, 8)
	large := find8Put(t, 20)

	t.Logf("chain of 8 names: %v, chain of 20 names: %v", small, large)

	// 21 names and a 650 byte expression: anything that is not exponential needs well under a millisecond
	if large > time.Second {
		t.Errorf("a condition with a chain of 20 expression attribute names took %v (8 names: %v): evaluation time doubles with every name", large, small)
	}
}
