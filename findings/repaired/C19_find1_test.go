// PLACE: aws-v2/client  RUN: go test ./aws-v2/client/ -run 'TestC19Find1'
package client

// Property C19: BatchGetItem returns, per table, exactly what the individual GetItem calls for the
// requested keys return. An individual GetItem on a table that does not exist fails with
// ResourceNotFoundException; BatchGetItem on that table "succeeds" (nil error) and hands every key
// back in UnprocessedKeys, i.e. it tells the caller to retry for ever. The keys of the existing
// table in the same call are answered as if nothing were wrong.

import (
	"context"
	"errors"
	"testing"

	"github.com/aws/aws-sdk-go-v2/aws"
	"github.com/aws/aws-sdk-go-v2/service/dynamodb"
	dynamodbtypes "github.com/aws/aws-sdk-go-v2/service/dynamodb/types"
)

func c19find1Key(id string) map[string]dynamodbtypes.AttributeValue {
	return map[string]dynamodbtypes.AttributeValue{"id": &dynamodbtypes.AttributeValueMemberS{Value: id}}
}

func TestC19Find1BatchGetUnknownTable(t *testing.T) {
	ctx := context.Background()
	client := NewClient()

	if err := AddTable(ctx, client, "c19-known", "id", ""); err != nil {
		t.Fatal(err)
	}

	if _, err := client.PutItem(ctx, &dynamodb.PutItemInput{TableName: aws.String("c19-known"), Item: c19find1Key("001")}); err != nil {
		t.Fatal(err)
	}

	// the decomposition: GetItem on the missing table is an error
	_, getErr := client.GetItem(ctx, &dynamodb.GetItemInput{TableName: aws.String("c19-missing"), Key: c19find1Key("001")})

	var notFound *dynamodbtypes.ResourceNotFoundException
	if !errors.As(getErr, &notFound) {
		t.Fatalf("precondition: GetItem on a missing table should fail with ResourceNotFoundException, got %v", getErr)
	}

	out, err := client.BatchGetItem(ctx, &dynamodb.BatchGetItemInput{
		RequestItems: map[string]dynamodbtypes.KeysAndAttributes{
			"c19-known":   {Keys: []map[string]dynamodbtypes.AttributeValue{c19find1Key("001")}},
			"c19-missing": {Keys: []map[string]dynamodbtypes.AttributeValue{c19find1Key("001"), c19find1Key("002")}},
		},
	})

	if err == nil {
		t.Errorf("BatchGetItem on a table that does not exist returned no error (GetItem: %v); UnprocessedKeys=%d keys of the missing table",
			getErr, len(out.UnprocessedKeys["c19-missing"].Keys))
	} else if !errors.As(err, &notFound) {
		t.Errorf("BatchGetItem on a missing table: want ResourceNotFoundException, got %v", err)
	}

	if out != nil {
		if _, ok := out.UnprocessedKeys["c19-missing"]; ok {
			t.Errorf("keys of a table that does not exist are reported as unprocessed (retrying can never succeed)")
		}
	}
}
