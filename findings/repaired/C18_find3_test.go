// PLACE: aws-v1/client  RUN: go test ./aws-v1/client -run 'TestC18Find3'
package client

import (
	"testing"

	"github.com/aws/aws-sdk-go/aws"
	"github.com/aws/aws-sdk-go/service/dynamodb"
)

// Property C18: operations on one table never affect another, and separate clients share no state.
// The SDK v1 CreateTable keeps the caller's *string for the billing mode. When the caller reuses the input value
// to create a second (provisioned) table - here even in a different client - the first table silently becomes
// a provisioned table: AddIndex on it, which worked before, is now refused.

func c18find3Input(name string) *dynamodb.CreateTableInput {
	return &dynamodb.CreateTableInput{
		TableName:            aws.String(name),
		BillingMode:          aws.String("PAY_PER_REQUEST"),
		AttributeDefinitions: []*dynamodb.AttributeDefinition{{AttributeName: aws.String("h"), AttributeType: aws.String("S")}},
		KeySchema:            []*dynamodb.KeySchemaElement{{AttributeName: aws.String("h"), KeyType: aws.String("HASH")}},
	}
}

func TestC18Find3BillingModeSharedWithCreateTableInput(t *testing.T) {
	first, second := NewClient(), NewClient()

	in := c18find3Input("first")
	if _, err := first.CreateTable(in); err != nil {
		t.Fatal(err)
	}

	// control: an on-demand table accepts an index without provisioned throughput
	if err := AddIndex(first, "first", "before", "a", ""); err != nil {
		t.Fatalf("AddIndex on the on-demand table: %v", err)
	}

	// the input value is recycled for a provisioned table of another client
	*in.TableName = "second"
	*in.BillingMode = "PROVISIONED"
	in.ProvisionedThroughput = &dynamodb.ProvisionedThroughput{ReadCapacityUnits: aws.Int64(1), WriteCapacityUnits: aws.Int64(1)}

	if _, err := second.CreateTable(in); err != nil {
		t.Fatal(err)
	}

	// nothing was done to table "first" of client first
	if err := AddIndex(first, "first", "after", "b", ""); err != nil {
		t.Fatalf("AddIndex on the untouched on-demand table of the other client is now refused: %v", err)
	}
}
