// PLACE: aws-v1/client  RUN: TestAuditC01Find3UpdateItemKeyWithExtraAttribute
package client

// C01 finding 3: the Key of UpdateItem is not checked against the key schema. Attributes of the Key map
// that are not key attributes are ignored when the item is looked up, but when the key is absent the new
// item is created from the WHOLE Key map: it holds an attribute that is neither a key attribute nor
// written by the update. (DynamoDB rejects such a Key: "The provided key element does not match the schema".)

import (
	"testing"

	"github.com/aws/aws-sdk-go/aws"
	"github.com/aws/aws-sdk-go/service/dynamodb"
)

func TestAuditC01Find3UpdateItemKeyWithExtraAttribute(t *testing.T) {
	client := NewClient()

	if err := AddTable(client, "audit-c01-f3", "h", ""); err != nil {
		t.Fatal(err)
	}

	_, err := client.UpdateItem(&dynamodb.UpdateItemInput{
		TableName: aws.String("audit-c01-f3"),
		Key: map[string]*dynamodb.AttributeValue{
			"h":     {S: aws.String("a")},
			"extra": {S: aws.String("not a key attribute")},
		},
		UpdateExpression:          aws.String("SET v = :v"),
		ExpressionAttributeValues: map[string]*dynamodb.AttributeValue{":v": {N: aws.String("1")}},
	})
	if err != nil {
		// rejecting the malformed key, as DynamoDB does, is fine: nothing must have been written then
		out, getErr := client.GetItem(&dynamodb.GetItemInput{
			TableName: aws.String("audit-c01-f3"),
			Key:       map[string]*dynamodb.AttributeValue{"h": {S: aws.String("a")}},
		})
		if getErr != nil {
			t.Fatal(getErr)
		}

		if len(out.Item) != 0 {
			t.Errorf("UpdateItem failed (%v) but an item was written: %v", err, out.Item)
		}

		return
	}

	out, err := client.GetItem(&dynamodb.GetItemInput{
		TableName: aws.String("audit-c01-f3"),
		Key:       map[string]*dynamodb.AttributeValue{"h": {S: aws.String("a")}},
	})
	if err != nil {
		t.Fatal(err)
	}

	// the item created by an update of an absent key = the key attributes plus the update: {h, v}
	if _, ok := out.Item["extra"]; ok || len(out.Item) != 2 {
		t.Errorf("item created by UpdateItem: want exactly the key attribute h and the updated v, got %v", out.Item)
	}
}
