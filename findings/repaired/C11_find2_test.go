// PLACE: aws-v1/client  RUN: go test -run TestC11Find2
// (plain `go test`; -race not needed, also fails with it)
package client_test

// C11 finding 2 (SDK v1 flavour of finding 1): BatchWriteItem is not atomic. It validates under the client lock,
// releases it, and takes the lock again for every single put/delete of the batch, so other calls interleave with the
// middle of a completed, fully successful batch:
//   - two racing batches that write the same 25 keys leave a MIXED table: no sequential order gives that state;
//   - a Scan that runs next to ONE batch of 25 puts sees 1..24 of them.

import (
	"fmt"
	"sync"
	"testing"

	"github.com/aws/aws-sdk-go/aws"
	"github.com/aws/aws-sdk-go/service/dynamodb"
	"github.com/truora/minidyn/aws-v1/client"
)

const c11f2Table = "tbl"

func c11f2Batch(owner string) *dynamodb.BatchWriteItemInput {
	reqs := make([]*dynamodb.WriteRequest, 0, 25)

	for i := 0; i < 25; i++ {
		reqs = append(reqs, &dynamodb.WriteRequest{PutRequest: &dynamodb.PutRequest{Item: map[string]*dynamodb.AttributeValue{
			"h":     {S: aws.String(fmt.Sprintf("k%02d", i))},
			"owner": {S: aws.String(owner)},
		}}})
	}

	return &dynamodb.BatchWriteItemInput{RequestItems: map[string][]*dynamodb.WriteRequest{c11f2Table: reqs}}
}

// Two racing BatchWriteItem calls on the same 25 keys: afterwards the table must be all-A or all-B.
func TestC11Find2_RacingBatchesLeaveMixedState(t *testing.T) {
	for round := 0; round < 3000; round++ {
		c := client.NewClient()
		if err := client.AddTable(c, c11f2Table, "h", ""); err != nil {
			t.Fatal(err)
		}

		var wg sync.WaitGroup

		start := make(chan struct{})

		for _, owner := range []string{"A", "B"} {
			wg.Add(1)

			go func(owner string) {
				defer wg.Done()
				<-start

				out, err := c.BatchWriteItem(c11f2Batch(owner))
				if err != nil || len(out.UnprocessedItems) != 0 {
					t.Errorf("batch %s: err=%v unprocessed=%v", owner, err, out.UnprocessedItems)
				}
			}(owner)
		}

		close(start)
		wg.Wait()

		out, err := c.Scan(&dynamodb.ScanInput{TableName: aws.String(c11f2Table)})
		if err != nil {
			t.Fatal(err)
		}

		owners := map[string]int{}
		for _, it := range out.Items {
			owners[aws.StringValue(it["owner"].S)]++
		}

		if len(out.Items) != 25 || (owners["A"] != 25 && owners["B"] != 25) {
			t.Fatalf("round %d: both BatchWriteItem calls completed without error, yet the table is a mix of the two batches: %v "+
				"(a sequential order of the two calls gives 25 x A or 25 x B)", round, owners)
		}
	}
}

// One BatchWriteItem of 25 puts into an empty table next to a scanning goroutine: every Scan must see 0 or 25 items.
func TestC11Find2_ScanSeesHalfABatch(t *testing.T) {
	for round := 0; round < 3000; round++ {
		c := client.NewClient()
		if err := client.AddTable(c, c11f2Table, "h", ""); err != nil {
			t.Fatal(err)
		}

		done := make(chan struct{})
		partial := make(chan int, 1)

		go func() {
			defer close(partial)

			for {
				out, err := c.Scan(&dynamodb.ScanInput{TableName: aws.String(c11f2Table)})
				if err != nil {
					return
				}

				if n := len(out.Items); n != 0 && n != 25 {
					partial <- n
					return
				}

				select {
				case <-done:
					return
				default:
				}
			}
		}()

		if _, err := c.BatchWriteItem(c11f2Batch("A")); err != nil {
			t.Fatal(err)
		}

		close(done)

		if n, ok := <-partial; ok {
			t.Fatalf("round %d: a Scan concurrent with one BatchWriteItem of 25 puts returned %d items: the batch did not take effect at one instant", round, n)
		}
	}
}
