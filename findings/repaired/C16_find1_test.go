// PLACE: aws-v2/client  RUN: go test ./aws-v2/client/ -run 'TestC16Find1'
package client_test

// C16 finding 1: ProjectionExpression is never looked at (apart from the substring test for
// placeholders), so a reserved word used as a bare attribute name in a projection is accepted by
// GetItem, Query and Scan. Real DynamoDB answers
//   ValidationException: Invalid ProjectionExpression: Attribute name is a reserved keyword; reserved keyword: name
// The same holds for the SDK v1 client (aws-v1/client), see report.md.

import (
	"context"
	"fmt"
	"testing"

	"github.com/aws/aws-sdk-go-v2/aws"
	"github.com/aws/aws-sdk-go-v2/service/dynamodb"
	"github.com/aws/aws-sdk-go-v2/service/dynamodb/types"
	"github.com/truora/minidyn/aws-v2/client"
)

// f1Outcome runs the call; a panic counts as a rejection (the fake answers some invalid
// expressions with a panic and its own test suite relies on that).
func f1Outcome(f func() error) (res string) {
	defer func() {
		if r := recover(); r != nil {
			res = fmt.Sprintf("rejected (panic): %v", r)
		}
	}()

	if err := f(); err != nil {
		return "rejected: " + err.Error()
	}

	return "ACCEPTED"
}

func TestC16Find1ReservedWordInProjection(t *testing.T) {
	ctx := context.Background()
	c := client.NewClient()

	if err := client.AddTable(ctx, c, "tbl", "h", "r"); err != nil {
		t.Fatal(err)
	}

	str := func(v string) types.AttributeValue { return &types.AttributeValueMemberS{Value: v} }
	key := map[string]types.AttributeValue{"h": str("a"), "r": str("1")}

	_, err := c.PutItem(ctx, &dynamodb.PutItemInput{TableName: aws.String("tbl"), Item: map[string]types.AttributeValue{
		"h": str("a"), "r": str("1"), "name": str("n"), "status": str("s"),
	}})
	if err != nil {
		t.Fatal(err)
	}

	// control: the same projections written with placeholders are valid and must be accepted
	names := map[string]string{"#n": "name", "#s": "status"}

	if got := f1Outcome(func() error {
		_, err := c.GetItem(ctx, &dynamodb.GetItemInput{TableName: aws.String("tbl"), Key: key,
			ProjectionExpression: aws.String("h, #n, #s"), ExpressionAttributeNames: names})
		return err
	}); got != "ACCEPTED" {
		t.Fatalf("control GetItem with placeholders: %s", got)
	}

	for _, projection := range []string{"name", "h, name, status", "h, STATUS", "h,Name"} {
		projection := projection

		if got := f1Outcome(func() error {
			_, err := c.GetItem(ctx, &dynamodb.GetItemInput{TableName: aws.String("tbl"), Key: key,
				ProjectionExpression: aws.String(projection)})
			return err
		}); got == "ACCEPTED" {
			t.Errorf("GetItem ProjectionExpression %q: accepted, DynamoDB rejects the reserved word", projection)
		}

		if got := f1Outcome(func() error {
			_, err := c.Query(ctx, &dynamodb.QueryInput{TableName: aws.String("tbl"),
				KeyConditionExpression:    aws.String("h = :h"),
				ExpressionAttributeValues: map[string]types.AttributeValue{":h": str("a")},
				ProjectionExpression:      aws.String(projection)})
			return err
		}); got == "ACCEPTED" {
			t.Errorf("Query ProjectionExpression %q: accepted, DynamoDB rejects the reserved word", projection)
		}

		if got := f1Outcome(func() error {
			_, err := c.Scan(ctx, &dynamodb.ScanInput{TableName: aws.String("tbl"),
				ProjectionExpression: aws.String(projection)})
			return err
		}); got == "ACCEPTED" {
			t.Errorf("Scan ProjectionExpression %q: accepted, DynamoDB rejects the reserved word", projection)
		}
	}
}
