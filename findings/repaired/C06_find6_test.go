// PLACE: aws-v2/client  RUN: go test ./aws-v2/client/ -run TestAuditC06Find6
package client

// C06 finding 6: equality of binary sets depends on the order in which the
// members were written. Sets are unordered: {x, y} = {y, x} must hold for BS as
// it does for SS and NS, also inside lists and maps, in IN and in contains.

import (
	"context"
	"testing"

	"github.com/aws/aws-sdk-go-v2/aws"
	"github.com/aws/aws-sdk-go-v2/service/dynamodb"
	dt "github.com/aws/aws-sdk-go-v2/service/dynamodb/types"
)

func TestAuditC06Find6_BinarySetOrder(t *testing.T) {
	ctx := context.Background()
	c := NewClient()

	if err := AddTable(ctx, c, "f6", "id", ""); err != nil {
		t.Fatal(err)
	}

	xy := &dt.AttributeValueMemberBS{Value: [][]byte{[]byte("x"), []byte("y")}}
	yx := &dt.AttributeValueMemberBS{Value: [][]byte{[]byte("y"), []byte("x")}}

	_, err := c.PutItem(ctx, &dynamodb.PutItemInput{TableName: aws.String("f6"), Item: map[string]dt.AttributeValue{
		"id":     &dt.AttributeValueMemberS{Value: "k"},
		"set":    xy,
		"nested": &dt.AttributeValueMemberL{Value: []dt.AttributeValue{xy}},
	}})
	if err != nil {
		t.Fatal(err)
	}

	cases := []struct {
		expr   string
		values map[string]dt.AttributeValue
		want   int
	}{
		{"#s = :v", map[string]dt.AttributeValue{":v": yx}, 1},
		{"#s <> :v", map[string]dt.AttributeValue{":v": yx}, 0},
		{"#s IN (:v)", map[string]dt.AttributeValue{":v": yx}, 1},
		{"nested = :v", map[string]dt.AttributeValue{":v": &dt.AttributeValueMemberL{Value: []dt.AttributeValue{yx}}}, 1},
		{"contains(nested, :v)", map[string]dt.AttributeValue{":v": yx}, 1},
	}

	for _, tc := range cases {
		tc := tc

		t.Run(tc.expr, func(t *testing.T) {
			in := &dynamodb.ScanInput{
				TableName:                 aws.String("f6"),
				FilterExpression:          aws.String(tc.expr),
				ExpressionAttributeValues: tc.values,
			}
			if tc.expr[0] == '#' {
				in.ExpressionAttributeNames = map[string]string{"#s": "set"}
			}

			out, err := c.Scan(ctx, in)
			if err != nil {
				t.Fatal(err)
			}

			if len(out.Items) != tc.want {
				t.Fatalf("{x, y} and {y, x} are the same binary set: expected %d item(s), got %d", tc.want, len(out.Items))
			}
		})
	}
}
