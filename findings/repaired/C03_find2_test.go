// PLACE: aws-v2/client  RUN: go test ./aws-v2/client/ -run TestAuditC03Find2IndexCreationRedefinesKeyType
package client

// C03 finding 2: UpdateTable applies the AttributeDefinitions of an index creation over the existing
// ones without any check. Creating an index that re-declares, with another type, an attribute that is
// already a key of the table or of another index (the AddIndex helper always declares its key
// attributes as S) succeeds; the new index is then built with the new type and silently leaves out
// every existing item (their values have the type the table declared), and the older index on that
// attribute is now governed by a type it was not created with.
//
// DynamoDB rejects such an UpdateTable with a ValidationException. The test accepts both outcomes that
// keep the property: the index creation fails and nothing changes, or it succeeds and the new index
// contains the existing items that have both of its key attributes.

import (
	"context"
	"testing"

	"github.com/aws/aws-sdk-go-v2/aws"
	"github.com/aws/aws-sdk-go-v2/service/dynamodb"
	"github.com/aws/aws-sdk-go-v2/service/dynamodb/types"
)

func TestAuditC03Find2IndexCreationRedefinesKeyType(t *testing.T) {
	ctx := context.Background()
	c := NewClient()

	// table with a numeric attribute "created" that is the key of a global index
	_, err := c.CreateTable(ctx, &dynamodb.CreateTableInput{
		TableName:   aws.String("tbl"),
		BillingMode: types.BillingModePayPerRequest,
		AttributeDefinitions: []types.AttributeDefinition{
			{AttributeName: aws.String("h"), AttributeType: types.ScalarAttributeTypeS},
			{AttributeName: aws.String("created"), AttributeType: types.ScalarAttributeTypeN},
		},
		KeySchema: []types.KeySchemaElement{{AttributeName: aws.String("h"), KeyType: types.KeyTypeHash}},
		GlobalSecondaryIndexes: []types.GlobalSecondaryIndex{{
			IndexName:  aws.String("by-created"),
			KeySchema:  []types.KeySchemaElement{{AttributeName: aws.String("created"), KeyType: types.KeyTypeHash}},
			Projection: &types.Projection{ProjectionType: types.ProjectionTypeAll},
		}},
	})
	if err != nil {
		t.Fatal(err)
	}

	put := func(h, created, owner string) error {
		_, err := c.PutItem(ctx, &dynamodb.PutItemInput{TableName: aws.String("tbl"), Item: map[string]types.AttributeValue{
			"h":       &types.AttributeValueMemberS{Value: h},
			"created": &types.AttributeValueMemberN{Value: created},
			"owner":   &types.AttributeValueMemberS{Value: owner},
		}})

		return err
	}

	if err := put("a", "5", "ann"); err != nil {
		t.Fatal(err)
	}

	count := func(index string) int {
		out, err := c.Scan(ctx, &dynamodb.ScanInput{TableName: aws.String("tbl"), IndexName: aws.String(index)})
		if err != nil {
			t.Fatalf("Scan on %s: %v", index, err)
		}

		return len(out.Items)
	}

	if n := count("by-created"); n != 1 {
		t.Fatalf("by-created has %d items, expected 1", n)
	}

	// new index (owner, created): the helper declares both attributes as S, "created" is N already
	err = AddIndex(ctx, c, "tbl", "by-owner-created", "owner", "created")
	if err != nil {
		// what DynamoDB does; nothing may have changed
		t.Logf("AddIndex rejected: %v", err)

		if err := put("b", "6", "bob"); err != nil {
			t.Errorf("after the rejected index creation a PutItem with a numeric \"created\" fails: %v", err)
		}

		if n := count("by-created"); n != 2 {
			t.Errorf("by-created has %d items, expected 2", n)
		}

		return
	}

	// the creation was accepted: the item {h=a, created=5, owner=ann} has both key attributes of the new index
	if n := count("by-owner-created"); n != 1 {
		t.Errorf("index by-owner-created was created on a table holding 1 item with both of its key attributes (owner, created), Scan on the index returns %d items", n)
	}

	desc, err := c.DescribeTable(ctx, &dynamodb.DescribeTableInput{TableName: aws.String("tbl")})
	if err != nil {
		t.Fatal(err)
	}

	for _, gsi := range desc.Table.GlobalSecondaryIndexes {
		if aws.ToString(gsi.IndexName) == "by-owner-created" && aws.ToInt64(gsi.ItemCount) != 1 {
			t.Errorf("DescribeTable reports %d items for by-owner-created, expected 1", aws.ToInt64(gsi.ItemCount))
		}
	}

	// the table still takes the kind of item it took before, and both indexes follow
	if err := put("b", "6", "bob"); err != nil {
		t.Errorf("after the index creation a PutItem with a numeric \"created\" (the type the table declares) fails: %v", err)
	}

	if n := count("by-created"); n != 2 {
		t.Errorf("by-created has %d items, expected 2", n)
	}

	if n := count("by-owner-created"); n != 2 {
		t.Errorf("by-owner-created has %d items, expected 2", n)
	}
}
