// PLACE: aws-v2/client  RUN: go test ./aws-v2/client/ -run 'TestC13Find3'
package client_test

// C13 finding 3: CreateTable accepts a key attribute declared with a type that is not a key type (BOOL, and likewise
// SS, NS, L, M); DynamoDB only allows S, N and B. The key string of such a table is built with fmt "%v" on a pointer
// (or on a slice of pointers), i.e. from a memory address: the same key value never identifies the same item again.
// Two PutItem calls with the key h=true store two items, and GetItem with h=true finds neither.

import (
	"context"
	"testing"

	"github.com/aws/aws-sdk-go-v2/aws"
	"github.com/aws/aws-sdk-go-v2/service/dynamodb"
	ddbtypes "github.com/aws/aws-sdk-go-v2/service/dynamodb/types"
	"github.com/truora/minidyn/aws-v2/client"
)

func c13f3Key() map[string]ddbtypes.AttributeValue {
	return map[string]ddbtypes.AttributeValue{"h": &ddbtypes.AttributeValueMemberBOOL{Value: true}}
}

func TestC13Find3NonScalarKeyType(t *testing.T) {
	ctx := context.Background()
	c := client.NewClient()

	_, err := c.CreateTable(ctx, &dynamodb.CreateTableInput{
		TableName:   aws.String("c13f3"),
		BillingMode: ddbtypes.BillingModePayPerRequest,
		AttributeDefinitions: []ddbtypes.AttributeDefinition{
			{AttributeName: aws.String("h"), AttributeType: ddbtypes.ScalarAttributeType("BOOL")},
		},
		KeySchema: []ddbtypes.KeySchemaElement{
			{AttributeName: aws.String("h"), KeyType: ddbtypes.KeyTypeHash},
		},
	})
	if err != nil {
		// the required behaviour: a key attribute can only be declared S, N or B
		return
	}

	// the table was accepted: then its keys must at least identify items faithfully
	for _, v := range []string{"first", "second"} {
		item := c13f3Key()
		item["v"] = &ddbtypes.AttributeValueMemberS{Value: v}

		if _, err := c.PutItem(ctx, &dynamodb.PutItemInput{TableName: aws.String("c13f3"), Item: item}); err != nil {
			t.Fatalf("PutItem: %v", err)
		}
	}

	scan, err := c.Scan(ctx, &dynamodb.ScanInput{TableName: aws.String("c13f3")})
	if err != nil {
		t.Fatalf("Scan: %v", err)
	}

	if len(scan.Items) != 1 {
		t.Errorf("CreateTable accepted a BOOL key attribute and two PutItem with the same key h=true stored %d items, want 1", len(scan.Items))
	}

	got, err := c.GetItem(ctx, &dynamodb.GetItemInput{TableName: aws.String("c13f3"), Key: c13f3Key()})
	if err != nil {
		t.Fatalf("GetItem: %v", err)
	}

	if len(got.Item) == 0 {
		t.Errorf("GetItem with the key h=true does not find the item that was just written under h=true")
	}
}
