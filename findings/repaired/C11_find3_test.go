// PLACE: aws-v2/client  RUN: go test -run TestC11Find3
// (plain `go test`; -race not needed, also fails with it)
package client_test

// C11 finding 3 (SDK v2): BatchGetItem is not an atomic read. It takes the client lock once per key (it calls
// GetItem in a loop), so writes of other goroutines land between two of its reads and the answer is a state the
// table never was in.
//
// One writer goroutine puts k00, k01, ... k39 one after the other (every PutItem has returned before the next one
// is issued). A reader asks for all 40 keys with one BatchGetItem. Whatever instant the batch read is placed at, it
// must return a PREFIX k00..k(m-1) of the keys: if it returns k(j) it must also return every k(i), i < j, because
// that put had completed before the put of k(j) was even invoked. The fake returns answers with holes: k(i) missing,
// k(j) present, i < j.

import (
	"context"
	"fmt"
	"sort"
	"testing"

	"github.com/aws/aws-sdk-go-v2/aws"
	"github.com/aws/aws-sdk-go-v2/service/dynamodb"
	"github.com/aws/aws-sdk-go-v2/service/dynamodb/types"
	"github.com/truora/minidyn/aws-v2/client"
)

func c11f3Key(i int) map[string]types.AttributeValue {
	return map[string]types.AttributeValue{"h": &types.AttributeValueMemberS{Value: fmt.Sprintf("k%02d", i)}}
}

func TestC11Find3_BatchGetReturnsAStateThatNeverExisted(t *testing.T) {
	const n = 40

	ctx := context.Background()

	keys := make([]map[string]types.AttributeValue, 0, n)
	for i := 0; i < n; i++ {
		keys = append(keys, c11f3Key(i))
	}

	for round := 0; round < 3000; round++ {
		c := client.NewClient()
		if err := client.AddTable(ctx, c, "tbl", "h", ""); err != nil {
			t.Fatal(err)
		}

		start := make(chan struct{})
		written := make(chan error, 1)

		go func() {
			<-start

			for i := 0; i < n; i++ {
				if _, err := c.PutItem(ctx, &dynamodb.PutItemInput{TableName: aws.String("tbl"), Item: c11f3Key(i)}); err != nil {
					written <- err
					return
				}
			}

			written <- nil
		}()

		close(start)

		out, err := c.BatchGetItem(ctx, &dynamodb.BatchGetItemInput{RequestItems: map[string]types.KeysAndAttributes{"tbl": {Keys: keys}}})

		if werr := <-written; werr != nil {
			t.Fatal(werr)
		}

		if err != nil {
			t.Fatal(err)
		}

		got := []string{}
		for _, it := range out.Responses["tbl"] {
			got = append(got, it["h"].(*types.AttributeValueMemberS).Value)
		}

		sort.Strings(got)

		for i, k := range got {
			if k != fmt.Sprintf("k%02d", i) {
				t.Fatalf("round %d: BatchGetItem returned %v: %s is there but k%02d, whose PutItem had returned before the put of %s began, is not; "+
					"no single instant of the sequential history k00, k01, ... gives this answer", round, got, k, i, k)
			}
		}
	}
}
