// PLACE: aws-v2/client  RUN: go test ./aws-v2/client/ -run 'TestC16Find5'
package client_test

// C16 finding 5: a #name placeholder that was never supplied in ExpressionAttributeNames is not
// rejected. In conditions and filters it reads as a missing attribute; in an update it is taken as
// the literal attribute name, so "SET #zz = :v" stores an attribute called "#zz". Real DynamoDB:
//   ValidationException: Invalid UpdateExpression: An expression attribute name used in the document
//   path is not defined; attribute name: #zz
// (Sibling of the recorded deviation about the never supplied VALUE placeholder ":zz"; this one is
// about names and, unlike it, corrupts the stored item.) Same for the SDK v1 client.

import (
	"context"
	"fmt"
	"testing"

	"github.com/aws/aws-sdk-go-v2/aws"
	"github.com/aws/aws-sdk-go-v2/service/dynamodb"
	"github.com/aws/aws-sdk-go-v2/service/dynamodb/types"
	"github.com/truora/minidyn/aws-v2/client"
)

func f5Outcome(f func() error) (res string) {
	defer func() {
		if r := recover(); r != nil {
			res = fmt.Sprintf("rejected (panic): %v", r)
		}
	}()

	if err := f(); err != nil {
		return "rejected: " + err.Error()
	}

	return "ACCEPTED"
}

func TestC16Find5NamePlaceholderNeverSupplied(t *testing.T) {
	ctx := context.Background()
	c := client.NewClient()

	if err := client.AddTable(ctx, c, "tbl", "h", "r"); err != nil {
		t.Fatal(err)
	}

	str := func(v string) types.AttributeValue { return &types.AttributeValueMemberS{Value: v} }
	key := map[string]types.AttributeValue{"h": str("a"), "r": str("1")}
	vals := map[string]types.AttributeValue{":v": str("x")}

	_, err := c.PutItem(ctx, &dynamodb.PutItemInput{TableName: aws.String("tbl"), Item: map[string]types.AttributeValue{
		"h": str("a"), "r": str("1"), "m": &types.AttributeValueMemberM{Value: map[string]types.AttributeValue{}},
	}})
	if err != nil {
		t.Fatal(err)
	}

	if got := f5Outcome(func() error {
		_, err := c.Scan(ctx, &dynamodb.ScanInput{TableName: aws.String("tbl"),
			FilterExpression: aws.String("#zz = :v"), ExpressionAttributeValues: vals})
		return err
	}); got == "ACCEPTED" {
		t.Errorf("Scan FilterExpression \"#zz = :v\" without ExpressionAttributeNames: accepted")
	}

	if got := f5Outcome(func() error {
		_, err := c.PutItem(ctx, &dynamodb.PutItemInput{TableName: aws.String("tbl"),
			Item:                map[string]types.AttributeValue{"h": str("b"), "r": str("1")},
			ConditionExpression: aws.String("attribute_not_exists(#zz)")})
		return err
	}); got == "ACCEPTED" {
		t.Errorf("PutItem ConditionExpression \"attribute_not_exists(#zz)\" without ExpressionAttributeNames: accepted")
	}

	// one name supplied and used, another one used but not supplied
	if got := f5Outcome(func() error {
		_, err := c.UpdateItem(ctx, &dynamodb.UpdateItemInput{TableName: aws.String("tbl"), Key: key,
			UpdateExpression:          aws.String("SET #m.#zz = :v"),
			ExpressionAttributeNames:  map[string]string{"#m": "m"},
			ExpressionAttributeValues: vals})
		return err
	}); got == "ACCEPTED" {
		t.Errorf("UpdateItem \"SET #m.#zz = :v\" with only #m supplied: accepted")
	}

	if got := f5Outcome(func() error {
		_, err := c.UpdateItem(ctx, &dynamodb.UpdateItemInput{TableName: aws.String("tbl"), Key: key,
			UpdateExpression: aws.String("SET #zz = :v"), ExpressionAttributeValues: vals})
		return err
	}); got == "ACCEPTED" {
		t.Errorf("UpdateItem \"SET #zz = :v\" without ExpressionAttributeNames: accepted")
	}

	out, err := c.GetItem(ctx, &dynamodb.GetItemInput{TableName: aws.String("tbl"), Key: key})
	if err != nil {
		t.Fatal(err)
	}

	if _, ok := out.Item["#zz"]; ok {
		t.Errorf("the stored item now has an attribute literally called \"#zz\": %v", out.Item)
	}
}
