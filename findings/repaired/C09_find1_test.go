// PLACE: aws-v2/client  RUN: TestAuditC09Find1
package client

// C09 finding 1: Query and Scan only parse their expressions when an item
// reaches them.  On an empty table, or when the key condition matches no item,
// a malformed FilterExpression / KeyConditionExpression is never looked at and
// the call succeeds silently, although the same call panics (the documented
// behaviour) as soon as one item gets that far.

import (
	"context"
	"fmt"
	"testing"

	"github.com/aws/aws-sdk-go-v2/aws"
	"github.com/aws/aws-sdk-go-v2/service/dynamodb"
	dynamodbtypes "github.com/aws/aws-sdk-go-v2/service/dynamodb/types"
)

// find1Outcome runs the call and tells how it ended: "error: ...", "panic: ..." or "success"
func find1Outcome(call func() error) (outcome string) {
	defer func() {
		if r := recover(); r != nil {
			outcome = fmt.Sprintf("panic: %v", r)
		}
	}()

	if err := call(); err != nil {
		return "error: " + err.Error()
	}

	return "success"
}

func find1Client(t *testing.T, table string) *Client {
	t.Helper()

	client := NewClient()

	if err := AddTable(context.Background(), client, table, "id", ""); err != nil {
		t.Fatal(err)
	}

	return client
}

func find1Put(t *testing.T, client *Client, table, id string) {
	t.Helper()

	_, err := client.PutItem(context.Background(), &dynamodb.PutItemInput{
		TableName: aws.String(table),
		Item: map[string]dynamodbtypes.AttributeValue{
			"id":  &dynamodbtypes.AttributeValueMemberS{Value: id},
			"lvl": &dynamodbtypes.AttributeValueMemberN{Value: "1"},
		},
	})
	if err != nil {
		t.Fatal(err)
	}
}

func TestAuditC09Find1ScanEmptyTableMalformedFilter(t *testing.T) {
	client := find1Client(t, "find1-scan")

	scan := func() error {
		_, err := client.Scan(context.Background(), &dynamodb.ScanInput{
			TableName:        aws.String("find1-scan"),
			FilterExpression: aws.String("lvl = = :one AND ("),
			ExpressionAttributeValues: map[string]dynamodbtypes.AttributeValue{
				":one": &dynamodbtypes.AttributeValueMemberN{Value: "1"},
			},
		})

		return err
	}

	if got := find1Outcome(scan); got == "success" {
		t.Errorf("Scan of an empty table with FilterExpression %q: want an error or the documented panic, got %s", "lvl = = :one AND (", got)
	}

	// control: with one item in the table the same call is rejected
	find1Put(t, client, "find1-scan", "001")

	if got := find1Outcome(scan); got == "success" {
		t.Errorf("control: Scan of a non-empty table with the malformed filter succeeded")
	}
}

func TestAuditC09Find1QueryNoKeyMatchMalformedFilter(t *testing.T) {
	client := find1Client(t, "find1-query")
	find1Put(t, client, "find1-query", "001")

	query := func(id string) func() error {
		return func() error {
			_, err := client.Query(context.Background(), &dynamodb.QueryInput{
				TableName:              aws.String("find1-query"),
				KeyConditionExpression: aws.String("id = :id"),
				FilterExpression:       aws.String("lvl >>> :one )) AND"),
				ExpressionAttributeValues: map[string]dynamodbtypes.AttributeValue{
					":id":  &dynamodbtypes.AttributeValueMemberS{Value: id},
					":one": &dynamodbtypes.AttributeValueMemberN{Value: "1"},
				},
			})

			return err
		}
	}

	// control: the partition that exists reaches the filter, which is rejected
	if got := find1Outcome(query("001")); got == "success" {
		t.Errorf("control: Query with the malformed filter succeeded for the existing partition")
	}

	if got := find1Outcome(query("999")); got == "success" {
		t.Errorf("Query for a partition without items with FilterExpression %q: want an error or the documented panic, got %s", "lvl >>> :one )) AND", got)
	}
}

func TestAuditC09Find1QueryEmptyTableMalformedKeyCondition(t *testing.T) {
	client := find1Client(t, "find1-key")

	query := func() error {
		_, err := client.Query(context.Background(), &dynamodb.QueryInput{
			TableName:              aws.String("find1-key"),
			KeyConditionExpression: aws.String("id != :id"),
			ExpressionAttributeValues: map[string]dynamodbtypes.AttributeValue{
				":id": &dynamodbtypes.AttributeValueMemberS{Value: "001"},
			},
		})

		return err
	}

	if got := find1Outcome(query); got == "success" {
		t.Errorf("Query of an empty table with KeyConditionExpression %q: want an error or the documented panic, got %s", "id != :id", got)
	}
}
