// PLACE: aws-v2/client  RUN: go test ./aws-v2/client/ -run 'TestAuditC02Find3'
package client

// C02 finding 3: binary (B) sort keys are ordered by the text Go prints for the byte slice ("[10]" < "[9]"), not by
// their unsigned bytes. (Same mechanism as the known number-key ordering, but for another key type.)

import (
	"context"
	"fmt"
	"strings"
	"testing"

	"github.com/aws/aws-sdk-go-v2/aws"
	"github.com/aws/aws-sdk-go-v2/service/dynamodb"
	"github.com/aws/aws-sdk-go-v2/service/dynamodb/types"
)

func TestAuditC02Find3(t *testing.T) {
	c := NewClient()

	_, err := c.CreateTable(context.Background(), &dynamodb.CreateTableInput{
		TableName:   aws.String("f3"),
		BillingMode: types.BillingModePayPerRequest,
		AttributeDefinitions: []types.AttributeDefinition{
			{AttributeName: aws.String("h"), AttributeType: types.ScalarAttributeTypeS},
			{AttributeName: aws.String("r"), AttributeType: types.ScalarAttributeTypeB},
		},
		KeySchema: []types.KeySchemaElement{
			{AttributeName: aws.String("h"), KeyType: types.KeyTypeHash},
			{AttributeName: aws.String("r"), KeyType: types.KeyTypeRange},
		},
	})
	if err != nil {
		t.Fatal(err)
	}

	for _, b := range [][]byte{{200}, {9}, {10}, {1}, {100}, {2}, {1, 0}} {
		item := map[string]types.AttributeValue{
			"h": &types.AttributeValueMemberS{Value: "p"},
			"r": &types.AttributeValueMemberB{Value: b},
		}
		if _, err := c.PutItem(context.Background(), &dynamodb.PutItemInput{TableName: aws.String("f3"), Item: item}); err != nil {
			t.Fatal(err)
		}
	}

	for _, forward := range []bool{true, false} {
		out, err := c.Query(context.Background(), &dynamodb.QueryInput{
			TableName:                 aws.String("f3"),
			KeyConditionExpression:    aws.String("h = :h"),
			ExpressionAttributeValues: map[string]types.AttributeValue{":h": &types.AttributeValueMemberS{Value: "p"}},
			ScanIndexForward:          aws.Bool(forward),
		})
		if err != nil {
			t.Fatal(err)
		}

		got := []string{}
		for _, it := range out.Items {
			got = append(got, fmt.Sprint(it["r"].(*types.AttributeValueMemberB).Value))
		}

		want := "[1] [1 0] [2] [9] [10] [100] [200]"
		if !forward {
			want = "[200] [100] [10] [9] [2] [1 0] [1]"
		}

		if strings.Join(got, " ") != want {
			t.Errorf("forward=%v: sort keys came back as %s, want %s", forward, strings.Join(got, " "), want)
		}
	}
}
