// PLACE: aws-v1/client  RUN: go test ./aws-v1/client/ -run 'TestAuditC10AttributeNamedLikeAlias'
package client

import (
	"reflect"
	"testing"

	"github.com/aws/aws-sdk-go/aws"
	"github.com/aws/aws-sdk-go/service/dynamodb"
)

// Attribute names are arbitrary strings: "#h" is a valid attribute name (the '#' only has a meaning inside
// expressions). An item that owns an attribute called "#h" must be returned by a Query / Scan whose expression uses
// the name placeholder "#h" for the key attribute "h".
//
// The fake loads the item into the evaluation environment with Environment.Set, which applies the request's
// ExpressionAttributeNames to the ATTRIBUTE NAMES OF THE ITEM: the attribute "#h" is stored under "h" and, depending
// on the map iteration order, replaces the real key attribute "h" for the evaluation. In roughly half of the calls
// the item is not found.
func TestAuditC10AttributeNamedLikeAlias(t *testing.T) {
	c := NewClient()

	if err := AddTable(c, "tbl", "h", "r"); err != nil {
		t.Fatal(err)
	}

	item := map[string]*dynamodb.AttributeValue{
		"h":  {S: aws.String("a")},
		"r":  {S: aws.String("r")},
		"#h": {S: aws.String("zzz")},
	}

	if _, err := c.PutItem(&dynamodb.PutItemInput{TableName: aws.String("tbl"), Item: item}); err != nil {
		t.Fatal(err)
	}

	const rounds = 200

	queryMissed, scanMissed := 0, 0

	for i := 0; i < rounds; i++ {
		q, err := c.Query(&dynamodb.QueryInput{
			TableName:                 aws.String("tbl"),
			KeyConditionExpression:    aws.String("#h = :v"),
			ExpressionAttributeNames:  map[string]*string{"#h": aws.String("h")},
			ExpressionAttributeValues: map[string]*dynamodb.AttributeValue{":v": {S: aws.String("a")}},
		})
		if err != nil {
			t.Fatal(err)
		}

		if len(q.Items) != 1 || !reflect.DeepEqual(q.Items[0], item) {
			queryMissed++
		}

		s, err := c.Scan(&dynamodb.ScanInput{
			TableName:                 aws.String("tbl"),
			FilterExpression:          aws.String("#h = :v"),
			ExpressionAttributeNames:  map[string]*string{"#h": aws.String("h")},
			ExpressionAttributeValues: map[string]*dynamodb.AttributeValue{":v": {S: aws.String("a")}},
		})
		if err != nil {
			t.Fatal(err)
		}

		if len(s.Items) != 1 || !reflect.DeepEqual(s.Items[0], item) {
			scanMissed++
		}
	}

	if queryMissed != 0 {
		t.Errorf("Query (#h = :v, #h -> h) did not return the item written with PutItem in %d of %d calls", queryMissed, rounds)
	}

	if scanMissed != 0 {
		t.Errorf("Scan (#h = :v, #h -> h) did not return the item written with PutItem in %d of %d calls", scanMissed, rounds)
	}
}
