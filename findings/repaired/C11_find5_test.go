// PLACE: aws-v1/client  RUN: go test -race -run TestC11Find5
// (the data-race subtests need -race; the last test fails without it too)
package client_test

// C11 finding 5 (SDK v1 flavour of finding 4): Query WRITES to the input structure of the caller:
// `if input.ScanIndexForward == nil { input.ScanIndexForward = aws.Bool(true) }`.
// The AWS SDK treats inputs as read-only, so programs share prepared inputs between goroutines. The write is done
// under the lock of ONE client only, so it is a data race with a Query of the same prepared input on another fake
// client and with any goroutine that reads the input it owns while a Query is in flight.
// Run with -race: the race detector reports "WARNING: DATA RACE ... Write at ... (*Client).Query" and fails the test.

import (
	"sync"
	"testing"

	"github.com/aws/aws-sdk-go/aws"
	"github.com/aws/aws-sdk-go/service/dynamodb"
	"github.com/truora/minidyn/aws-v1/client"
)

func c11f5Client(t *testing.T) *client.Client {
	t.Helper()

	c := client.NewClient()
	if err := client.AddTable(c, "tbl", "h", "r"); err != nil {
		t.Fatal(err)
	}

	return c
}

func c11f5Input() *dynamodb.QueryInput {
	return &dynamodb.QueryInput{
		TableName:                 aws.String("tbl"),
		KeyConditionExpression:    aws.String("h = :h"),
		ExpressionAttributeValues: map[string]*dynamodb.AttributeValue{":h": {S: aws.String("a")}},
	}
}

// the same prepared input, queried on two clients by two goroutines
func TestC11Find5_SharedInputTwoClients(t *testing.T) {
	clients := []*client.Client{c11f5Client(t), c11f5Client(t)}
	shared := c11f5Input()

	var wg sync.WaitGroup

	for _, c := range clients {
		wg.Add(1)

		go func(c *client.Client) {
			defer wg.Done()

			if _, err := c.Query(shared); err != nil {
				t.Error(err)
			}
		}(c)
	}

	wg.Wait()
}

// one client; the second goroutine only READS the input it shares (as a logger or a retry wrapper would)
func TestC11Find5_CallerReadsItsInput(t *testing.T) {
	c := c11f5Client(t)
	shared := c11f5Input()

	var wg sync.WaitGroup

	wg.Add(2)

	go func() {
		defer wg.Done()

		if _, err := c.Query(shared); err != nil {
			t.Error(err)
		}
	}()

	go func() {
		defer wg.Done()

		_ = shared.ScanIndexForward == nil
	}()

	wg.Wait()
}

// the same defect without any concurrency: the input of the caller is not what it was before the call
func TestC11Find5_InputIsModified(t *testing.T) {
	c := c11f5Client(t)
	in := c11f5Input()

	if _, err := c.Query(in); err != nil {
		t.Fatal(err)
	}

	if in.ScanIndexForward != nil {
		t.Fatalf("Query modified its input: ScanIndexForward was nil, is now a pointer to %v", *in.ScanIndexForward)
	}
}
