// PLACE: aws-v1/client  RUN: go test ./aws-v1/client/ -run 'TestC14Find1ProjectionSharesCallerMemory'
package client

import (
	"testing"

	"github.com/aws/aws-sdk-go/aws"
	"github.com/aws/aws-sdk-go/service/dynamodb"
)

// C14: the projection of a secondary index (SDK v1) is stored by pointer: the ProjectionType *string and the
// NonKeyAttributes []*string of the caller's CreateTable / UpdateTable input become the stored state, and
// DescribeTable hands the very same pointers out again.

func c14f1CreateInput(pt, nk *string) *dynamodb.CreateTableInput {
	return &dynamodb.CreateTableInput{
		TableName:   aws.String("c14f1"),
		BillingMode: aws.String("PAY_PER_REQUEST"),
		AttributeDefinitions: []*dynamodb.AttributeDefinition{
			{AttributeName: aws.String("h"), AttributeType: aws.String("S")},
			{AttributeName: aws.String("g"), AttributeType: aws.String("S")},
		},
		KeySchema: []*dynamodb.KeySchemaElement{{AttributeName: aws.String("h"), KeyType: aws.String("HASH")}},
		GlobalSecondaryIndexes: []*dynamodb.GlobalSecondaryIndex{{
			IndexName:  aws.String("gix"),
			KeySchema:  []*dynamodb.KeySchemaElement{{AttributeName: aws.String("g"), KeyType: aws.String("HASH")}},
			Projection: &dynamodb.Projection{ProjectionType: pt, NonKeyAttributes: []*string{nk}},
		}},
	}
}

func c14f1Describe(t *testing.T, c *Client) *dynamodb.Projection {
	t.Helper()

	out, err := c.DescribeTable(&dynamodb.DescribeTableInput{TableName: aws.String("c14f1")})
	if err != nil {
		t.Fatal(err)
	}

	if len(out.Table.GlobalSecondaryIndexes) != 1 {
		t.Fatalf("expected one index, got %d", len(out.Table.GlobalSecondaryIndexes))
	}

	return out.Table.GlobalSecondaryIndexes[0].Projection
}

func c14f1Check(t *testing.T, c *Client, when string) {
	t.Helper()

	p := c14f1Describe(t, c)

	if got := aws.StringValue(p.ProjectionType); got != "INCLUDE" {
		t.Errorf("%s: DescribeTable answers ProjectionType %q, the table was created with \"INCLUDE\"", when, got)
	}

	if len(p.NonKeyAttributes) != 1 || aws.StringValue(p.NonKeyAttributes[0]) != "extra" {
		t.Errorf("%s: DescribeTable answers NonKeyAttributes %v, the table was created with [\"extra\"]", when, aws.StringValueSlice(p.NonKeyAttributes))
	}
}

func TestC14Find1ProjectionSharesCallerMemory(t *testing.T) {
	t.Run("input of CreateTable", func(t *testing.T) {
		c := NewClient()
		pt, nk := aws.String("INCLUDE"), aws.String("extra")
		in := c14f1CreateInput(pt, nk)

		if _, err := c.CreateTable(in); err != nil {
			t.Fatal(err)
		}

		c14f1Check(t, c, "before the caller touches its input")

		// the call has returned: the input belongs to the caller again
		*pt, *nk = "KEYS_ONLY", "changed"
		in.GlobalSecondaryIndexes[0].Projection.NonKeyAttributes[0] = aws.String("replaced")

		c14f1Check(t, c, "after the caller modified its CreateTable input")
	})

	t.Run("input of UpdateTable", func(t *testing.T) {
		c := NewClient()
		in := c14f1CreateInput(aws.String("INCLUDE"), aws.String("extra"))
		in.GlobalSecondaryIndexes = nil

		if _, err := c.CreateTable(in); err != nil {
			t.Fatal(err)
		}

		pt, nk := aws.String("INCLUDE"), aws.String("extra")

		_, err := c.UpdateTable(&dynamodb.UpdateTableInput{
			TableName: aws.String("c14f1"),
			GlobalSecondaryIndexUpdates: []*dynamodb.GlobalSecondaryIndexUpdate{{Create: &dynamodb.CreateGlobalSecondaryIndexAction{
				IndexName:  aws.String("gix"),
				KeySchema:  []*dynamodb.KeySchemaElement{{AttributeName: aws.String("g"), KeyType: aws.String("HASH")}},
				Projection: &dynamodb.Projection{ProjectionType: pt, NonKeyAttributes: []*string{nk}},
			}}},
		})
		if err != nil {
			t.Fatal(err)
		}

		*pt, *nk = "KEYS_ONLY", "changed"

		c14f1Check(t, c, "after the caller modified its UpdateTable input")
	})

	t.Run("output of DescribeTable", func(t *testing.T) {
		c := NewClient()

		if _, err := c.CreateTable(c14f1CreateInput(aws.String("INCLUDE"), aws.String("extra"))); err != nil {
			t.Fatal(err)
		}

		p := c14f1Describe(t, c)
		*p.ProjectionType = "KEYS_ONLY"
		*p.NonKeyAttributes[0] = "changed"
		p.NonKeyAttributes[0] = aws.String("replaced")

		c14f1Check(t, c, "after the caller modified the output of an earlier DescribeTable")
	})
}
