// PLACE: aws-v2/client  RUN: go test ./aws-v2/client/ -run 'TestC13Find4'
package client_test

// C13 finding 4: Scan and Query do not reject an ExclusiveStartKey that lacks a key attribute or supplies it with
// the wrong type. The malformed key is silently dropped and the read starts again from the first item, so a
// pagination loop that builds a bad start key never terminates instead of failing with ValidationException.

import (
	"context"
	"errors"
	"testing"

	"github.com/aws/aws-sdk-go-v2/aws"
	"github.com/aws/aws-sdk-go-v2/service/dynamodb"
	ddbtypes "github.com/aws/aws-sdk-go-v2/service/dynamodb/types"
	"github.com/aws/smithy-go"
	"github.com/truora/minidyn/aws-v2/client"
)

func c13f4Setup(t *testing.T) *client.Client {
	t.Helper()

	ctx := context.Background()
	c := client.NewClient()

	_, err := c.CreateTable(ctx, &dynamodb.CreateTableInput{
		TableName:   aws.String("c13f4"),
		BillingMode: ddbtypes.BillingModePayPerRequest,
		AttributeDefinitions: []ddbtypes.AttributeDefinition{
			{AttributeName: aws.String("h"), AttributeType: ddbtypes.ScalarAttributeTypeS},
			{AttributeName: aws.String("r"), AttributeType: ddbtypes.ScalarAttributeTypeS},
		},
		KeySchema: []ddbtypes.KeySchemaElement{
			{AttributeName: aws.String("h"), KeyType: ddbtypes.KeyTypeHash},
			{AttributeName: aws.String("r"), KeyType: ddbtypes.KeyTypeRange},
		},
	})
	if err != nil {
		t.Fatalf("CreateTable: %v", err)
	}

	for _, r := range []string{"1", "2", "3"} {
		_, err = c.PutItem(ctx, &dynamodb.PutItemInput{
			TableName: aws.String("c13f4"),
			Item: map[string]ddbtypes.AttributeValue{
				"h": &ddbtypes.AttributeValueMemberS{Value: "a"},
				"r": &ddbtypes.AttributeValueMemberS{Value: r},
			},
		})
		if err != nil {
			t.Fatalf("PutItem: %v", err)
		}
	}

	// control: a well-formed start key resumes after the item it names
	out, err := c.Scan(ctx, &dynamodb.ScanInput{
		TableName: aws.String("c13f4"),
		ExclusiveStartKey: map[string]ddbtypes.AttributeValue{
			"h": &ddbtypes.AttributeValueMemberS{Value: "a"},
			"r": &ddbtypes.AttributeValueMemberS{Value: "2"},
		},
	})
	if err != nil || len(out.Items) != 1 {
		t.Fatalf("control failed: Scan after (a,2) must return the single item (a,3): %v %v", out, err)
	}

	return c
}

func c13f4BadKeys() map[string]map[string]ddbtypes.AttributeValue {
	return map[string]map[string]ddbtypes.AttributeValue{
		"lacks range attribute": {
			"h": &ddbtypes.AttributeValueMemberS{Value: "a"},
		},
		"wrong type": {
			"h": &ddbtypes.AttributeValueMemberS{Value: "a"},
			"r": &ddbtypes.AttributeValueMemberN{Value: "2"},
		},
	}
}

func c13f4Expect(t *testing.T, op, name string, count int, err error) {
	t.Helper()

	if err == nil {
		t.Errorf("%s accepted an ExclusiveStartKey that %s and returned %d items (it started over from the first item)", op, name, count)

		return
	}

	var apiErr smithy.APIError
	if !errors.As(err, &apiErr) || apiErr.ErrorCode() != "ValidationException" {
		t.Errorf("%s, start key %s: want ValidationException, got %v", op, name, err)
	}
}

func TestC13Find4ScanStartKey(t *testing.T) {
	c := c13f4Setup(t)

	for name, key := range c13f4BadKeys() {
		out, err := c.Scan(context.Background(), &dynamodb.ScanInput{TableName: aws.String("c13f4"), ExclusiveStartKey: key})

		count := 0
		if out != nil {
			count = len(out.Items)
		}

		c13f4Expect(t, "Scan", name, count, err)
	}
}

func TestC13Find4QueryStartKey(t *testing.T) {
	c := c13f4Setup(t)

	for name, key := range c13f4BadKeys() {
		out, err := c.Query(context.Background(), &dynamodb.QueryInput{
			TableName:              aws.String("c13f4"),
			KeyConditionExpression: aws.String("h = :h"),
			ExpressionAttributeValues: map[string]ddbtypes.AttributeValue{
				":h": &ddbtypes.AttributeValueMemberS{Value: "a"},
			},
			ExclusiveStartKey: key,
		})

		count := 0
		if out != nil {
			count = len(out.Items)
		}

		c13f4Expect(t, "Query", name, count, err)
	}
}
