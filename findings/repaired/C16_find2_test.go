// PLACE: aws-v2/client  RUN: go test ./aws-v2/client/ -run 'TestC16Find2'
package client_test

// C16 finding 2: a reserved word is only detected as the FIRST element of a document path.
// As a later element (m.name, m.k.name, l[0].name) it is accepted in filter, condition and
// update expressions. Real DynamoDB rejects a reserved word in every element of a path:
//   ValidationException: Invalid UpdateExpression: Attribute name is a reserved keyword; reserved keyword: name
// The same holds for the SDK v1 client.

import (
	"context"
	"fmt"
	"testing"

	"github.com/aws/aws-sdk-go-v2/aws"
	"github.com/aws/aws-sdk-go-v2/service/dynamodb"
	"github.com/aws/aws-sdk-go-v2/service/dynamodb/types"
	"github.com/truora/minidyn/aws-v2/client"
)

func f2Outcome(f func() error) (res string) {
	defer func() {
		if r := recover(); r != nil {
			res = fmt.Sprintf("rejected (panic): %v", r)
		}
	}()

	if err := f(); err != nil {
		return "rejected: " + err.Error()
	}

	return "ACCEPTED"
}

func TestC16Find2ReservedWordInsideDocumentPath(t *testing.T) {
	ctx := context.Background()
	c := client.NewClient()

	if err := client.AddTable(ctx, c, "tbl", "h", "r"); err != nil {
		t.Fatal(err)
	}

	str := func(v string) types.AttributeValue { return &types.AttributeValueMemberS{Value: v} }
	mp := func(m map[string]types.AttributeValue) types.AttributeValue { return &types.AttributeValueMemberM{Value: m} }
	key := map[string]types.AttributeValue{"h": str("a"), "r": str("1")}

	_, err := c.PutItem(ctx, &dynamodb.PutItemInput{TableName: aws.String("tbl"), Item: map[string]types.AttributeValue{
		"h": str("a"), "r": str("1"),
		"m": mp(map[string]types.AttributeValue{"name": str("n"), "k": mp(map[string]types.AttributeValue{"name": str("q")})}),
		"l": &types.AttributeValueMemberL{Value: []types.AttributeValue{mp(map[string]types.AttributeValue{"name": str("n")})}},
	}})
	if err != nil {
		t.Fatal(err)
	}

	vals := map[string]types.AttributeValue{":v": str("x")}

	// control: the reserved word as first path element is detected, the placeholder form is accepted
	if got := f2Outcome(func() error {
		_, err := c.UpdateItem(ctx, &dynamodb.UpdateItemInput{TableName: aws.String("tbl"), Key: key,
			UpdateExpression: aws.String("SET name.k = :v"), ExpressionAttributeValues: vals})
		return err
	}); got == "ACCEPTED" {
		t.Fatalf("control: SET name.k = :v accepted")
	}

	if got := f2Outcome(func() error {
		_, err := c.UpdateItem(ctx, &dynamodb.UpdateItemInput{TableName: aws.String("tbl"), Key: key,
			UpdateExpression: aws.String("SET m.#n = :v"), ExpressionAttributeValues: vals,
			ExpressionAttributeNames: map[string]string{"#n": "name"}})
		return err
	}); got != "ACCEPTED" {
		t.Fatalf("control: SET m.#n = :v: %s", got)
	}

	for _, filter := range []string{"m.name = :v", "m.k.name = :v", "l[0].name = :v", "attribute_exists(m.name) AND h <> :v"} {
		filter := filter

		if got := f2Outcome(func() error {
			_, err := c.Scan(ctx, &dynamodb.ScanInput{TableName: aws.String("tbl"),
				FilterExpression: aws.String(filter), ExpressionAttributeValues: vals})
			return err
		}); got == "ACCEPTED" {
			t.Errorf("Scan FilterExpression %q: accepted, DynamoDB rejects the reserved word", filter)
		}
	}

	if got := f2Outcome(func() error {
		_, err := c.PutItem(ctx, &dynamodb.PutItemInput{TableName: aws.String("tbl"),
			Item:                map[string]types.AttributeValue{"h": str("b"), "r": str("1")},
			ConditionExpression: aws.String("attribute_not_exists(m.name)")})
		return err
	}); got == "ACCEPTED" {
		t.Errorf("PutItem ConditionExpression attribute_not_exists(m.name): accepted, DynamoDB rejects the reserved word")
	}

	for _, update := range []string{"SET m.name = :v", "SET m.k.name = :v", "SET l[0].name = :v", "SET y = if_not_exists(m.name, :v)"} {
		update := update

		if got := f2Outcome(func() error {
			_, err := c.UpdateItem(ctx, &dynamodb.UpdateItemInput{TableName: aws.String("tbl"), Key: key,
				UpdateExpression: aws.String(update), ExpressionAttributeValues: vals})
			return err
		}); got == "ACCEPTED" {
			t.Errorf("UpdateItem %q: accepted, DynamoDB rejects the reserved word", update)
		}
	}

	if got := f2Outcome(func() error {
		_, err := c.UpdateItem(ctx, &dynamodb.UpdateItemInput{TableName: aws.String("tbl"), Key: key,
			UpdateExpression: aws.String("SET y = m.name")})
		return err
	}); got == "ACCEPTED" {
		t.Errorf("UpdateItem SET y = m.name: accepted, DynamoDB rejects the reserved word")
	}

	if got := f2Outcome(func() error {
		_, err := c.UpdateItem(ctx, &dynamodb.UpdateItemInput{TableName: aws.String("tbl"), Key: key,
			UpdateExpression: aws.String("REMOVE m.name")})
		return err
	}); got == "ACCEPTED" {
		t.Errorf("UpdateItem REMOVE m.name: accepted, DynamoDB rejects the reserved word")
	}
}
