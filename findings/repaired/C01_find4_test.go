// PLACE: aws-v1/client  RUN: TestAuditC01Find4AttributeNamedLikeNamePlaceholder
package client

// C01 finding 4: an item attribute whose name is literally "#n" (a legal DynamoDB attribute name) is
// mistaken for the expression attribute name #n when an update is applied: its value is written over the
// attribute #n stands for. Attributes the update does not target change, and values the update writes are lost.

import (
	"testing"

	"github.com/aws/aws-sdk-go/aws"
	"github.com/aws/aws-sdk-go/service/dynamodb"
)

func auditC01Find4Str(v *dynamodb.AttributeValue) string {
	if v == nil {
		return "<absent>"
	}

	if v.S == nil {
		return v.String()
	}

	return *v.S
}

func TestAuditC01Find4AttributeNamedLikeNamePlaceholder(t *testing.T) {
	client := NewClient()

	if err := AddTable(client, "audit-c01-f4", "h", ""); err != nil {
		t.Fatal(err)
	}

	key := func(h string) map[string]*dynamodb.AttributeValue {
		return map[string]*dynamodb.AttributeValue{"h": {S: aws.String(h)}}
	}

	get := func(h string) map[string]*dynamodb.AttributeValue {
		out, err := client.GetItem(&dynamodb.GetItemInput{TableName: aws.String("audit-c01-f4"), Key: key(h)})
		if err != nil {
			t.Fatal(err)
		}

		return out.Item
	}

	// (a) REMOVE of an attribute the item does not have is a no-op: the item must stay {h, "#n"}
	_, err := client.PutItem(&dynamodb.PutItemInput{
		TableName: aws.String("audit-c01-f4"),
		Item:      map[string]*dynamodb.AttributeValue{"h": {S: aws.String("a")}, "#n": {S: aws.String("keep")}},
	})
	if err != nil {
		t.Fatal(err)
	}

	_, err = client.UpdateItem(&dynamodb.UpdateItemInput{
		TableName:                aws.String("audit-c01-f4"),
		Key:                      key("a"),
		UpdateExpression:         aws.String("REMOVE #n"),
		ExpressionAttributeNames: map[string]*string{"#n": aws.String("other")},
	})
	if err != nil {
		t.Fatal(err)
	}

	item := get("a")
	if len(item) != 2 || auditC01Find4Str(item["#n"]) != "keep" || item["other"] != nil {
		t.Errorf(`(a) after REMOVE #n (#n -> other): want {h: a, "#n": keep}, got %v`, item)
	}

	// (b) an update creates the attribute "#n" and sets another one: both values must be stored
	_, err = client.UpdateItem(&dynamodb.UpdateItemInput{
		TableName:        aws.String("audit-c01-f4"),
		Key:              key("b"),
		UpdateExpression: aws.String("SET #a = :one, #n = :two"),
		ExpressionAttributeNames: map[string]*string{
			"#a": aws.String("#n"), // the attribute literally named "#n"
			"#n": aws.String("x"),
		},
		ExpressionAttributeValues: map[string]*dynamodb.AttributeValue{
			":one": {S: aws.String("one")},
			":two": {S: aws.String("two")},
		},
	})
	if err != nil {
		t.Fatal(err)
	}

	item = get("b")
	if auditC01Find4Str(item["#n"]) != "one" || auditC01Find4Str(item["x"]) != "two" {
		t.Errorf(`(b) after SET #a = :one, #n = :two (#a -> "#n", #n -> x): want "#n"=one and x=two, got "#n"=%s x=%s`,
			auditC01Find4Str(item["#n"]), auditC01Find4Str(item["x"]))
	}
}
