// PLACE: aws-v2/client  RUN: go test -run TestC11Find1
// (plain `go test`; -race not needed, also fails with it)
package client_test

// C11 finding 1 (SDK v2): BatchWriteItem is not atomic. It validates under the client lock, releases it, and then
// takes the lock again for every single put/delete of the batch. Concurrent calls interleave with the middle of a
// completed, fully successful batch:
//   - two racing batches that write the same 25 keys leave a MIXED table (some keys from A, some from B): no
//     sequential order of the two calls produces that state;
//   - a Scan that runs next to ONE batch of 25 puts sees 1..24 of them.

import (
	"context"
	"fmt"
	"sync"
	"testing"

	"github.com/aws/aws-sdk-go-v2/aws"
	"github.com/aws/aws-sdk-go-v2/service/dynamodb"
	"github.com/aws/aws-sdk-go-v2/service/dynamodb/types"
	"github.com/truora/minidyn/aws-v2/client"
)

const c11f1Table = "tbl"

func c11f1Batch(owner string) *dynamodb.BatchWriteItemInput {
	reqs := make([]types.WriteRequest, 0, 25)

	for i := 0; i < 25; i++ {
		reqs = append(reqs, types.WriteRequest{PutRequest: &types.PutRequest{Item: map[string]types.AttributeValue{
			"h":     &types.AttributeValueMemberS{Value: fmt.Sprintf("k%02d", i)},
			"owner": &types.AttributeValueMemberS{Value: owner},
		}}})
	}

	return &dynamodb.BatchWriteItemInput{RequestItems: map[string][]types.WriteRequest{c11f1Table: reqs}}
}

// Two racing BatchWriteItem calls on the same 25 keys: afterwards the table must be all-A or all-B.
func TestC11Find1_RacingBatchesLeaveMixedState(t *testing.T) {
	ctx := context.Background()

	for round := 0; round < 3000; round++ {
		c := client.NewClient()
		if err := client.AddTable(ctx, c, c11f1Table, "h", ""); err != nil {
			t.Fatal(err)
		}

		var wg sync.WaitGroup

		start := make(chan struct{})

		for _, owner := range []string{"A", "B"} {
			wg.Add(1)

			go func(owner string) {
				defer wg.Done()
				<-start

				out, err := c.BatchWriteItem(ctx, c11f1Batch(owner))
				if err != nil || len(out.UnprocessedItems) != 0 {
					t.Errorf("batch %s: err=%v unprocessed=%v", owner, err, out.UnprocessedItems)
				}
			}(owner)
		}

		close(start)
		wg.Wait()

		out, err := c.Scan(ctx, &dynamodb.ScanInput{TableName: aws.String(c11f1Table)})
		if err != nil {
			t.Fatal(err)
		}

		owners := map[string]int{}
		for _, it := range out.Items {
			owners[it["owner"].(*types.AttributeValueMemberS).Value]++
		}

		if len(out.Items) != 25 || (owners["A"] != 25 && owners["B"] != 25) {
			t.Fatalf("round %d: both BatchWriteItem calls completed without error, yet the table is a mix of the two batches: %v "+
				"(a sequential order of the two calls gives 25 x A or 25 x B)", round, owners)
		}
	}
}

// One BatchWriteItem of 25 puts into an empty table next to a scanning goroutine: every Scan must see 0 or 25 items.
func TestC11Find1_ScanSeesHalfABatch(t *testing.T) {
	ctx := context.Background()

	for round := 0; round < 3000; round++ {
		c := client.NewClient()
		if err := client.AddTable(ctx, c, c11f1Table, "h", ""); err != nil {
			t.Fatal(err)
		}

		done := make(chan struct{})
		partial := make(chan int, 1)

		go func() {
			defer close(partial)

			for {
				out, err := c.Scan(ctx, &dynamodb.ScanInput{TableName: aws.String(c11f1Table)})
				if err != nil {
					return
				}

				if n := len(out.Items); n != 0 && n != 25 {
					partial <- n
					return
				}

				select {
				case <-done:
					return
				default:
				}
			}
		}()

		if _, err := c.BatchWriteItem(ctx, c11f1Batch("A")); err != nil {
			t.Fatal(err)
		}

		close(done)

		if n, ok := <-partial; ok {
			t.Fatalf("round %d: a Scan concurrent with one BatchWriteItem of 25 puts returned %d items: the batch did not take effect at one instant", round, n)
		}
	}
}

// A batch that puts into two tables, racing with DeleteTable of one of them. Sequentially the batch either comes
// first (no error) or second (rejected by the up-front validation, NOTHING written). Here it returns
// ResourceNotFoundException and has nevertheless written its items to the other table.
func TestC11Find1_FailedBatchLeavesWrites(t *testing.T) {
	ctx := context.Background()

	for round := 0; round < 20000; round++ {
		c := client.NewClient()

		for _, name := range []string{"tb1", "tb2"} {
			if err := client.AddTable(ctx, c, name, "h", ""); err != nil {
				t.Fatal(err)
			}
		}

		in := &dynamodb.BatchWriteItemInput{RequestItems: map[string][]types.WriteRequest{
			"tb1": c11f1Batch("A").RequestItems[c11f1Table][:12],
			"tb2": c11f1Batch("A").RequestItems[c11f1Table][:12],
		}}

		start := make(chan struct{})
		deleted := make(chan struct{})

		go func() {
			defer close(deleted)
			<-start

			_, _ = c.DeleteTable(ctx, &dynamodb.DeleteTableInput{TableName: aws.String("tb2")})
		}()

		close(start)

		_, err := c.BatchWriteItem(ctx, in)

		<-deleted

		if err == nil {
			continue
		}

		out, scanErr := c.Scan(ctx, &dynamodb.ScanInput{TableName: aws.String("tb1")})
		if scanErr != nil {
			t.Fatal(scanErr)
		}

		if len(out.Items) != 0 {
			t.Fatalf("round %d: BatchWriteItem failed with %q, yet %d of its items are in table tb1: a failed call took effect in part", round, err, len(out.Items))
		}
	}
}
