// PLACE: aws-v1/client  RUN: go test ./aws-v1/client/ -run TestC15Find1
package client

// C15 finding 1: in the SDK v1 client PutItem, DeleteItem, UpdateItem and GetItem run the
// request-parameter validation BEFORE they look at the emulated failure. While a failure
// condition is active such a call answers "InvalidParameter" instead of the configured error
// (Query and Scan of the same client, and every operation of the SDK v2 client, answer the
// configured error for the same kind of request).

import (
	"errors"
	"testing"

	"github.com/aws/aws-sdk-go/aws"
	"github.com/aws/aws-sdk-go/aws/awserr"
	"github.com/aws/aws-sdk-go/service/dynamodb"
)

func c15f1IsConfigured(cond FailureCondition, err error) bool {
	if err == nil {
		return false
	}

	if cond == FailureConditionDeprecated {
		return errors.Is(err, ErrForcedFailure)
	}

	var aerr awserr.Error

	return errors.As(err, &aerr) && aerr.Code() == dynamodb.ErrCodeInternalServerError
}

func TestC15Find1(t *testing.T) {
	client := NewClient()

	if err := AddTable(client, "c15-table", "h", "r"); err != nil {
		t.Fatal(err)
	}

	calls := map[string]func() error{
		"PutItem without Item": func() error {
			_, err := client.PutItem(&dynamodb.PutItemInput{TableName: aws.String("c15-table")})
			return err
		},
		"DeleteItem without Key": func() error {
			_, err := client.DeleteItem(&dynamodb.DeleteItemInput{TableName: aws.String("c15-table")})
			return err
		},
		"UpdateItem without Key": func() error {
			_, err := client.UpdateItem(&dynamodb.UpdateItemInput{
				TableName:                 aws.String("c15-table"),
				UpdateExpression:          aws.String("SET v = :v"),
				ExpressionAttributeValues: map[string]*dynamodb.AttributeValue{":v": {S: aws.String("x")}},
			})
			return err
		},
		"GetItem without Key": func() error {
			_, err := client.GetItem(&dynamodb.GetItemInput{TableName: aws.String("c15-table")})
			return err
		},
		"GetItem without TableName": func() error {
			_, err := client.GetItem(&dynamodb.GetItemInput{Key: map[string]*dynamodb.AttributeValue{
				"h": {S: aws.String("a")}, "r": {S: aws.String("b")},
			}})
			return err
		},
		// control: these two already answer the configured error
		"Query without anything": func() error {
			_, err := client.Query(&dynamodb.QueryInput{})
			return err
		},
		"Scan without anything": func() error {
			_, err := client.Scan(&dynamodb.ScanInput{})
			return err
		},
	}

	for _, cond := range []FailureCondition{FailureConditionInternalServerError, FailureConditionDeprecated} {
		EmulateFailure(client, cond)

		for name, call := range calls {
			if err := call(); !c15f1IsConfigured(cond, err) {
				t.Errorf("failure %q active, %s: want the configured error, got: %v", cond, name, err)
			}
		}

		EmulateFailure(client, FailureConditionNone)
	}

	// consequence inside BatchWriteItem: the per-request PutItem validates its table name before
	// it fails, so under internal-server failure a batch that also names a 2-character table is
	// answered with InvalidParameter and the unprocessed requests of the other table are dropped
	// (the SDK v2 client reports all four requests as unprocessed)
	put := func(r string) *dynamodb.WriteRequest {
		return &dynamodb.WriteRequest{PutRequest: &dynamodb.PutRequest{Item: map[string]*dynamodb.AttributeValue{
			"h": {S: aws.String("a")}, "r": {S: aws.String(r)},
		}}}
	}

	EmulateFailure(client, FailureConditionInternalServerError)
	defer EmulateFailure(client, FailureConditionNone)

	out, err := client.BatchWriteItem(&dynamodb.BatchWriteItemInput{RequestItems: map[string][]*dynamodb.WriteRequest{
		"c15-table": {put("1"), put("2"), put("3")},
		"zz":        {put("4")},
	}})
	if err != nil {
		t.Errorf("internal-server failure active, BatchWriteItem: want no error and 4 unprocessed requests, got error: %v", err)
	} else if n := len(out.UnprocessedItems["c15-table"]) + len(out.UnprocessedItems["zz"]); n != 4 {
		t.Errorf("internal-server failure active, BatchWriteItem: want 4 unprocessed requests, got %d", n)
	}
}
