// PLACE: aws-v2/client  RUN: TestC05Find2
package client_test

// C05 finding 2: ReturnValuesOnConditionCheckFailure = ALL_OLD is honoured by UpdateItem only.
// A PutItem or DeleteItem whose condition fails must carry the (unchanged) stored item in
// ConditionalCheckFailedException.Item when the caller asks for it; minidyn returns no item.

import (
	"context"
	"errors"
	"testing"

	"github.com/aws/aws-sdk-go-v2/aws"
	"github.com/aws/aws-sdk-go-v2/service/dynamodb"
	"github.com/aws/aws-sdk-go-v2/service/dynamodb/types"
	minidyn "github.com/truora/minidyn/aws-v2/client"
)

func f2client(t *testing.T) *minidyn.Client {
	t.Helper()

	c := minidyn.NewClient()
	if err := minidyn.AddTable(context.Background(), c, "docs", "id", ""); err != nil {
		t.Fatal(err)
	}

	_, err := c.PutItem(context.Background(), &dynamodb.PutItemInput{TableName: aws.String("docs"), Item: map[string]types.AttributeValue{
		"id":      &types.AttributeValueMemberS{Value: "d1"},
		"version": &types.AttributeValueMemberN{Value: "3"},
	}})
	if err != nil {
		t.Fatal(err)
	}

	return c
}

func f2check(t *testing.T, op string, err error) {
	t.Helper()

	var ccf *types.ConditionalCheckFailedException
	if !errors.As(err, &ccf) {
		t.Fatalf("%s: want ConditionalCheckFailedException, got %v", op, err)
	}

	v, ok := ccf.Item["version"].(*types.AttributeValueMemberN)
	if !ok || v.Value != "3" || len(ccf.Item) != 2 {
		t.Errorf("%s: the failure must carry the stored item {id: d1, version: 3}, got %v", op, ccf.Item)
	}
}

func TestC05Find2_PutItem(t *testing.T) {
	c := f2client(t)

	_, err := c.PutItem(context.Background(), &dynamodb.PutItemInput{
		TableName: aws.String("docs"),
		Item: map[string]types.AttributeValue{
			"id":      &types.AttributeValueMemberS{Value: "d1"},
			"version": &types.AttributeValueMemberN{Value: "2"},
		},
		ConditionExpression:                 aws.String("attribute_not_exists(id) OR version < :v"),
		ExpressionAttributeValues:           map[string]types.AttributeValue{":v": &types.AttributeValueMemberN{Value: "2"}},
		ReturnValuesOnConditionCheckFailure: types.ReturnValuesOnConditionCheckFailureAllOld,
	})
	f2check(t, "PutItem", err)
}

func TestC05Find2_DeleteItem(t *testing.T) {
	c := f2client(t)

	_, err := c.DeleteItem(context.Background(), &dynamodb.DeleteItemInput{
		TableName:                           aws.String("docs"),
		Key:                                 map[string]types.AttributeValue{"id": &types.AttributeValueMemberS{Value: "d1"}},
		ConditionExpression:                 aws.String("version = :v"),
		ExpressionAttributeValues:           map[string]types.AttributeValue{":v": &types.AttributeValueMemberN{Value: "2"}},
		ReturnValuesOnConditionCheckFailure: types.ReturnValuesOnConditionCheckFailureAllOld,
	})
	f2check(t, "DeleteItem", err)
}

// UpdateItem is the reference: it does carry the item (this test PASSES on the unmodified worktree, the two above fail)
func TestC05Find2_UpdateItemReference(t *testing.T) {
	c := f2client(t)

	_, err := c.UpdateItem(context.Background(), &dynamodb.UpdateItemInput{
		TableName:                           aws.String("docs"),
		Key:                                 map[string]types.AttributeValue{"id": &types.AttributeValueMemberS{Value: "d1"}},
		UpdateExpression:                    aws.String("SET version = :v"),
		ConditionExpression:                 aws.String("version = :v"),
		ExpressionAttributeValues:           map[string]types.AttributeValue{":v": &types.AttributeValueMemberN{Value: "2"}},
		ReturnValuesOnConditionCheckFailure: types.ReturnValuesOnConditionCheckFailureAllOld,
	})
	f2check(t, "UpdateItem", err)
}
