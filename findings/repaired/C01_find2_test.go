// PLACE: aws-v1/client  RUN: TestAuditC01Find2GetItemAbsentIsNil
package client

// C01 finding 2: GetItem on a key that was never written, or that was deleted, answers an empty but
// NON-NIL Item map. DynamoDB (and the SDK) answer no Item at all (nil); `if out.Item == nil` is the
// documented way of telling "not found", and it never fires against the fake.

import (
	"testing"

	"github.com/aws/aws-sdk-go/aws"
	"github.com/aws/aws-sdk-go/service/dynamodb"
)

func TestAuditC01Find2GetItemAbsentIsNil(t *testing.T) {
	client := NewClient()

	if err := AddTable(client, "audit-c01-f2", "h", "r"); err != nil {
		t.Fatal(err)
	}

	key := map[string]*dynamodb.AttributeValue{"h": {S: aws.String("a")}, "r": {S: aws.String("b")}}

	get := func() *dynamodb.GetItemOutput {
		out, err := client.GetItem(&dynamodb.GetItemInput{TableName: aws.String("audit-c01-f2"), Key: key})
		if err != nil {
			t.Fatal(err)
		}

		return out
	}

	if out := get(); out.Item != nil {
		t.Errorf("GetItem on a key never written: want Item == nil (nothing), got %#v", out.Item)
	}

	_, err := client.PutItem(&dynamodb.PutItemInput{
		TableName: aws.String("audit-c01-f2"),
		Item:      map[string]*dynamodb.AttributeValue{"h": {S: aws.String("a")}, "r": {S: aws.String("b")}, "v": {N: aws.String("1")}},
	})
	if err != nil {
		t.Fatal(err)
	}

	if out := get(); out.Item == nil {
		t.Fatalf("GetItem after PutItem: the item is missing")
	}

	if _, err = client.DeleteItem(&dynamodb.DeleteItemInput{TableName: aws.String("audit-c01-f2"), Key: key}); err != nil {
		t.Fatal(err)
	}

	if out := get(); out.Item != nil {
		t.Errorf("GetItem after DeleteItem: want Item == nil (nothing), got %#v", out.Item)
	}
}
