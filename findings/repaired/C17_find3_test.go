// PLACE: aws-v2/client  RUN: go test ./aws-v2/client/ -run 'TestFind3C17'
package client_test

// C17 finding 3 (boundary value): an attribute written as NULL with the flag set to false
// ({"NULL": false}, expressible in both SDKs).  The SDK v1 client stores it verbatim and
// returns NULL=false, and from then on every UpdateItem (and every condition / filter) that
// touches the item fails with "value type is not supported yet"; the SDK v2 client silently
// turns it into NULL=true and everything keeps working.  Same history, different outcomes.

import (
	"context"
	"fmt"
	"testing"

	v2aws "github.com/aws/aws-sdk-go-v2/aws"
	v2ddb "github.com/aws/aws-sdk-go-v2/service/dynamodb"
	v2types "github.com/aws/aws-sdk-go-v2/service/dynamodb/types"
	v1aws "github.com/aws/aws-sdk-go/aws"
	v1ddb "github.com/aws/aws-sdk-go/service/dynamodb"
	v1client "github.com/truora/minidyn/aws-v1/client"
	v2client "github.com/truora/minidyn/aws-v2/client"
)

func find3Outcome(err error) string {
	if err == nil {
		return "success"
	}

	return "failure"
}

func TestFind3C17NullFalse(t *testing.T) {
	ctx := context.Background()
	c1 := v1client.NewClient()
	c2 := v2client.NewClient()

	if err := v1client.AddTable(c1, "tbl", "h", ""); err != nil {
		t.Fatal(err)
	}

	if err := v2client.AddTable(ctx, c2, "tbl", "h", ""); err != nil {
		t.Fatal(err)
	}

	// step 1: PutItem {h: "a", x: NULL(false)}
	_, err1 := c1.PutItem(&v1ddb.PutItemInput{TableName: v1aws.String("tbl"), Item: map[string]*v1ddb.AttributeValue{
		"h": {S: v1aws.String("a")}, "x": {NULL: v1aws.Bool(false)},
	}})
	_, err2 := c2.PutItem(ctx, &v2ddb.PutItemInput{TableName: v2aws.String("tbl"), Item: map[string]v2types.AttributeValue{
		"h": &v2types.AttributeValueMemberS{Value: "a"}, "x": &v2types.AttributeValueMemberNULL{Value: false},
	}})

	if o1, o2 := find3Outcome(err1), find3Outcome(err2); o1 != o2 {
		t.Fatalf("PutItem: v1 %s (%v), v2 %s (%v)", o1, err1, o2, err2)
	}

	// step 2: GetItem returns the same value
	g1, err1 := c1.GetItem(&v1ddb.GetItemInput{TableName: v1aws.String("tbl"), Key: map[string]*v1ddb.AttributeValue{"h": {S: v1aws.String("a")}}})
	g2, err2 := c2.GetItem(ctx, &v2ddb.GetItemInput{TableName: v2aws.String("tbl"), Key: map[string]v2types.AttributeValue{"h": &v2types.AttributeValueMemberS{Value: "a"}}})

	if err1 != nil || err2 != nil {
		t.Fatalf("GetItem: v1 %v, v2 %v", err1, err2)
	}

	x1, x2 := "missing", "missing"

	if v, ok := g1.Item["x"]; ok && v.NULL != nil {
		x1 = fmt.Sprintf("NULL(%v)", *v.NULL)
	}

	if v, ok := g2.Item["x"].(*v2types.AttributeValueMemberNULL); ok {
		x2 = fmt.Sprintf("NULL(%v)", v.Value)
	}

	if x1 != x2 {
		t.Errorf("GetItem: attribute x is %s through SDK v1 and %s through SDK v2", x1, x2)
	}

	// step 3: UpdateItem SET y = :v on that item
	_, err1 = c1.UpdateItem(&v1ddb.UpdateItemInput{
		TableName: v1aws.String("tbl"), Key: map[string]*v1ddb.AttributeValue{"h": {S: v1aws.String("a")}},
		UpdateExpression:          v1aws.String("SET y = :v"),
		ExpressionAttributeValues: map[string]*v1ddb.AttributeValue{":v": {S: v1aws.String("b")}},
	})
	_, err2 = c2.UpdateItem(ctx, &v2ddb.UpdateItemInput{
		TableName: v2aws.String("tbl"), Key: map[string]v2types.AttributeValue{"h": &v2types.AttributeValueMemberS{Value: "a"}},
		UpdateExpression:          v2aws.String("SET y = :v"),
		ExpressionAttributeValues: map[string]v2types.AttributeValue{":v": &v2types.AttributeValueMemberS{Value: "b"}},
	})

	if o1, o2 := find3Outcome(err1), find3Outcome(err2); o1 != o2 {
		t.Errorf("UpdateItem: SDK v1 %s (%v), SDK v2 %s (%v)", o1, err1, o2, err2)
	}
}
