// PLACE: aws-v2/client  RUN: go test ./aws-v2/client/ -run 'TestC20Find3'
package client

// C20 finding 3: the native interpreter normalises the expression text with strings.Fields,
// which splits on every Unicode white space (NO-BREAK SPACE U+00A0, NEXT LINE U+0085, U+2003,
// U+3000, vertical tab, form feed, ...). The expression language itself knows four white space
// characters only (space, tab, CR, LF): "y\u00a0=\u00a0:v" is not the expression "y = :v" with
// extra white space, it is another text, one the built-in interpreter rejects as illegal.
// The registration made for "y = :v" fires for it nevertheless.

import (
	"context"
	"fmt"
	"testing"

	"github.com/aws/aws-sdk-go-v2/aws"
	"github.com/aws/aws-sdk-go-v2/service/dynamodb"
	ddbtypes "github.com/aws/aws-sdk-go-v2/service/dynamodb/types"
	"github.com/truora/minidyn/interpreter"
	mtypes "github.com/truora/minidyn/types"
)

func c20f3Outcome(f func() error) (outcome string) {
	defer func() {
		if r := recover(); r != nil {
			outcome = fmt.Sprintf("panic: %v", r)
		}
	}()

	if err := f(); err != nil {
		return "error: " + err.Error()
	}

	return "ok"
}

func TestC20Find3ForeignWhiteSpace(t *testing.T) {
	for _, tc := range []struct{ name, expr string }{
		{"no-break space", "y\u00a0=\u00a0:v"},
		{"em space", "y\u2003=\u2003:v"},
		{"ideographic space", "y\u3000= :v"},
		{"next line", "y\u0085= :v"},
		{"vertical tab", "y\v= :v"},
		{"form feed", "y = :v\f"},
	} {
		t.Run(tc.name, func(t *testing.T) {
			fired := 0
			outcomes := map[bool]string{}

			for _, native := range []bool{false, true} {
				c := NewClient()

				if native {
					c.ActivateNativeInterpreter()
				}

				if err := AddTable(context.Background(), c, "orders", "h", ""); err != nil {
					t.Fatalf("create table: %v", err)
				}

				c.GetNativeInterpreter().AddMatcher("orders", interpreter.ExpressionTypeFilter, "y = :v",
					func(item, values map[string]*mtypes.Item) bool {
						fired++

						return true
					})

				_, err := c.PutItem(context.Background(), &dynamodb.PutItemInput{
					TableName: aws.String("orders"),
					Item:      map[string]ddbtypes.AttributeValue{"h": &ddbtypes.AttributeValueMemberS{Value: "a"}},
				})
				if err != nil {
					t.Fatalf("put: %v", err)
				}

				outcomes[native] = c20f3Outcome(func() error {
					_, err := c.Scan(context.Background(), &dynamodb.ScanInput{
						TableName:        aws.String("orders"),
						FilterExpression: aws.String(tc.expr),
						ExpressionAttributeValues: map[string]ddbtypes.AttributeValue{
							":v": &ddbtypes.AttributeValueMemberS{Value: "q"},
						},
					})

					return err
				})
			}

			if outcomes[false] == "ok" {
				t.Fatalf("precondition: %q is not an expression of the built-in language, got %q", tc.expr, outcomes[false])
			}

			if fired != 0 {
				t.Errorf("the matcher registered for %q was invoked %d time(s) for the different text %q", "y = :v", fired, tc.expr)
			}

			if outcomes[true] != outcomes[false] {
				t.Errorf("filter %q (no matcher registered for this text):\n  native interpreter off: %s\n  native interpreter on:  %s",
					tc.expr, outcomes[false], outcomes[true])
			}
		})
	}
}
