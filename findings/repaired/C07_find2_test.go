// PLACE: aws-v1/client  RUN: TestAuditC07Find2
package client

// C07 finding 2: DELETE that takes the last elements out of a set leaves an
// attribute holding an EMPTY set. DynamoDB has no empty sets: when DELETE
// removes every element, the attribute itself is removed from the item
// (attribute_not_exists(s) is true afterwards, GetItem does not return s).
//
// This is not the known SDK v1 / v2 output divergence (empty container vs NULL):
// the stored item is wrong, both clients still see an attribute "s", and a
// condition evaluated inside the fake sees it too.

import (
	"testing"

	"github.com/aws/aws-sdk-go/aws"
	"github.com/aws/aws-sdk-go/service/dynamodb"
)

func TestAuditC07Find2DeleteLastElementsRemovesAttribute(t *testing.T) {
	sets := map[string]struct {
		stored *dynamodb.AttributeValue
		all    *dynamodb.AttributeValue
	}{
		"SS": {
			stored: &dynamodb.AttributeValue{SS: aws.StringSlice([]string{"a", "b"})},
			all:    &dynamodb.AttributeValue{SS: aws.StringSlice([]string{"a", "b", "c"})},
		},
		"NS": {
			stored: &dynamodb.AttributeValue{NS: aws.StringSlice([]string{"1", "2"})},
			all:    &dynamodb.AttributeValue{NS: aws.StringSlice([]string{"1", "2"})},
		},
		"BS": {
			stored: &dynamodb.AttributeValue{BS: [][]byte{[]byte("a")}},
			all:    &dynamodb.AttributeValue{BS: [][]byte{[]byte("a")}},
		},
	}

	for name, tc := range sets {
		tc := tc

		t.Run(name, func(t *testing.T) {
			c := NewClient()
			if err := AddTable(c, "find2", "id", ""); err != nil {
				t.Fatal(err)
			}

			key := map[string]*dynamodb.AttributeValue{"id": {S: aws.String("k")}}

			_, err := c.PutItem(&dynamodb.PutItemInput{
				TableName: aws.String("find2"),
				Item: map[string]*dynamodb.AttributeValue{
					"id":    {S: aws.String("k")},
					"s":     tc.stored,
					"other": {S: aws.String("kept")},
				},
			})
			if err != nil {
				t.Fatal(err)
			}

			_, err = c.UpdateItem(&dynamodb.UpdateItemInput{
				TableName:                 aws.String("find2"),
				Key:                       key,
				UpdateExpression:          aws.String("DELETE s :all"),
				ExpressionAttributeValues: map[string]*dynamodb.AttributeValue{":all": tc.all},
			})
			if err != nil {
				t.Fatal(err)
			}

			out, err := c.GetItem(&dynamodb.GetItemInput{TableName: aws.String("find2"), Key: key})
			if err != nil {
				t.Fatal(err)
			}

			if v, ok := out.Item["s"]; ok {
				t.Errorf("the attribute s must be gone once its set is empty, GetItem returns s = %s", v.String())
			}

			if got := aws.StringValue(out.Item["other"].S); got != "kept" {
				t.Errorf("other = %q, want kept", got)
			}

			// the same, as seen by a condition evaluated on the stored item
			_, err = c.UpdateItem(&dynamodb.UpdateItemInput{
				TableName:                 aws.String("find2"),
				Key:                       key,
				UpdateExpression:          aws.String("SET checked = :t"),
				ConditionExpression:       aws.String("attribute_not_exists(s)"),
				ExpressionAttributeValues: map[string]*dynamodb.AttributeValue{":t": {BOOL: aws.Bool(true)}},
			})
			if err != nil {
				t.Errorf("attribute_not_exists(s) must hold after the set was emptied: %v", err)
			}
		})
	}
}
