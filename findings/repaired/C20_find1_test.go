// PLACE: aws-v2/client  RUN: go test ./aws-v2/client/ -run 'TestC20Find1'
package client

// C20 finding 1: the native interpreter stores a registration under the string
// tableName + "|" + expression, so a registration made for table "orders|x" and the
// expression "y = :v" is also found for table "orders" and the expression "x|y = :v".
// A registration fires for a different table and a different expression.

import (
	"context"
	"testing"

	"github.com/aws/aws-sdk-go-v2/aws"
	"github.com/aws/aws-sdk-go-v2/service/dynamodb"
	ddbtypes "github.com/aws/aws-sdk-go-v2/service/dynamodb/types"
	"github.com/truora/minidyn/interpreter"
	mtypes "github.com/truora/minidyn/types"
)

func c20f1Client(t *testing.T) *Client {
	t.Helper()

	c := NewClient()
	c.ActivateNativeInterpreter()

	for _, name := range []string{"orders", "orders|x"} {
		if err := AddTable(context.Background(), c, name, "h", ""); err != nil {
			t.Fatalf("create table %q: %v", name, err)
		}
	}

	_, err := c.PutItem(context.Background(), &dynamodb.PutItemInput{
		TableName: aws.String("orders"),
		Item: map[string]ddbtypes.AttributeValue{
			"h": &ddbtypes.AttributeValueMemberS{Value: "a"},
			"v": &ddbtypes.AttributeValueMemberS{Value: "old"},
		},
	})
	if err != nil {
		t.Fatalf("put: %v", err)
	}

	return c
}

func c20f1Quiet(f func()) {
	// the built-in interpreter reports a syntax error of a filter with a panic: not what this test is about
	defer func() { _ = recover() }()

	f()
}

func TestC20Find1MatcherFiresForAnotherTable(t *testing.T) {
	c := c20f1Client(t)
	fired := 0

	// registered for table "orders|x", kind filter, expression "y = :v"
	c.GetNativeInterpreter().AddMatcher("orders|x", interpreter.ExpressionTypeFilter, "y = :v",
		func(item, values map[string]*mtypes.Item) bool {
			fired++

			return true
		})

	var out *dynamodb.ScanOutput

	c20f1Quiet(func() {
		// another table, another expression
		out, _ = c.Scan(context.Background(), &dynamodb.ScanInput{
			TableName:        aws.String("orders"),
			FilterExpression: aws.String("x|y = :v"),
			ExpressionAttributeValues: map[string]ddbtypes.AttributeValue{
				":v": &ddbtypes.AttributeValueMemberS{Value: "q"},
			},
		})
	})

	if fired != 0 {
		t.Errorf("the matcher registered for table %q and expression %q was invoked %d time(s) by a Scan of table %q with filter %q",
			"orders|x", "y = :v", fired, "orders", "x|y = :v")
	}

	if out != nil && len(out.Items) != 0 {
		t.Errorf("the Scan returned %d item(s) on the verdict of a matcher that belongs to another table", len(out.Items))
	}
}

func TestC20Find1UpdaterFiresForAnotherTable(t *testing.T) {
	c := c20f1Client(t)
	fired := 0

	// registered for table "orders|x", expression "SET v = :v"
	c.GetNativeInterpreter().AddUpdater("orders|x", "SET v = :v",
		func(item, values map[string]*mtypes.Item) {
			fired++
			item["v"] = values[":v"]
		})

	// another table, another expression, no updater registered for it: must fail and leave the item alone
	_, err := c.UpdateItem(context.Background(), &dynamodb.UpdateItemInput{
		TableName:        aws.String("orders"),
		Key:              map[string]ddbtypes.AttributeValue{"h": &ddbtypes.AttributeValueMemberS{Value: "a"}},
		UpdateExpression: aws.String("x|SET v = :v"),
		ExpressionAttributeValues: map[string]ddbtypes.AttributeValue{
			":v": &ddbtypes.AttributeValueMemberS{Value: "new"},
		},
	})
	if err == nil {
		t.Errorf("UpdateItem on table %q with the unregistered expression %q succeeded", "orders", "x|SET v = :v")
	}

	if fired != 0 {
		t.Errorf("the updater registered for table %q was invoked %d time(s) by an update of table %q", "orders|x", fired, "orders")
	}

	got, err := c.GetItem(context.Background(), &dynamodb.GetItemInput{
		TableName: aws.String("orders"),
		Key:       map[string]ddbtypes.AttributeValue{"h": &ddbtypes.AttributeValueMemberS{Value: "a"}},
	})
	if err != nil {
		t.Fatalf("get: %v", err)
	}

	if v, _ := got.Item["v"].(*ddbtypes.AttributeValueMemberS); v == nil || v.Value != "old" {
		t.Errorf("the item was changed by the updater of another table: v = %#v, want \"old\"", got.Item["v"])
	}
}
