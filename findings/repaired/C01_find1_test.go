// PLACE: aws-v1/client  RUN: TestAuditC01Find1PutItemAllOld
package client

// C01 finding 1: PutItem ignores ReturnValues. With ReturnValues=ALL_OLD the client answers the NEW item
// (the one just written) instead of the item that was stored under the key before the write, and it
// answers a non-empty Attributes map even when the key held nothing.

import (
	"testing"

	"github.com/aws/aws-sdk-go/aws"
	"github.com/aws/aws-sdk-go/service/dynamodb"
)

func auditC01Find1Str(v *dynamodb.AttributeValue) string {
	if v == nil || v.S == nil {
		return "<absent>"
	}

	return *v.S
}

func TestAuditC01Find1PutItemAllOld(t *testing.T) {
	client := NewClient()

	if err := AddTable(client, "audit-c01-f1", "h", ""); err != nil {
		t.Fatal(err)
	}

	put := func(version string) map[string]*dynamodb.AttributeValue {
		out, err := client.PutItem(&dynamodb.PutItemInput{
			TableName: aws.String("audit-c01-f1"),
			Item: map[string]*dynamodb.AttributeValue{
				"h": {S: aws.String("k")},
				"v": {S: aws.String(version)},
			},
			ReturnValues: aws.String("ALL_OLD"),
		})
		if err != nil {
			t.Fatal(err)
		}

		return out.Attributes
	}

	// nothing is stored under "k": the old item is nothing
	if old := put("1"); len(old) != 0 {
		t.Errorf("first PutItem(ALL_OLD) on an absent key: want no attributes, got %v", old)
	}

	// the most recent successful write to "k" stored v=1: that is the old item of the second put
	if old := put("2"); auditC01Find1Str(old["v"]) != "1" {
		t.Errorf("second PutItem(ALL_OLD): want the replaced item (v=1), got v=%s", auditC01Find1Str(old["v"]))
	}

	// the map itself is fine: GetItem sees the last write
	out, err := client.GetItem(&dynamodb.GetItemInput{
		TableName: aws.String("audit-c01-f1"),
		Key:       map[string]*dynamodb.AttributeValue{"h": {S: aws.String("k")}},
	})
	if err != nil {
		t.Fatal(err)
	}

	if auditC01Find1Str(out.Item["v"]) != "2" {
		t.Errorf("GetItem after the second put: want v=2, got v=%s", auditC01Find1Str(out.Item["v"]))
	}
}
