// PLACE: aws-v2/client  RUN: go test ./aws-v2/client/ -run 'TestAuditC08Find3'
package client

// C08 finding 3 (native interpreter, both SDK flavours, shown with v2): Table.Update hands the updater a SHALLOW
// copy of the stored item ("work on a copy, the stored item must not change when the update fails"): the map is
// new, the attribute values in it are the stored ones. A native updater that changes a value in place (a counter,
// an element of a list or of a map) changes the stored item immediately; when the request then fails (here: the
// new value of the index key has the wrong type, ValidationException) the change stays.

import (
	"context"
	"testing"

	"github.com/aws/aws-sdk-go-v2/aws"
	"github.com/aws/aws-sdk-go-v2/service/dynamodb"
	dynamodbtypes "github.com/aws/aws-sdk-go-v2/service/dynamodb/types"
	"github.com/truora/minidyn/types"
)

func TestAuditC08Find3NativeUpdaterFailedUpdate(t *testing.T) {
	ctx := context.Background()
	c := NewClient()

	if err := AddTable(ctx, c, "tbl", "h", ""); err != nil {
		t.Fatal(err)
	}

	if err := AddIndex(ctx, c, "tbl", "idx", "g", ""); err != nil {
		t.Fatal(err)
	}

	_, err := c.PutItem(ctx, &dynamodb.PutItemInput{
		TableName: aws.String("tbl"),
		Item: map[string]dynamodbtypes.AttributeValue{
			"h":     &dynamodbtypes.AttributeValueMemberS{Value: "a"},
			"g":     &dynamodbtypes.AttributeValueMemberS{Value: "g1"},
			"count": &dynamodbtypes.AttributeValueMemberN{Value: "1"},
			"tags": &dynamodbtypes.AttributeValueMemberL{Value: []dynamodbtypes.AttributeValue{
				&dynamodbtypes.AttributeValueMemberS{Value: "t0"},
			}},
		},
	})
	if err != nil {
		t.Fatal(err)
	}

	c.ActivateNativeInterpreter()
	c.GetNativeInterpreter().AddUpdater("tbl", "SET #c = :c, tags[0] = :t, g = :g", func(item map[string]*types.Item, updates map[string]*types.Item) {
		item["count"].N = updates[":c"].N
		item["tags"].L[0] = updates[":t"]
		item["g"] = updates[":g"]
	})

	get := func() (string, string, string) {
		out, err := c.GetItem(ctx, &dynamodb.GetItemInput{
			TableName: aws.String("tbl"),
			Key:       map[string]dynamodbtypes.AttributeValue{"h": &dynamodbtypes.AttributeValueMemberS{Value: "a"}},
		})
		if err != nil {
			t.Fatal(err)
		}

		return out.Item["count"].(*dynamodbtypes.AttributeValueMemberN).Value,
			out.Item["tags"].(*dynamodbtypes.AttributeValueMemberL).Value[0].(*dynamodbtypes.AttributeValueMemberS).Value,
			out.Item["g"].(*dynamodbtypes.AttributeValueMemberS).Value
	}

	_, err = c.UpdateItem(ctx, &dynamodb.UpdateItemInput{
		TableName:                aws.String("tbl"),
		Key:                      map[string]dynamodbtypes.AttributeValue{"h": &dynamodbtypes.AttributeValueMemberS{Value: "a"}},
		UpdateExpression:         aws.String("SET #c = :c, tags[0] = :t, g = :g"),
		ExpressionAttributeNames: map[string]string{"#c": "count"},
		ExpressionAttributeValues: map[string]dynamodbtypes.AttributeValue{
			":c": &dynamodbtypes.AttributeValueMemberN{Value: "2"},
			":t": &dynamodbtypes.AttributeValueMemberS{Value: "t1"},
			// the index key g is a string: the request is rejected
			":g": &dynamodbtypes.AttributeValueMemberN{Value: "7"},
		},
	})
	if err == nil {
		t.Fatal("the update must be rejected, the index key has the wrong type")
	}

	t.Logf("UpdateItem failed: %v", err)

	count, tag, g := get()
	if count != "1" || tag != "t0" || g != "g1" {
		t.Fatalf("the failed UpdateItem left a trace: count=%s tags[0]=%s g=%s, expected count=1 tags[0]=t0 g=g1", count, tag, g)
	}
}
