// PLACE: aws-v2/client  RUN: go test -run 'TestAuditC04Find1' ./aws-v2/client/
package client

import (
	"context"
	"fmt"
	"testing"

	"github.com/aws/aws-sdk-go-v2/aws"
	"github.com/aws/aws-sdk-go-v2/service/dynamodb"
	dynamodbtypes "github.com/aws/aws-sdk-go-v2/service/dynamodb/types"
)

// C04: "a response without LastEvaluatedKey means the result is complete".
// DynamoDB (and every SDK v2 consumer, including the SDK's own paginators) signals "complete" with a nil
// LastEvaluatedKey. The SDK v2 fake answers a NON-nil empty map instead, so
//   - dynamodb.NewQueryPaginator / NewScanPaginator (HasMorePages: nextToken != nil) never stop, and since an empty
//     ExclusiveStartKey restarts the read, they deliver the same items over and over;
//   - the usual hand-written loop `for { ...; if out.LastEvaluatedKey == nil { break } }` does the same.

func auditC04Find1Setup(t *testing.T) *Client {
	t.Helper()

	ctx := context.Background()
	client := NewClient()

	if err := AddTable(ctx, client, "audit-c04", "h", "r"); err != nil {
		t.Fatal(err)
	}

	for i := 0; i < 5; i++ {
		_, err := client.PutItem(ctx, &dynamodb.PutItemInput{
			TableName: aws.String("audit-c04"),
			Item: map[string]dynamodbtypes.AttributeValue{
				"h": &dynamodbtypes.AttributeValueMemberS{Value: "a"},
				"r": &dynamodbtypes.AttributeValueMemberS{Value: fmt.Sprintf("%03d", i)},
			},
		})
		if err != nil {
			t.Fatal(err)
		}
	}

	return client
}

func TestAuditC04Find1QueryLastPageHasNilLastEvaluatedKey(t *testing.T) {
	ctx := context.Background()
	client := auditC04Find1Setup(t)

	out, err := client.Query(ctx, &dynamodb.QueryInput{
		TableName:                 aws.String("audit-c04"),
		KeyConditionExpression:    aws.String("h = :h"),
		ExpressionAttributeValues: map[string]dynamodbtypes.AttributeValue{":h": &dynamodbtypes.AttributeValueMemberS{Value: "a"}},
	})
	if err != nil {
		t.Fatal(err)
	}

	if len(out.Items) != 5 {
		t.Fatalf("expected 5 items, got %d", len(out.Items))
	}

	if out.LastEvaluatedKey != nil {
		t.Fatalf("complete result must come without LastEvaluatedKey (nil), got %#v", out.LastEvaluatedKey)
	}
}

func TestAuditC04Find1ScanLastPageHasNilLastEvaluatedKey(t *testing.T) {
	ctx := context.Background()
	client := auditC04Find1Setup(t)

	out, err := client.Scan(ctx, &dynamodb.ScanInput{TableName: aws.String("audit-c04")})
	if err != nil {
		t.Fatal(err)
	}

	if out.LastEvaluatedKey != nil {
		t.Fatalf("complete result must come without LastEvaluatedKey (nil), got %#v", out.LastEvaluatedKey)
	}
}

func TestAuditC04Find1QueryPaginatorTerminates(t *testing.T) {
	ctx := context.Background()
	client := auditC04Find1Setup(t)

	for _, limit := range []int32{0, 1, 2, 5, 7} {
		p := dynamodb.NewQueryPaginator(client, &dynamodb.QueryInput{
			TableName:                 aws.String("audit-c04"),
			KeyConditionExpression:    aws.String("h = :h"),
			ExpressionAttributeValues: map[string]dynamodbtypes.AttributeValue{":h": &dynamodbtypes.AttributeValueMemberS{Value: "a"}},
		}, func(o *dynamodb.QueryPaginatorOptions) { o.Limit = limit })

		got := []string{}
		pages := 0

		for p.HasMorePages() {
			pages++
			if pages > 50 {
				t.Fatalf("limit %d: paginator did not stop after 50 pages; %d items delivered for a 5 item table: %v", limit, len(got), got)
			}

			out, err := p.NextPage(ctx)
			if err != nil {
				t.Fatal(err)
			}

			for _, it := range out.Items {
				got = append(got, it["r"].(*dynamodbtypes.AttributeValueMemberS).Value)
			}
		}

		if fmt.Sprint(got) != "[000 001 002 003 004]" {
			t.Fatalf("limit %d: paginated result %v differs from the unpaginated result", limit, got)
		}
	}
}

func TestAuditC04Find1ScanPaginatorTerminates(t *testing.T) {
	ctx := context.Background()
	client := auditC04Find1Setup(t)

	p := dynamodb.NewScanPaginator(client, &dynamodb.ScanInput{TableName: aws.String("audit-c04")},
		func(o *dynamodb.ScanPaginatorOptions) { o.Limit = 2 })

	got := []string{}
	pages := 0

	for p.HasMorePages() {
		pages++
		if pages > 50 {
			t.Fatalf("paginator did not stop after 50 pages; %d items delivered for a 5 item table", len(got))
		}

		out, err := p.NextPage(ctx)
		if err != nil {
			t.Fatal(err)
		}

		for _, it := range out.Items {
			got = append(got, it["r"].(*dynamodbtypes.AttributeValueMemberS).Value)
		}
	}

	if fmt.Sprint(got) != "[000 001 002 003 004]" {
		t.Fatalf("paginated result %v differs from the unpaginated result", got)
	}
}
