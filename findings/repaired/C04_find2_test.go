// PLACE: aws-v1/client  RUN: go test -run 'TestAuditC04Find2' ./aws-v1/client/
package client

import (
	"fmt"
	"testing"

	"github.com/aws/aws-sdk-go/aws"
	"github.com/aws/aws-sdk-go/service/dynamodb"
)

// C04: "a response without LastEvaluatedKey means the result is complete".
// Same defect as find1, SDK v1 flavour: the final page carries a non-nil, empty LastEvaluatedKey map instead of nil.
// The canonical SDK v1 loop (`if out.LastEvaluatedKey == nil { break }`, as in the AWS documentation examples)
// therefore never ends, and because an empty ExclusiveStartKey restarts the read it returns the same items forever.

func auditC04Find2Setup(t *testing.T) *Client {
	t.Helper()

	client := NewClient()

	if err := AddTable(client, "audit-c04", "h", "r"); err != nil {
		t.Fatal(err)
	}

	for i := 0; i < 5; i++ {
		_, err := client.PutItem(&dynamodb.PutItemInput{
			TableName: aws.String("audit-c04"),
			Item: map[string]*dynamodb.AttributeValue{
				"h": {S: aws.String("a")},
				"r": {S: aws.String(fmt.Sprintf("%03d", i))},
			},
		})
		if err != nil {
			t.Fatal(err)
		}
	}

	return client
}

func TestAuditC04Find2QueryLoopOnNilLastEvaluatedKey(t *testing.T) {
	client := auditC04Find2Setup(t)

	for _, limit := range []int64{1, 2, 5, 7} {
		input := &dynamodb.QueryInput{
			TableName:                 aws.String("audit-c04"),
			KeyConditionExpression:    aws.String("h = :h"),
			ExpressionAttributeValues: map[string]*dynamodb.AttributeValue{":h": {S: aws.String("a")}},
			Limit:                     aws.Int64(limit),
		}

		got := []string{}

		for pages := 1; ; pages++ {
			if pages > 50 {
				t.Fatalf("limit %d: no page without LastEvaluatedKey after 50 pages; %d items delivered for a 5 item table", limit, len(got))
			}

			out, err := client.Query(input)
			if err != nil {
				t.Fatal(err)
			}

			for _, it := range out.Items {
				got = append(got, aws.StringValue(it["r"].S))
			}

			if out.LastEvaluatedKey == nil {
				break
			}

			input.ExclusiveStartKey = out.LastEvaluatedKey
		}

		if fmt.Sprint(got) != "[000 001 002 003 004]" {
			t.Fatalf("limit %d: paginated result %v differs from the unpaginated result", limit, got)
		}
	}
}

func TestAuditC04Find2ScanLoopOnNilLastEvaluatedKey(t *testing.T) {
	client := auditC04Find2Setup(t)

	input := &dynamodb.ScanInput{TableName: aws.String("audit-c04"), Limit: aws.Int64(2)}
	got := []string{}

	for pages := 1; ; pages++ {
		if pages > 50 {
			t.Fatalf("no page without LastEvaluatedKey after 50 pages; %d items delivered for a 5 item table", len(got))
		}

		out, err := client.Scan(input)
		if err != nil {
			t.Fatal(err)
		}

		for _, it := range out.Items {
			got = append(got, aws.StringValue(it["r"].S))
		}

		if out.LastEvaluatedKey == nil {
			break
		}

		input.ExclusiveStartKey = out.LastEvaluatedKey
	}

	if fmt.Sprint(got) != "[000 001 002 003 004]" {
		t.Fatalf("paginated result %v differs from the unpaginated result", got)
	}
}
