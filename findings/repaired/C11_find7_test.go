// PLACE: aws-v1/client  RUN: go test -race -run TestC11Find7
// (the Race test needs -race; the other two fail without it too)
package client_test

// C11 finding 7 (SDK v1 only; the v2 mapper copies): table metadata shares memory with the callers.
//   - mapProjectionToTypes keeps the ProjectionType pointer and the NonKeyAttributes slice of the CreateTable /
//     UpdateTable input inside the index, and mapGlobal/LocalSecondaryIndexDescriptionToDynamodb hands the very same
//     pointers out in every CreateTable / DescribeTable / UpdateTable / DeleteTable output;
//   - CreateTable keeps the BillingMode pointer of the input (newTable.BillingMode = input.BillingMode).
// So the state of a table can change outside any call (not "at one instant between invocation and return"), and two
// goroutines that each own "their" DescribeTable output race with each other as soon as one of them touches it.

import (
	"sync"
	"testing"

	"github.com/aws/aws-sdk-go/aws"
	"github.com/aws/aws-sdk-go/service/dynamodb"
	"github.com/truora/minidyn/aws-v1/client"
)

func c11f7Client(t *testing.T) *client.Client {
	t.Helper()

	c := client.NewClient()
	if err := client.AddTable(c, "tbl", "h", "r"); err != nil {
		t.Fatal(err)
	}

	if err := client.AddIndex(c, "tbl", "idx", "g", ""); err != nil {
		t.Fatal(err)
	}

	return c
}

func c11f7Describe(t *testing.T, c *client.Client) *dynamodb.TableDescription {
	t.Helper()

	out, err := c.DescribeTable(&dynamodb.DescribeTableInput{TableName: aws.String("tbl")})
	if err != nil {
		t.Fatal(err)
	}

	return out.Table
}

// two goroutines describe the table; one of them edits the output it was given, the other one reads its own
func TestC11Find7_DescribeOutputsRace(t *testing.T) {
	c := c11f7Client(t)

	var wg sync.WaitGroup

	wg.Add(2)

	go func() {
		defer wg.Done()

		mine := c11f7Describe(t, c)
		*mine.GlobalSecondaryIndexes[0].Projection.ProjectionType = "KEYS_ONLY" // my copy, or so I think
	}()

	go func() {
		defer wg.Done()

		mine := c11f7Describe(t, c)
		_ = *mine.GlobalSecondaryIndexes[0].Projection.ProjectionType
	}()

	wg.Wait()
}

// the same defect, sequentially: editing an output changes the table
func TestC11Find7_OutputIsTheTableState(t *testing.T) {
	c := c11f7Client(t)

	mine := c11f7Describe(t, c)
	*mine.GlobalSecondaryIndexes[0].Projection.ProjectionType = "KEYS_ONLY"

	if got := *c11f7Describe(t, c).GlobalSecondaryIndexes[0].Projection.ProjectionType; got != "ALL" {
		t.Fatalf("the projection of index idx changed from ALL to %s without any call to the client: outputs point into the table", got)
	}
}

// the input side: the table keeps the BillingMode pointer of the CreateTable input; re-using the variable for the
// next request changes the first table after its CreateTable has returned
func TestC11Find7_TableKeepsInputPointers(t *testing.T) {
	c := client.NewClient()

	billing := aws.String("PAY_PER_REQUEST")

	_, err := c.CreateTable(&dynamodb.CreateTableInput{
		TableName:            aws.String("tbl"),
		BillingMode:          billing,
		AttributeDefinitions: []*dynamodb.AttributeDefinition{{AttributeName: aws.String("h"), AttributeType: aws.String("S")}},
		KeySchema:            []*dynamodb.KeySchemaElement{{AttributeName: aws.String("h"), KeyType: aws.String("HASH")}},
	})
	if err != nil {
		t.Fatal(err)
	}

	*billing = "PROVISIONED" // the caller prepares its next, unrelated, request

	// an on-demand table accepts a new index without provisioned throughput (AddIndex sends none)
	if err := client.AddIndex(c, "tbl", "idx", "g", ""); err != nil {
		t.Fatalf("table tbl was created PAY_PER_REQUEST, but after the caller changed its own variable: %v", err)
	}
}
