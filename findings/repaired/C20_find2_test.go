// PLACE: aws-v2/client  RUN: go test ./aws-v2/client/ -run 'TestC20Find2'
package client

// C20 finding 2: with the native interpreter active, an expression that has NO registered
// matcher must be handled by the built-in interpreter. The built-in interpreter rejects a
// malformed key condition / filter even when no item is evaluated against it (Table.checkExpressions),
// but that check is skipped altogether as soon as the native interpreter is active:
// the same request is rejected with the native interpreter off and accepted with it on.

import (
	"context"
	"fmt"
	"testing"

	"github.com/aws/aws-sdk-go-v2/aws"
	"github.com/aws/aws-sdk-go-v2/service/dynamodb"
	ddbtypes "github.com/aws/aws-sdk-go-v2/service/dynamodb/types"
	"github.com/truora/minidyn/interpreter"
	mtypes "github.com/truora/minidyn/types"
)

// c20f2Outcome runs f and describes how it ended: "ok", "error: ..." or "panic: ..."
func c20f2Outcome(f func() error) (outcome string) {
	defer func() {
		if r := recover(); r != nil {
			outcome = fmt.Sprintf("panic: %v", r)
		}
	}()

	if err := f(); err != nil {
		return "error: " + err.Error()
	}

	return "ok"
}

func c20f2Client(t *testing.T, native bool) *Client {
	t.Helper()

	c := NewClient()

	if native {
		c.ActivateNativeInterpreter()
	}

	if err := AddTable(context.Background(), c, "orders", "h", "r"); err != nil {
		t.Fatalf("create table: %v", err)
	}

	return c
}

func TestC20Find2UnregisteredFilterOnEmptyTable(t *testing.T) {
	scan := func(c *Client) func() error {
		return func() error {
			_, err := c.Scan(context.Background(), &dynamodb.ScanInput{
				TableName:        aws.String("orders"),
				FilterExpression: aws.String("a = = :v"), // malformed, not registered
				ExpressionAttributeValues: map[string]ddbtypes.AttributeValue{
					":v": &ddbtypes.AttributeValueMemberS{Value: "q"},
				},
			})

			return err
		}
	}

	builtin := c20f2Outcome(scan(c20f2Client(t, false)))
	native := c20f2Outcome(scan(c20f2Client(t, true)))

	if builtin == "ok" {
		t.Fatalf("precondition: the built-in interpreter is expected to reject the filter, got %q", builtin)
	}

	if native != builtin {
		t.Errorf("unregistered filter %q on an empty table:\n  native interpreter off: %s\n  native interpreter on:  %s\nthe expression has no matcher, the outcome must be the one of the built-in interpreter",
			"a = = :v", builtin, native)
	}
}

func TestC20Find2UnregisteredFilterBehindRegisteredKeyCondition(t *testing.T) {
	query := func(c *Client) func() error {
		return func() error {
			_, err := c.Query(context.Background(), &dynamodb.QueryInput{
				TableName:              aws.String("orders"),
				KeyConditionExpression: aws.String("h = :h"),
				FilterExpression:       aws.String("a = = :v"), // malformed, not registered
				ExpressionAttributeValues: map[string]ddbtypes.AttributeValue{
					":h": &ddbtypes.AttributeValueMemberS{Value: "nobody"},
					":v": &ddbtypes.AttributeValueMemberS{Value: "q"},
				},
			})

			return err
		}
	}

	clients := map[bool]*Client{false: c20f2Client(t, false), true: c20f2Client(t, true)}

	for _, c := range clients {
		// the same registration and the same data on both sides; only the key condition has a matcher
		c.GetNativeInterpreter().AddMatcher("orders", interpreter.ExpressionTypeKey, "h = :h",
			func(item, values map[string]*mtypes.Item) bool {
				return item["h"] != nil && mtypes.StringValue(item["h"].S) == mtypes.StringValue(values[":h"].S)
			})

		_, err := c.PutItem(context.Background(), &dynamodb.PutItemInput{
			TableName: aws.String("orders"),
			Item: map[string]ddbtypes.AttributeValue{
				"h": &ddbtypes.AttributeValueMemberS{Value: "somebody"},
				"r": &ddbtypes.AttributeValueMemberS{Value: "1"},
			},
		})
		if err != nil {
			t.Fatalf("put: %v", err)
		}
	}

	builtin := c20f2Outcome(query(clients[false]))
	native := c20f2Outcome(query(clients[true]))

	if builtin == "ok" {
		t.Fatalf("precondition: the built-in interpreter is expected to reject the filter, got %q", builtin)
	}

	if native != builtin {
		t.Errorf("unregistered filter %q, no item passes the key condition:\n  native interpreter off: %s\n  native interpreter on:  %s\nthe filter has no matcher, the outcome must be the one of the built-in interpreter",
			"a = = :v", builtin, native)
	}
}
