// PLACE: aws-v2/client  RUN: go test ./aws-v2/client/ -run 'TestAuditC02Find8'
package client

// C02 finding 8: equality of binary sets depends on the order of the elements: the filter "bs = :v" misses the item when
// :v lists the same binaries in another order (string and number sets compare correctly).

import (
	"context"
	"testing"

	"github.com/aws/aws-sdk-go-v2/aws"
	"github.com/aws/aws-sdk-go-v2/service/dynamodb"
	"github.com/aws/aws-sdk-go-v2/service/dynamodb/types"
)

func TestAuditC02Find8(t *testing.T) {
	c := NewClient()

	if err := AddTable(context.Background(), c, "f8", "id", ""); err != nil {
		t.Fatal(err)
	}

	item := map[string]types.AttributeValue{
		"id": &types.AttributeValueMemberS{Value: "1"},
		"bs": &types.AttributeValueMemberBS{Value: [][]byte{{1}, {2}}},
		"ss": &types.AttributeValueMemberSS{Value: []string{"a", "b"}},
	}
	if _, err := c.PutItem(context.Background(), &dynamodb.PutItemInput{TableName: aws.String("f8"), Item: item}); err != nil {
		t.Fatal(err)
	}

	cases := []struct {
		filter string
		val    types.AttributeValue
		want   int
	}{
		{"ss = :v", &types.AttributeValueMemberSS{Value: []string{"b", "a"}}, 1},
		{"bs = :v", &types.AttributeValueMemberBS{Value: [][]byte{{1}, {2}}}, 1},
		{"bs = :v", &types.AttributeValueMemberBS{Value: [][]byte{{2}, {1}}}, 1},
		{"bs <> :v", &types.AttributeValueMemberBS{Value: [][]byte{{2}, {1}}}, 0},
	}

	for _, k := range cases {
		out, err := c.Scan(context.Background(), &dynamodb.ScanInput{
			TableName:                 aws.String("f8"),
			FilterExpression:          aws.String(k.filter),
			ExpressionAttributeValues: map[string]types.AttributeValue{":v": k.val},
		})
		if err != nil {
			t.Fatal(err)
		}

		if len(out.Items) != k.want {
			t.Errorf("Scan filter %q with %v: %d items, want %d", k.filter, k.val, len(out.Items), k.want)
		}
	}
}
