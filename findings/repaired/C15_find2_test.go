// PLACE: aws-v2/client  RUN: go test ./aws-v2/client/ -run TestC15Find2
package client

// C15 finding 2 (SDK v2 flavour; find3_test.go is the same defect in the SDK v1 client):
// BatchWriteItem checks the shape of the batch (at most 25 requests, every WriteRequest holds
// exactly one of PutRequest / DeleteRequest) BEFORE it looks at the emulated failure. While a
// failure condition is active such a batch is answered with a ValidationException: neither the
// configured error nor the list of unprocessed requests - the requests are dropped.

import (
	"context"
	"errors"
	"fmt"
	"testing"

	"github.com/aws/aws-sdk-go-v2/aws"
	"github.com/aws/aws-sdk-go-v2/service/dynamodb"
	"github.com/aws/aws-sdk-go-v2/service/dynamodb/types"
)

func c15f2Check(t *testing.T, cond FailureCondition, name string, total int, out *dynamodb.BatchWriteItemOutput, err error) {
	t.Helper()

	if cond == FailureConditionDeprecated {
		if !errors.Is(err, ErrForcedFailure) {
			t.Errorf("failure %q active, %s: want ErrForcedFailure, got: %v", cond, name, err)
		}

		return
	}

	// internal server error: either every request comes back as unprocessed, or the call
	// fails with the configured error
	var ise *types.InternalServerError
	if errors.As(err, &ise) {
		return
	}

	if err != nil {
		t.Errorf("failure %q active, %s: want %d unprocessed requests (or the configured error), got error: %v", cond, name, total, err)

		return
	}

	n := 0
	for _, reqs := range out.UnprocessedItems {
		n += len(reqs)
	}

	if n != total {
		t.Errorf("failure %q active, %s: %d requests sent, %d reported as unprocessed, none applied", cond, name, total, n)
	}
}

func TestC15Find2(t *testing.T) {
	ctx := context.Background()
	client := NewClient()

	if err := AddTable(ctx, client, "c15-table", "h", "r"); err != nil {
		t.Fatal(err)
	}

	many := make([]types.WriteRequest, 0, 26)
	for i := 0; i < 26; i++ {
		many = append(many, types.WriteRequest{PutRequest: &types.PutRequest{Item: map[string]types.AttributeValue{
			"h": &types.AttributeValueMemberS{Value: "a"},
			"r": &types.AttributeValueMemberS{Value: fmt.Sprintf("%02d", i)},
		}}})
	}

	for _, cond := range []FailureCondition{FailureConditionInternalServerError, FailureConditionDeprecated} {
		EmulateFailure(client, cond)

		// control: a well-formed batch behaves as the property says
		out, err := client.BatchWriteItem(ctx, &dynamodb.BatchWriteItemInput{RequestItems: map[string][]types.WriteRequest{"c15-table": many[:25]}})
		c15f2Check(t, cond, "batch of 25 puts", 25, out, err)

		out, err = client.BatchWriteItem(ctx, &dynamodb.BatchWriteItemInput{RequestItems: map[string][]types.WriteRequest{"c15-table": many}})
		c15f2Check(t, cond, "batch of 26 puts", 26, out, err)

		out, err = client.BatchWriteItem(ctx, &dynamodb.BatchWriteItemInput{RequestItems: map[string][]types.WriteRequest{"c15-table": {many[0], {}}}})
		c15f2Check(t, cond, "batch of a put and an empty WriteRequest", 2, out, err)

		EmulateFailure(client, FailureConditionNone)
	}

	// nothing was written meanwhile
	scan, err := client.Scan(ctx, &dynamodb.ScanInput{TableName: aws.String("c15-table")})
	if err != nil || len(scan.Items) != 0 {
		t.Errorf("after deactivation the table should be empty, got %d items, err %v", len(scan.Items), err)
	}
}
