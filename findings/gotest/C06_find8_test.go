// PLACE: aws-v2/client  RUN: go test ./aws-v2/client/ -run TestAuditC06Find8
package client

// C06 finding 8 (boundary): the item's attributes and the expression attribute
// values live in one namespace while an expression is evaluated. An attribute
// whose NAME looks like a value placeholder (":x" is a legal attribute name) is
// replaced by the placeholder's value for the duration of the evaluation.

import (
	"context"
	"testing"

	"github.com/aws/aws-sdk-go-v2/aws"
	"github.com/aws/aws-sdk-go-v2/service/dynamodb"
	dt "github.com/aws/aws-sdk-go-v2/service/dynamodb/types"
)

func TestAuditC06Find8_AttributeNamedLikeAPlaceholder(t *testing.T) {
	ctx := context.Background()
	c := NewClient()

	if err := AddTable(ctx, c, "f8", "id", ""); err != nil {
		t.Fatal(err)
	}

	num := func(v string) dt.AttributeValue { return &dt.AttributeValueMemberN{Value: v} }

	_, err := c.PutItem(ctx, &dynamodb.PutItemInput{TableName: aws.String("f8"), Item: map[string]dt.AttributeValue{
		"id": &dt.AttributeValueMemberS{Value: "k"},
		":x": num("5"),
		"a":  num("1"),
	}})
	if err != nil {
		t.Fatal(err)
	}

	// the attribute ":x" is 5, the placeholder :x is 1
	out, err := c.Scan(ctx, &dynamodb.ScanInput{
		TableName:                 aws.String("f8"),
		FilterExpression:          aws.String("#c = :five AND a = :x"),
		ExpressionAttributeNames:  map[string]string{"#c": ":x"},
		ExpressionAttributeValues: map[string]dt.AttributeValue{":x": num("1"), ":five": num("5")},
	})
	if err != nil {
		t.Fatal(err)
	}

	if len(out.Items) != 1 {
		t.Fatalf("the attribute \":x\" is 5 and a is 1: expected the item, got %d item(s)", len(out.Items))
	}
}
