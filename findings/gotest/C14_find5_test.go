// PLACE: aws-v2/client  RUN: go test ./aws-v2/client/ -run 'TestC14Find5EmulatedErrorIsSharedWithCallers'
package client

import (
	"context"
	"errors"
	"testing"

	"github.com/aws/aws-sdk-go-v2/aws"
	"github.com/aws/aws-sdk-go-v2/service/dynamodb"
	"github.com/aws/aws-sdk-go-v2/service/dynamodb/types"
)

// C14 (marginal): under EmulateFailure(FailureConditionInternalServerError) every operation of every SDK v2 client
// answers with a pointer to one package-level types.InternalServerError. A caller that edits the error it received
// (an exported struct with exported fields) changes what all later failing calls answer, in other clients too.

func c14f5Fail(t *testing.T) *types.InternalServerError {
	t.Helper()

	c := NewClient()
	if err := AddTable(context.Background(), c, "c14f5", "h", ""); err != nil {
		t.Fatal(err)
	}

	EmulateFailure(c, FailureConditionInternalServerError)

	_, err := c.GetItem(context.Background(), &dynamodb.GetItemInput{
		TableName: aws.String("c14f5"),
		Key:       map[string]types.AttributeValue{"h": &types.AttributeValueMemberS{Value: "a"}},
	})

	var ise *types.InternalServerError
	if !errors.As(err, &ise) {
		t.Fatalf("expected the emulated internal server error, got %T: %v", err, err)
	}

	return ise
}

func TestC14Find5EmulatedErrorIsSharedWithCallers(t *testing.T) {
	first := c14f5Fail(t)
	before := first.ErrorMessage()

	// undo the edit when the test ends, whoever owns the error
	defer func() { first.Message = aws.String(before) }()

	// the caller decorates the error it received
	first.Message = aws.String("GetItem failed: " + before)

	if got := c14f5Fail(t).ErrorMessage(); got != before {
		t.Errorf("a new client answers the error message %q, the emulated failure said %q before a caller edited the error it had received", got, before)
	}
}
