// PLACE: aws-v2/client  RUN: go test ./aws-v2/client/ -run 'TestC14Find4ItemCollectionMetricsShareCallerMemory'
package client

import (
	"context"
	"reflect"
	"testing"

	"github.com/aws/aws-sdk-go-v2/service/dynamodb"
	"github.com/aws/aws-sdk-go-v2/service/dynamodb/types"
)

// C14, SDK v2 flavour of find3: the item collection metrics configured with SetItemCollectionMetrics are kept by
// reference and every BatchWriteItem answers with that same map.

func c14f4Metrics() map[string][]types.ItemCollectionMetrics {
	return map[string][]types.ItemCollectionMetrics{
		"c14f4": {{
			ItemCollectionKey: map[string]types.AttributeValue{
				"h": &types.AttributeValueMemberS{Value: "a"},
				"b": &types.AttributeValueMemberB{Value: []byte{1, 2, 3}},
				"l": &types.AttributeValueMemberL{Value: []types.AttributeValue{&types.AttributeValueMemberN{Value: "1"}}},
			},
			SizeEstimateRangeGB: []float64{1, 2},
		}},
	}
}

func c14f4Write(t *testing.T, c *Client, r string) *dynamodb.BatchWriteItemOutput {
	t.Helper()

	out, err := c.BatchWriteItem(context.Background(), &dynamodb.BatchWriteItemInput{RequestItems: map[string][]types.WriteRequest{
		"c14f4": {{PutRequest: &types.PutRequest{Item: map[string]types.AttributeValue{
			"h": &types.AttributeValueMemberS{Value: "a"}, "r": &types.AttributeValueMemberS{Value: r},
		}}}},
	}})
	if err != nil {
		t.Fatal(err)
	}

	return out
}

func c14f4Scramble(m map[string][]types.ItemCollectionMetrics) {
	icm := m["c14f4"][0]
	icm.ItemCollectionKey["h"].(*types.AttributeValueMemberS).Value = "SCRAMBLED"
	icm.ItemCollectionKey["b"].(*types.AttributeValueMemberB).Value[0] = 0xff
	icm.ItemCollectionKey["l"].(*types.AttributeValueMemberL).Value[0] = &types.AttributeValueMemberS{Value: "replaced"}
	delete(icm.ItemCollectionKey, "b")
	icm.SizeEstimateRangeGB[0] = 99
	m["other"] = nil
}

func TestC14Find4ItemCollectionMetricsShareCallerMemory(t *testing.T) {
	newClient := func(t *testing.T) *Client {
		c := NewClient()
		if err := AddTable(context.Background(), c, "c14f4", "h", "r"); err != nil {
			t.Fatal(err)
		}

		return c
	}

	t.Run("value passed to SetItemCollectionMetrics", func(t *testing.T) {
		c := newClient(t)
		in := c14f4Metrics()
		SetItemCollectionMetrics(c, in)

		// the call has returned: the value belongs to the caller again
		c14f4Scramble(in)

		if got := c14f4Write(t, c, "1").ItemCollectionMetrics; !reflect.DeepEqual(got, c14f4Metrics()) {
			t.Errorf("BatchWriteItem answers metrics that were never configured:\n got %v\nwant %v", got, c14f4Metrics())
		}
	})

	t.Run("output of BatchWriteItem", func(t *testing.T) {
		c := newClient(t)
		SetItemCollectionMetrics(c, c14f4Metrics())

		first := c14f4Write(t, c, "1")
		if !reflect.DeepEqual(first.ItemCollectionMetrics, c14f4Metrics()) {
			t.Fatalf("unexpected metrics: %v", first.ItemCollectionMetrics)
		}

		second := c14f4Write(t, c, "2")

		// the caller edits the first output
		c14f4Scramble(first.ItemCollectionMetrics)

		if !reflect.DeepEqual(second.ItemCollectionMetrics, c14f4Metrics()) {
			t.Errorf("an output already returned changed when another output was modified:\n got %v", second.ItemCollectionMetrics)
		}

		if got := c14f4Write(t, c, "3").ItemCollectionMetrics; !reflect.DeepEqual(got, c14f4Metrics()) {
			t.Errorf("modifying an output changed what later calls answer:\n got %v\nwant %v", got, c14f4Metrics())
		}
	})
}
