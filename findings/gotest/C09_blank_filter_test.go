// PLACE: aws-v2/client  RUN: go test ./aws-v2/client/ -run 'TestC09BlankFilter'
package client_test

// C09 (reported by a round-4 sub-agent, confirmed): a FilterExpression made of blanks is accepted by a Scan of an empty
// table (the check of the expressions lets it pass) and makes the same Scan panic with a syntax error as soon as the table
// holds an item: whether the string is a sentence of the grammar depends on the data. Recorded, not repaired.

import (
	"context"
	"testing"

	"github.com/aws/aws-sdk-go-v2/aws"
	"github.com/aws/aws-sdk-go-v2/service/dynamodb"
	"github.com/aws/aws-sdk-go-v2/service/dynamodb/types"
	"github.com/truora/minidyn/aws-v2/client"
)

func TestC09BlankFilter(t *testing.T) {
	c := client.NewClient()
	ctx := context.Background()

	if err := client.AddTable(ctx, c, "tbl", "h", ""); err != nil {
		t.Fatal(err)
	}

	scan := func() (verdict string) {
		defer func() {
			if p := recover(); p != nil {
				verdict = "rejected"
			}
		}()

		if _, err := c.Scan(ctx, &dynamodb.ScanInput{TableName: aws.String("tbl"), FilterExpression: aws.String("  ")}); err != nil {
			return "rejected"
		}

		return "accepted"
	}

	empty := scan()

	if _, err := c.PutItem(ctx, &dynamodb.PutItemInput{TableName: aws.String("tbl"), Item: map[string]types.AttributeValue{"h": &types.AttributeValueMemberS{Value: "k"}}}); err != nil {
		t.Fatal(err)
	}

	if full := scan(); full != empty {
		t.Fatalf("the blank filter is %s on the empty table and %s once the table holds an item", empty, full)
	}
}
