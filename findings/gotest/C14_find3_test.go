// PLACE: aws-v1/client  RUN: go test ./aws-v1/client/ -run 'TestC14Find3ItemCollectionMetricsShareCallerMemory'
package client

import (
	"reflect"
	"testing"

	"github.com/aws/aws-sdk-go/aws"
	"github.com/aws/aws-sdk-go/service/dynamodb"
)

// C14: the item collection metrics configured with SetItemCollectionMetrics are kept by reference and every
// BatchWriteItem answers with that same map: the attribute values in it (ItemCollectionKey) are shared between the
// caller's configuration value, the client and all the outputs.

func c14f3Metrics() map[string][]*dynamodb.ItemCollectionMetrics {
	return map[string][]*dynamodb.ItemCollectionMetrics{
		"c14f3": {{
			ItemCollectionKey: map[string]*dynamodb.AttributeValue{
				"h": {S: aws.String("a")},
				"b": {B: []byte{1, 2, 3}},
				"l": {L: []*dynamodb.AttributeValue{{N: aws.String("1")}}},
			},
			SizeEstimateRangeGB: []*float64{aws.Float64(1), aws.Float64(2)},
		}},
	}
}

func c14f3Write(t *testing.T, c *Client, r string) *dynamodb.BatchWriteItemOutput {
	t.Helper()

	out, err := c.BatchWriteItem(&dynamodb.BatchWriteItemInput{RequestItems: map[string][]*dynamodb.WriteRequest{
		"c14f3": {{PutRequest: &dynamodb.PutRequest{Item: map[string]*dynamodb.AttributeValue{"h": {S: aws.String("a")}, "r": {S: aws.String(r)}}}}},
	}})
	if err != nil {
		t.Fatal(err)
	}

	return out
}

func c14f3Scramble(m map[string][]*dynamodb.ItemCollectionMetrics) {
	icm := m["c14f3"][0]
	*icm.ItemCollectionKey["h"].S = "SCRAMBLED"
	icm.ItemCollectionKey["b"].B[0] = 0xff
	icm.ItemCollectionKey["l"].L[0] = &dynamodb.AttributeValue{S: aws.String("replaced")}
	delete(icm.ItemCollectionKey, "b")
	*icm.SizeEstimateRangeGB[0] = 99
	m["other"] = nil
}

func TestC14Find3ItemCollectionMetricsShareCallerMemory(t *testing.T) {
	newClient := func(t *testing.T) *Client {
		c := NewClient()
		if err := AddTable(c, "c14f3", "h", "r"); err != nil {
			t.Fatal(err)
		}

		return c
	}

	t.Run("value passed to SetItemCollectionMetrics", func(t *testing.T) {
		c := newClient(t)
		in := c14f3Metrics()
		SetItemCollectionMetrics(c, in)

		// the call has returned: the value belongs to the caller again
		c14f3Scramble(in)

		if got := c14f3Write(t, c, "1").ItemCollectionMetrics; !reflect.DeepEqual(got, c14f3Metrics()) {
			t.Errorf("BatchWriteItem answers metrics that were never configured:\n got %v\nwant %v", got, c14f3Metrics())
		}
	})

	t.Run("output of BatchWriteItem", func(t *testing.T) {
		c := newClient(t)
		SetItemCollectionMetrics(c, c14f3Metrics())

		first := c14f3Write(t, c, "1")
		if !reflect.DeepEqual(first.ItemCollectionMetrics, c14f3Metrics()) {
			t.Fatalf("unexpected metrics: %v", first.ItemCollectionMetrics)
		}

		second := c14f3Write(t, c, "2")

		// the caller edits the first output
		c14f3Scramble(first.ItemCollectionMetrics)

		if !reflect.DeepEqual(second.ItemCollectionMetrics, c14f3Metrics()) {
			t.Errorf("an output already returned changed when another output was modified:\n got %v", second.ItemCollectionMetrics)
		}

		if got := c14f3Write(t, c, "3").ItemCollectionMetrics; !reflect.DeepEqual(got, c14f3Metrics()) {
			t.Errorf("modifying an output changed what later calls answer:\n got %v\nwant %v", got, c14f3Metrics())
		}
	})
}
