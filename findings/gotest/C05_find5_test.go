// PLACE: aws-v2/client  RUN: TestC05Find5
package client_test

// C05 finding 5: an expression attribute name stands for ONE attribute name, dots included
// ("#n": "a.b" is the top-level attribute called "a.b", this is what the placeholder mechanism is
// for). When the item has no such attribute minidyn splits the substituted name at the dots and
// walks into the map "a": attribute_not_exists(#n) is decided on the nested element a.b.

import (
	"context"
	"testing"

	"github.com/aws/aws-sdk-go-v2/aws"
	"github.com/aws/aws-sdk-go-v2/service/dynamodb"
	"github.com/aws/aws-sdk-go-v2/service/dynamodb/types"
	minidyn "github.com/truora/minidyn/aws-v2/client"
)

func TestC05Find5_DottedNameBehindPlaceholder(t *testing.T) {
	c := minidyn.NewClient()
	if err := minidyn.AddTable(context.Background(), c, "cfg", "id", ""); err != nil {
		t.Fatal(err)
	}

	// the item has a map "app" with an element "theme", and NO attribute named "app.theme"
	_, err := c.PutItem(context.Background(), &dynamodb.PutItemInput{TableName: aws.String("cfg"), Item: map[string]types.AttributeValue{
		"id":  &types.AttributeValueMemberS{Value: "u1"},
		"app": &types.AttributeValueMemberM{Value: map[string]types.AttributeValue{"theme": &types.AttributeValueMemberS{Value: "dark"}}},
	}})
	if err != nil {
		t.Fatal(err)
	}

	// set the flat attribute "app.theme" once
	_, err = c.UpdateItem(context.Background(), &dynamodb.UpdateItemInput{
		TableName:                 aws.String("cfg"),
		Key:                       map[string]types.AttributeValue{"id": &types.AttributeValueMemberS{Value: "u1"}},
		UpdateExpression:          aws.String("SET migrated = :yes"),
		ConditionExpression:       aws.String("attribute_not_exists(#flat)"),
		ExpressionAttributeNames:  map[string]string{"#flat": "app.theme"},
		ExpressionAttributeValues: map[string]types.AttributeValue{":yes": &types.AttributeValueMemberBOOL{Value: true}},
	})
	if err != nil {
		t.Fatalf("the item has no attribute named \"app.theme\", the condition is true and UpdateItem must succeed: %v", err)
	}
}

func TestC05Find5_DottedNameBehindPlaceholderComparison(t *testing.T) {
	c := minidyn.NewClient()
	if err := minidyn.AddTable(context.Background(), c, "cfg", "id", ""); err != nil {
		t.Fatal(err)
	}

	_, err := c.PutItem(context.Background(), &dynamodb.PutItemInput{TableName: aws.String("cfg"), Item: map[string]types.AttributeValue{
		"id":  &types.AttributeValueMemberS{Value: "u1"},
		"app": &types.AttributeValueMemberM{Value: map[string]types.AttributeValue{"theme": &types.AttributeValueMemberS{Value: "dark"}}},
	}})
	if err != nil {
		t.Fatal(err)
	}

	// "app.theme" (flat) is absent, so "#flat = :dark" is false and the delete must be refused
	_, err = c.DeleteItem(context.Background(), &dynamodb.DeleteItemInput{
		TableName:                 aws.String("cfg"),
		Key:                       map[string]types.AttributeValue{"id": &types.AttributeValueMemberS{Value: "u1"}},
		ConditionExpression:       aws.String("#flat = :dark"),
		ExpressionAttributeNames:  map[string]string{"#flat": "app.theme"},
		ExpressionAttributeValues: map[string]types.AttributeValue{":dark": &types.AttributeValueMemberS{Value: "dark"}},
	})
	if err == nil {
		t.Fatalf("the condition is false of the stored item, DeleteItem must fail with ConditionalCheckFailedException")
	}
}
