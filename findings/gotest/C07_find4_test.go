// PLACE: aws-v1/client  RUN: TestAuditC07Find4
package client

// C07 finding 4: an expression attribute name whose value contains a dot
// ("#k" -> "a.b") names ONE top-level attribute called "a.b" - that is the
// whole point of the placeholder (Developer Guide, "Expression attribute
// names": "a dot in an attribute name"). When minidyn reads such a name and
// there is no top-level attribute "a.b" yet, Environment.Get splits the name at
// the dots and walks into the map attribute "a":
//
//   - ADD #k :one             increments the nested a.b (an attribute the
//                             expression does not target) and does not create "a.b";
//   - SET #k = if_not_exists(#k, :zero)   copies the nested a.b into "a.b";
//   - SET #k = :v             fails with "index operator not supported" when
//                             the item has a non-map attribute "a".

import (
	"testing"

	"github.com/aws/aws-sdk-go/aws"
	"github.com/aws/aws-sdk-go/service/dynamodb"
)

func find4Run(t *testing.T, item map[string]*dynamodb.AttributeValue, expr string, values map[string]*dynamodb.AttributeValue) map[string]*dynamodb.AttributeValue {
	t.Helper()

	c := NewClient()
	if err := AddTable(c, "find4", "id", ""); err != nil {
		t.Fatal(err)
	}

	key := map[string]*dynamodb.AttributeValue{"id": {S: aws.String("k")}}
	item["id"] = key["id"]

	if _, err := c.PutItem(&dynamodb.PutItemInput{TableName: aws.String("find4"), Item: item}); err != nil {
		t.Fatal(err)
	}

	_, err := c.UpdateItem(&dynamodb.UpdateItemInput{
		TableName:                 aws.String("find4"),
		Key:                       key,
		UpdateExpression:          aws.String(expr),
		ExpressionAttributeNames:  map[string]*string{"#k": aws.String("a.b")},
		ExpressionAttributeValues: values,
	})
	if err != nil {
		t.Errorf("UpdateItem(%q): unexpected error: %v", expr, err)
	}

	out, err := c.GetItem(&dynamodb.GetItemInput{TableName: aws.String("find4"), Key: key})
	if err != nil {
		t.Fatal(err)
	}

	return out.Item
}

func find4Num(t *testing.T, v *dynamodb.AttributeValue, what, want string) {
	t.Helper()

	if v == nil || v.N == nil {
		t.Errorf("%s is missing or not a number (%v), want %s", what, v, want)

		return
	}

	if *v.N != want {
		t.Errorf("%s = %s, want %s", what, *v.N, want)
	}
}

func find4NestedItem() map[string]*dynamodb.AttributeValue {
	return map[string]*dynamodb.AttributeValue{
		"a": {M: map[string]*dynamodb.AttributeValue{"b": {N: aws.String("5")}}},
	}
}

func TestAuditC07Find4DottedAttributeName(t *testing.T) {
	t.Run("ADD", func(t *testing.T) {
		item := find4Run(t, find4NestedItem(), "ADD #k :one", map[string]*dynamodb.AttributeValue{":one": {N: aws.String("1")}})

		find4Num(t, item["a.b"], `top-level "a.b"`, "1")
		find4Num(t, item["a"].M["b"], "nested a.b (not targeted)", "5")
	})

	t.Run("if_not_exists", func(t *testing.T) {
		item := find4Run(t, find4NestedItem(), "SET #k = if_not_exists(#k, :zero)", map[string]*dynamodb.AttributeValue{":zero": {N: aws.String("0")}})

		find4Num(t, item["a.b"], `top-level "a.b"`, "0")
		find4Num(t, item["a"].M["b"], "nested a.b (not targeted)", "5")
	})

	t.Run("SET next to a scalar attribute a", func(t *testing.T) {
		item := find4Run(t, map[string]*dynamodb.AttributeValue{"a": {S: aws.String("str")}}, "SET #k = :v", map[string]*dynamodb.AttributeValue{":v": {N: aws.String("7")}})

		find4Num(t, item["a.b"], `top-level "a.b"`, "7")

		if got := aws.StringValue(item["a"].S); got != "str" {
			t.Errorf("a = %q, want str", got)
		}
	})
}
