// PLACE: aws-v2/client  RUN: TestAuditC09Find2
package client

// C09 finding 2: the condition evaluator does not tell operands from conditions.
// A bare operand is accepted as a condition as soon as it is not a plain
// identifier (a document path, or an identifier in parentheses), comparison
// results can be compared again ("a = :x = :t"), and a whole condition is
// accepted where a function expects a path.  None of these strings is a sentence
// of the condition grammar; all of them are evaluated and the write goes
// through (or fails with ConditionalCheckFailed, i.e. the string was evaluated).
// The library itself rejects the closest well-known forms ("active",
// "active AND active", "NOT active") as syntax errors.

import (
	"context"
	"errors"
	"fmt"
	"testing"

	"github.com/aws/aws-sdk-go-v2/aws"
	"github.com/aws/aws-sdk-go-v2/service/dynamodb"
	dynamodbtypes "github.com/aws/aws-sdk-go-v2/service/dynamodb/types"
)

func find2Item() map[string]dynamodbtypes.AttributeValue {
	return map[string]dynamodbtypes.AttributeValue{
		"id":     &dynamodbtypes.AttributeValueMemberS{Value: "001"},
		"title":  &dynamodbtypes.AttributeValueMemberS{Value: "x"},
		"lvl":    &dynamodbtypes.AttributeValueMemberN{Value: "5"},
		"active": &dynamodbtypes.AttributeValueMemberBOOL{Value: true},
		"info": &dynamodbtypes.AttributeValueMemberM{Value: map[string]dynamodbtypes.AttributeValue{
			"ok": &dynamodbtypes.AttributeValueMemberBOOL{Value: true},
		}},
		"flags": &dynamodbtypes.AttributeValueMemberL{Value: []dynamodbtypes.AttributeValue{
			&dynamodbtypes.AttributeValueMemberBOOL{Value: true},
		}},
	}
}

// find2Outcome puts the item again under the condition and classifies the result:
// "rejected" (an error that is not a failed condition, or the documented panic),
// "evaluated: condition true" or "evaluated: condition false"
func find2Outcome(t *testing.T, condition string, values map[string]dynamodbtypes.AttributeValue) (outcome string) {
	t.Helper()

	client := NewClient()

	if err := AddTable(context.Background(), client, "find2", "id", ""); err != nil {
		t.Fatal(err)
	}

	if _, err := client.PutItem(context.Background(), &dynamodb.PutItemInput{TableName: aws.String("find2"), Item: find2Item()}); err != nil {
		t.Fatal(err)
	}

	defer func() {
		if r := recover(); r != nil {
			outcome = "rejected"
			_ = fmt.Sprint(r)
		}
	}()

	_, err := client.PutItem(context.Background(), &dynamodb.PutItemInput{
		TableName:                 aws.String("find2"),
		Item:                      find2Item(),
		ConditionExpression:       aws.String(condition),
		ExpressionAttributeValues: values,
	})

	var ccf *dynamodbtypes.ConditionalCheckFailedException

	switch {
	case err == nil:
		return "evaluated: condition true"
	case errors.As(err, &ccf):
		return "evaluated: condition false"
	}

	return "rejected"
}

func TestAuditC09Find2Controls(t *testing.T) {
	// what the library already rejects: these must keep passing
	for _, condition := range []string{"active", "active AND active", "NOT active", "(active) AND (active)", "title = :x AND active"} {
		values := map[string]dynamodbtypes.AttributeValue{}
		if condition == "title = :x AND active" {
			values[":x"] = &dynamodbtypes.AttributeValueMemberS{Value: "x"}
		}

		if got := find2Outcome(t, condition, values); got != "rejected" {
			t.Errorf("control %q: want rejected, got %s", condition, got)
		}
	}
}

func TestAuditC09Find2OperandAsCondition(t *testing.T) {
	for _, condition := range []string{
		"(active)",
		"info.ok",
		"flags[0]",
		"NOT info.ok",
		"info.ok AND flags[0]",
		"nope.a AND nope.b",
		"nope[0] OR nope[1]",
	} {
		if got := find2Outcome(t, condition, nil); got != "rejected" {
			t.Errorf("condition %q is an operand, not a condition: want rejected, got %s", condition, got)
		}
	}
}

func TestAuditC09Find2ConditionAsOperand(t *testing.T) {
	x := &dynamodbtypes.AttributeValueMemberS{Value: "x"}
	tr := &dynamodbtypes.AttributeValueMemberBOOL{Value: true}
	one := &dynamodbtypes.AttributeValueMemberN{Value: "1"}
	nine := &dynamodbtypes.AttributeValueMemberN{Value: "9"}

	for _, tc := range []struct {
		condition string
		values    map[string]dynamodbtypes.AttributeValue
	}{
		{"title = :x = :t", map[string]dynamodbtypes.AttributeValue{":x": x, ":t": tr}},
		{"title = :x <> lvl", map[string]dynamodbtypes.AttributeValue{":x": x}},
		{"title = :x = active", map[string]dynamodbtypes.AttributeValue{":x": x}},
		{"lvl BETWEEN :one AND :nine = :t", map[string]dynamodbtypes.AttributeValue{":one": one, ":nine": nine, ":t": tr}},
		{"active = lvl BETWEEN :one AND :nine", map[string]dynamodbtypes.AttributeValue{":one": one, ":nine": nine}},
		{"title IN (:x) = :t", map[string]dynamodbtypes.AttributeValue{":x": x, ":t": tr}},
		{"attribute_exists(title = :x)", map[string]dynamodbtypes.AttributeValue{":x": x}},
		{"attribute_not_exists(title = :x)", map[string]dynamodbtypes.AttributeValue{":x": x}},
		{"begins_with(title, :x) = :t", map[string]dynamodbtypes.AttributeValue{":x": x, ":t": tr}},
	} {
		if got := find2Outcome(t, tc.condition, tc.values); got != "rejected" {
			t.Errorf("condition %q uses a condition where an operand is required: want rejected, got %s", tc.condition, got)
		}
	}
}
