// PLACE: aws-v2/client  RUN: TestC05Find1
package client_test

// C05 finding 1: a condition that compares an attribute of the target item with a value of another
// type (or applies contains / begins_with / a nested path to an attribute of an unsuitable type) is
// simply FALSE in DynamoDB: the write must fail with ConditionalCheckFailedException (or, inside an
// OR / NOT, the rest of the condition decides). minidyn raises a Go panic out of PutItem / UpdateItem /
// DeleteItem instead ("syntax error: ERROR: type mismatch: NULL < N").

import (
	"context"
	"errors"
	"fmt"
	"testing"

	"github.com/aws/aws-sdk-go-v2/aws"
	"github.com/aws/aws-sdk-go-v2/service/dynamodb"
	"github.com/aws/aws-sdk-go-v2/service/dynamodb/types"
	minidyn "github.com/truora/minidyn/aws-v2/client"
)

type f1av = types.AttributeValue

func f1s(v string) f1av { return &types.AttributeValueMemberS{Value: v} }
func f1n(v string) f1av { return &types.AttributeValueMemberN{Value: v} }

func f1client(t *testing.T, item map[string]f1av) *minidyn.Client {
	t.Helper()

	c := minidyn.NewClient()
	if err := minidyn.AddTable(context.Background(), c, "locks", "id", ""); err != nil {
		t.Fatal(err)
	}

	if _, err := c.PutItem(context.Background(), &dynamodb.PutItemInput{TableName: aws.String("locks"), Item: item}); err != nil {
		t.Fatal(err)
	}

	return c
}

// outcome: "ok", "ccf", "err: ..." or "panic: ..."
func f1run(call func() error) (res string) {
	defer func() {
		if r := recover(); r != nil {
			res = fmt.Sprintf("panic: %v", r)
		}
	}()

	err := call()
	if err == nil {
		return "ok"
	}

	var ccf *types.ConditionalCheckFailedException
	if errors.As(err, &ccf) {
		return "ccf"
	}

	return "err: " + err.Error()
}

func f1get(t *testing.T, c *minidyn.Client) map[string]f1av {
	t.Helper()

	out, err := c.GetItem(context.Background(), &dynamodb.GetItemInput{TableName: aws.String("locks"), Key: map[string]f1av{"id": f1s("job")}})
	if err != nil {
		t.Fatal(err)
	}

	return out.Item
}

// the classic lock: take it when it is free or expired. The previous holder released the lock by
// writing expires = NULL (what attributevalue.MarshalMap produces for a nil pointer).
func TestC05Find1_PutNullVersusNumber(t *testing.T) {
	c := f1client(t, map[string]f1av{"id": f1s("job"), "owner": f1s("w1"), "expires": &types.AttributeValueMemberNULL{Value: true}})

	got := f1run(func() error {
		_, err := c.PutItem(context.Background(), &dynamodb.PutItemInput{
			TableName:                 aws.String("locks"),
			Item:                      map[string]f1av{"id": f1s("job"), "owner": f1s("w2"), "expires": f1n("200")},
			ConditionExpression:       aws.String("attribute_not_exists(id) OR expires < :now"),
			ExpressionAttributeValues: map[string]f1av{":now": f1n("100")},
		})

		return err
	})
	// NULL < 100 is false, attribute_not_exists(id) is false: the condition is false
	if got != "ccf" {
		t.Errorf("PutItem: want ConditionalCheckFailedException, got %s", got)
	}

	if o := f1get(t, c)["owner"]; o == nil || o.(*types.AttributeValueMemberS).Value != "w1" {
		t.Errorf("the stored item changed: %v", o)
	}
}

func TestC05Find1_UpdateStringVersusNumberInsideOr(t *testing.T) {
	c := f1client(t, map[string]f1av{"id": f1s("job"), "version": f1s("v7")})

	got := f1run(func() error {
		_, err := c.UpdateItem(context.Background(), &dynamodb.UpdateItemInput{
			TableName:                 aws.String("locks"),
			Key:                       map[string]f1av{"id": f1s("job")},
			UpdateExpression:          aws.String("SET version = :new"),
			ConditionExpression:       aws.String("attribute_exists(id) OR version < :new"),
			ExpressionAttributeValues: map[string]f1av{":new": f1n("8")},
		})

		return err
	})
	// attribute_exists(id) is true, so the condition is true whatever "v7" < 8 is (it is false)
	if got != "ok" {
		t.Errorf("UpdateItem: want success, got %s", got)
	}
}

func TestC05Find1_DeletePathThroughScalar(t *testing.T) {
	c := f1client(t, map[string]f1av{"id": f1s("job"), "meta": f1s("none")})

	got := f1run(func() error {
		_, err := c.DeleteItem(context.Background(), &dynamodb.DeleteItemInput{
			TableName:           aws.String("locks"),
			Key:                 map[string]f1av{"id": f1s("job")},
			ConditionExpression: aws.String("attribute_not_exists(meta.pinned)"),
		})

		return err
	})
	// meta is a string, it has no element "pinned": the path does not exist, the condition is true
	if got != "ok" {
		t.Errorf("DeleteItem: want success, got %s", got)
	}
}

func TestC05Find1_DeleteContainsOnNumber(t *testing.T) {
	c := f1client(t, map[string]f1av{"id": f1s("job"), "tags": f1n("5")})

	got := f1run(func() error {
		_, err := c.DeleteItem(context.Background(), &dynamodb.DeleteItemInput{
			TableName:                 aws.String("locks"),
			Key:                       map[string]f1av{"id": f1s("job")},
			ConditionExpression:       aws.String("contains(tags, :t)"),
			ExpressionAttributeValues: map[string]f1av{":t": f1s("x")},
		})

		return err
	})
	// a number contains nothing: the condition is false
	if got != "ccf" {
		t.Errorf("DeleteItem: want ConditionalCheckFailedException, got %s", got)
	}

	if len(f1get(t, c)) == 0 {
		t.Errorf("the item was deleted")
	}
}
