// PLACE: aws-v2/client  RUN: go test ./aws-v2/client/ -run 'TestC12NonNumeralAccepted'
package client_test

// C12 (reported by a round-4 sub-agent, confirmed): PutItem accepts a number attribute whose text is no numeral ("abc",
// "1e400", "NaN"); the item is stored and returned by GetItem, and the first expression that looks at it (a filter, a
// condition, any UpdateItem of the item) panics or fails on strconv.ParseFloat. DynamoDB refuses the write
// (ValidationException: The parameter cannot be converted to a numeric value). Recorded, not repaired: the repair is a
// validation of every number of every item at every entry point.

import (
	"context"
	"testing"

	"github.com/aws/aws-sdk-go-v2/aws"
	"github.com/aws/aws-sdk-go-v2/service/dynamodb"
	"github.com/aws/aws-sdk-go-v2/service/dynamodb/types"
	"github.com/truora/minidyn/aws-v2/client"
)

func TestC12NonNumeralAccepted(t *testing.T) {
	c := client.NewClient()
	ctx := context.Background()

	if err := client.AddTable(ctx, c, "tbl", "h", ""); err != nil {
		t.Fatal(err)
	}

	for _, bad := range []string{"abc", "1e400", "NaN"} {
		_, err := c.PutItem(ctx, &dynamodb.PutItemInput{TableName: aws.String("tbl"), Item: map[string]types.AttributeValue{
			"h": &types.AttributeValueMemberS{Value: "k-" + bad}, "n": &types.AttributeValueMemberN{Value: bad}}})
		if err == nil {
			t.Errorf("PutItem accepted the number %q", bad)
		}
	}
}
