// PLACE: aws-v2/client  RUN: TestAuditC09Find7
package client

// C09 finding 7: an update expression may contain each of the SET, REMOVE, ADD
// and DELETE clauses at most once.  The parser chains clauses by recursion
// without remembering which keywords it has seen, so "SET a = :x SET b = :y"
// or "REMOVE a SET b = :x REMOVE c" are accepted and applied.

import (
	"context"
	"fmt"
	"testing"

	"github.com/aws/aws-sdk-go-v2/aws"
	"github.com/aws/aws-sdk-go-v2/service/dynamodb"
	dynamodbtypes "github.com/aws/aws-sdk-go-v2/service/dynamodb/types"
)

func TestAuditC09Find7RepeatedClause(t *testing.T) {
	one := &dynamodbtypes.AttributeValueMemberN{Value: "1"}

	for _, tc := range []struct {
		update string
		values map[string]dynamodbtypes.AttributeValue
	}{
		{"SET title = :v SET lvl = :v", map[string]dynamodbtypes.AttributeValue{":v": one}},
		{"REMOVE title SET lvl = :v REMOVE extra", map[string]dynamodbtypes.AttributeValue{":v": one}},
		{"ADD lvl :v ADD lvl :v", map[string]dynamodbtypes.AttributeValue{":v": one}},
		{"REMOVE title REMOVE lvl", nil},
	} {
		client := NewClient()

		if err := AddTable(context.Background(), client, "find7", "id", ""); err != nil {
			t.Fatal(err)
		}

		key := map[string]dynamodbtypes.AttributeValue{"id": &dynamodbtypes.AttributeValueMemberS{Value: "001"}}

		item := map[string]dynamodbtypes.AttributeValue{
			"id":    key["id"],
			"title": &dynamodbtypes.AttributeValueMemberS{Value: "x"},
			"lvl":   &dynamodbtypes.AttributeValueMemberN{Value: "5"},
			"extra": &dynamodbtypes.AttributeValueMemberN{Value: "5"},
		}

		if _, err := client.PutItem(context.Background(), &dynamodb.PutItemInput{TableName: aws.String("find7"), Item: item}); err != nil {
			t.Fatal(err)
		}

		outcome := func() (outcome string) {
			defer func() {
				if r := recover(); r != nil {
					outcome = fmt.Sprintf("rejected (panic: %v)", r)
				}
			}()

			_, err := client.UpdateItem(context.Background(), &dynamodb.UpdateItemInput{
				TableName:                 aws.String("find7"),
				Key:                       key,
				UpdateExpression:          aws.String(tc.update),
				ExpressionAttributeValues: tc.values,
			})
			if err != nil {
				return "rejected (" + err.Error() + ")"
			}

			return "success"
		}()

		if outcome == "success" {
			t.Errorf("update %q repeats a clause: want a syntax error, got success", tc.update)
		}
	}

	// control: every clause once, in any order, is fine
	client := NewClient()

	if err := AddTable(context.Background(), client, "find7", "id", ""); err != nil {
		t.Fatal(err)
	}

	_, err := client.UpdateItem(context.Background(), &dynamodb.UpdateItemInput{
		TableName:                 aws.String("find7"),
		Key:                       map[string]dynamodbtypes.AttributeValue{"id": &dynamodbtypes.AttributeValueMemberS{Value: "001"}},
		UpdateExpression:          aws.String("REMOVE title SET lvl = :v ADD cnt :v"),
		ExpressionAttributeValues: map[string]dynamodbtypes.AttributeValue{":v": one},
	})
	if err != nil {
		t.Errorf("control: %v", err)
	}
}
