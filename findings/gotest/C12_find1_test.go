// PLACE: aws-v2/client  RUN: go test ./aws-v2/client/ -run 'TestC12Find1'
package client

// C12 finding 1: a number set written with PutItem keeps differently written
// numerals of equal value as distinct members. DynamoDB compares set members by
// value (and rejects the request: "Input collection [1, 1.0, 1e0] contains
// duplicates"); the library stores the list of texts verbatim, so a read shows a
// "set" with three members that are all the number 1, while every condition and
// every later update sees a one-member set.

import (
	"context"
	"math/big"
	"testing"

	"github.com/aws/aws-sdk-go-v2/aws"
	"github.com/aws/aws-sdk-go-v2/service/dynamodb"
	dt "github.com/aws/aws-sdk-go-v2/service/dynamodb/types"
)

func c12f1DistinctValues(t *testing.T, members []string) int {
	t.Helper()

	seen := map[string]bool{}

	for _, m := range members {
		r, ok := new(big.Rat).SetString(m)
		if !ok {
			t.Fatalf("not a numeral: %q", m)
		}

		seen[r.RatString()] = true
	}

	return len(seen)
}

func c12f1Client(t *testing.T) *Client {
	t.Helper()

	c := NewClient()

	_, err := c.CreateTable(context.Background(), &dynamodb.CreateTableInput{
		TableName:            aws.String("c12f1"),
		BillingMode:          dt.BillingModePayPerRequest,
		AttributeDefinitions: []dt.AttributeDefinition{{AttributeName: aws.String("h"), AttributeType: dt.ScalarAttributeTypeS}},
		KeySchema:            []dt.KeySchemaElement{{AttributeName: aws.String("h"), KeyType: dt.KeyTypeHash}},
	})
	if err != nil {
		t.Fatal(err)
	}

	return c
}

// a set can not hold the same number twice: the put is either rejected or the
// stored set has one member per distinct value
func TestC12Find1PutNumberSetEqualValues(t *testing.T) {
	c := c12f1Client(t)
	key := map[string]dt.AttributeValue{"h": &dt.AttributeValueMemberS{Value: "k"}}

	_, err := c.PutItem(context.Background(), &dynamodb.PutItemInput{
		TableName: aws.String("c12f1"),
		Item: map[string]dt.AttributeValue{
			"h":  &dt.AttributeValueMemberS{Value: "k"},
			"ns": &dt.AttributeValueMemberNS{Value: []string{"1", "1.0", "1e0", "2"}},
		},
	})
	if err != nil {
		// DynamoDB's answer: ValidationException, nothing is written
		return
	}

	out, err := c.GetItem(context.Background(), &dynamodb.GetItemInput{TableName: aws.String("c12f1"), Key: key})
	if err != nil {
		t.Fatal(err)
	}

	ns, ok := out.Item["ns"].(*dt.AttributeValueMemberNS)
	if !ok {
		t.Fatalf("ns is %T", out.Item["ns"])
	}

	if distinct := c12f1DistinctValues(t, ns.Value); len(ns.Value) != distinct {
		t.Errorf("the stored number set %v has %d members but only %d distinct values: 1, 1.0 and 1e0 are the same member",
			ns.Value, len(ns.Value), distinct)
	}
}

// the same, observed as an update that alters a set it does not target: the
// set read before "SET touched = :x" has four members, the one read after has two
func TestC12Find1UntargetedSetShrinks(t *testing.T) {
	c := c12f1Client(t)
	key := map[string]dt.AttributeValue{"h": &dt.AttributeValueMemberS{Value: "k"}}

	_, err := c.PutItem(context.Background(), &dynamodb.PutItemInput{
		TableName: aws.String("c12f1"),
		Item: map[string]dt.AttributeValue{
			"h":  &dt.AttributeValueMemberS{Value: "k"},
			"ns": &dt.AttributeValueMemberNS{Value: []string{"1", "1.0", "1e0", "2"}},
		},
	})
	if err != nil {
		return
	}

	before, err := c.GetItem(context.Background(), &dynamodb.GetItemInput{TableName: aws.String("c12f1"), Key: key})
	if err != nil {
		t.Fatal(err)
	}

	_, err = c.UpdateItem(context.Background(), &dynamodb.UpdateItemInput{
		TableName:                 aws.String("c12f1"),
		Key:                       key,
		UpdateExpression:          aws.String("SET touched = :x"),
		ExpressionAttributeValues: map[string]dt.AttributeValue{":x": &dt.AttributeValueMemberS{Value: "x"}},
	})
	if err != nil {
		t.Fatal(err)
	}

	after, err := c.GetItem(context.Background(), &dynamodb.GetItemInput{TableName: aws.String("c12f1"), Key: key})
	if err != nil {
		t.Fatal(err)
	}

	nb := len(before.Item["ns"].(*dt.AttributeValueMemberNS).Value)
	na := len(after.Item["ns"].(*dt.AttributeValueMemberNS).Value)

	if nb != na {
		t.Errorf("the update does not target ns, yet the set went from %d to %d members", nb, na)
	}
}
