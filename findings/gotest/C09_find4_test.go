// PLACE: aws-v2/client  RUN: TestAuditC09Find4
package client

// C09 finding 4: a value placeholder (":v") is accepted where the update grammar
// requires an attribute path.  "SET :v = :w", "REMOVE :v", "ADD :n :one" and
// "DELETE :set :set" are not sentences of the update grammar, yet UpdateItem
// answers success and changes nothing (the action is applied to the placeholder
// binding).  With a placeholder that is not bound, "SET :new = :one", the call
// even stores an attribute literally named ":new".  The typical way to hit it is
// an assignment written the wrong way round: "SET :title = title".

import (
	"context"
	"fmt"
	"testing"

	"github.com/aws/aws-sdk-go-v2/aws"
	"github.com/aws/aws-sdk-go-v2/service/dynamodb"
	dynamodbtypes "github.com/aws/aws-sdk-go-v2/service/dynamodb/types"
)

func find4Update(t *testing.T, update string, values map[string]dynamodbtypes.AttributeValue) (outcome string, stored map[string]dynamodbtypes.AttributeValue) {
	t.Helper()

	client := NewClient()

	if err := AddTable(context.Background(), client, "find4", "id", ""); err != nil {
		t.Fatal(err)
	}

	key := map[string]dynamodbtypes.AttributeValue{"id": &dynamodbtypes.AttributeValueMemberS{Value: "001"}}

	item := map[string]dynamodbtypes.AttributeValue{
		"id":    key["id"],
		"title": &dynamodbtypes.AttributeValueMemberS{Value: "x"},
		"lvl":   &dynamodbtypes.AttributeValueMemberN{Value: "5"},
		"tags":  &dynamodbtypes.AttributeValueMemberSS{Value: []string{"p", "q"}},
		"info":  &dynamodbtypes.AttributeValueMemberM{Value: map[string]dynamodbtypes.AttributeValue{"k": &dynamodbtypes.AttributeValueMemberN{Value: "0"}}},
	}

	if _, err := client.PutItem(context.Background(), &dynamodb.PutItemInput{TableName: aws.String("find4"), Item: item}); err != nil {
		t.Fatal(err)
	}

	func() {
		defer func() {
			if r := recover(); r != nil {
				outcome = fmt.Sprintf("rejected (panic: %v)", r)
			}
		}()

		_, err := client.UpdateItem(context.Background(), &dynamodb.UpdateItemInput{
			TableName:                 aws.String("find4"),
			Key:                       key,
			UpdateExpression:          aws.String(update),
			ExpressionAttributeValues: values,
		})
		if err != nil {
			outcome = "rejected (" + err.Error() + ")"
			return
		}

		outcome = "success"
	}()

	out, err := client.GetItem(context.Background(), &dynamodb.GetItemInput{TableName: aws.String("find4"), Key: key})
	if err != nil {
		t.Fatal(err)
	}

	return outcome, out.Item
}

func TestAuditC09Find4PlaceholderAsPath(t *testing.T) {
	s := &dynamodbtypes.AttributeValueMemberS{Value: "y"}
	one := &dynamodbtypes.AttributeValueMemberN{Value: "1"}
	two := &dynamodbtypes.AttributeValueMemberN{Value: "2"}
	set := &dynamodbtypes.AttributeValueMemberSS{Value: []string{"p"}}

	for _, tc := range []struct {
		update string
		values map[string]dynamodbtypes.AttributeValue
	}{
		{"SET :title = title", map[string]dynamodbtypes.AttributeValue{":title": s}},
		{"SET :title = :other", map[string]dynamodbtypes.AttributeValue{":title": s, ":other": s}},
		{"REMOVE :title", map[string]dynamodbtypes.AttributeValue{":title": s}},
		{"ADD :one :two", map[string]dynamodbtypes.AttributeValue{":one": one, ":two": two}},
		{"DELETE :set :set", map[string]dynamodbtypes.AttributeValue{":set": set}},
		{"SET :new = :one", map[string]dynamodbtypes.AttributeValue{":one": one}},
		{"SET info.:one = :one", map[string]dynamodbtypes.AttributeValue{":one": one}},
	} {
		outcome, stored := find4Update(t, tc.update, tc.values)
		if outcome == "success" {
			names := []string{}
			for name := range stored {
				names = append(names, name)
			}

			t.Errorf("update %q uses a value placeholder as a path: want a syntax error, got success (stored attributes now: %v)", tc.update, names)
		}
	}
}
