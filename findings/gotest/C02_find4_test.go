// PLACE: aws-v2/client  RUN: go test ./aws-v2/client/ -run 'TestAuditC02Find4'
package client

// C02 finding 4: an expression attribute name whose value contains a dot ("#n" -> "a.b") must address the top-level
// attribute literally called "a.b". When an item has no such attribute the fake reinterprets the name as the document
// path a.b, so items that only have a map "a" with a member "b" match too (extra items).

import (
	"context"
	"sort"
	"strings"
	"testing"

	"github.com/aws/aws-sdk-go-v2/aws"
	"github.com/aws/aws-sdk-go-v2/service/dynamodb"
	"github.com/aws/aws-sdk-go-v2/service/dynamodb/types"
)

func TestAuditC02Find4(t *testing.T) {
	c := NewClient()

	if err := AddTable(context.Background(), c, "f4", "id", ""); err != nil {
		t.Fatal(err)
	}

	S := func(s string) types.AttributeValue { return &types.AttributeValueMemberS{Value: s} }

	items := []map[string]types.AttributeValue{
		{"id": S("dotted"), "a.b": S("x")},
		{"id": S("nested"), "a": &types.AttributeValueMemberM{Value: map[string]types.AttributeValue{"b": S("x")}}},
	}
	for _, it := range items {
		if _, err := c.PutItem(context.Background(), &dynamodb.PutItemInput{TableName: aws.String("f4"), Item: it}); err != nil {
			t.Fatal(err)
		}
	}

	for _, filter := range []string{"#n = :x", "attribute_exists(#n)"} {
		in := &dynamodb.ScanInput{
			TableName:                aws.String("f4"),
			FilterExpression:         aws.String(filter),
			ExpressionAttributeNames: map[string]string{"#n": "a.b"},
		}
		if strings.Contains(filter, ":x") {
			in.ExpressionAttributeValues = map[string]types.AttributeValue{":x": S("x")}
		}

		out, err := c.Scan(context.Background(), in)
		if err != nil {
			t.Fatal(err)
		}

		ids := []string{}
		for _, it := range out.Items {
			ids = append(ids, it["id"].(*types.AttributeValueMemberS).Value)
		}

		sort.Strings(ids)

		if got := strings.Join(ids, ","); got != "dotted" {
			t.Errorf("Scan filter %q with #n = \"a.b\": got items %q, want only %q", filter, got, "dotted")
		}
	}
}
