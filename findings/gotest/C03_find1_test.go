// PLACE: aws-v2/client  RUN: go test ./aws-v2/client/ -run TestAuditC03Find1EmptyStringIndexKey
package client

// C03 finding 1: an item whose hash-only index key attribute is the empty string is stored in the
// base table (the write is accepted) but never shows up in the index: Scan / Query through the
// index and the DescribeTable item count of the index all leave it out, although the item possesses
// the index key attribute. The same value is kept by a hash+range index (key string ".r"), so the
// behaviour is not even consistent between index shapes.
//
// The test accepts both ways of restoring the property: either the write is rejected (what DynamoDB
// does for an empty index key value) and the base table is left untouched, or the write is accepted
// and the item is readable through the index.

import (
	"context"
	"testing"

	"github.com/aws/aws-sdk-go-v2/aws"
	"github.com/aws/aws-sdk-go-v2/service/dynamodb"
	"github.com/aws/aws-sdk-go-v2/service/dynamodb/types"
)

func c03f1S(s string) types.AttributeValue { return &types.AttributeValueMemberS{Value: s} }

func c03f1Hashes(items []map[string]types.AttributeValue) map[string]string {
	out := map[string]string{}

	for _, it := range items {
		h, _ := it["h"].(*types.AttributeValueMemberS)
		g, _ := it["g"].(*types.AttributeValueMemberS)

		if h == nil {
			continue
		}

		if g == nil {
			out[h.Value] = "<no g>"
			continue
		}

		out[h.Value] = "g=" + g.Value
	}

	return out
}

func c03f1Check(t *testing.T, c *Client, stage string) {
	t.Helper()

	ctx := context.Background()

	base, err := c.Scan(ctx, &dynamodb.ScanInput{TableName: aws.String("tbl")})
	if err != nil {
		t.Fatal(err)
	}

	// the items of the base table that possess the index key attribute g
	expected := map[string]string{}

	for h, g := range c03f1Hashes(base.Items) {
		if g != "<no g>" {
			expected[h] = g
		}
	}

	ix, err := c.Scan(ctx, &dynamodb.ScanInput{TableName: aws.String("tbl"), IndexName: aws.String("by-g")})
	if err != nil {
		t.Fatal(err)
	}

	got := c03f1Hashes(ix.Items)

	if len(got) != len(expected) {
		t.Errorf("%s: Scan on index by-g returns %v, the base table items that have g are %v", stage, got, expected)
	}

	for h, g := range expected {
		if got[h] != g {
			t.Errorf("%s: item h=%q (%s) is in the base table but Scan on index by-g gives %q for it", stage, h, g, got[h])
		}

		// and Query by the value of g finds it
		q, err := c.Query(ctx, &dynamodb.QueryInput{
			TableName:                 aws.String("tbl"),
			IndexName:                 aws.String("by-g"),
			KeyConditionExpression:    aws.String("g = :g"),
			ExpressionAttributeValues: map[string]types.AttributeValue{":g": c03f1S(g[len("g="):])},
		})
		if err != nil {
			t.Fatal(err)
		}

		if c03f1Hashes(q.Items)[h] != g {
			t.Errorf("%s: Query on index by-g for %s does not return item h=%q, got %v", stage, g, h, c03f1Hashes(q.Items))
		}
	}

	desc, err := c.DescribeTable(ctx, &dynamodb.DescribeTableInput{TableName: aws.String("tbl")})
	if err != nil {
		t.Fatal(err)
	}

	for _, gsi := range desc.Table.GlobalSecondaryIndexes {
		if aws.ToString(gsi.IndexName) == "by-g" && aws.ToInt64(gsi.ItemCount) != int64(len(expected)) {
			t.Errorf("%s: DescribeTable reports %d items for index by-g, %d base table items have g", stage, aws.ToInt64(gsi.ItemCount), len(expected))
		}
	}
}

func TestAuditC03Find1EmptyStringIndexKey(t *testing.T) {
	ctx := context.Background()
	c := NewClient()

	if err := AddTable(ctx, c, "tbl", "h", ""); err != nil {
		t.Fatal(err)
	}

	if err := AddIndex(ctx, c, "tbl", "by-g", "g", ""); err != nil {
		t.Fatal(err)
	}

	// 1. PutItem gives the item an (empty) index key
	_, err := c.PutItem(ctx, &dynamodb.PutItemInput{
		TableName: aws.String("tbl"),
		Item:      map[string]types.AttributeValue{"h": c03f1S("a"), "g": c03f1S("")},
	})
	t.Logf("PutItem {h=a, g=\"\"}: err=%v", err)
	c03f1Check(t, c, "after PutItem g=\"\"")

	// 2. UpdateItem changes the index key of an indexed item to the empty string
	_, err = c.PutItem(ctx, &dynamodb.PutItemInput{
		TableName: aws.String("tbl"),
		Item:      map[string]types.AttributeValue{"h": c03f1S("b"), "g": c03f1S("x")},
	})
	if err != nil {
		t.Fatal(err)
	}

	c03f1Check(t, c, "after PutItem g=x")

	_, err = c.UpdateItem(ctx, &dynamodb.UpdateItemInput{
		TableName:                 aws.String("tbl"),
		Key:                       map[string]types.AttributeValue{"h": c03f1S("b")},
		UpdateExpression:          aws.String("SET g = :e"),
		ExpressionAttributeValues: map[string]types.AttributeValue{":e": c03f1S("")},
	})
	t.Logf("UpdateItem h=b SET g = \"\": err=%v", err)
	c03f1Check(t, c, "after UpdateItem SET g = \"\"")
}
