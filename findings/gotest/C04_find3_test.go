// PLACE: aws-v1/client  RUN: go test -run 'TestAuditC04Find3' ./aws-v1/client/
package client

import (
	"fmt"
	"testing"

	"github.com/aws/aws-sdk-go/aws"
	"github.com/aws/aws-sdk-go/service/dynamodb"
)

// C04 through the SDK v1 pagination helpers: QueryPages / ScanPages (and their WithContext forms) are THE way SDK v1
// code follows LastEvaluatedKey. The fake does not implement them; the calls fall through to the embedded nil
// dynamodbiface.DynamoDBAPI and panic with a nil pointer dereference instead of delivering the pages.
// (Same kind of gap as the recorded C19 "v1 BatchGetItem is not implemented", but other methods: fixing BatchGetItem
// does not fix these.)

func auditC04Find3Setup(t *testing.T) *Client {
	t.Helper()

	client := NewClient()

	if err := AddTable(client, "audit-c04-pages", "h", "r"); err != nil {
		t.Fatal(err)
	}

	for i := 0; i < 5; i++ {
		_, err := client.PutItem(&dynamodb.PutItemInput{
			TableName: aws.String("audit-c04-pages"),
			Item: map[string]*dynamodb.AttributeValue{
				"h": {S: aws.String("a")},
				"r": {S: aws.String(fmt.Sprintf("%03d", i))},
			},
		})
		if err != nil {
			t.Fatal(err)
		}
	}

	return client
}

func TestAuditC04Find3QueryPages(t *testing.T) {
	client := auditC04Find3Setup(t)

	defer func() {
		if r := recover(); r != nil {
			t.Fatalf("QueryPages panicked: %v", r)
		}
	}()

	got := []string{}
	pages := 0

	err := client.QueryPages(&dynamodb.QueryInput{
		TableName:                 aws.String("audit-c04-pages"),
		KeyConditionExpression:    aws.String("h = :h"),
		ExpressionAttributeValues: map[string]*dynamodb.AttributeValue{":h": {S: aws.String("a")}},
		Limit:                     aws.Int64(2),
	}, func(out *dynamodb.QueryOutput, last bool) bool {
		pages++

		if len(out.Items) > 2 {
			t.Errorf("page of %d items with Limit 2", len(out.Items))
		}

		for _, it := range out.Items {
			got = append(got, aws.StringValue(it["r"].S))
		}

		return pages < 50
	})
	if err != nil {
		t.Fatal(err)
	}

	if fmt.Sprint(got) != "[000 001 002 003 004]" {
		t.Fatalf("QueryPages delivered %v in %d pages, the unpaginated result is [000 001 002 003 004]", got, pages)
	}
}

func TestAuditC04Find3ScanPages(t *testing.T) {
	client := auditC04Find3Setup(t)

	defer func() {
		if r := recover(); r != nil {
			t.Fatalf("ScanPages panicked: %v", r)
		}
	}()

	got := []string{}
	pages := 0

	err := client.ScanPagesWithContext(aws.BackgroundContext(), &dynamodb.ScanInput{
		TableName: aws.String("audit-c04-pages"),
		Limit:     aws.Int64(2),
	}, func(out *dynamodb.ScanOutput, last bool) bool {
		pages++

		for _, it := range out.Items {
			got = append(got, aws.StringValue(it["r"].S))
		}

		return pages < 50
	})
	if err != nil {
		t.Fatal(err)
	}

	if fmt.Sprint(got) != "[000 001 002 003 004]" {
		t.Fatalf("ScanPages delivered %v in %d pages, the unpaginated result is [000 001 002 003 004]", got, pages)
	}
}
