// PLACE: aws-v2/client  RUN: go test ./aws-v2/client/ -run TestAuditC06Find3
package client

// C06 finding 3: begins_with and contains answer with an evaluation error
// (raised as a panic) when the attribute they inspect has a type they do not
// handle. DynamoDB defines both as plain predicates: begins_with is true only
// for a String/Binary attribute with that prefix, contains only for a String
// with the substring, a Set with the element or a List with the element; on any
// other attribute the function is false.

import (
	"context"
	"fmt"
	"testing"

	"github.com/aws/aws-sdk-go-v2/aws"
	"github.com/aws/aws-sdk-go-v2/service/dynamodb"
	dt "github.com/aws/aws-sdk-go-v2/service/dynamodb/types"
)

func find3Scan(c *Client, in *dynamodb.ScanInput) (ids []string, err error) {
	defer func() {
		if r := recover(); r != nil {
			err = fmt.Errorf("panic: %v", r)
		}
	}()

	out, err := c.Scan(context.Background(), in)
	if err != nil {
		return nil, err
	}

	for _, it := range out.Items {
		ids = append(ids, it["id"].(*dt.AttributeValueMemberS).Value)
	}

	return ids, nil
}

func TestAuditC06Find3_FunctionsOnOtherTypes(t *testing.T) {
	ctx := context.Background()
	c := NewClient()

	if err := AddTable(ctx, c, "f3", "id", ""); err != nil {
		t.Fatal(err)
	}

	str := func(v string) dt.AttributeValue { return &dt.AttributeValueMemberS{Value: v} }

	// "tags" started as a single string, later items carry a list or a set, one has a number
	items := map[string]dt.AttributeValue{
		"1-str":  str("red,blue"),
		"2-list": &dt.AttributeValueMemberL{Value: []dt.AttributeValue{str("red"), str("green")}},
		"3-set":  &dt.AttributeValueMemberSS{Value: []string{"red", "black"}},
		"4-num":  &dt.AttributeValueMemberN{Value: "7"},
		"5-bool": &dt.AttributeValueMemberBOOL{Value: true},
		"6-map":  &dt.AttributeValueMemberM{Value: map[string]dt.AttributeValue{"red": str("red")}},
	}

	for id, v := range items {
		_, err := c.PutItem(ctx, &dynamodb.PutItemInput{TableName: aws.String("f3"), Item: map[string]dt.AttributeValue{"id": str(id), "tags": v}})
		if err != nil {
			t.Fatal(err)
		}
	}

	cases := []struct {
		expr string
		want []string
	}{
		{"contains(tags, :red)", []string{"1-str", "2-list", "3-set"}},
		{"begins_with(tags, :red)", []string{"1-str"}},
		{"NOT begins_with(tags, :red)", []string{"2-list", "3-set", "4-num", "5-bool", "6-map"}},
	}

	for _, tc := range cases {
		tc := tc

		t.Run(tc.expr, func(t *testing.T) {
			got, err := find3Scan(c, &dynamodb.ScanInput{
				TableName:                 aws.String("f3"),
				FilterExpression:          aws.String(tc.expr),
				ExpressionAttributeValues: map[string]dt.AttributeValue{":red": str("red")},
			})
			if err != nil {
				t.Fatalf("the filter must select %v, it failed instead: %v", tc.want, err)
			}

			if fmt.Sprint(got) != fmt.Sprint(tc.want) {
				t.Fatalf("expected %v, got %v", tc.want, got)
			}
		})
	}
}
