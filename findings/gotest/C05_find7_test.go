// PLACE: aws-v2/client  RUN: TestC05Find7
package client_test

// C05 finding 7 (SDK v2 client, boundary): an item holding an empty binary given as
// &types.AttributeValueMemberB{Value: nil} (sent to DynamoDB as the valid empty binary "") is stored
// as a value without any type. From then on EVERY conditional PutItem / DeleteItem on that key panics
// ("unsupported expression or attribute type: value type is not supported yet"), whatever the
// condition is - here it does not even mention the attribute.

import (
	"context"
	"fmt"
	"testing"

	"github.com/aws/aws-sdk-go-v2/aws"
	"github.com/aws/aws-sdk-go-v2/service/dynamodb"
	"github.com/aws/aws-sdk-go-v2/service/dynamodb/types"
	minidyn "github.com/truora/minidyn/aws-v2/client"
)

func TestC05Find7_NilBinaryAttribute(t *testing.T) {
	c := minidyn.NewClient()
	if err := minidyn.AddTable(context.Background(), c, "blobs", "id", ""); err != nil {
		t.Fatal(err)
	}

	_, err := c.PutItem(context.Background(), &dynamodb.PutItemInput{TableName: aws.String("blobs"), Item: map[string]types.AttributeValue{
		"id":      &types.AttributeValueMemberS{Value: "b1"},
		"payload": &types.AttributeValueMemberB{Value: nil},
	}})
	if err != nil {
		t.Fatal(err)
	}

	err = func() (err error) {
		defer func() {
			if r := recover(); r != nil {
				err = fmt.Errorf("panic: %v", r)
			}
		}()

		_, err = c.DeleteItem(context.Background(), &dynamodb.DeleteItemInput{
			TableName:           aws.String("blobs"),
			Key:                 map[string]types.AttributeValue{"id": &types.AttributeValueMemberS{Value: "b1"}},
			ConditionExpression: aws.String("attribute_exists(id)"),
		})

		return err
	}()
	if err != nil {
		t.Fatalf("attribute_exists(id) is true of the stored item, DeleteItem must succeed: %v", err)
	}
}
