// PLACE: aws-v2/client  RUN: go test ./aws-v2/client/ -run TestAuditC06Find5
package client

// C06 finding 5: an expression attribute name stands for ONE attribute name,
// dots included ({"#n": "a.b"} is the documented way to address the top-level
// attribute called "a.b"). When the item has no top-level attribute "a.b" the
// fake splits the substituted name at the dots and answers with the nested
// attribute a -> b (or panics when a is not a map).

import (
	"context"
	"fmt"
	"testing"

	"github.com/aws/aws-sdk-go-v2/aws"
	"github.com/aws/aws-sdk-go-v2/service/dynamodb"
	dt "github.com/aws/aws-sdk-go-v2/service/dynamodb/types"
)

func find5Put(c *Client, in *dynamodb.PutItemInput) (err error) {
	defer func() {
		if r := recover(); r != nil {
			err = fmt.Errorf("panic: %v", r)
		}
	}()

	_, err = c.PutItem(context.Background(), in)

	return err
}

func TestAuditC06Find5_DottedNamePlaceholder(t *testing.T) {
	ctx := context.Background()
	str := func(v string) dt.AttributeValue { return &dt.AttributeValueMemberS{Value: v} }

	t.Run("nested attribute taken for the dotted top-level one", func(t *testing.T) {
		c := NewClient()
		if err := AddTable(ctx, c, "f5", "id", ""); err != nil {
			t.Fatal(err)
		}

		// the item has a map "user" with the key "name", and no attribute called "user.name"
		_, err := c.PutItem(ctx, &dynamodb.PutItemInput{TableName: aws.String("f5"), Item: map[string]dt.AttributeValue{
			"id":   str("k"),
			"user": &dt.AttributeValueMemberM{Value: map[string]dt.AttributeValue{"name": str("ann")}},
		}})
		if err != nil {
			t.Fatal(err)
		}

		// write the flat attribute "user.name" only when it is not there yet: it is not, the put must go through
		err = find5Put(c, &dynamodb.PutItemInput{
			TableName:                aws.String("f5"),
			Item:                     map[string]dt.AttributeValue{"id": str("k"), "user.name": str("ann")},
			ConditionExpression:      aws.String("attribute_not_exists(#flat)"),
			ExpressionAttributeNames: map[string]string{"#flat": "user.name"},
		})
		if err != nil {
			t.Fatalf("the item has no attribute named \"user.name\", the conditional put must succeed: %v", err)
		}
	})

	t.Run("comparison reads the nested attribute", func(t *testing.T) {
		c := NewClient()
		if err := AddTable(ctx, c, "f5", "id", ""); err != nil {
			t.Fatal(err)
		}

		_, err := c.PutItem(ctx, &dynamodb.PutItemInput{TableName: aws.String("f5"), Item: map[string]dt.AttributeValue{
			"id":   str("k"),
			"user": &dt.AttributeValueMemberM{Value: map[string]dt.AttributeValue{"name": str("ann")}},
		}})
		if err != nil {
			t.Fatal(err)
		}

		out, err := c.Scan(ctx, &dynamodb.ScanInput{
			TableName:                 aws.String("f5"),
			FilterExpression:          aws.String("#flat = :ann"),
			ExpressionAttributeNames:  map[string]string{"#flat": "user.name"},
			ExpressionAttributeValues: map[string]dt.AttributeValue{":ann": str("ann")},
		})
		if err != nil {
			t.Fatal(err)
		}

		if len(out.Items) != 0 {
			t.Fatalf("no item has an attribute named \"user.name\", the filter selected %d item(s)", len(out.Items))
		}
	})

	t.Run("panic when the first segment is a scalar", func(t *testing.T) {
		c := NewClient()
		if err := AddTable(ctx, c, "f5", "id", ""); err != nil {
			t.Fatal(err)
		}

		_, err := c.PutItem(ctx, &dynamodb.PutItemInput{TableName: aws.String("f5"), Item: map[string]dt.AttributeValue{"id": str("k"), "user": str("ann")}})
		if err != nil {
			t.Fatal(err)
		}

		err = find5Put(c, &dynamodb.PutItemInput{
			TableName:                aws.String("f5"),
			Item:                     map[string]dt.AttributeValue{"id": str("k"), "user.name": str("ann")},
			ConditionExpression:      aws.String("attribute_not_exists(#flat)"),
			ExpressionAttributeNames: map[string]string{"#flat": "user.name"},
		})
		if err != nil {
			t.Fatalf("the conditional put must succeed: %v", err)
		}
	})
}
