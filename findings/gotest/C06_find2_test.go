// PLACE: aws-v2/client  RUN: go test ./aws-v2/client/ -run TestAuditC06Find2
package client

// C06 finding 2: an ordering comparison (<, <=, >, >=) or BETWEEN between an
// attribute and an operand of another type is not false, it is an evaluation
// error, and the error is raised as a panic out of Scan / Query / PutItem.
// DynamoDB: ordering exists only within one scalar type, every other pairing
// simply does not match (the comparison is false, NOT of it is true).

import (
	"context"
	"fmt"
	"testing"

	"github.com/aws/aws-sdk-go-v2/aws"
	"github.com/aws/aws-sdk-go-v2/service/dynamodb"
	dt "github.com/aws/aws-sdk-go-v2/service/dynamodb/types"
)

func find2Scan(c *Client, in *dynamodb.ScanInput) (ids []string, err error) {
	defer func() {
		if r := recover(); r != nil {
			err = fmt.Errorf("panic: %v", r)
		}
	}()

	out, err := c.Scan(context.Background(), in)
	if err != nil {
		return nil, err
	}

	for _, it := range out.Items {
		ids = append(ids, it["id"].(*dt.AttributeValueMemberS).Value)
	}

	return ids, nil
}

func TestAuditC06Find2_CrossTypeOrdering(t *testing.T) {
	ctx := context.Background()
	c := NewClient()

	if err := AddTable(ctx, c, "f2", "id", ""); err != nil {
		t.Fatal(err)
	}

	// a table whose "v" attribute is not uniformly typed
	items := map[string]dt.AttributeValue{
		"1-num":     &dt.AttributeValueMemberN{Value: "5"},
		"2-str":     &dt.AttributeValueMemberS{Value: "5"},
		"3-bool":    &dt.AttributeValueMemberBOOL{Value: true},
		"4-null":    &dt.AttributeValueMemberNULL{Value: true},
		"5-list":    &dt.AttributeValueMemberL{Value: []dt.AttributeValue{&dt.AttributeValueMemberN{Value: "5"}}},
		"6-missing": nil,
	}

	for id, v := range items {
		it := map[string]dt.AttributeValue{"id": &dt.AttributeValueMemberS{Value: id}}
		if v != nil {
			it["v"] = v
		}

		if _, err := c.PutItem(ctx, &dynamodb.PutItemInput{TableName: aws.String("f2"), Item: it}); err != nil {
			t.Fatal(err)
		}
	}

	values := map[string]dt.AttributeValue{
		":lo": &dt.AttributeValueMemberN{Value: "1"},
		":hi": &dt.AttributeValueMemberN{Value: "9"},
	}

	cases := map[string][]string{
		"v > :lo":               {"1-num"},
		"v <= :hi":              {"1-num"},
		"v BETWEEN :lo AND :hi": {"1-num"},
		"NOT v < :lo":           {"1-num", "2-str", "3-bool", "4-null", "5-list", "6-missing"},
	}

	for expr, want := range cases {
		expr, want := expr, want

		t.Run(expr, func(t *testing.T) {
			got, err := find2Scan(c, &dynamodb.ScanInput{
				TableName:                 aws.String("f2"),
				FilterExpression:          aws.String(expr),
				ExpressionAttributeValues: find2ValuesFor(expr, values),
			})
			if err != nil {
				t.Fatalf("the filter must select %v, it failed instead: %v", want, err)
			}

			if fmt.Sprint(got) != fmt.Sprint(want) {
				t.Fatalf("expected %v, got %v", want, got)
			}
		})
	}

	t.Run("missing attribute against a BOOL attribute", func(t *testing.T) {
		got, err := find2Scan(c, &dynamodb.ScanInput{
			TableName:        aws.String("f2"),
			FilterExpression: aws.String("nothing < v"),
		})
		if err != nil {
			t.Fatalf("a comparison with a missing attribute is false, it failed instead: %v", err)
		}

		if len(got) != 0 {
			t.Fatalf("expected no item, got %v", got)
		}
	})
}

// find2ValuesFor keeps only the placeholders the expression uses (the fake rejects unused ones)
func find2ValuesFor(expr string, all map[string]dt.AttributeValue) map[string]dt.AttributeValue {
	out := map[string]dt.AttributeValue{}

	for k, v := range all {
		for i := 0; i+len(k) <= len(expr); i++ {
			if expr[i:i+len(k)] == k {
				out[k] = v
			}
		}
	}

	return out
}
