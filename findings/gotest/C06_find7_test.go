// PLACE: aws-v2/client  RUN: go test ./aws-v2/client/ -run TestAuditC06Find7
package client

// C06 finding 7: contains(path, operand) on a set attribute with a SET operand
// is evaluated as a subset test and answers true. DynamoDB's contains looks for
// one element: a string/number/binary set has no member that is itself a set, so
// the function is false (the subset reading makes a filter select items that
// the real service does not return).

import (
	"context"
	"testing"

	"github.com/aws/aws-sdk-go-v2/aws"
	"github.com/aws/aws-sdk-go-v2/service/dynamodb"
	dt "github.com/aws/aws-sdk-go-v2/service/dynamodb/types"
)

func TestAuditC06Find7_ContainsSetInSet(t *testing.T) {
	ctx := context.Background()
	c := NewClient()

	if err := AddTable(ctx, c, "f7", "id", ""); err != nil {
		t.Fatal(err)
	}

	_, err := c.PutItem(ctx, &dynamodb.PutItemInput{TableName: aws.String("f7"), Item: map[string]dt.AttributeValue{
		"id": &dt.AttributeValueMemberS{Value: "k"},
		"ss": &dt.AttributeValueMemberSS{Value: []string{"a", "b"}},
		"ns": &dt.AttributeValueMemberNS{Value: []string{"1", "2"}},
		"bs": &dt.AttributeValueMemberBS{Value: [][]byte{[]byte("a"), []byte("b")}},
	}})
	if err != nil {
		t.Fatal(err)
	}

	cases := map[string]dt.AttributeValue{
		"contains(ss, :v)": &dt.AttributeValueMemberSS{Value: []string{"a"}},
		"contains(ns, :v)": &dt.AttributeValueMemberNS{Value: []string{"1"}},
		"contains(bs, :v)": &dt.AttributeValueMemberBS{Value: [][]byte{[]byte("a")}},
	}

	for expr, v := range cases {
		expr, v := expr, v

		t.Run(expr, func(t *testing.T) {
			out, err := c.Scan(ctx, &dynamodb.ScanInput{
				TableName:                 aws.String("f7"),
				FilterExpression:          aws.String(expr),
				ExpressionAttributeValues: map[string]dt.AttributeValue{":v": v},
			})
			if err != nil {
				t.Fatal(err)
			}

			if len(out.Items) != 0 {
				t.Fatalf("a set is never a member of a set: expected no item, got %d", len(out.Items))
			}
		})
	}
}
