// PLACE: aws-v2/client  RUN: go test ./aws-v2/client/ -run 'TestAuditC02Find6'
package client

// C02 finding 6: Segment / TotalSegments of a parallel Scan are ignored: every segment returns the whole table, so the
// workers of a parallel scan together see every item TotalSegments times instead of exactly once.

import (
	"context"
	"fmt"
	"testing"

	"github.com/aws/aws-sdk-go-v2/aws"
	"github.com/aws/aws-sdk-go-v2/service/dynamodb"
	"github.com/aws/aws-sdk-go-v2/service/dynamodb/types"
)

func TestAuditC02Find6(t *testing.T) {
	c := NewClient()

	if err := AddTable(context.Background(), c, "f6", "id", ""); err != nil {
		t.Fatal(err)
	}

	for i := 0; i < 10; i++ {
		item := map[string]types.AttributeValue{"id": &types.AttributeValueMemberS{Value: fmt.Sprintf("item-%d", i)}}
		if _, err := c.PutItem(context.Background(), &dynamodb.PutItemInput{TableName: aws.String("f6"), Item: item}); err != nil {
			t.Fatal(err)
		}
	}

	const segments = 3

	seen := map[string]int{}

	for seg := int32(0); seg < segments; seg++ {
		var lek map[string]types.AttributeValue

		for {
			out, err := c.Scan(context.Background(), &dynamodb.ScanInput{
				TableName:         aws.String("f6"),
				Segment:           aws.Int32(seg),
				TotalSegments:     aws.Int32(segments),
				ExclusiveStartKey: lek,
			})
			if err != nil {
				t.Fatal(err)
			}

			for _, it := range out.Items {
				seen[it["id"].(*types.AttributeValueMemberS).Value]++
			}

			lek = out.LastEvaluatedKey
			if len(lek) == 0 {
				break
			}
		}
	}

	if len(seen) != 10 {
		t.Errorf("the segments returned %d distinct items, want 10", len(seen))
	}

	for id, n := range seen {
		if n != 1 {
			t.Errorf("item %s was returned %d times by the %d segments of one parallel scan, want exactly once", id, n, segments)
		}
	}
}
