// PLACE: aws-v2/client  RUN: TestAuditC09Find6
package client

// C09 finding 6: parentheses around a single name are dropped by the parser, so
// a parenthesised name is accepted wherever a bare name is: as the function
// name of a call "(attribute_exists)(title)", as the target of an update action
// "SET (title) = :x", "REMOVE (title)", "ADD (lvl) :one".  These are juxtaposed
// / misplaced tokens, not sentences of either grammar.

import (
	"context"
	"errors"
	"fmt"
	"testing"

	"github.com/aws/aws-sdk-go-v2/aws"
	"github.com/aws/aws-sdk-go-v2/service/dynamodb"
	dynamodbtypes "github.com/aws/aws-sdk-go-v2/service/dynamodb/types"
)

func find6Setup(t *testing.T) (*Client, map[string]dynamodbtypes.AttributeValue) {
	t.Helper()

	client := NewClient()

	if err := AddTable(context.Background(), client, "find6", "id", ""); err != nil {
		t.Fatal(err)
	}

	key := map[string]dynamodbtypes.AttributeValue{"id": &dynamodbtypes.AttributeValueMemberS{Value: "001"}}

	item := map[string]dynamodbtypes.AttributeValue{
		"id":    key["id"],
		"title": &dynamodbtypes.AttributeValueMemberS{Value: "x"},
		"lvl":   &dynamodbtypes.AttributeValueMemberN{Value: "5"},
	}

	if _, err := client.PutItem(context.Background(), &dynamodb.PutItemInput{TableName: aws.String("find6"), Item: item}); err != nil {
		t.Fatal(err)
	}

	return client, key
}

func TestAuditC09Find6ParenthesisedFunctionName(t *testing.T) {
	for _, condition := range []string{"(attribute_exists)(title)", "((attribute_not_exists))(nope)", "(begins_with)(title, :x)"} {
		client, key := find6Setup(t)

		values := map[string]dynamodbtypes.AttributeValue{}
		if condition == "(begins_with)(title, :x)" {
			values[":x"] = &dynamodbtypes.AttributeValueMemberS{Value: "x"}
		}

		outcome := func() (outcome string) {
			defer func() {
				if r := recover(); r != nil {
					outcome = "rejected"
				}
			}()

			_, err := client.DeleteItem(context.Background(), &dynamodb.DeleteItemInput{
				TableName:                 aws.String("find6"),
				Key:                       key,
				ConditionExpression:       aws.String(condition),
				ExpressionAttributeValues: values,
			})

			var apiErr interface{ ErrorCode() string }

			switch {
			case err == nil:
				return "evaluated: condition true"
			case errors.As(err, &apiErr) && apiErr.ErrorCode() == "ConditionalCheckFailedException":
				return "evaluated: condition false"
			}

			return "rejected"
		}()

		if outcome != "rejected" {
			t.Errorf("condition %q: want rejected, got %s", condition, outcome)
		}
	}
}

func TestAuditC09Find6ParenthesisedActionTarget(t *testing.T) {
	for _, update := range []string{"SET (title) = :v", "REMOVE (title)", "ADD (lvl) :v", "SET ((title)) = :v"} {
		client, key := find6Setup(t)

		value := dynamodbtypes.AttributeValue(&dynamodbtypes.AttributeValueMemberN{Value: "1"})

		values := map[string]dynamodbtypes.AttributeValue{":v": value}
		if update == "REMOVE (title)" {
			values = nil
		}

		outcome := func() (outcome string) {
			defer func() {
				if r := recover(); r != nil {
					outcome = fmt.Sprintf("rejected (panic: %v)", r)
				}
			}()

			_, err := client.UpdateItem(context.Background(), &dynamodb.UpdateItemInput{
				TableName:                 aws.String("find6"),
				Key:                       key,
				UpdateExpression:          aws.String(update),
				ExpressionAttributeValues: values,
			})
			if err != nil {
				return "rejected (" + err.Error() + ")"
			}

			return "success"
		}()

		if outcome == "success" {
			t.Errorf("update %q: want a syntax error, got success", update)
		}
	}
}
