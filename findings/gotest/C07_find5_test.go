// PLACE: aws-v1/client  RUN: TestAuditC07Find5
package client

// C07 finding 5: a SET whose right-hand side is a path that does not exist in
// the item. DynamoDB rejects the request (ValidationException: "The provided
// expression refers to an attribute that does not exist in the item") and the
// item stays as it was. minidyn succeeds and stores a NULL attribute - a value
// that exists nowhere in the request or in the item.

import (
	"testing"

	"github.com/aws/aws-sdk-go/aws"
	"github.com/aws/aws-sdk-go/service/dynamodb"
)

func TestAuditC07Find5SetFromMissingAttribute(t *testing.T) {
	cases := map[string]struct {
		expr   string
		values map[string]*dynamodb.AttributeValue
	}{
		"top-level path":             {expr: "SET b = ghost"},
		"nested path":                {expr: "SET b = m.nope"},
		"list element out of range":  {expr: "SET b = l[7]"},
		"if_not_exists, both absent": {expr: "SET b = if_not_exists(b, ghost)"},
		"together with a valid action": {
			expr:   "SET a = :v, b = ghost",
			values: map[string]*dynamodb.AttributeValue{":v": {N: aws.String("2")}},
		},
	}

	for name, tc := range cases {
		tc := tc

		t.Run(name, func(t *testing.T) {
			c := NewClient()
			if err := AddTable(c, "find5", "id", ""); err != nil {
				t.Fatal(err)
			}

			key := map[string]*dynamodb.AttributeValue{"id": {S: aws.String("k")}}

			_, err := c.PutItem(&dynamodb.PutItemInput{
				TableName: aws.String("find5"),
				Item: map[string]*dynamodb.AttributeValue{
					"id": {S: aws.String("k")},
					"a":  {N: aws.String("1")},
					"m":  {M: map[string]*dynamodb.AttributeValue{"x": {N: aws.String("1")}}},
					"l":  {L: []*dynamodb.AttributeValue{{N: aws.String("1")}}},
				},
			})
			if err != nil {
				t.Fatal(err)
			}

			_, err = c.UpdateItem(&dynamodb.UpdateItemInput{
				TableName:                 aws.String("find5"),
				Key:                       key,
				UpdateExpression:          aws.String(tc.expr),
				ExpressionAttributeValues: tc.values,
			})
			if err == nil {
				t.Errorf("UpdateItem(%q) must fail: the right-hand side refers to an attribute that is not in the item", tc.expr)
			}

			out, gerr := c.GetItem(&dynamodb.GetItemInput{TableName: aws.String("find5"), Key: key})
			if gerr != nil {
				t.Fatal(gerr)
			}

			if v, ok := out.Item["b"]; ok {
				t.Errorf("the item got an attribute b = %s out of nothing", v.String())
			}

			if got := aws.StringValue(out.Item["a"].N); got != "1" {
				t.Errorf("a = %s, want 1 (a rejected update changes nothing)", got)
			}
		})
	}
}
