// PLACE: aws-v1/client  RUN: TestAuditC07Find9
package client

// C07 finding 9: SET through a list dereference on an attribute that holds a
// MAP ("SET m[0] = :v") reports success and does nothing. DynamoDB answers
// ValidationException ("The document path provided in the update expression is
// invalid for update"). The mirror case "SET l.x = :v" on a list is rejected by
// minidyn, so only the map branch of indexAccessor.Set swallows the mismatch.
// Reporting success for an update that was not applied hides the mistake from
// the test that uses the fake.

import (
	"testing"

	"github.com/aws/aws-sdk-go/aws"
	"github.com/aws/aws-sdk-go/service/dynamodb"
)

func TestAuditC07Find9ListIndexOnMapIsSilentlyIgnored(t *testing.T) {
	c := NewClient()
	if err := AddTable(c, "find9", "id", ""); err != nil {
		t.Fatal(err)
	}

	key := map[string]*dynamodb.AttributeValue{"id": {S: aws.String("k")}}

	_, err := c.PutItem(&dynamodb.PutItemInput{
		TableName: aws.String("find9"),
		Item: map[string]*dynamodb.AttributeValue{
			"id": {S: aws.String("k")},
			"m":  {M: map[string]*dynamodb.AttributeValue{"x": {N: aws.String("1")}}},
		},
	})
	if err != nil {
		t.Fatal(err)
	}

	_, err = c.UpdateItem(&dynamodb.UpdateItemInput{
		TableName:                 aws.String("find9"),
		Key:                       key,
		UpdateExpression:          aws.String("SET m[0] = :v"),
		ExpressionAttributeValues: map[string]*dynamodb.AttributeValue{":v": {N: aws.String("2")}},
	})
	if err == nil {
		t.Errorf("SET m[0] = :v on a map attribute must be rejected, it was accepted (and not applied)")
	}
}
