// PLACE: aws-v2/client  RUN: go test ./aws-v2/client/ -run 'TestC13Find1'
package client_test

// C13 finding 1: SDK v2 BatchGetItem does not reject a key that lacks a key attribute or supplies it with the
// wrong type: the call succeeds and the malformed key is handed back as an "unprocessed" key (retrying it can
// never succeed), where GetItem on the very same key answers ValidationException.

import (
	"context"
	"errors"
	"testing"

	"github.com/aws/aws-sdk-go-v2/aws"
	"github.com/aws/aws-sdk-go-v2/service/dynamodb"
	ddbtypes "github.com/aws/aws-sdk-go-v2/service/dynamodb/types"
	"github.com/aws/smithy-go"
	"github.com/truora/minidyn/aws-v2/client"
)

func c13f1Setup(t *testing.T) *client.Client {
	t.Helper()

	c := client.NewClient()

	_, err := c.CreateTable(context.Background(), &dynamodb.CreateTableInput{
		TableName:   aws.String("c13f1"),
		BillingMode: ddbtypes.BillingModePayPerRequest,
		AttributeDefinitions: []ddbtypes.AttributeDefinition{
			{AttributeName: aws.String("h"), AttributeType: ddbtypes.ScalarAttributeTypeS},
			{AttributeName: aws.String("r"), AttributeType: ddbtypes.ScalarAttributeTypeS},
		},
		KeySchema: []ddbtypes.KeySchemaElement{
			{AttributeName: aws.String("h"), KeyType: ddbtypes.KeyTypeHash},
			{AttributeName: aws.String("r"), KeyType: ddbtypes.KeyTypeRange},
		},
	})
	if err != nil {
		t.Fatalf("CreateTable: %v", err)
	}

	_, err = c.PutItem(context.Background(), &dynamodb.PutItemInput{
		TableName: aws.String("c13f1"),
		Item: map[string]ddbtypes.AttributeValue{
			"h": &ddbtypes.AttributeValueMemberS{Value: "a"},
			"r": &ddbtypes.AttributeValueMemberS{Value: "b"},
		},
	})
	if err != nil {
		t.Fatalf("PutItem: %v", err)
	}

	return c
}

func c13f1Check(t *testing.T, c *client.Client, badKey map[string]ddbtypes.AttributeValue) {
	t.Helper()

	// control: GetItem rejects the key
	_, err := c.GetItem(context.Background(), &dynamodb.GetItemInput{TableName: aws.String("c13f1"), Key: badKey})

	var apiErr smithy.APIError
	if !errors.As(err, &apiErr) || apiErr.ErrorCode() != "ValidationException" {
		t.Fatalf("control failed, GetItem must reject the key with ValidationException, got %v", err)
	}

	out, err := c.BatchGetItem(context.Background(), &dynamodb.BatchGetItemInput{
		RequestItems: map[string]ddbtypes.KeysAndAttributes{
			"c13f1": {Keys: []map[string]ddbtypes.AttributeValue{
				{
					"h": &ddbtypes.AttributeValueMemberS{Value: "a"},
					"r": &ddbtypes.AttributeValueMemberS{Value: "b"},
				},
				badKey,
			}},
		},
	})
	if err == nil {
		t.Fatalf("BatchGetItem accepted a malformed key: no error, responses=%d, unprocessed keys=%d",
			len(out.Responses["c13f1"]), len(out.UnprocessedKeys["c13f1"].Keys))
	}

	if !errors.As(err, &apiErr) || apiErr.ErrorCode() != "ValidationException" {
		t.Fatalf("BatchGetItem must answer ValidationException, got %v", err)
	}
}

func TestC13Find1BatchGetKeyLacksRangeAttribute(t *testing.T) {
	c := c13f1Setup(t)

	c13f1Check(t, c, map[string]ddbtypes.AttributeValue{
		"h": &ddbtypes.AttributeValueMemberS{Value: "a"},
	})
}

func TestC13Find1BatchGetKeyWrongType(t *testing.T) {
	c := c13f1Setup(t)

	c13f1Check(t, c, map[string]ddbtypes.AttributeValue{
		"h": &ddbtypes.AttributeValueMemberS{Value: "a"},
		"r": &ddbtypes.AttributeValueMemberN{Value: "1"},
	})
}
