// PLACE: aws-v2/client  RUN: go test ./aws-v2/client/ -run 'TestAuditC08Find2'
package client

// C08 finding 2 (both SDK flavours, shown with v2): UpdateTable applies its parts one after the other without
// rolling back. When it returns an error, the attribute definitions of the request and the index changes that
// precede the failing one stay applied. Observable traces of the failed request:
//   - the key type of the table has changed, GetItem / PutItem with the (correct) old key type are now rejected and
//     the stored items can no longer be read by key;
//   - an index that did not exist before the failed call can be scanned / an index deleted by the failed call is gone.

import (
	"context"
	"testing"

	"github.com/aws/aws-sdk-go-v2/aws"
	"github.com/aws/aws-sdk-go-v2/service/dynamodb"
	dynamodbtypes "github.com/aws/aws-sdk-go-v2/service/dynamodb/types"
)

func auditC08Find2Setup(t *testing.T) *Client {
	t.Helper()

	ctx := context.Background()
	c := NewClient()

	// a provisioned table with a numeric partition key
	_, err := c.CreateTable(ctx, &dynamodb.CreateTableInput{
		TableName: aws.String("tbl"),
		AttributeDefinitions: []dynamodbtypes.AttributeDefinition{
			{AttributeName: aws.String("id"), AttributeType: dynamodbtypes.ScalarAttributeTypeN},
		},
		KeySchema: []dynamodbtypes.KeySchemaElement{
			{AttributeName: aws.String("id"), KeyType: dynamodbtypes.KeyTypeHash},
		},
		ProvisionedThroughput: &dynamodbtypes.ProvisionedThroughput{
			ReadCapacityUnits:  aws.Int64(1),
			WriteCapacityUnits: aws.Int64(1),
		},
	})
	if err != nil {
		t.Fatal(err)
	}

	_, err = c.PutItem(ctx, &dynamodb.PutItemInput{
		TableName: aws.String("tbl"),
		Item: map[string]dynamodbtypes.AttributeValue{
			"id":   &dynamodbtypes.AttributeValueMemberN{Value: "1"},
			"date": &dynamodbtypes.AttributeValueMemberS{Value: "2024-01-01"},
		},
	})
	if err != nil {
		t.Fatal(err)
	}

	return c
}

func auditC08Find2Get(c *Client) (int, error) {
	out, err := c.GetItem(context.Background(), &dynamodb.GetItemInput{
		TableName: aws.String("tbl"),
		Key: map[string]dynamodbtypes.AttributeValue{
			"id": &dynamodbtypes.AttributeValueMemberN{Value: "1"},
		},
	})
	if err != nil {
		return 0, err
	}

	return len(out.Item), nil
}

// the public helper AddIndex declares the index key attributes with type S and gives the index no throughput: on a
// provisioned table the call fails, but the partition key "id" of the table has silently become a string key
func TestAuditC08Find2AttributeDefinitionsSurviveFailedUpdateTable(t *testing.T) {
	c := auditC08Find2Setup(t)

	before, err := auditC08Find2Get(c)
	if err != nil || before != 2 {
		t.Fatalf("unexpected initial state: %d attributes, err %v", before, err)
	}

	err = AddIndex(context.Background(), c, "tbl", "by_id_date", "id", "date")
	if err == nil {
		t.Log("the request did not fail, nothing to check for C08")

		return
	}

	t.Logf("UpdateTable failed: %v", err)

	after, err := auditC08Find2Get(c)
	if err != nil {
		t.Fatalf("the failed UpdateTable left a trace: the item can not be read by its key any more: %v", err)
	}

	if after != before {
		t.Fatalf("the failed UpdateTable left a trace: GetItem returned %d attributes before and %d after", before, after)
	}
}

// the first index change is kept although the request as a whole is answered with an error
func TestAuditC08Find2IndexChangesSurviveFailedUpdateTable(t *testing.T) {
	ctx := context.Background()
	c := auditC08Find2Setup(t)

	scanIndex := func() error {
		_, err := c.Scan(ctx, &dynamodb.ScanInput{TableName: aws.String("tbl"), IndexName: aws.String("by_date")})

		return err
	}

	if err := scanIndex(); err == nil {
		t.Fatal("the index must not exist yet")
	}

	_, err := c.UpdateTable(ctx, &dynamodb.UpdateTableInput{
		TableName: aws.String("tbl"),
		AttributeDefinitions: []dynamodbtypes.AttributeDefinition{
			{AttributeName: aws.String("id"), AttributeType: dynamodbtypes.ScalarAttributeTypeN},
			{AttributeName: aws.String("date"), AttributeType: dynamodbtypes.ScalarAttributeTypeS},
		},
		GlobalSecondaryIndexUpdates: []dynamodbtypes.GlobalSecondaryIndexUpdate{
			{
				Create: &dynamodbtypes.CreateGlobalSecondaryIndexAction{
					IndexName: aws.String("by_date"),
					KeySchema: []dynamodbtypes.KeySchemaElement{
						{AttributeName: aws.String("date"), KeyType: dynamodbtypes.KeyTypeHash},
					},
					Projection: &dynamodbtypes.Projection{ProjectionType: dynamodbtypes.ProjectionTypeAll},
					ProvisionedThroughput: &dynamodbtypes.ProvisionedThroughput{
						ReadCapacityUnits:  aws.Int64(1),
						WriteCapacityUnits: aws.Int64(1),
					},
				},
			},
			{
				Delete: &dynamodbtypes.DeleteGlobalSecondaryIndexAction{IndexName: aws.String("does_not_exist")},
			},
		},
	})
	if err == nil {
		t.Log("the request did not fail, nothing to check for C08")

		return
	}

	t.Logf("UpdateTable failed: %v", err)

	if err := scanIndex(); err == nil {
		t.Fatal("the failed UpdateTable left a trace: the index by_date of the failed request exists and can be scanned")
	}
}
