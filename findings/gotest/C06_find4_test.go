// PLACE: aws-v2/client  RUN: go test ./aws-v2/client/ -run TestAuditC06Find4
package client

// C06 finding 4: a document path that runs through an attribute of the wrong
// type (a.b where a is a string, a[0] where a is a map, a.b where a is a list,
// a.b.c where a.b is a scalar) is an evaluation error raised as a panic. In
// DynamoDB such a path simply does not resolve: the attribute it names is
// missing, so attribute_not_exists is true, comparisons are false and <> is true.

import (
	"context"
	"fmt"
	"testing"

	"github.com/aws/aws-sdk-go-v2/aws"
	"github.com/aws/aws-sdk-go-v2/service/dynamodb"
	dt "github.com/aws/aws-sdk-go-v2/service/dynamodb/types"
)

func find4Match(item map[string]dt.AttributeValue, expr string, values map[string]dt.AttributeValue) (matched bool, err error) {
	defer func() {
		if r := recover(); r != nil {
			err = fmt.Errorf("panic: %v", r)
		}
	}()

	ctx := context.Background()
	c := NewClient()

	if err := AddTable(ctx, c, "f4", "id", ""); err != nil {
		return false, err
	}

	it := map[string]dt.AttributeValue{"id": &dt.AttributeValueMemberS{Value: "k"}}
	for k, v := range item {
		it[k] = v
	}

	if _, err := c.PutItem(ctx, &dynamodb.PutItemInput{TableName: aws.String("f4"), Item: it}); err != nil {
		return false, err
	}

	in := &dynamodb.ScanInput{TableName: aws.String("f4"), FilterExpression: aws.String(expr)}
	if len(values) > 0 {
		in.ExpressionAttributeValues = values
	}

	out, err := c.Scan(ctx, in)
	if err != nil {
		return false, err
	}

	return len(out.Items) == 1, nil
}

func TestAuditC06Find4_PathThroughWrongType(t *testing.T) {
	str := func(v string) dt.AttributeValue { return &dt.AttributeValueMemberS{Value: v} }
	x := map[string]dt.AttributeValue{":x": str("x")}

	asString := map[string]dt.AttributeValue{"a": str("x")}
	asMap := map[string]dt.AttributeValue{"a": &dt.AttributeValueMemberM{Value: map[string]dt.AttributeValue{"b": str("x")}}}
	asList := map[string]dt.AttributeValue{"a": &dt.AttributeValueMemberL{Value: []dt.AttributeValue{str("x")}}}

	cases := []struct {
		name   string
		item   map[string]dt.AttributeValue
		expr   string
		values map[string]dt.AttributeValue
		want   bool
	}{
		{"map key of a string", asString, "attribute_not_exists(a.b)", nil, true},
		{"map key of a string, =", asString, "a.b = :x", x, false},
		{"map key of a string, <>", asString, "a.b <> :x", x, true},
		{"list element of a string", asString, "attribute_exists(a[0])", nil, false},
		{"list element of a map", asMap, "attribute_not_exists(a[0])", nil, true},
		{"map key of a list", asList, "attribute_not_exists(a.b)", nil, true},
		{"below a nested scalar", asMap, "attribute_not_exists(a.b.c)", nil, true},
		{"below a nested scalar, index", asMap, "attribute_exists(a.b[0]) OR a.b = :x", x, true},
	}

	for _, tc := range cases {
		tc := tc

		t.Run(tc.name, func(t *testing.T) {
			got, err := find4Match(tc.item, tc.expr, tc.values)
			if err != nil {
				t.Fatalf("%q must evaluate to %v, it failed instead: %v", tc.expr, tc.want, err)
			}

			if got != tc.want {
				t.Fatalf("%q: expected %v, got %v", tc.expr, tc.want, got)
			}
		})
	}
}
