// PLACE: aws-v1/client  RUN: go test ./aws-v1/client/ -run 'TestC01NilListElement'
package client

// C01 (SDK v1 client): a PutItem whose item holds a list with a nil element succeeds, and from then on GetItem of that
// key (and every Scan / Query that returns the item) panics with a nil pointer dereference in the output mapper: the
// read does not return "the item established by the most recent successful write". DynamoDB rejects the request
// (an AttributeValue must contain exactly one data type). Recorded, not repaired: the repair is a validation of every
// attribute value at every entry point of the SDK v1 client.

import (
	"testing"

	"github.com/aws/aws-sdk-go/aws"
	"github.com/aws/aws-sdk-go/service/dynamodb"
)

func TestC01NilListElement(t *testing.T) {
	c := NewClient()

	if err := AddTable(c, "tbl", "h", ""); err != nil {
		t.Fatal(err)
	}

	_, err := c.PutItem(&dynamodb.PutItemInput{
		TableName: aws.String("tbl"),
		Item: map[string]*dynamodb.AttributeValue{
			"h": {S: aws.String("k")},
			"l": {L: []*dynamodb.AttributeValue{{S: aws.String("x")}, nil}},
		},
	})
	if err != nil {
		t.Logf("the request is rejected: %v", err)

		return
	}

	defer func() {
		if p := recover(); p != nil {
			t.Fatalf("GetItem of the item that PutItem accepted panicked: %v", p)
		}
	}()

	out, err := c.GetItem(&dynamodb.GetItemInput{TableName: aws.String("tbl"), Key: map[string]*dynamodb.AttributeValue{"h": {S: aws.String("k")}}})
	if err != nil || out.Item == nil {
		t.Fatalf("GetItem of the item that PutItem accepted: %v %v", out, err)
	}
}
