// PLACE: aws-v2/client  RUN: TestAuditC09Find9
package client

// C09 finding 9: TransactWriteItems is a stub that never looks at the
// expressions it is given, so a transaction whose ConditionExpression or
// UpdateExpression is not even tokenisable answers success (the SDK v1 client
// has the same stub).  The same expressions are rejected by PutItem /
// UpdateItem / DeleteItem.

import (
	"context"
	"fmt"
	"testing"

	"github.com/aws/aws-sdk-go-v2/aws"
	"github.com/aws/aws-sdk-go-v2/service/dynamodb"
	dynamodbtypes "github.com/aws/aws-sdk-go-v2/service/dynamodb/types"
)

func TestAuditC09Find9TransactWriteItemsIgnoresMalformedExpressions(t *testing.T) {
	client := NewClient()

	if err := AddTable(context.Background(), client, "find9", "id", ""); err != nil {
		t.Fatal(err)
	}

	key := map[string]dynamodbtypes.AttributeValue{"id": &dynamodbtypes.AttributeValueMemberS{Value: "001"}}

	for name, item := range map[string]dynamodbtypes.TransactWriteItem{
		"Put with condition \"id = = )(\"": {Put: &dynamodbtypes.Put{
			TableName:           aws.String("find9"),
			Item:                key,
			ConditionExpression: aws.String("id = = )("),
		}},
		"ConditionCheck \"AND AND\"": {ConditionCheck: &dynamodbtypes.ConditionCheck{
			TableName:           aws.String("find9"),
			Key:                 key,
			ConditionExpression: aws.String("AND AND"),
		}},
		"Update \"SET SET \\x00\"": {Update: &dynamodbtypes.Update{
			TableName:        aws.String("find9"),
			Key:              key,
			UpdateExpression: aws.String("SET SET \x00"),
		}},
		"Delete with condition \"((\"": {Delete: &dynamodbtypes.Delete{
			TableName:           aws.String("find9"),
			Key:                 key,
			ConditionExpression: aws.String("(("),
		}},
	} {
		outcome := func() (outcome string) {
			defer func() {
				if r := recover(); r != nil {
					outcome = fmt.Sprintf("rejected (panic: %v)", r)
				}
			}()

			_, err := client.TransactWriteItems(context.Background(), &dynamodb.TransactWriteItemsInput{
				TransactItems: []dynamodbtypes.TransactWriteItem{item},
			})
			if err != nil {
				return "rejected (" + err.Error() + ")"
			}

			return "success"
		}()

		if outcome == "success" {
			t.Errorf("TransactWriteItems, %s: want an error or the documented panic, got success", name)
		}
	}
}
