// PLACE: aws-v2/client  RUN: TestAuditC07Find8
package client

// C07 finding 8 (edge of the quantifier: the update that has NO actions).
// UpdateExpression is optional: DynamoDB accepts UpdateItem without it, creates
// the item (key attributes only) when it is absent and leaves an existing item
// untouched. The SDK v2 client dereferences the nil pointer and panics
// (mapDynamoToTypesUpdateItemInput: *input.UpdateExpression); the SDK v1 client
// answers ValidationException "invalid update expression".

import (
	"context"
	"testing"

	"github.com/aws/aws-sdk-go-v2/aws"
	"github.com/aws/aws-sdk-go-v2/service/dynamodb"
	dynamodbtypes "github.com/aws/aws-sdk-go-v2/service/dynamodb/types"
)

func TestAuditC07Find8UpdateItemWithoutUpdateExpression(t *testing.T) {
	ctx := context.Background()

	c := NewClient()
	if err := AddTable(ctx, c, "find8", "id", ""); err != nil {
		t.Fatal(err)
	}

	key := map[string]dynamodbtypes.AttributeValue{"id": &dynamodbtypes.AttributeValueMemberS{Value: "k"}}

	func() {
		defer func() {
			if r := recover(); r != nil {
				t.Errorf("UpdateItem without an UpdateExpression panics: %v", r)
			}
		}()

		_, err := c.UpdateItem(ctx, &dynamodb.UpdateItemInput{TableName: aws.String("find8"), Key: key})
		if err != nil {
			t.Errorf("UpdateItem without an UpdateExpression: unexpected error: %v", err)
		}
	}()

	out, err := c.GetItem(ctx, &dynamodb.GetItemInput{TableName: aws.String("find8"), Key: key})
	if err != nil {
		t.Fatal(err)
	}

	if len(out.Item) != 1 {
		t.Errorf("the item must have been created with its key only, GetItem returns %d attributes", len(out.Item))
	}
}
