// PLACE: aws-v1/client  RUN: TestC05Find6
package client_test

// C05 finding 6 (SDK v1 client): a failed condition must surface as the SDK's
// *dynamodb.ConditionalCheckFailedException (aws-sdk-go returns the typed exception since v1.28;
// the module pins v1.40.12). The fake returns an internal *types.baseError (PutItem, DeleteItem) or
// *types.ConditionalCheckFailedException (UpdateItem): only the error code matches, a type switch or
// errors.As on the SDK type - the usual way to detect a lost race - does not see the failure.

import (
	"errors"
	"testing"

	"github.com/aws/aws-sdk-go/aws"
	"github.com/aws/aws-sdk-go/service/dynamodb"
	minidyn "github.com/truora/minidyn/aws-v1/client"
)

func TestC05Find6_TypedException(t *testing.T) {
	c := minidyn.NewClient()
	if err := minidyn.AddTable(c, "users", "id", ""); err != nil {
		t.Fatal(err)
	}

	key := map[string]*dynamodb.AttributeValue{"id": {S: aws.String("u1")}}

	if _, err := c.PutItem(&dynamodb.PutItemInput{TableName: aws.String("users"), Item: key}); err != nil {
		t.Fatal(err)
	}

	check := func(op string, err error) {
		t.Helper()

		if err == nil {
			t.Fatalf("%s: the condition is false, the call must fail", op)
		}

		var typed *dynamodb.ConditionalCheckFailedException
		if !errors.As(err, &typed) {
			t.Errorf("%s: want *dynamodb.ConditionalCheckFailedException, got %T (%v)", op, err, err)
		}
	}

	_, err := c.PutItem(&dynamodb.PutItemInput{TableName: aws.String("users"), Item: key, ConditionExpression: aws.String("attribute_not_exists(id)")})
	check("PutItem", err)

	_, err = c.UpdateItem(&dynamodb.UpdateItemInput{TableName: aws.String("users"), Key: key,
		UpdateExpression: aws.String("SET seen = id"), ConditionExpression: aws.String("attribute_not_exists(id)")})
	check("UpdateItem", err)

	_, err = c.DeleteItem(&dynamodb.DeleteItemInput{TableName: aws.String("users"), Key: key, ConditionExpression: aws.String("attribute_not_exists(id)")})
	check("DeleteItem", err)
}
