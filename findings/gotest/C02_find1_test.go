// PLACE: aws-v2/client  RUN: go test ./aws-v2/client/ -run 'TestAuditC02Find1'
package client

// C02 finding 1: a filter (or any condition) that meets an attribute whose type does not fit the operator makes
// Scan/Query panic. DynamoDB evaluates such a comparison to "no match" for that item and returns the other items.

import (
	"context"
	"fmt"
	"sort"
	"strings"
	"testing"

	"github.com/aws/aws-sdk-go-v2/aws"
	"github.com/aws/aws-sdk-go-v2/service/dynamodb"
	"github.com/aws/aws-sdk-go-v2/service/dynamodb/types"
)

func f1Scan(t *testing.T, c *Client, filter string, vals map[string]types.AttributeValue) (res string) {
	t.Helper()

	defer func() {
		if r := recover(); r != nil {
			res = fmt.Sprintf("PANIC: %v", r)
		}
	}()

	out, err := c.Scan(context.Background(), &dynamodb.ScanInput{
		TableName:                 aws.String("f1"),
		FilterExpression:          aws.String(filter),
		ExpressionAttributeValues: vals,
	})
	if err != nil {
		return "ERROR: " + err.Error()
	}

	if int(out.Count) != len(out.Items) {
		return fmt.Sprintf("count %d but %d items", out.Count, len(out.Items))
	}

	ids := []string{}
	for _, it := range out.Items {
		ids = append(ids, it["id"].(*types.AttributeValueMemberS).Value)
	}

	sort.Strings(ids)

	return strings.Join(ids, ",")
}

func TestAuditC02Find1(t *testing.T) {
	c := NewClient()

	_, err := c.CreateTable(context.Background(), &dynamodb.CreateTableInput{
		TableName:            aws.String("f1"),
		BillingMode:          types.BillingModePayPerRequest,
		AttributeDefinitions: []types.AttributeDefinition{{AttributeName: aws.String("id"), AttributeType: types.ScalarAttributeTypeS}},
		KeySchema:            []types.KeySchemaElement{{AttributeName: aws.String("id"), KeyType: types.KeyTypeHash}},
	})
	if err != nil {
		t.Fatal(err)
	}

	S := func(s string) types.AttributeValue { return &types.AttributeValueMemberS{Value: s} }
	N := func(s string) types.AttributeValue { return &types.AttributeValueMemberN{Value: s} }

	// the attribute "v" holds a number, a string, a map and a list, or is absent
	items := []map[string]types.AttributeValue{
		{"id": S("num"), "v": N("5")},
		{"id": S("str"), "v": S("five")},
		{"id": S("map"), "v": &types.AttributeValueMemberM{Value: map[string]types.AttributeValue{"b": N("5")}}},
		{"id": S("list"), "v": &types.AttributeValueMemberL{Value: []types.AttributeValue{N("5")}}},
		{"id": S("none")},
	}
	for _, it := range items {
		if _, err := c.PutItem(context.Background(), &dynamodb.PutItemInput{TableName: aws.String("f1"), Item: it}); err != nil {
			t.Fatal(err)
		}
	}

	cases := []struct {
		filter string
		vals   map[string]types.AttributeValue
		want   string
	}{
		{"v > :n", map[string]types.AttributeValue{":n": N("1")}, "num"},
		{"v BETWEEN :a AND :b", map[string]types.AttributeValue{":a": N("1"), ":b": N("9")}, "num"},
		{"v.b = :n", map[string]types.AttributeValue{":n": N("5")}, "map"},
		{"v[0] = :n", map[string]types.AttributeValue{":n": N("5")}, "list"},
		{"begins_with(v, :p)", map[string]types.AttributeValue{":p": S("fi")}, "str"},
		{"contains(v, :p)", map[string]types.AttributeValue{":p": S("iv")}, "str"},
		{"attribute_type(v, :t) AND v > :n", map[string]types.AttributeValue{":t": S("N"), ":n": N("1")}, "num"},
	}

	for _, k := range cases {
		if got := f1Scan(t, c, k.filter, k.vals); got != k.want {
			t.Errorf("Scan with filter %q: got %q, want the items %q", k.filter, got, k.want)
		}
	}
}
