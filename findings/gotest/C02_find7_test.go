// PLACE: aws-v2/client  RUN: go test ./aws-v2/client/ -run 'TestAuditC02Find7'
package client

// C02 finding 7: the non-expression condition parameters (ScanFilter, QueryFilter, KeyConditions) are silently ignored:
// a Scan with a ScanFilter returns every item, a Query with KeyConditions returns nothing, a QueryFilter does not filter.

import (
	"context"
	"strings"
	"testing"

	"github.com/aws/aws-sdk-go-v2/aws"
	"github.com/aws/aws-sdk-go-v2/service/dynamodb"
	"github.com/aws/aws-sdk-go-v2/service/dynamodb/types"
)

func TestAuditC02Find7(t *testing.T) {
	c := NewClient()

	if err := AddTable(context.Background(), c, "f7", "pk", "sk"); err != nil {
		t.Fatal(err)
	}

	S := func(s string) types.AttributeValue { return &types.AttributeValueMemberS{Value: s} }

	for _, sk := range []string{"1", "2", "3"} {
		item := map[string]types.AttributeValue{"pk": S("p"), "sk": S(sk), "color": S(map[string]string{"1": "red", "2": "blue", "3": "red"}[sk])}
		if _, err := c.PutItem(context.Background(), &dynamodb.PutItemInput{TableName: aws.String("f7"), Item: item}); err != nil {
			t.Fatal(err)
		}
	}

	sks := func(items []map[string]types.AttributeValue) string {
		out := []string{}
		for _, it := range items {
			out = append(out, it["sk"].(*types.AttributeValueMemberS).Value)
		}

		return strings.Join(out, ",")
	}

	eq := func(v string) types.Condition {
		return types.Condition{ComparisonOperator: types.ComparisonOperatorEq, AttributeValueList: []types.AttributeValue{S(v)}}
	}

	scan, err := c.Scan(context.Background(), &dynamodb.ScanInput{
		TableName:  aws.String("f7"),
		ScanFilter: map[string]types.Condition{"color": eq("red")},
	})
	if err != nil {
		t.Fatal(err)
	}

	if got := sks(scan.Items); got != "1,3" {
		t.Errorf("Scan with ScanFilter color EQ red: got items %q, want %q", got, "1,3")
	}

	query, err := c.Query(context.Background(), &dynamodb.QueryInput{
		TableName:     aws.String("f7"),
		KeyConditions: map[string]types.Condition{"pk": eq("p")},
	})
	if err != nil {
		t.Fatal(err)
	}

	if got := sks(query.Items); got != "1,2,3" {
		t.Errorf("Query with KeyConditions pk EQ p: got items %q, want %q", got, "1,2,3")
	}

	query, err = c.Query(context.Background(), &dynamodb.QueryInput{
		TableName:                 aws.String("f7"),
		KeyConditionExpression:    aws.String("pk = :p"),
		ExpressionAttributeValues: map[string]types.AttributeValue{":p": S("p")},
		QueryFilter:               map[string]types.Condition{"color": eq("red")},
	})
	if err != nil {
		// DynamoDB does not allow mixing expression and non-expression parameters: an error is acceptable here
		return
	}

	if got := sks(query.Items); got != "1,3" {
		t.Errorf("Query with QueryFilter color EQ red: got items %q, want %q (or a ValidationException)", got, "1,3")
	}
}
