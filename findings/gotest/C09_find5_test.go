// PLACE: aws-v2/client  RUN: TestAuditC09Find5
package client

// C09 finding 5: the lexer takes '#' and ':' for identifier letters in any
// position, so juxtaposed tokens such as "title#x", "a:b", "#n#n" and ":x:x"
// are read as ONE name instead of being rejected.  "SET a:b = :x" stores an
// attribute called "a:b", "attribute_not_exists(title:x)" is true.

import (
	"context"
	"errors"
	"fmt"
	"testing"

	"github.com/aws/aws-sdk-go-v2/aws"
	"github.com/aws/aws-sdk-go-v2/service/dynamodb"
	dynamodbtypes "github.com/aws/aws-sdk-go-v2/service/dynamodb/types"
)

func find5Setup(t *testing.T) (*Client, map[string]dynamodbtypes.AttributeValue) {
	t.Helper()

	client := NewClient()

	if err := AddTable(context.Background(), client, "find5", "id", ""); err != nil {
		t.Fatal(err)
	}

	key := map[string]dynamodbtypes.AttributeValue{"id": &dynamodbtypes.AttributeValueMemberS{Value: "001"}}

	item := map[string]dynamodbtypes.AttributeValue{
		"id":    key["id"],
		"title": &dynamodbtypes.AttributeValueMemberS{Value: "x"},
	}

	if _, err := client.PutItem(context.Background(), &dynamodb.PutItemInput{TableName: aws.String("find5"), Item: item}); err != nil {
		t.Fatal(err)
	}

	return client, key
}

func TestAuditC09Find5JuxtaposedTokensInCondition(t *testing.T) {
	x := &dynamodbtypes.AttributeValueMemberS{Value: "x"}

	for _, tc := range []struct {
		condition string
		names     map[string]string
		values    map[string]dynamodbtypes.AttributeValue
	}{
		{"attribute_not_exists(title:x)", nil, nil},
		{"attribute_not_exists(title#x)", nil, nil},
		{"title:x <> :x", nil, map[string]dynamodbtypes.AttributeValue{":x": x}},
		{"#t#t <> :x", map[string]string{"#t": "title"}, map[string]dynamodbtypes.AttributeValue{":x": x}},
	} {
		client, key := find5Setup(t)

		outcome := func() (outcome string) {
			defer func() {
				if r := recover(); r != nil {
					outcome = "rejected"
				}
			}()

			_, err := client.DeleteItem(context.Background(), &dynamodb.DeleteItemInput{
				TableName:                 aws.String("find5"),
				Key:                       key,
				ConditionExpression:       aws.String(tc.condition),
				ExpressionAttributeNames:  tc.names,
				ExpressionAttributeValues: tc.values,
			})

			var apiErr interface{ ErrorCode() string }

			switch {
			case err == nil:
				return "evaluated: condition true"
			case errors.As(err, &apiErr) && apiErr.ErrorCode() == "ConditionalCheckFailedException":
				return "evaluated: condition false"
			}

			return "rejected"
		}()

		if outcome != "rejected" {
			t.Errorf("condition %q juxtaposes two tokens: want rejected, got %s", tc.condition, outcome)
		}
	}
}

func TestAuditC09Find5JuxtaposedTokensInUpdate(t *testing.T) {
	client, key := find5Setup(t)

	outcome := func() (outcome string) {
		defer func() {
			if r := recover(); r != nil {
				outcome = fmt.Sprintf("rejected (panic: %v)", r)
			}
		}()

		_, err := client.UpdateItem(context.Background(), &dynamodb.UpdateItemInput{
			TableName:        aws.String("find5"),
			Key:              key,
			UpdateExpression: aws.String("SET a:b = :x, title#2 = :x"),
			ExpressionAttributeValues: map[string]dynamodbtypes.AttributeValue{
				":x": &dynamodbtypes.AttributeValueMemberS{Value: "x"},
			},
		})
		if err != nil {
			return "rejected (" + err.Error() + ")"
		}

		return "success"
	}()

	out, err := client.GetItem(context.Background(), &dynamodb.GetItemInput{TableName: aws.String("find5"), Key: key})
	if err != nil {
		t.Fatal(err)
	}

	names := []string{}
	for name := range out.Item {
		names = append(names, name)
	}

	if outcome == "success" {
		t.Errorf("update %q: want a syntax error, got success; the item now has the attributes %v", "SET a:b = :x, title#2 = :x", names)
	}
}
