// PLACE: aws-v2/client  RUN: go test ./aws-v2/client/ -run 'TestC18DuplicateIndexNames'
package client_test

// C18 (reported by a round-4 sub-agent, confirmed): CreateTable with two global secondary indexes of the same name
// succeeds and keeps one of them (the description lists a single index, keyed as the last declaration says). DynamoDB
// refuses the request (ValidationException: Duplicate index name). Recorded, not repaired.

import (
	"context"
	"testing"

	"github.com/aws/aws-sdk-go-v2/aws"
	"github.com/aws/aws-sdk-go-v2/service/dynamodb"
	"github.com/aws/aws-sdk-go-v2/service/dynamodb/types"
	"github.com/truora/minidyn/aws-v2/client"
)

func TestC18DuplicateIndexNames(t *testing.T) {
	c := client.NewClient()

	gsi := func(attr string) types.GlobalSecondaryIndex {
		return types.GlobalSecondaryIndex{IndexName: aws.String("idx"), Projection: &types.Projection{ProjectionType: types.ProjectionTypeAll},
			KeySchema: []types.KeySchemaElement{{AttributeName: aws.String(attr), KeyType: types.KeyTypeHash}}}
	}

	out, err := c.CreateTable(context.Background(), &dynamodb.CreateTableInput{
		TableName:   aws.String("tbl"),
		BillingMode: types.BillingModePayPerRequest,
		AttributeDefinitions: []types.AttributeDefinition{{AttributeName: aws.String("h"), AttributeType: "S"},
			{AttributeName: aws.String("g"), AttributeType: "S"}, {AttributeName: aws.String("f"), AttributeType: "S"}},
		KeySchema:              []types.KeySchemaElement{{AttributeName: aws.String("h"), KeyType: types.KeyTypeHash}},
		GlobalSecondaryIndexes: []types.GlobalSecondaryIndex{gsi("g"), gsi("f")},
	})
	if err == nil {
		t.Fatalf("two indexes named idx were accepted; the table now has %d", len(out.TableDescription.GlobalSecondaryIndexes))
	}
}
