// PLACE: aws-v2/client  RUN: go test ./aws-v2/client/ -run 'TestC19Find2'
package client

// Property C19: BatchGetItem returns exactly what the individual GetItem calls return. A key that
// GetItem rejects with a ValidationException (key attribute missing, key attribute of the wrong
// type) is not rejected by BatchGetItem: the call succeeds and reports the key in UnprocessedKeys.

import (
	"context"
	"errors"
	"testing"

	"github.com/aws/aws-sdk-go-v2/aws"
	"github.com/aws/aws-sdk-go-v2/service/dynamodb"
	dynamodbtypes "github.com/aws/aws-sdk-go-v2/service/dynamodb/types"
	"github.com/aws/smithy-go"
)

func c19find2Batch(t *testing.T, client *Client, table string, keys ...map[string]dynamodbtypes.AttributeValue) (*dynamodb.BatchGetItemOutput, error) {
	t.Helper()

	return client.BatchGetItem(context.Background(), &dynamodb.BatchGetItemInput{
		RequestItems: map[string]dynamodbtypes.KeysAndAttributes{table: {Keys: keys}},
	})
}

func TestC19Find2BatchGetInvalidKey(t *testing.T) {
	ctx := context.Background()
	client := NewClient()

	if err := AddTable(ctx, client, "c19-keys", "h", "r"); err != nil {
		t.Fatal(err)
	}

	stored := map[string]dynamodbtypes.AttributeValue{
		"h": &dynamodbtypes.AttributeValueMemberS{Value: "a"},
		"r": &dynamodbtypes.AttributeValueMemberS{Value: "1"},
	}

	if _, err := client.PutItem(ctx, &dynamodb.PutItemInput{TableName: aws.String("c19-keys"), Item: stored}); err != nil {
		t.Fatal(err)
	}

	cases := map[string]map[string]dynamodbtypes.AttributeValue{
		"range key missing": {
			"h": &dynamodbtypes.AttributeValueMemberS{Value: "a"},
		},
		"range key of the wrong type": {
			"h": &dynamodbtypes.AttributeValueMemberS{Value: "a"},
			"r": &dynamodbtypes.AttributeValueMemberN{Value: "1"},
		},
		"hash key misspelt": {
			"hh": &dynamodbtypes.AttributeValueMemberS{Value: "a"},
			"r":  &dynamodbtypes.AttributeValueMemberS{Value: "1"},
		},
	}

	for name, key := range cases {
		key := key

		t.Run(name, func(t *testing.T) {
			_, getErr := client.GetItem(ctx, &dynamodb.GetItemInput{TableName: aws.String("c19-keys"), Key: key})

			var apiErr smithy.APIError
			if getErr == nil {
				t.Fatalf("precondition: GetItem accepts the key")
			}

			out, err := c19find2Batch(t, client, "c19-keys", stored, key)
			if err == nil {
				t.Errorf("GetItem rejects the key (%v) but BatchGetItem succeeds: %d item(s), %d unprocessed key(s)",
					getErr, len(out.Responses["c19-keys"]), len(out.UnprocessedKeys["c19-keys"].Keys))

				return
			}

			if !errors.As(err, &apiErr) || apiErr.ErrorCode() != "ValidationException" {
				t.Errorf("want a ValidationException, got %v", err)
			}
		})
	}
}
