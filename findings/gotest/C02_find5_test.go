// PLACE: aws-v2/client  RUN: go test ./aws-v2/client/ -run 'TestAuditC02Find5'
package client

// C02 finding 5: on a Query with a FilterExpression, Limit is consumed by the items of OTHER partitions that the fake
// walks over. DynamoDB evaluates (at most) Limit items that satisfy the key condition and returns those that pass the
// filter; the fake returns an empty page (and a LastEvaluatedKey that belongs to another partition).

import (
	"context"
	"strings"
	"testing"

	"github.com/aws/aws-sdk-go-v2/aws"
	"github.com/aws/aws-sdk-go-v2/service/dynamodb"
	"github.com/aws/aws-sdk-go-v2/service/dynamodb/types"
)

func TestAuditC02Find5(t *testing.T) {
	c := NewClient()

	if err := AddTable(context.Background(), c, "f5", "pk", "sk"); err != nil {
		t.Fatal(err)
	}

	S := func(s string) types.AttributeValue { return &types.AttributeValueMemberS{Value: s} }

	for _, pk := range []string{"a", "b", "c"} {
		for _, sk := range []string{"1", "2", "3"} {
			item := map[string]types.AttributeValue{"pk": S(pk), "sk": S(sk), "kind": S("event")}
			if _, err := c.PutItem(context.Background(), &dynamodb.PutItemInput{TableName: aws.String("f5"), Item: item}); err != nil {
				t.Fatal(err)
			}
		}
	}

	for _, forward := range []bool{true, false} {
		// "the two oldest / newest items of partition b, if they are events": every item passes the filter
		out, err := c.Query(context.Background(), &dynamodb.QueryInput{
			TableName:                 aws.String("f5"),
			KeyConditionExpression:    aws.String("pk = :p"),
			FilterExpression:          aws.String("kind = :k"),
			ExpressionAttributeValues: map[string]types.AttributeValue{":p": S("b"), ":k": S("event")},
			Limit:                     aws.Int32(2),
			ScanIndexForward:          aws.Bool(forward),
		})
		if err != nil {
			t.Fatal(err)
		}

		got := []string{}
		for _, it := range out.Items {
			got = append(got, it["pk"].(*types.AttributeValueMemberS).Value+it["sk"].(*types.AttributeValueMemberS).Value)
		}

		want := "b1,b2"
		if !forward {
			want = "b3,b2"
		}

		if strings.Join(got, ",") != want {
			t.Errorf("forward=%v: page holds %q, want %q", forward, strings.Join(got, ","), want)
		}

		if pk, ok := out.LastEvaluatedKey["pk"].(*types.AttributeValueMemberS); ok && pk.Value != "b" {
			t.Errorf("forward=%v: LastEvaluatedKey is in partition %q, the query addresses partition \"b\"", forward, pk.Value)
		}

		if int(out.Count) != len(out.Items) {
			t.Errorf("count %d, items %d", out.Count, len(out.Items))
		}
	}
}
