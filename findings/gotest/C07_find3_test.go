// PLACE: aws-v1/client  RUN: TestAuditC07Find3
package client

// C07 finding 3: several SET actions that address list elements beyond the end
// of the list. DynamoDB appends the new elements "sorted in order by element
// number" (Developer Guide, "Adding elements to a list"); minidyn appends them
// in the order the actions are written.

import (
	"strings"
	"testing"

	"github.com/aws/aws-sdk-go/aws"
	"github.com/aws/aws-sdk-go/service/dynamodb"
)

func TestAuditC07Find3AppendedElementsAreSortedByIndex(t *testing.T) {
	c := NewClient()
	if err := AddTable(c, "find3", "id", ""); err != nil {
		t.Fatal(err)
	}

	key := map[string]*dynamodb.AttributeValue{"id": {S: aws.String("k")}}

	_, err := c.PutItem(&dynamodb.PutItemInput{
		TableName: aws.String("find3"),
		Item: map[string]*dynamodb.AttributeValue{
			"id": {S: aws.String("k")},
			"l":  {L: []*dynamodb.AttributeValue{{S: aws.String("zero")}}},
		},
	})
	if err != nil {
		t.Fatal(err)
	}

	_, err = c.UpdateItem(&dynamodb.UpdateItemInput{
		TableName:        aws.String("find3"),
		Key:              key,
		UpdateExpression: aws.String("SET l[9] = :nine, l[5] = :five, l[7] = :seven"),
		ExpressionAttributeValues: map[string]*dynamodb.AttributeValue{
			":five":  {S: aws.String("five")},
			":seven": {S: aws.String("seven")},
			":nine":  {S: aws.String("nine")},
		},
	})
	if err != nil {
		t.Fatal(err)
	}

	out, err := c.GetItem(&dynamodb.GetItemInput{TableName: aws.String("find3"), Key: key})
	if err != nil {
		t.Fatal(err)
	}

	got := []string{}
	for _, e := range out.Item["l"].L {
		got = append(got, aws.StringValue(e.S))
	}

	if want := "zero five seven nine"; strings.Join(got, " ") != want {
		t.Errorf("l = [%s], want [%s]", strings.Join(got, " "), want)
	}
}
