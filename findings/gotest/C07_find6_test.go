// PLACE: aws-v1/client  RUN: TestAuditC07Find6
package client

// C07 finding 6: DELETE on a document path (a set that lives inside a map or a
// list) reports success and changes nothing. evalActionDelete only handles a
// plain identifier on the left-hand side. (Sibling of the recorded "ADD on a
// nested path is ignored" - a different function, it needs its own repair.)

import (
	"sort"
	"strings"
	"testing"

	"github.com/aws/aws-sdk-go/aws"
	"github.com/aws/aws-sdk-go/service/dynamodb"
)

func TestAuditC07Find6DeleteOnNestedPath(t *testing.T) {
	cases := map[string]struct {
		expr string
		read func(item map[string]*dynamodb.AttributeValue) *dynamodb.AttributeValue
	}{
		"map member": {
			expr: "DELETE m.s :v",
			read: func(item map[string]*dynamodb.AttributeValue) *dynamodb.AttributeValue { return item["m"].M["s"] },
		},
		"list element": {
			expr: "DELETE l[0] :v",
			read: func(item map[string]*dynamodb.AttributeValue) *dynamodb.AttributeValue { return item["l"].L[0] },
		},
	}

	for name, tc := range cases {
		tc := tc

		t.Run(name, func(t *testing.T) {
			c := NewClient()
			if err := AddTable(c, "find6", "id", ""); err != nil {
				t.Fatal(err)
			}

			key := map[string]*dynamodb.AttributeValue{"id": {S: aws.String("k")}}
			set := func() *dynamodb.AttributeValue {
				return &dynamodb.AttributeValue{SS: aws.StringSlice([]string{"a", "b"})}
			}

			_, err := c.PutItem(&dynamodb.PutItemInput{
				TableName: aws.String("find6"),
				Item: map[string]*dynamodb.AttributeValue{
					"id": {S: aws.String("k")},
					"m":  {M: map[string]*dynamodb.AttributeValue{"s": set()}},
					"l":  {L: []*dynamodb.AttributeValue{set()}},
				},
			})
			if err != nil {
				t.Fatal(err)
			}

			_, err = c.UpdateItem(&dynamodb.UpdateItemInput{
				TableName:        aws.String("find6"),
				Key:              key,
				UpdateExpression: aws.String(tc.expr),
				ExpressionAttributeValues: map[string]*dynamodb.AttributeValue{
					":v": {SS: aws.StringSlice([]string{"a"})},
				},
			})
			if err != nil {
				t.Fatal(err)
			}

			out, err := c.GetItem(&dynamodb.GetItemInput{TableName: aws.String("find6"), Key: key})
			if err != nil {
				t.Fatal(err)
			}

			got := aws.StringValueSlice(tc.read(out.Item).SS)
			sort.Strings(got)

			if strings.Join(got, ",") != "b" {
				t.Errorf("%s: the set is %v, want [b]", tc.expr, got)
			}
		})
	}
}
