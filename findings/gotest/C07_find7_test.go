// PLACE: aws-v1/client  RUN: TestAuditC07Find7
package client

// C07 finding 7: ADD is defined for numbers and sets only. On an attribute that
// holds a LIST DynamoDB rejects the request (ValidationException: "An operand in
// the update expression has an incorrect data type") and leaves the item alone;
// minidyn treats ADD as an append: a scalar operand becomes a new element and a
// list operand is concatenated.

import (
	"testing"

	"github.com/aws/aws-sdk-go/aws"
	"github.com/aws/aws-sdk-go/service/dynamodb"
)

func TestAuditC07Find7AddOnList(t *testing.T) {
	operands := map[string]*dynamodb.AttributeValue{
		"number operand": {N: aws.String("2")},
		"list operand":   {L: []*dynamodb.AttributeValue{{N: aws.String("2")}}},
	}

	for name, operand := range operands {
		operand := operand

		t.Run(name, func(t *testing.T) {
			c := NewClient()
			if err := AddTable(c, "find7", "id", ""); err != nil {
				t.Fatal(err)
			}

			key := map[string]*dynamodb.AttributeValue{"id": {S: aws.String("k")}}

			_, err := c.PutItem(&dynamodb.PutItemInput{
				TableName: aws.String("find7"),
				Item: map[string]*dynamodb.AttributeValue{
					"id": {S: aws.String("k")},
					"l":  {L: []*dynamodb.AttributeValue{{N: aws.String("1")}}},
				},
			})
			if err != nil {
				t.Fatal(err)
			}

			_, err = c.UpdateItem(&dynamodb.UpdateItemInput{
				TableName:                 aws.String("find7"),
				Key:                       key,
				UpdateExpression:          aws.String("ADD l :v"),
				ExpressionAttributeValues: map[string]*dynamodb.AttributeValue{":v": operand},
			})
			if err == nil {
				t.Errorf("ADD on a list attribute must be rejected")
			}

			out, gerr := c.GetItem(&dynamodb.GetItemInput{TableName: aws.String("find7"), Key: key})
			if gerr != nil {
				t.Fatal(gerr)
			}

			if n := len(out.Item["l"].L); n != 1 {
				t.Errorf("the list has %d elements after the update, want the 1 it had: %s", n, out.Item["l"].String())
			}
		})
	}
}
