package interpreter_test

import (
	"testing"

	"github.com/truora/minidyn/interpreter"
	"github.com/truora/minidyn/types"
)

func TestReproNativeExpressionKey(t *testing.T) {
	native := interpreter.NewNativeInterpreter()

	native.AddMatcher("t", interpreter.ExpressionTypeFilter, "x = :y", func(item, attrs map[string]*types.Item) bool {
		return true
	})

	match := func(expr string) (bool, error) {
		return native.Match(interpreter.MatchInput{
			TableName:      "t",
			Expression:     expr,
			ExpressionType: interpreter.ExpressionTypeFilter,
		})
	}

	// an anagram of the registered expression is a different expression
	for _, expr := range []string{"y = :x", ":y = x", "=x: y "} {
		if ok, err := match(expr); err == nil {
			t.Errorf("matcher registered for %q fired for %q (result %v)", "x = :y", expr, ok)
		}
	}

	// surrounding and repeated whitespace does not matter
	for _, expr := range []string{"x = :y", "  x = :y  ", "x  =  :y", "x\t=\n:y", " x   = :y\n"} {
		if ok, err := match(expr); err != nil || !ok {
			t.Errorf("matcher registered for %q did not fire for %q: %v", "x = :y", expr, err)
		}
	}

	called := 0

	native.AddUpdater("t", "SET  a =  :b", func(item, attrs map[string]*types.Item) { called++ })

	if err := native.Update(interpreter.UpdateInput{TableName: "t", Expression: "SET a = :b"}); err != nil {
		t.Errorf("updater not found for whitespace variant: %v", err)
	}

	if err := native.Update(interpreter.UpdateInput{TableName: "t", Expression: "SET b = :a"}); err == nil {
		t.Errorf("updater registered for %q fired for the anagram %q", "SET  a =  :b", "SET b = :a")
	}

	if called != 1 {
		t.Errorf("updater called %d times, want 1", called)
	}
}
