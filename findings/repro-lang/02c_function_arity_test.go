package interpreter_test

import (
	"errors"
	"testing"

	"github.com/truora/minidyn/interpreter"
	"github.com/truora/minidyn/types"
)

func TestReproFunctionArity(t *testing.T) {
	li := &interpreter.Language{}

	newItem := func() map[string]*types.Item {
		return map[string]*types.Item{
			"a": {S: types.ToString("abc")},
			"l": {L: []*types.Item{{S: types.ToString("a")}}},
		}
	}
	attrs := map[string]*types.Item{
		":s": {S: types.ToString("a")},
		":t": {S: types.ToString("S")},
		":n": {N: types.ToString("3")},
	}

	conditions := []struct {
		expr    string
		want    bool
		wantErr bool
	}{
		{"attribute_exists()", false, true},
		{"attribute_exists(a, a)", false, true},
		{"attribute_not_exists()", false, true},
		{"begins_with(a)", false, true},
		{"begins_with()", false, true},
		{"attribute_type(a)", false, true},
		{"contains(a)", false, true},
		{"contains(a, :s, :s)", false, true},
		{"size() = :n", false, true},
		{"size(a, a) = :n", false, true},
		// well formed calls keep working
		{"attribute_exists(a)", true, false},
		{"attribute_not_exists(a)", false, false},
		{"begins_with(a, :s)", true, false},
		{"attribute_type(a, :t)", true, false},
		{"contains(a, :s)", true, false},
		{"size(a) = :n", true, false},
	}

	for _, c := range conditions {
		func() {
			defer func() {
				if r := recover(); r != nil {
					t.Errorf("%q panicked: %v", c.expr, r)
				}
			}()

			got, err := li.Match(interpreter.MatchInput{
				TableName:      "t",
				Expression:     c.expr,
				ExpressionType: interpreter.ExpressionTypeConditional,
				Item:           newItem(),
				Attributes:     attrs,
			})

			if c.wantErr {
				if err == nil || !errors.Is(err, interpreter.ErrSyntaxError) || got {
					t.Errorf("%q: expected a syntax error, got result=%v err=%v", c.expr, got, err)
				}

				return
			}

			if err != nil || got != c.want {
				t.Errorf("%q: got %v err=%v, want %v", c.expr, got, err, c.want)
			}
		}()
	}

	updates := []struct {
		expr    string
		wantErr bool
	}{
		{"SET b = if_not_exists(a)", true},
		{"SET b = if_not_exists()", true},
		{"SET l = list_append(l)", true},
		{"SET l = list_append(l, l, l)", true},
		{"SET b = if_not_exists(b, :s)", false},
		{"SET l = list_append(l, l)", false},
	}

	for _, c := range updates {
		func() {
			defer func() {
				if r := recover(); r != nil {
					t.Errorf("%q panicked: %v", c.expr, r)
				}
			}()

			err := li.Update(interpreter.UpdateInput{
				TableName:  "t",
				Expression: c.expr,
				Item:       newItem(),
				Attributes: attrs,
			})

			if c.wantErr && (err == nil || !errors.Is(err, interpreter.ErrSyntaxError)) {
				t.Errorf("%q: expected a syntax error, got %v", c.expr, err)
			}

			if !c.wantErr && err != nil {
				t.Errorf("%q: unexpected error %v", c.expr, err)
			}
		}()
	}
}
