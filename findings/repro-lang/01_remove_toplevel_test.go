package interpreter_test

import (
	"testing"

	"github.com/truora/minidyn/interpreter"
	"github.com/truora/minidyn/types"
)

func TestReproRemoveTopLevel(t *testing.T) {
	li := &interpreter.Language{}

	item := map[string]*types.Item{
		"h": {S: types.ToString("a")},
		"g": {S: types.ToString("x")},
	}

	err := li.Update(interpreter.UpdateInput{TableName: "t", Expression: "REMOVE g", Item: item})
	if err != nil {
		t.Fatalf("unexpected error: %v", err)
	}

	if _, ok := item["g"]; ok {
		t.Errorf("REMOVE g: attribute g still present")
	}

	if h, ok := item["h"]; !ok || h.S == nil || *h.S != "a" || len(item) != 1 {
		t.Errorf("REMOVE g: other attributes changed: %v", item)
	}

	// aliased name
	item = map[string]*types.Item{
		"h": {S: types.ToString("a")},
		"g": {S: types.ToString("x")},
		"k": {N: types.ToString("1")},
	}

	err = li.Update(interpreter.UpdateInput{
		TableName:  "t",
		Expression: "SET k = :v REMOVE #g",
		Item:       item,
		Aliases:    map[string]string{"#g": "g"},
		Attributes: map[string]*types.Item{":v": {N: types.ToString("2")}},
	})
	if err != nil {
		t.Fatalf("unexpected error: %v", err)
	}

	if _, ok := item["g"]; ok {
		t.Errorf("REMOVE #g: attribute g still present")
	}

	if len(item) != 2 || *item["h"].S != "a" || *item["k"].N != "2" {
		t.Errorf("REMOVE #g: unexpected item: %v", item)
	}

	if _, ok := item[":v"]; ok {
		t.Errorf("placeholder leaked into the item")
	}

	// removing a missing attribute is a no-op
	item = map[string]*types.Item{"h": {S: types.ToString("a")}}

	err = li.Update(interpreter.UpdateInput{TableName: "t", Expression: "REMOVE zz", Item: item})
	if err != nil {
		t.Fatalf("unexpected error: %v", err)
	}

	if len(item) != 1 {
		t.Errorf("unexpected item: %v", item)
	}
}
