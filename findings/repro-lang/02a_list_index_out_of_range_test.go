package interpreter_test

import (
	"testing"

	"github.com/truora/minidyn/interpreter"
	"github.com/truora/minidyn/types"
)

func TestReproListIndexOutOfRange(t *testing.T) {
	li := &interpreter.Language{}

	item := map[string]*types.Item{
		"l": {L: []*types.Item{{S: types.ToString("a")}}},
	}
	attrs := map[string]*types.Item{":v": {S: types.ToString("a")}}

	cases := []struct {
		expr string
		want bool
	}{
		{"l[0] = :v", true},
		{"l[5] = :v", false},
		{"l[1] = :v", false},
		{"attribute_exists(l[5])", false},
		{"attribute_not_exists(l[5])", true},
		{"l[5][0] = :v", false},
	}

	for _, c := range cases {
		func() {
			defer func() {
				if r := recover(); r != nil {
					t.Errorf("%q panicked: %v", c.expr, r)
				}
			}()

			got, err := li.Match(interpreter.MatchInput{
				TableName:      "t",
				Expression:     c.expr,
				ExpressionType: interpreter.ExpressionTypeConditional,
				Item:           item,
				Attributes:     attrs,
			})
			if err != nil {
				t.Errorf("%q: unexpected error %v", c.expr, err)
			}

			if got != c.want {
				t.Errorf("%q: got %v, want %v", c.expr, got, c.want)
			}
		}()
	}
}
