package interpreter_test

import (
	"errors"
	"testing"

	"github.com/truora/minidyn/interpreter"
	"github.com/truora/minidyn/interpreter/language"
	"github.com/truora/minidyn/types"
)

func TestReproNulByte(t *testing.T) {
	// lexer level: a 0 byte inside of the input is not the end of the input
	l := language.NewLexer("a\x00b")

	toks := []language.Token{}
	for i := 0; i < 5; i++ {
		toks = append(toks, l.NextToken())
	}

	if toks[1].Type != language.ILLEGAL {
		t.Errorf("token for the NUL byte: got %q, want ILLEGAL", toks[1].Type)
	}

	if toks[2].Type != language.IDENT || toks[2].Literal != "b" {
		t.Errorf("token after the NUL byte: got %v", toks[2])
	}

	if toks[3].Type != language.EOF || toks[4].Type != language.EOF {
		t.Errorf("expected EOF at the end of the input, got %v %v", toks[3], toks[4])
	}

	li := &interpreter.Language{}
	item := map[string]*types.Item{"a": {S: types.ToString("x")}}
	attrs := map[string]*types.Item{":x": {S: types.ToString("x")}}

	for _, expr := range []string{"a = :x\x00 garbage", "a = :x\x00", "\x00a = :x", "a = :x \x00 AND a = :x"} {
		got, err := li.Match(interpreter.MatchInput{
			TableName:      "t",
			Expression:     expr,
			ExpressionType: interpreter.ExpressionTypeConditional,
			Item:           item,
			Attributes:     attrs,
		})
		if err == nil || !errors.Is(err, interpreter.ErrSyntaxError) || got {
			t.Errorf("Match(%q): expected a syntax error, got result=%v err=%v", expr, got, err)
		}
	}

	for _, expr := range []string{"SET a = :x\x00 garbage", "SET a = :x\x00"} {
		it := map[string]*types.Item{"a": {S: types.ToString("y")}}

		err := li.Update(interpreter.UpdateInput{TableName: "t", Expression: expr, Item: it, Attributes: attrs})
		if err == nil {
			t.Errorf("Update(%q): expected an error, got nil", expr)
		}
	}

	got, err := li.Match(interpreter.MatchInput{
		TableName: "t", Expression: "a = :x", ExpressionType: interpreter.ExpressionTypeConditional, Item: item, Attributes: attrs,
	})
	if err != nil || !got {
		t.Errorf("valid expression: got %v err=%v", got, err)
	}
}
