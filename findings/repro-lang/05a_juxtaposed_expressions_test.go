package interpreter_test

import (
	"errors"
	"testing"

	"github.com/truora/minidyn/interpreter"
	"github.com/truora/minidyn/types"
)

func TestReproJuxtaposedExpressions(t *testing.T) {
	li := &interpreter.Language{}

	newItem := func() map[string]*types.Item {
		return map[string]*types.Item{
			"g": {S: types.ToString("x")},
			"a": {S: types.ToString("x")},
			"b": {S: types.ToString("y")},
			"c": {N: types.ToString("1")},
		}
	}
	attrs := map[string]*types.Item{
		":x":   {S: types.ToString("x")},
		":y":   {S: types.ToString("y")},
		":no":  {S: types.ToString("no")},
		":one": {N: types.ToString("1")},
	}

	conditions := []struct {
		expr    string
		want    bool
		wantErr bool
	}{
		{"g = :no g = :x", false, true},
		{"a = :x and b = :y", false, true},
		{"a = :no and b = :y", false, true},
		{"a = :x b", false, true},
		{"(a = :x) (b = :y)", false, true},
		{"a = :x NOT b = :y", false, true},
		{"attribute_exists(a) attribute_exists(b)", false, true},
		{"a = :x)", false, true},
		// valid conditions
		{"g = :x", true, false},
		{"a = :x AND b = :y", true, false},
		{"a = :no OR (b = :y AND NOT a = :no)", true, false},
		{"(a = :x)", true, false},
		{"a IN (:x, :y) AND b BETWEEN :x AND :y", true, false},
		{"attribute_exists(a) AND begins_with(b, :y)", true, false},
		{"  a = :x  ", true, false},
	}

	for _, c := range conditions {
		got, err := li.Match(interpreter.MatchInput{
			TableName:      "t",
			Expression:     c.expr,
			ExpressionType: interpreter.ExpressionTypeConditional,
			Item:           newItem(),
			Attributes:     attrs,
		})

		if c.wantErr {
			if err == nil || !errors.Is(err, interpreter.ErrSyntaxError) || got {
				t.Errorf("%q: expected a syntax error, got result=%v err=%v", c.expr, got, err)
			}

			continue
		}

		if err != nil || got != c.want {
			t.Errorf("%q: got %v err=%v, want %v", c.expr, got, err, c.want)
		}
	}

	updates := []struct {
		expr    string
		wantErr bool
	}{
		{"a SET b = :x", true},
		{"(a) SET b = :x", true},
		{"a b SET b = :x", true},
		{"SET b = :x c", true},
		{"SET a = :x REMOVE b ADD c :one", false},
		{"SET a = :y, b = :x", false},
		{"REMOVE a, b", false},
		{"ADD c :one SET a = if_not_exists(zz, :y)", false},
		{"  SET a = :y  ", false},
	}

	for _, c := range updates {
		item := newItem()

		err := li.Update(interpreter.UpdateInput{TableName: "t", Expression: c.expr, Item: item, Attributes: attrs})

		if c.wantErr {
			if err == nil {
				t.Errorf("%q: expected an error, got nil (item %v)", c.expr, item)
			}

			continue
		}

		if err != nil {
			t.Errorf("%q: unexpected error %v", c.expr, err)
		}
	}

	item := newItem()

	err := li.Update(interpreter.UpdateInput{
		TableName: "t", Expression: "SET a = :y REMOVE b ADD c :one", Item: item, Attributes: attrs,
	})
	if err != nil {
		t.Fatalf("unexpected error %v", err)
	}

	if *item["a"].S != "y" || item["b"] != nil || *item["c"].N != "2" || len(item) != 3 {
		t.Errorf("unexpected item after multi clause update: %v", item)
	}
}
