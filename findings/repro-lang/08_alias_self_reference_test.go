package interpreter_test

import (
	"os"
	"os/exec"
	"strings"
	"testing"

	"github.com/truora/minidyn/interpreter"
	"github.com/truora/minidyn/types"
)

// TestReproAliasSelfReference runs the match in a child process: with the
// defect the alias expansion recurses until the stack overflows (fatal).
func TestReproAliasSelfReference(t *testing.T) {
	if os.Getenv("REPRO_ALIAS_CHILD") == "1" {
		li := &interpreter.Language{}

		cases := []struct {
			expr    string
			aliases map[string]string
			want    bool
		}{
			{"#a = :v", map[string]string{"#a": "#a"}, false},
			{"attribute_not_exists(#a)", map[string]string{"#a": "#a"}, true},
			{"#a = :v", map[string]string{"#a": "#b", "#b": "#a"}, false},
			{"#m.#a = :v", map[string]string{"#m": "m", "#a": "#a"}, false},
			// regular aliases keep working
			{"#h = :v", map[string]string{"#h": "h"}, true},
			{"#m.#k = :v", map[string]string{"#m": "m", "#k": "k"}, true},
		}

		for _, c := range cases {
			got, err := li.Match(interpreter.MatchInput{
				TableName:      "t",
				Expression:     c.expr,
				ExpressionType: interpreter.ExpressionTypeConditional,
				Item: map[string]*types.Item{
					"h": {S: types.ToString("x")},
					"m": {M: map[string]*types.Item{"k": {S: types.ToString("x")}}},
				},
				Attributes: map[string]*types.Item{":v": {S: types.ToString("x")}},
				Aliases:    c.aliases,
			})
			if err != nil {
				// an error is acceptable for the cyclic aliases, a wrong result is not
				if c.want {
					t.Errorf("%q %v: unexpected error %v", c.expr, c.aliases, err)
				}

				continue
			}

			if got != c.want {
				t.Errorf("%q %v: got %v, want %v", c.expr, c.aliases, got, c.want)
			}
		}

		return
	}

	cmd := exec.Command(os.Args[0], "-test.run=^TestReproAliasSelfReference$", "-test.v")
	cmd.Env = append(os.Environ(), "REPRO_ALIAS_CHILD=1", "GOTRACEBACK=none", "GOMAXPROCS=1")

	out, err := cmd.CombinedOutput()
	if err != nil {
		lines := strings.Split(string(out), "\n")
		if len(lines) > 6 {
			lines = lines[:6]
		}

		t.Fatalf("child failed: %v\n%s", err, strings.Join(lines, "\n"))
	}
}
