package interpreter_test

import (
	"errors"
	"testing"

	"github.com/truora/minidyn/interpreter"
	"github.com/truora/minidyn/types"
)

func TestReproNullAttributeExists(t *testing.T) {
	li := &interpreter.Language{}

	null := true
	item := map[string]*types.Item{
		"n":  {NULL: &null},
		"s":  {S: types.ToString("abc")},
		"l":  {L: []*types.Item{{S: types.ToString("a")}}},
		"nb": {N: types.ToString("1")},
	}
	attrs := map[string]*types.Item{
		":null": {S: types.ToString("NULL")},
		":str":  {S: types.ToString("S")},
		":s":    {S: types.ToString("a")},
		":n":    {N: types.ToString("1")},
	}

	cases := []struct {
		expr    string
		want    bool
		wantErr bool
	}{
		{"attribute_exists(n)", true, false},
		{"attribute_not_exists(n)", false, false},
		{"attribute_type(n, :null)", true, false},
		{"attribute_type(n, :str)", false, false},
		{"attribute_exists(zz)", false, false},
		{"attribute_not_exists(zz)", true, false},
		{"attribute_type(zz, :null)", false, false},
		{"attribute_type(zz, :str)", false, false},
		{"attribute_exists(l[3])", false, false},
		{"attribute_type(l[3], :null)", false, false},
		{"attribute_exists(s)", true, false},
		{"attribute_type(s, :str)", true, false},
		{"begins_with(zz, :s)", false, false},
		{"contains(zz, :s)", false, false},
		{"NOT begins_with(zz, :s)", true, false},
		{"NOT contains(zz, :s)", true, false},
		{"begins_with(s, :s)", true, false},
		{"contains(s, :s)", true, false},
		{"contains(l, :s)", true, false},
		// genuinely wrong operand types are still errors
		{"begins_with(nb, :s)", false, true},
		{"begins_with(s, :n)", false, true},
		{"contains(nb, :s)", false, true},
		{"attribute_type(s, :s)", false, true},
	}

	for _, c := range cases {
		got, err := li.Match(interpreter.MatchInput{
			TableName:      "t",
			Expression:     c.expr,
			ExpressionType: interpreter.ExpressionTypeConditional,
			Item:           item,
			Attributes:     attrs,
		})

		if c.wantErr {
			if err == nil || !errors.Is(err, interpreter.ErrSyntaxError) || got {
				t.Errorf("%q: expected a syntax error, got result=%v err=%v", c.expr, got, err)
			}

			continue
		}

		if err != nil {
			t.Errorf("%q: unexpected error %v", c.expr, err)
		}

		if got != c.want {
			t.Errorf("%q: got %v, want %v", c.expr, got, c.want)
		}
	}
}
