package interpreter_test

import (
	"errors"
	"testing"

	"github.com/truora/minidyn/interpreter"
	"github.com/truora/minidyn/types"
)

func TestReproCompareMismatchedTypes(t *testing.T) {
	li := &interpreter.Language{}

	item := map[string]*types.Item{
		"n": {N: types.ToString("1")},
		"s": {S: types.ToString("x")},
		"b": {B: []byte("x")},
	}
	attrs := map[string]*types.Item{
		":s": {S: types.ToString("x")},
		":n": {N: types.ToString("1")},
		":b": {B: []byte("x")},
	}

	cases := []struct {
		expr    string
		want    bool
		wantErr bool
	}{
		{"n = :n", true, false},
		{"s = :s", true, false},
		{"b = :b", true, false},
		{"n = :s", false, false},
		{"s = :n", false, false},
		{"b = :s", false, false},
		{"s = :b", false, false},
		{"n = :b", false, false},
		{"n <> :s", true, false},
		{"s <> :n", true, false},
		{"b <> :s", true, false},
		{"n <> :n", false, false},
		{"n < :s", false, true},
		{"n <= :s", false, true},
		{"s > :n", false, true},
		{"s >= :n", false, true},
		{"b < :s", false, true},
		{"b >= :n", false, true},
		{"n <= :n", true, false},
	}

	for _, c := range cases {
		func() {
			defer func() {
				if r := recover(); r != nil {
					t.Errorf("%q panicked: %v", c.expr, r)
				}
			}()

			got, err := li.Match(interpreter.MatchInput{
				TableName:      "t",
				Expression:     c.expr,
				ExpressionType: interpreter.ExpressionTypeConditional,
				Item:           item,
				Attributes:     attrs,
			})

			if c.wantErr {
				if err == nil || !errors.Is(err, interpreter.ErrSyntaxError) {
					t.Errorf("%q: expected a syntax error, got result=%v err=%v", c.expr, got, err)
				}

				if got {
					t.Errorf("%q: expected false with the error", c.expr)
				}

				return
			}

			if err != nil {
				t.Errorf("%q: unexpected error %v", c.expr, err)
			}

			if got != c.want {
				t.Errorf("%q: got %v, want %v", c.expr, got, c.want)
			}
		}()
	}
}
