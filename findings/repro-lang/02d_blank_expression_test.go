package interpreter_test

import (
	"errors"
	"testing"

	"github.com/truora/minidyn/interpreter"
	"github.com/truora/minidyn/types"
)

func TestReproBlankExpression(t *testing.T) {
	li := &interpreter.Language{}

	for _, expr := range []string{" ", "", "\t\n", "   "} {
		func() {
			defer func() {
				if r := recover(); r != nil {
					t.Errorf("Match(%q) panicked: %v", expr, r)
				}
			}()

			got, err := li.Match(interpreter.MatchInput{
				TableName:      "t",
				Expression:     expr,
				ExpressionType: interpreter.ExpressionTypeConditional,
				Item:           map[string]*types.Item{"a": {S: types.ToString("a")}},
			})
			if err == nil || !errors.Is(err, interpreter.ErrSyntaxError) || got {
				t.Errorf("Match(%q): expected a syntax error, got result=%v err=%v", expr, got, err)
			}
		}()

		func() {
			defer func() {
				if r := recover(); r != nil {
					t.Errorf("Update(%q) panicked: %v", expr, r)
				}
			}()

			item := map[string]*types.Item{"a": {S: types.ToString("a")}}

			err := li.Update(interpreter.UpdateInput{TableName: "t", Expression: expr, Item: item})
			if err == nil || !errors.Is(err, interpreter.ErrSyntaxError) {
				t.Errorf("Update(%q): expected a syntax error, got %v", expr, err)
			}

			if len(item) != 1 || *item["a"].S != "a" {
				t.Errorf("Update(%q): item changed: %v", expr, item)
			}
		}()
	}
}
