package interpreter_test

import (
	"testing"

	"github.com/truora/minidyn/interpreter"
	"github.com/truora/minidyn/interpreter/language"
	"github.com/truora/minidyn/types"
)

func TestReproSingletonLeak(t *testing.T) {
	// do not leave the process broken when the defect is present
	defer func() {
		language.TRUE.Value = true
		language.FALSE.Value = false
	}()

	li := &interpreter.Language{}

	yes, no, null := true, false, true
	item := map[string]*types.Item{
		"h": {S: types.ToString("k")},
		"n": {NULL: &null},
	}

	err := li.Update(interpreter.UpdateInput{
		TableName:  "t",
		Expression: "SET a = :t, b = :f",
		Item:       item,
		Attributes: map[string]*types.Item{":t": {BOOL: &yes}, ":f": {BOOL: &no}},
	})
	if err != nil {
		t.Fatalf("unexpected error: %v", err)
	}

	if item["a"].BOOL == &language.TRUE.Value || item["b"].BOOL == &language.FALSE.Value {
		t.Errorf("BOOL fields of the item point into the TRUE/FALSE singletons")
	}

	if item["n"].NULL == &language.TRUE.Value {
		t.Errorf("NULL field of the item points into the TRUE singleton")
	}

	// the caller owns the item and may write through its pointers
	*item["a"].BOOL = false
	*item["b"].BOOL = true
	*item["n"].NULL = false

	if !language.TRUE.Value {
		t.Errorf("language.TRUE.Value became false")
	}

	if language.FALSE.Value {
		t.Errorf("language.FALSE.Value became true")
	}

	for _, expr := range []string{"attribute_exists(h) AND attribute_exists(h)", "attribute_exists(h) OR attribute_exists(zz)"} {
		got, err := li.Match(interpreter.MatchInput{
			TableName:      "t",
			Expression:     expr,
			ExpressionType: interpreter.ExpressionTypeConditional,
			Item:           map[string]*types.Item{"h": {S: types.ToString("k")}},
		})
		if err != nil || !got {
			t.Errorf("%q: got %v err=%v, want true", expr, got, err)
		}
	}
}
