#!/bin/sh
# usage: run.sh <repro file> <package dir relative to worktree> [test regex]
export GOFLAGS=-mod=mod GOPROXY=off GOSUMDB=off GOTOOLCHAIN=local
f=$1; dir=/tmp/wt-lang/$2; re=${3:-Repro}
cp /tmp/wt-lang-repro/$f $dir/zz_repro_test.go
cd $dir && go test -count=1 -run "$re" . 2>&1 | head -60
rm -f $dir/zz_repro_test.go
