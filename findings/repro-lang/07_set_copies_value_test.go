package interpreter_test

import (
	"os"
	"os/exec"
	"strings"
	"testing"

	"github.com/truora/minidyn/interpreter"
	"github.com/truora/minidyn/types"
)

func TestReproSetAliasing(t *testing.T) {
	li := &interpreter.Language{}

	attrs := map[string]*types.Item{
		":one": {N: types.ToString("1")},
		":s":   {SS: []*string{types.ToString("z")}},
		":l":   {L: []*types.Item{{S: types.ToString("new")}}},
	}

	item := map[string]*types.Item{"b": {N: types.ToString("1")}}

	err := li.Update(interpreter.UpdateInput{TableName: "t", Expression: "SET a = b ADD b :one", Item: item, Attributes: attrs})
	if err != nil {
		t.Fatalf("unexpected error: %v", err)
	}

	if *item["a"].N != "1" || *item["b"].N != "2" {
		t.Errorf("SET a = b ADD b :one: got a=%s b=%s, want a=1 b=2", *item["a"].N, *item["b"].N)
	}

	// sets
	item = map[string]*types.Item{"s": {SS: []*string{types.ToString("x")}}}

	err = li.Update(interpreter.UpdateInput{TableName: "t", Expression: "SET c = s ADD s :s", Item: item, Attributes: attrs})
	if err != nil {
		t.Fatalf("unexpected error: %v", err)
	}

	if len(item["c"].SS) != 1 || len(item["s"].SS) != 2 {
		t.Errorf("SET c = s ADD s :s: got c=%d elements s=%d elements, want 1 and 2", len(item["c"].SS), len(item["s"].SS))
	}

	// nested documents
	item = map[string]*types.Item{
		"m": {M: map[string]*types.Item{"l": {L: []*types.Item{{S: types.ToString("a")}}}}},
	}

	err = li.Update(interpreter.UpdateInput{
		TableName: "t", Expression: "SET c = m, m.l[0] = :one", Item: item, Attributes: attrs,
	})
	if err != nil {
		t.Fatalf("unexpected error: %v", err)
	}

	if c := item["c"].M["l"].L[0]; c.S == nil || *c.S != "a" {
		t.Errorf("SET c = m, m.l[0] = :one: the copy c changed with m: %+v", c)
	}

	if m := item["m"].M["l"].L[0]; m.N == nil || *m.N != "1" {
		t.Errorf("SET c = m, m.l[0] = :one: m.l[0] not updated: %+v", m)
	}

	// the same placeholder assigned twice gives independent values
	item = map[string]*types.Item{}

	err = li.Update(interpreter.UpdateInput{
		TableName: "t", Expression: "SET p = :one, q = :one ADD p :one", Item: item, Attributes: attrs,
	})
	if err != nil {
		t.Fatalf("unexpected error: %v", err)
	}

	if *item["p"].N != "2" || *item["q"].N != "1" {
		t.Errorf("SET p = :one, q = :one ADD p :one: got p=%s q=%s, want p=2 q=1", *item["p"].N, *item["q"].N)
	}
}

// TestReproSetCyclic runs the update in a child process: with the defect the
// conversion of the cyclic document overflows the stack, which is fatal.
func TestReproSetCyclic(t *testing.T) {
	if os.Getenv("REPRO_SET_CYCLIC_CHILD") == "1" {
		li := &interpreter.Language{}
		item := map[string]*types.Item{
			"m": {M: map[string]*types.Item{"k": {S: types.ToString("v")}}},
		}

		err := li.Update(interpreter.UpdateInput{TableName: "t", Expression: "SET m.x = m", Item: item})
		if err != nil {
			t.Fatalf("unexpected error: %v", err)
		}

		x := item["m"].M["x"]
		if x == nil || x.M == nil || x.M["k"] == nil || *x.M["k"].S != "v" {
			t.Fatalf("m.x is not a copy of the previous m: %+v", x)
		}

		if _, ok := x.M["x"]; ok {
			t.Fatalf("m.x contains itself")
		}

		return
	}

	cmd := exec.Command(os.Args[0], "-test.run=^TestReproSetCyclic$", "-test.v")
	cmd.Env = append(os.Environ(), "REPRO_SET_CYCLIC_CHILD=1", "GOTRACEBACK=none", "GOMAXPROCS=1")

	out, err := cmd.CombinedOutput()
	if err != nil {
		lines := strings.Split(string(out), "\n")
		if len(lines) > 6 {
			lines = lines[:6]
		}

		t.Fatalf("child failed: %v\n%s", err, strings.Join(lines, "\n"))
	}
}
