(* C15: while a failure is emulated NO data operation changes the client - batch writes included, whatever they hold -
   so a whole episode of failing calls is erased by the deactivation. *)
From Coq Require Import List Bool.
From Minidyn Require Import Base.Str Base.FMap Base.Outcome Model.Value Model.Key Model.Index Model.Table Model.Client.
From Minidyn Require Import Proofs.ClientFacts Proofs.Lifecycle.
Import ListNotations.

Section FailureAll.
Variable lm : str -> item -> item -> fmap str -> outcome bool.
Variable lu : str -> item -> item -> fmap str -> outcome item.
Variable s : sdk.

Definition data_op (o : op) : bool :=
  single_data_op o || match o with OBatchWrite _ => true | _ => false end.

Theorem batch_write_under_failure_unchanged c f reqs :
  c_failure c = Some f -> fst (batch_write lm s c reqs) = c.
Proof.
  intros Hf. destruct f.
  - now rewrite (batch_under_failure_general lm s c reqs Hf).
  - now rewrite (batch_under_forced_failure lm s c reqs Hf).
Qed.

Theorem failure_changes_nothing c o f :
  c_failure c = Some f -> data_op o = true -> v1_name_ok s (name_of o) = true ->
  (match o with OBatchGet _ _ => s = V2 | _ => True end) ->
  fst (step lm lu s c o) = c.
Proof.
  intros Hf Hd Hn Hb. unfold data_op in Hd. destruct (single_data_op o) eqn:Es.
  - now destruct (failure_blocks lm lu s c o f Hf Es Hn Hb).
  - destruct o; try discriminate. cbn [step]. now apply (batch_write_under_failure_unchanged c f).
Qed.

Theorem failure_erasable_all c f ops :
  c_failure c = None ->
  Forall (fun o => data_op o = true /\ v1_name_ok s (name_of o) = true /\
                   match o with OBatchGet _ _ => s = V2 | _ => True end) ops ->
  set_failure (fold_left (fun c o => fst (step lm lu s c o)) ops (set_failure c (Some f))) None = c.
Proof.
  intros Hn Hall.
  assert (fold_left (fun c o => fst (step lm lu s c o)) ops (set_failure c (Some f)) = set_failure c (Some f)) as ->.
  { induction Hall as [|o ops [H1 [H2 H3]] _ IH]; cbn [fold_left]; auto.
    now rewrite (failure_changes_nothing (set_failure c (Some f)) o f eq_refl H1 H2 H3). }
  destruct c; cbn in *. subst. reflexivity.
Qed.

End FailureAll.
