(* The table invariant TInv (SortedKeys is exactly the strictly sorted key set of Data) holds in every
   reachable state, for every interpreter. *)
From Coq Require Import List Bool Arith Lia Sorting.Sorted.
From Coq Require Import Strings.Byte.
From Minidyn Require Import Base.Str Base.FMap Base.Outcome Model.Value Model.Key Model.Index Model.Table Model.Client.
From Minidyn Require Import Proofs.FMapFacts.
Import ListNotations.

Definition TInv (t : table) : Prop := wf (t_data t) /\ t_sorted t = keys (t_data t).

Lemma TInv_sorted t : TInv t -> ssorted (t_sorted t).
Proof. intros [H1 H2]. now rewrite H2. Qed.

Lemma TInv_set_item t key it : TInv t -> TInv (set_item t key it).
Proof.
  intros [Hw Hs]. unfold TInv, set_item; cbn [t_data t_sorted]. split.
  - now apply wf_insert.
  - rewrite keys_insert; auto. destruct (mem key (t_data t)); congruence.
Qed.

Lemma TInv_with_indexes t ixs : TInv t -> TInv (with_indexes t ixs).
Proof. intros H; exact H. Qed.

Lemma TInv_clear t : TInv (t_clear t).
Proof. split; cbn; [apply wf_nil|reflexivity]. Qed.

Lemma remove_at_length {A} (l : list A) : remove_at (length l) l = l.
Proof. induction l as [|x l IH]; cbn; auto. now rewrite IH. Qed.

Section Inv.
Variable lang_match : str -> item -> item -> fmap str -> outcome bool.
Variable lang_update : str -> item -> item -> fmap str -> outcome item.

Lemma TInv_put c t it cond names vals : TInv t -> TInv (fst (t_put lang_match c t it cond names vals)).
Proof.
  intros H. unfold t_put.
  destruct (get_key (t_ks t) (t_defs t) it) as [e|key]; cbn; auto.
  destruct (check_cond lang_match c t (get_item t key) cond names vals) as [[[] f]| | |]; cbn; auto.
  destruct (validate_index_keys (t_defs t) (t_indexes t) it); cbn; auto.
  apply TInv_with_indexes, TInv_set_item, H.
Qed.

Lemma TInv_update c t k expr cond names vals :
  TInv t -> TInv (fst (t_update lang_match lang_update c t k expr cond names vals)).
Proof.
  intros H. unfold t_update.
  destruct (get_key (t_ks t) (t_defs t) k) as [e|key]; cbn; auto.
  destruct (check_cond lang_match c t _ cond names vals) as [[[] f]| | |]; cbn; auto.
  destruct (interp_update lang_update c (t_name t) expr _ vals names) as [[it' f']| | |]; cbn; auto.
  destruct (validate_index_keys (t_defs t) (t_indexes t) it'); cbn; auto.
  apply TInv_with_indexes, TInv_set_item, H.
Qed.

Lemma TInv_delete c t k cond names vals : TInv t -> TInv (fst (t_delete lang_match c t k cond names vals)).
Proof.
  intros H. unfold t_delete.
  destruct (get_key (t_ks t) (t_defs t) k) as [e|key]; cbn; auto.
  destruct (check_cond lang_match c t _ cond names vals) as [[[] f]| | |]; cbn; auto.
  destruct (lookup key (t_data t)) as [old|] eqn:L; cbn; auto.
  destruct H as [Hw Hs].
  assert (Hm : mem key (t_data t) = true) by (unfold mem; now rewrite L).
  assert (Hin : In key (t_sorted t)) by (rewrite Hs; now apply mem_true_iff).
  (* the position found by the binary search is inside the list *)
  destruct (Nat.eqb (lower_bound key (t_sorted t)) (length (t_sorted t))) eqn:E; cbn.
  - (* impossible: key is in the sorted list *)
    exfalso. apply Nat.eqb_eq in E.
    assert (Hs' : ssorted (t_sorted t)) by (rewrite Hs; exact Hw).
    pose proof (remove_at_lower_bound key (t_sorted t) Hs' Hin key) as R.
    rewrite E in R.
    rewrite remove_at_length in R. apply R in Hin. destruct Hin as [_ Hne]. now apply Hne.
  - split; cbn [t_data t_sorted].
    + now apply wf_remove.
    + rewrite Hs. symmetry. now apply keys_remove.
Qed.

End Inv.
