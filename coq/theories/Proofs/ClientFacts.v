(* Client-level facts: failing requests leave no trace (C08), emulated failures block and change nothing (C15),
   reads are pure, operations on one table do not touch another (C18), conditional writes are local (C05). *)
From Coq Require Import List Bool Arith Lia.
From Coq Require Import Strings.Byte Strings.String.
From Minidyn Require Import Base.Str Base.FMap Base.Outcome Model.Value Model.Key Model.Index Model.Table Model.Client.
From Minidyn Require Import Proofs.FMapFacts Proofs.TableInv Proofs.KV Proofs.ClientInv.
Import ListNotations.

Definition res_ok (r : res) : bool := match r with ROk => true | _ => false end.

(* single-request data operations *)
Definition single_data_op (o : op) : bool :=
  match o with
  | OPut _ _ _ _ _ _ | OGet _ _ _ _ | OUpdate _ _ _ _ _ _ _ | ODelete _ _ _ _ _ _
  | OQuery _ _ _ _ _ _ _ _ _ _ | OScan _ _ _ _ _ _ _ _ | OBatchGet _ _ | OTransact => true
  | _ => false
  end.

Definition read_op (o : op) : bool :=
  match o with
  | OGet _ _ _ _ | OQuery _ _ _ _ _ _ _ _ _ _ | OScan _ _ _ _ _ _ _ _ | OBatchGet _ _ | OTransact | ODescribeTable _ => true
  | _ => false
  end.

Section Facts.
Variable lang_match : str -> item -> item -> fmap str -> outcome bool.
Variable lang_update : str -> item -> item -> fmap str -> outcome item.
Variable flavour : sdk.

Notation step := (step lang_match lang_update flavour).

(* ---- reads never change the client ---- *)
Theorem read_pure c o : read_op o = true -> fst (step c o) = c.
Proof.
  destruct o; try discriminate; intros _; cbn [Client.step].
  - destruct (lookup table (c_tables c)); reflexivity.
  - unfold get_item_op. destruct (preamble _ _ _ _ _ _); cbn; auto. destruct (get_key _ _ _); reflexivity.
  - unfold query_op. destruct (c_failure c); cbn; auto.
    destruct (validate_expr_attrs _ _ _); cbn; auto.
    destruct (lookup table (c_tables c)); cbn; auto. apply fst_run_search.
  - unfold scan_op. destruct (c_failure c); cbn; auto.
    destruct (validate_expr_attrs _ _ _); cbn; auto.
    destruct (lookup table (c_tables c)); cbn; auto. apply fst_run_search.
  - unfold batch_get. destruct flavour; cbn; auto. destruct (c_failure c); [reflexivity|].
    match goal with |- context [match ?l with [] => _ | _ :: _ => _ end] => destruct l end; reflexivity.
  - destruct (c_failure c); reflexivity.
Qed.

(* ---- C08: a failing single request leaves the whole client state as it was ---- *)
Lemma put_item_fail c tn it cond names vals ro :
  res_ok (o_res (snd (put_item lang_match flavour c tn it cond names vals ro))) = false ->
  fst (put_item lang_match flavour c tn it cond names vals ro) = c.
Proof.
  unfold put_item. destruct (preamble _ _ _ _ _ _) as [e|t]; cbn; auto.
  destruct (t_put lang_match (ctx_of c) t it cond names vals) as [t' r]. destruct r; cbn; auto. discriminate.
Qed.

(* what a successful PutItem answers: the replaced item when ReturnValues = ALL_OLD asks for it, nothing otherwise *)
Lemma put_item_payload c tn it cond names vals ro :
  o_res (snd (put_item lang_match flavour c tn it cond names vals ro)) = ROk ->
  exists t old,
    lookup tn (c_tables c) = Some t /\
    (exists t' f, t_put lang_match (ctx_of c) t it cond names vals = (t', WOk old f)) /\
    o_pay (snd (put_item lang_match flavour c tn it cond names vals ro)) =
    match old with Some i => if ro then PItem (out_item flavour i) else PNone | None => PNone end.
Proof.
  unfold put_item, preamble. destruct (c_failure c); [cbn; discriminate|].
  destruct (negb (v1_name_ok flavour tn)); [cbn; discriminate|].
  destruct (validate_expr_attrs _ _ _); [|cbn; discriminate].
  destruct (lookup tn (c_tables c)) as [t|]; [|cbn; discriminate].
  destruct (t_put lang_match (ctx_of c) t it cond names vals) as [t' r] eqn:E.
  destruct r as [old f|old f|e|p|]; cbn; try discriminate.
  intros _. exists t, old. split; auto. split; eauto.
Qed.

Lemma update_item_fail c tn k e cond names vals ao :
  res_ok (o_res (snd (update_item lang_match lang_update flavour c tn k e cond names vals ao))) = false ->
  fst (update_item lang_match lang_update flavour c tn k e cond names vals ao) = c.
Proof.
  unfold update_item. destruct (preamble _ _ _ _ _ _) as [er|t]; cbn; auto.
  destruct (t_update lang_match lang_update (ctx_of c) t k e cond names vals) as [t' r].
  destruct r as [| |[]| |]; cbn; auto. discriminate.
Qed.

Lemma delete_item_fail c tn k cond names vals ro :
  res_ok (o_res (snd (delete_item lang_match flavour c tn k cond names vals ro))) = false ->
  fst (delete_item lang_match flavour c tn k cond names vals ro) = c.
Proof.
  unfold delete_item. destruct (preamble _ _ _ _ _ _) as [er|t]; cbn; auto.
  destruct (t_delete lang_match (ctx_of c) t k cond names vals) as [t' r]. destruct r; cbn; auto. discriminate.
Qed.

Theorem fail_no_trace c o :
  single_data_op o = true -> res_ok (o_res (snd (step c o))) = false -> fst (step c o) = c.
Proof.
  intros Hd Hf. destruct (read_op o) eqn:R; [now apply read_pure|].
  destruct o; try discriminate; cbn [Client.step] in *.
  - now apply put_item_fail.
  - now apply update_item_fail.
  - now apply delete_item_fail.
Qed.

(* a rejected batch (shape, size, or a request that cannot be applied) leaves no trace either *)
Theorem batch_rejected_no_trace c reqs :
  c_failure c = None ->
  (negb (forallb wreq_ok (flat_map snd reqs)) || Nat.ltb batch_limit (List.length (flat_map snd reqs)) ||
   negb (match flat_map (prevalidate_table c) reqs with [] => true | _ => false end)) = true ->
  fst (batch_write lang_match flavour c reqs) = c /\ res_ok (o_res (snd (batch_write lang_match flavour c reqs))) = false.
Proof.
  intros Hf H. unfold batch_write. destruct (v1_empty_batch flavour c reqs); [split; reflexivity|].
  unfold batch_write_core, forced_blocks. rewrite Hf. cbv iota.
  destruct (negb (forallb wreq_ok (flat_map snd reqs))); [split; reflexivity|].
  destruct (Nat.ltb batch_limit (List.length (flat_map snd reqs))); [split; reflexivity|].
  cbn in H. destruct (flat_map (prevalidate_table c) reqs); [discriminate|]. split; reflexivity.
Qed.

(* ---- C15: while a failure is active every single data operation fails with it and changes nothing ---- *)
Definition name_of (o : op) : str :=
  match o with
  | OPut t _ _ _ _ _ | OGet t _ _ _ | OUpdate t _ _ _ _ _ _ | ODelete t _ _ _ _ _ => t
  | _ => bs "xxx"
  end.

Theorem failure_blocks c o f :
  c_failure c = Some f -> single_data_op o = true -> v1_name_ok flavour (name_of o) = true ->
  (match o with OBatchGet _ _ => flavour = V2 | _ => True end) ->
  fst (step c o) = c /\
  o_res (snd (step c o)) = RErr (failure_err f).
Proof.
  intros Hf Hd Hn Hb. destruct o; try discriminate; cbn [Client.step name_of] in *.
  - unfold put_item, preamble. rewrite Hn, Hf. cbn. auto.
  - unfold get_item_op, preamble. rewrite Hn, Hf. cbn. auto.
  - unfold update_item, preamble. rewrite Hn, Hf. cbn. auto.
  - unfold delete_item, preamble. rewrite Hn, Hf. cbn. auto.
  - unfold query_op. rewrite Hf. cbn. auto.
  - unfold scan_op. rewrite Hf. cbn. auto.
  - unfold batch_get. subst flavour. rewrite Hf. cbn. auto.
  - rewrite Hf. auto.
Qed.

(* toggling a failure touches nothing but the failure flag: once cleared, the client is what it was *)
Definition set_failure (c : client) (f : option failure) : client :=
  {| c_tables := c_tables c; c_billing := c_billing c; c_failure := f; c_native := c_native c; c_reg := c_reg c |}.

Theorem failure_toggle_only_flag c o :
  (match o with OEmulateFailure _ | OActivateForce | ODeactivateForce => True | _ => False end) ->
  exists f, fst (step c o) = set_failure c f.
Proof.
  destruct o; intros H; try contradiction; cbn [Client.step]; eexists; reflexivity.
Qed.

Theorem failure_erasable c f ops :
  c_failure c = None ->
  Forall (fun o => single_data_op o = true /\ v1_name_ok flavour (name_of o) = true /\
                   match o with OBatchGet _ _ => flavour = V2 | _ => True end) ops ->
  set_failure (fold_left (fun c o => fst (step c o)) ops (set_failure c (Some f))) None = c.
Proof.
  intros Hn Hall.
  assert (fold_left (fun c o => fst (step c o)) ops (set_failure c (Some f)) = set_failure c (Some f)) as ->.
  { induction Hall as [|o ops [H1 [H2 H3]] _ IH]; cbn [fold_left]; auto.
    destruct (failure_blocks (set_failure c (Some f)) o f eq_refl H1 H2 H3) as [E _]. now rewrite E. }
  destruct c; cbn in *. subst. reflexivity.
Qed.

(* ---- C18: an operation addressed to one table leaves every other table of the client untouched ---- *)
Lemma set_table_other c t n : n <> t_name t -> lookup n (c_tables (set_table c t)) = lookup n (c_tables c).
Proof. intros H. cbn. now apply lookup_insert_neq. Qed.

Lemma preamble_name c tn names vals exprs t :
  CInv (fun _ => True) c -> preamble flavour c tn names vals exprs = inr t -> t_name t = tn.
Proof.
  intros [_ H] Pr. apply (preamble_lookup flavour) in Pr. now apply H in Pr as [_ N].
Qed.

Theorem table_frame c o tn n :
  CInv (fun _ => True) c ->
  (match o with
   | OPut t _ _ _ _ _ | OUpdate t _ _ _ _ _ _ | ODelete t _ _ _ _ _ | OClearTable t | ODeleteTable t
   | OUpdateTable t _ _ _ | OAddIndex t _ _ _ | OGet t _ _ _ | OQuery t _ _ _ _ _ _ _ _ _ | OScan t _ _ _ _ _ _ _ | ODescribeTable t => t = tn
   | _ => False
   end) ->
  n <> tn -> lookup n (c_tables (fst (step c o))) = lookup n (c_tables c).
Proof.
  intros HC Ho Hne. destruct (read_op o) eqn:R; [rewrite read_pure; auto|].
  destruct o; try contradiction; try discriminate; subst; cbn [Client.step].
  - (* add_index *)
    match goal with |- context [update_table flavour c ?a ?b ?d ?e] => set (u := update_table flavour c a b d e) end.
    assert (lookup n (c_tables (fst u)) = lookup n (c_tables c)) as Hu.
    { unfold u, update_table. match goal with |- context [if negb ?b then _ else _] => destruct (negb b) end; auto.
      destruct (lookup tn (c_tables c)) as [t|] eqn:L; auto.
      assert (t_name t = tn) as N by (destruct HC as [_ H]; now apply H in L as [_ N]).
      destruct (negb (defs_ok t _)); auto.
      destruct (add_global_index _ _ _) as [t2|] eqn:Ea; cbn [fst].
      - apply set_table_other. destruct (add_global_index_data _ _ _ _ Ea) as [_ N2]. cbn in N2. congruence.
      - apply set_table_other. cbn. congruence. }
    destruct u; exact Hu.
  - destruct (negb (v1_name_ok flavour tn)); auto. destruct (lookup tn (c_tables c)); auto.
    cbn. now apply lookup_remove_neq.
  - unfold update_table. match goal with |- context [if negb ?b then _ else _] => destruct (negb b) end; auto.
    destruct (lookup tn (c_tables c)) as [t|] eqn:L; auto.
    assert (t_name t = tn) as N by (destruct HC as [_ H]; now apply H in L as [_ N]).
    destruct (negb (defs_ok t defs)); auto.
    assert (forall t2, t_name t2 = tn ->
      lookup n (c_tables (fst (match delete with
                       | None => (set_table c t2, ok_obs (PDesc (describe t2)) [])
                       | Some n0 => if mem n0 (t_indexes t2)
                                   then (set_table c (with_indexes t2 (remove n0 (t_indexes t2))),
                                         ok_obs (PDesc (describe (with_indexes t2 (remove n0 (t_indexes t2))))) [])
                                   else (set_table c t2, err_obs NotFound)
                       end))) = lookup n (c_tables c)) as Hdel.
    { intros t2 N2. destruct delete as [n0|]; [destruct (mem n0 (t_indexes t2))|]; cbn [fst]; apply set_table_other; cbn; congruence. }
    destruct create as [d|].
    + destruct (add_global_index _ _ d) as [t2|] eqn:Ea.
      * apply Hdel. destruct (add_global_index_data _ _ _ _ Ea) as [_ N2]. cbn in N2. congruence.
      * cbn [fst]. apply set_table_other. cbn. congruence.
    + apply Hdel. cbn. exact N.
  - destruct (lookup tn (c_tables c)) as [t|] eqn:L; auto.
    assert (t_name t = tn) as N by (destruct HC as [_ H]; now apply H in L as [_ N]).
    apply set_table_other. cbn. congruence.
  - unfold put_item. destruct (preamble _ _ _ _ _ _) as [e|t] eqn:Pr; auto.
    pose proof (preamble_name _ _ _ _ _ _ HC Pr) as N.
    pose proof (name_put lang_match (ctx_of c) t it cond names vals) as Np.
    destruct (t_put lang_match (ctx_of c) t it cond names vals) as [t' r]; cbn in Np. destruct r; cbn; auto.
    apply set_table_other. congruence.
  - unfold update_item. destruct (preamble _ _ _ _ _ _) as [e|t] eqn:Pr; auto.
    pose proof (preamble_name _ _ _ _ _ _ HC Pr) as N.
    pose proof (name_update lang_match lang_update (ctx_of c) t key expr cond names vals) as Np.
    destruct (t_update lang_match lang_update (ctx_of c) t key expr cond names vals) as [t' r]; cbn in Np.
    destruct r as [| |[]| |]; cbn; auto. apply set_table_other. congruence.
  - unfold delete_item. destruct (preamble _ _ _ _ _ _) as [e|t] eqn:Pr; auto.
    pose proof (preamble_name _ _ _ _ _ _ HC Pr) as N.
    pose proof (name_delete lang_match (ctx_of c) t key cond names vals) as Np.
    destruct (t_delete lang_match (ctx_of c) t key cond names vals) as [t' r]; cbn in Np. destruct r; cbn; auto.
    apply set_table_other. congruence.
Qed.

End Facts.
