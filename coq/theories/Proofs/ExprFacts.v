(* C06 / C09 / C12: facts about the expression front end, the evaluator and numbers. *)
From Coq Require Import List Bool Arith NArith ZArith Lia.
From Coq Require Import Strings.Byte Strings.String Floats.SpecFloat.
From Minidyn Require Import Base.Str Base.FMap Base.Outcome Base.F64 Model.Value Model.Key Model.Index Model.Table
  Model.Token Gen.Tables Model.Lexer Model.Parser Model.Object Model.Eval Model.Update Model.Language.
Import ListNotations.
Local Open Scope nat_scope.

(* ---------- precedence (read from the sources): comparison > NOT > AND > OR ---------- *)
Lemma precedence_chain :
  forallb (fun cmp => Nat.ltb prec_not (prec cmp)) [EQ; NotEQ; LT; LTE; GT; GTE; BETWEEN; IN] = true /\
  Nat.ltb (prec AND) prec_not = true /\ Nat.ltb (prec OR) (prec AND) = true /\ Nat.ltb prec_lowest (prec OR) = true.
Proof. vm_compute. repeat split; reflexivity. Qed.

(* the grammar tables: which token starts / continues an expression in each parser *)
Lemma registrations :
  map fst cond_prefix = [IDENT; NOT; LPAREN] /\
  map fst cond_infix = [EQ; NotEQ; LBRACKET; DOT; BETWEEN; LT; GT; LTE; GTE; AND; OR; LPAREN; IN] /\
  map fst upd_prefix = [IDENT; LPAREN; SET; ADD; REMOVE; DELETE] /\
  map fst upd_infix = [LBRACKET; DOT; LPAREN; PLUS; MINUS].
Proof. repeat split; reflexivity. Qed.

(* keywords are case-sensitive: only the upper-case spelling is a keyword *)
Lemma keywords_upper_only : forallb (fun kw => str_eqb (to_upper (fst kw)) (fst kw)) keywords = true.
Proof. reflexivity. Qed.

(* ---------- semantics of comparisons (for all values) ---------- *)
Definition cmp_ops := [EQ; NotEQ; LT; LTE; GT; GTE].

(* a missing attribute makes every comparison false, and <> true *)
Theorem missing_attribute_comparisons op v :
  In op cmp_ops -> is_comparable v = true ->
  eval_infix op UNDEFINED v = of_bool (match op with NotEQ => true | _ => false end) /\
  eval_infix op v UNDEFINED = of_bool (match op with NotEQ => true | _ => false end).
Proof.
  intros Hop Hc. unfold eval_infix. rewrite Hc. cbn [is_comparable UNDEFINED is_undefined orb andb].
  replace (is_comparable UNDEFINED) with true by reflexivity. cbn [andb].
  unfold eval_comparable_infix. cbn [UNDEFINED is_undefined orb].
  rewrite orb_true_r. cbn [orb].
  destruct Hop as [<-|[<-|[<-|[<-|[<-|[<-|[]]]]]]]; cbn; split; try reflexivity;
    destruct v as [| | | |[]| | | | |]; cbn; reflexivity.
Qed.

(* equality is type-sensitive: values of different comparable types are never equal *)
Theorem equality_type_sensitive l r :
  is_comparable l = true -> is_comparable r = true -> is_undefined l = false -> is_undefined r = false ->
  otype_eqb (type_of l) (type_of r) = false ->
  eval_infix EQ l r = FALSE /\ eval_infix NotEQ l r = TRUE.
Proof.
  intros Hl Hr Ul Ur Ht. unfold eval_infix. rewrite Hl, Hr. cbn [andb].
  unfold eval_comparable_infix. rewrite Ul, Ur, Ht. cbn. split; reflexivity.
Qed.

(* ordering exists only within one scalar type *)
Theorem ordering_needs_same_type op l r :
  In op [LT; LTE; GT; GTE] ->
  is_comparable l = true -> is_comparable r = true -> is_undefined l = false -> is_undefined r = false ->
  otype_eqb (type_of l) (type_of r) = false -> eval_infix op l r = EErr.
Proof.
  intros Hop Hl Hr Ul Ur Ht. unfold eval_infix. rewrite Hl, Hr. cbn [andb].
  unfold eval_comparable_infix. rewrite Ul, Ur, Ht. cbn [orb negb].
  destruct Hop as [<-|[<-|[<-|[<-|[]]]]]; reflexivity.
Qed.

(* a NULL-typed attribute exists; a missing one does not and has no type *)
Theorem null_attribute_exists :
  call_cond_function (bs "attributeExists") [VNull false] = TRUE /\
  call_cond_function (bs "attributeNotExists") [VNull false] = FALSE /\
  call_cond_function (bs "attributeExists") [UNDEFINED] = FALSE /\
  call_cond_function (bs "attributeNotExists") [UNDEFINED] = TRUE /\
  call_cond_function (bs "attributeType") [VNull false; VStr (bs "NULL")] = TRUE /\
  (forall t, call_cond_function (bs "attributeType") [UNDEFINED; VStr t] = (if mem_str t dynamodb_types then FALSE else EErr)).
Proof. repeat split; try reflexivity. Qed.

(* AND / OR / NOT on truth values *)
Theorem connectives a b :
  eval_infix AND (VBool a) (VBool b) = of_bool (a && b) /\ eval_infix OR (VBool a) (VBool b) = of_bool (a || b).
Proof. split; reflexivity. Qed.

(* ---------- C09: strictness and surfacing of rejections ---------- *)

(* an expression is accepted without parser error only if nothing is left after it *)
Theorem accepted_means_consumed p :
  nerrs (expect_end p) = nerrs p -> ty (cur p) = EOF \/ ty (peek p) = EOF.
Proof.
  unfold expect_end. destruct (tt_beq (ty (cur p)) EOF) eqn:E1; cbn.
  - intros _. left. now apply internal_tt_dec_bl.
  - unfold peek_is. destruct (tt_beq (ty (peek p)) EOF) eqn:E2; cbn.
    + intros _. right. now apply internal_tt_dec_bl.
    + intros H. exfalso. clear - H. induction (nerrs p); [discriminate|]. apply IHn. now inversion H.
Qed.

(* a lone identifier is not a condition *)
Theorem lone_identifier_rejected s :
  ty (cur (init s)) = IDENT -> ty (peek (init s)) = EOF -> parse_cond s = Some (ENil, 1).
Proof. intros H1 H2. unfold parse_cond, parse_cond_fuel. now rewrite H1, H2. Qed.

Section Surfacing.
Variable lm : str -> item -> item -> fmap str -> outcome bool.
Variable lu : str -> item -> item -> fmap str -> outcome item.

(* whatever Language.Match rejects surfaces at the table as the documented panic, never as a verdict *)
Theorem match_rejection_surfaces c tn k e it vals names err :
  use_native c = false -> lm e it vals names = Err err ->
  interp_match lm c tn k e it vals names = Panic (match err with Syntax => SyntaxPanic | Unsupported => UnsupportedPanic | _ => RuntimePanic end).
Proof. intros Hn He. unfold interp_match. rewrite Hn, He. destruct err; reflexivity. Qed.

(* ... and a rejected update expression as an error, leaving the table as it was *)
Theorem update_rejection_surfaces c t k e names vals key err :
  use_native c = false -> get_key (t_ks t) (t_defs t) k = inr key ->
  lu e (match lookup key (t_data t) with Some i => i | None => Key.key_item (t_ks t) k end) vals names = Err err ->
  t_update lm lu c t k e None names vals = (t, WErr err).
Proof.
  intros Hn G He. unfold t_update. rewrite G. cbn [check_cond]. unfold interp_update. rewrite Hn.
  now rewrite He.
Qed.
End Surfacing.

(* the model's own Match: a syntax error or an evaluation error is an error result, never a verdict *)
Theorem lang_match_results expr it vals names :
  match lang_match expr it vals names with
  | Ok _ | Err Syntax | Err Unsupported | OutOfFuel => True
  | _ => False
  end.
Proof.
  unfold lang_match. destruct (parse_cond expr) as [[ast n]|]; auto.
  destruct (negb (n =? 0)); auto. destruct (mem [] names); auto. destruct (add_attributes [] it); auto. destruct (add_attributes f vals); auto.
  destruct (eval_conditional _ ast); auto.
Qed.

(* ---------- C12: numbers are float64 (known finding), exact on small integers ---------- *)
Theorem big_integer_changes_refuted : renumber (bs "9007199254740993") = Some (bs "9007199254740992").
Proof. vm_compute. reflexivity. Qed.

Theorem decimal_addition_inexact_refuted :
  option_map (fun a => option_map (fun b => format_float (f64_add a b)) (parse_float (bs "0.2"))) (parse_float (bs "0.1"))
  = Some (Some (bs "0.30000000000000004")).
Proof. vm_compute. reflexivity. Qed.

Theorem numeral_notation_normalised : renumber (bs "1e2") = Some (bs "100") /\ renumber (bs "007") = Some (bs "7") /\ renumber (bs "2.50") = Some (bs "2.5").
Proof. vm_compute. repeat split; reflexivity. Qed.

(* canonical integers below 2000 survive the float64 round trip unchanged (finite domain, checked exhaustively) *)
Fixpoint nat_digits (fuel n : nat) (acc : str) : str :=
  match fuel with
  | O => acc
  | S f => let d := match Byte.of_N (N.of_nat (48 + n mod 10)) with Some b => b | None => "0"%byte end in
           if n <? 10 then d :: acc else nat_digits f (n / 10) (d :: acc)
  end.
Definition decimal (n : nat) : str := nat_digits 10 n [].

Theorem small_integers_exact : forall n, n < 2000 -> renumber (decimal n) = Some (decimal n).
Proof.
  assert (forallb (fun n => match renumber (decimal n) with Some s => str_eqb s (decimal n) | None => false end) (seq 0 2000) = true) as H
    by (vm_compute; reflexivity).
  intros n Hn. rewrite forallb_forall in H. specialize (H n). rewrite in_seq in H. specialize (H (conj (Nat.le_0_l n) Hn)).
  destruct (renumber (decimal n)); [|discriminate]. apply str_eqb_eq in H. now subst.
Qed.

(* ---------- C09: totality ---------- *)
From Minidyn Require Import Proofs.ParserFuel.

(* Match and Update terminate on every expression, item and bindings with a result or a syntax / unsupported error:
   the parser's fuel is never exhausted (ParserFuel.v) and the evaluators are structurally recursive on the tree *)
Theorem lang_match_total expr it vals names :
  (exists b, lang_match expr it vals names = Ok b) \/ lang_match expr it vals names = Err Syntax \/
  lang_match expr it vals names = Err Unsupported.
Proof.
  unfold lang_match. destruct (parse_cond_total expr) as [ast [k ->]].
  destruct (negb (k =? 0)); auto. destruct (mem [] names); eauto. destruct (add_attributes [] it); auto. destruct (add_attributes f vals); auto.
  destruct (eval_conditional _ ast); eauto.
Qed.

Theorem lang_update_total expr it vals names :
  (exists it', lang_update expr it vals names = Ok it') \/ lang_update expr it vals names = Err Syntax \/
  lang_update expr it vals names = Err Unsupported.
Proof.
  unfold lang_update. destruct (parse_upd_total expr) as [ast [k ->]].
  destruct (negb (k =? 0)); auto. destruct (add_attributes [] it); auto. destruct (add_attributes f vals); auto.
  destruct (eval_update_stmt _ ast); eauto.
Qed.

(* ---------- C06: the precedence chain, as the parser applies it (finite sweep over the comparators) ---------- *)
Definition comparators : list str := [bs "="; bs "<>"; bs "<"; bs "<="; bs ">"; bs ">="].

Definition shown (s : str) : option (str * nat) := option_map (fun r => (show (fst r), snd r)) (parse_cond s).

Definition groups_by_precedence (c1 c2 c3 : str) : bool :=
  let sp := bs " " in
  let e1 := bs "a" ++ sp ++ c1 ++ sp ++ bs ":x" in
  let e2 := bs "b" ++ sp ++ c2 ++ sp ++ bs ":y" in
  let e3 := bs "c" ++ sp ++ c3 ++ sp ++ bs ":z" in
  let p s := bs "(" ++ s ++ bs ")" in
  match shown (bs "NOT " ++ e1 ++ bs " AND " ++ e2 ++ bs " OR " ++ e3),
        shown (e1 ++ bs " OR " ++ e2 ++ bs " AND NOT " ++ e3) with
  | Some (s1, 0), Some (s2, 0) =>
      str_eqb s1 (p (p (p (bs "NOT" ++ p e1) ++ bs " AND " ++ p e2) ++ bs " OR " ++ p e3)) &&
      str_eqb s2 (p (p e1 ++ bs " OR " ++ p (p e2 ++ bs " AND " ++ p (bs "NOT" ++ p e3))))
  | _, _ => false
  end.

(* for every choice of the six comparators in the three positions: a comparison binds tighter than NOT, NOT tighter
   than AND, AND tighter than OR - read off the tree the condition parser builds *)
Theorem precedence_grouping :
  forall c1 c2 c3, In c1 comparators -> In c2 comparators -> In c3 comparators -> groups_by_precedence c1 c2 c3 = true.
Proof.
  assert (forallb (fun c1 => forallb (fun c2 => forallb (fun c3 => groups_by_precedence c1 c2 c3) comparators) comparators) comparators = true) as H
    by (vm_compute; reflexivity).
  intros c1 c2 c3 H1 H2 H3. rewrite forallb_forall in H. specialize (H c1 H1). rewrite forallb_forall in H.
  specialize (H c2 H2). rewrite forallb_forall in H. exact (H c3 H3).
Qed.

(* ---------- C09: dangling operands are rejected (fix f345586) ---------- *)
Lemma expect_peek_true p t ok p' : expect_peek p t = (ok, p') ->
  (ok = true /\ ty (peek p) = t /\ p' = next p) \/ (ok = false /\ p' = add_err p).
Proof.
  unfold expect_peek. destruct (peek_is p t) eqn:E; intros H; inversion H; subst; auto.
  left. repeat split; auto. now apply peek_is_true.
Qed.

Lemma nerrs_next p : nerrs (next p) = nerrs p.
Proof. unfold next. destruct (next_token (rest p)). reflexivity. Qed.

Lemma cur_next p : cur (next p) = peek p.
Proof. unfold next. destruct (next_token (rest p)). reflexivity. Qed.

(* BETWEEN takes two identifier tokens (names or placeholders) around AND, or the parse records an error *)
Theorem between_operands_checked upd n l p e p' :
  pinfix upd (S n) IBetween l p = Some (e, p') ->
  (e = ENil /\ nerrs p' = S (nerrs p)) \/
  (exists lo hi, e = EBetween (cur p) l (EIdent lo) (EIdent hi) /\ ty lo = IDENT /\ ty hi = IDENT /\ nerrs p' = nerrs p).
Proof.
  rewrite pinfix_S. cbv zeta.
  destruct (expect_peek p IDENT) as [ok0 p0] eqn:E0. apply expect_peek_true in E0 as [[-> [T0 ->]]|[-> ->]]; cbn [negb].
  - destruct (expect_peek (next p) AND) as [ok1 p1] eqn:E1. apply expect_peek_true in E1 as [[-> [T1 ->]]|[-> ->]]; cbn [negb].
    + destruct (expect_peek (next (next p)) IDENT) as [ok2 p2] eqn:E2. apply expect_peek_true in E2 as [[-> [T2 ->]]|[-> ->]].
      * intros H; inversion H; subst. right. exists (cur (next p)), (cur (next (next (next p)))).
        repeat split; auto; rewrite ?cur_next, ?nerrs_next; auto.
      * intros H; inversion H; subst. left. split; auto. cbn. now rewrite !nerrs_next.
    + intros H; inversion H; subst. left. split; auto. cbn. now rewrite nerrs_next.
  - intros H; inversion H; subst. left. auto.
Qed.

(* "." and "[" take an identifier token as the member name / element index, or the parse records an error *)
Theorem index_operand_checked upd n l p e p' :
  pinfix upd (S n) IIndex l p = Some (e, p') ->
  (e = ENil /\ nerrs p' = S (nerrs p)) \/
  (exists idx, e = EIndex (cur p) l (EIdent idx) /\ ty idx = IDENT /\ nerrs p' = nerrs p).
Proof.
  rewrite pinfix_S. cbv zeta.
  destruct (expect_peek p IDENT) as [ok0 p0] eqn:E0. apply expect_peek_true in E0 as [[-> [T0 ->]]|[-> ->]]; cbn [negb].
  - destruct (tt_beq (ty (cur p)) DOT).
    + intros H; inversion H; subst. right. exists (cur (next p)). rewrite cur_next, nerrs_next. auto.
    + destruct (expect_peek (next p) RBRACKET) as [ok1 p1] eqn:E1. apply expect_peek_true in E1 as [[-> [T1 ->]]|[-> ->]].
      * intros H; inversion H; subst. right. exists (cur (next p)). rewrite cur_next, !nerrs_next. auto.
      * intros H; inversion H; subst. left. split; auto. cbn. now rewrite nerrs_next.
  - intros H; inversion H; subst. left. auto.
Qed.

(* IN requires its opening parenthesis *)
Theorem in_requires_parenthesis upd n l p :
  ty (peek p) <> LPAREN -> pinfix upd (S n) IIn l p = Some (ENil, add_err p).
Proof.
  intros H. rewrite pinfix_S. cbv zeta. unfold expect_peek.
  destruct (peek_is p LPAREN) eqn:E; [apply peek_is_true in E; congruence|reflexivity].
Qed.

Definition dangling1 : str := bs "a BETWEEN :x AND".
Definition dangling2 : str := bs "a IN :x)".
Definition dangling3 : str := bs "attribute_exists(m.))".
Definition dangling4 : str := bs "SET a = :x SET".
Definition dangling5 : str := bs "REMOVE m.".

Lemma syntax_error_whatever_item_c e : (match parse_cond e with Some (_, S _) => true | _ => false end) = true ->
  forall it vals names, lang_match e it vals names = Err Syntax.
Proof. intros H it vals names. unfold lang_match. destruct (parse_cond e) as [[ast [|k]]|]; try discriminate. reflexivity. Qed.

Lemma syntax_error_whatever_item_u e : (match parse_upd e with Some (_, S _) => true | _ => false end) = true ->
  forall it vals names, lang_update e it vals names = Err Syntax.
Proof. intros H it vals names. unfold lang_update. destruct (parse_upd e) as [[ast [|k]]|]; try discriminate. reflexivity. Qed.

Theorem dangling_sentences_rejected :
  (forall it vals names, lang_match dangling1 it vals names = Err Syntax) /\
  (forall it vals names, lang_match dangling2 it vals names = Err Syntax) /\
  (forall it vals names, lang_match dangling3 it vals names = Err Syntax) /\
  (forall it vals names, lang_update dangling4 it vals names = Err Syntax) /\
  (forall it vals names, lang_update dangling5 it vals names = Err Syntax).
Proof.
  repeat split; first [apply syntax_error_whatever_item_c | apply syntax_error_whatever_item_u]; vm_compute; reflexivity.
Qed.
