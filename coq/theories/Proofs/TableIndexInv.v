(* IInv for every index of a table is preserved by every table operation (C03). *)
From Coq Require Import List Bool Arith Lia Sorting.Sorted Permutation.
From Coq Require Import Strings.Byte.
From Minidyn Require Import Base.Str Base.FMap Base.Outcome Model.Value Model.Key Model.Index Model.Table Model.Client.
From Minidyn Require Import Proofs.FMapFacts Proofs.SortFacts Proofs.TableInv Proofs.IndexInv.
Import ListNotations.

(* the key attributes of the index are declared *)
Definition ix_declared (defs : fmap str) (ix : index) : Prop :=
  mem (hashk (ix_ks ix)) defs = true /\ (rangek (ix_ks ix) = [] \/ mem (rangek (ix_ks ix)) defs = true).

Definition XInv (t : table) : Prop :=
  TInv t /\ forall n ix, In (n, ix) (t_indexes t) -> IInv (t_defs t) (t_data t) ix /\ ix_declared (t_defs t) ix.

Lemma validate_index_keys_ok defs ixs it :
  validate_index_keys defs ixs it = true -> forall n ix, In (n, ix) ixs -> exists ik, get_key (ix_ks ix) defs it = inr ik.
Proof.
  induction ixs as [|[n0 ix0] rest IH]; cbn; [intros _ n ix []|].
  destruct (get_key (ix_ks ix0) defs it) as [e|ik] eqn:G; [discriminate|].
  intros H n ix [E|Hin]; [inversion E; subst; eauto|eauto].
Qed.

Lemma ix_put_ks defs key it ix ix' : ix_put defs key it ix = inr ix' -> ix_ks ix' = ix_ks ix.
Proof.
  unfold ix_put. destruct (get_key _ _ _) as [e|ik]; [discriminate|].
  assert (ix_ks (ix_remove key ix) = ix_ks ix) as E.
  { unfold ix_remove. destruct (lookup key (ix_refs ix)); reflexivity. }
  destruct ik; intros H; inversion H; subst; cbn; auto.
Qed.

Lemma ix_remove_ks key ix : ix_ks (ix_remove key ix) = ix_ks ix.
Proof. unfold ix_remove. destruct (lookup key (ix_refs ix)); reflexivity. Qed.

(* Put / Update: set the item, then re-file it in every index *)
Lemma XInv_write t key it :
  XInv t -> validate_index_keys (t_defs t) (t_indexes t) it = true ->
  XInv (with_indexes (set_item t key it) (put_indexes (t_defs t) key it (t_indexes (set_item t key it)))).
Proof.
  intros [HT HI] Hv. split.
  - apply TInv_with_indexes, TInv_set_item, HT.
  - cbn [with_indexes t_indexes t_defs t_data set_item]. intros n ix' Hin.
    unfold put_indexes in Hin. apply in_map_iff in Hin as [[n0 ix] [E Hin]]. cbn in E. inversion E; subst n ix'.
    destruct (HI _ _ Hin) as [H1 H2].
    destruct (validate_index_keys_ok _ _ _ Hv _ _ Hin) as [ik G].
    destruct (ix_put (t_defs t) key it ix) as [e|ix1] eqn:P.
    + exfalso. unfold ix_put in P. rewrite G in P. destruct ik; discriminate.
    + split.
      * eapply IInv_put; eauto. apply HT.
      * unfold ix_declared. now rewrite (ix_put_ks _ _ _ _ _ P).
Qed.

Lemma XInv_delete t key old :
  XInv t -> lookup key (t_data t) = Some old ->
  XInv {| t_name := t_name t; t_ks := t_ks t; t_defs := t_defs t;
          t_sorted := remove_at (lower_bound key (t_sorted t)) (t_sorted t);
          t_data := remove key (t_data t);
          t_indexes := delete_indexes key (t_indexes t) |}.
Proof.
  intros [HT HI] L. destruct HT as [Hw Hs]. split.
  - split; cbn [t_data t_sorted].
    + now apply wf_remove.
    + rewrite Hs. symmetry. apply keys_remove; auto. unfold mem. now rewrite L.
  - cbn [t_indexes t_defs t_data]. intros n ix' Hin.
    unfold delete_indexes in Hin. apply in_map_iff in Hin as [[n0 ix] [E Hin]]. cbn in E. inversion E; subst n ix'.
    destruct (HI _ _ Hin) as [H1 H2]. split.
    + now apply IInv_remove.
    + unfold ix_declared, ix_delete. now rewrite ix_remove_ks.
Qed.

Lemma XInv_clear t : XInv t -> XInv (t_clear t).
Proof.
  intros [HT HI]. split; [apply TInv_clear|].
  cbn [t_clear t_indexes t_defs t_data]. intros n ix' Hin.
  apply in_map_iff in Hin as [[n0 ix] [E Hin]]. cbn in E. inversion E; subst n ix'.
  destruct (HI _ _ Hin) as [H1 H2]. split; [apply IInv_clear|exact H2].
Qed.

Section Ops.
Variable lang_match : str -> item -> item -> fmap str -> outcome bool.
Variable lang_update : str -> item -> item -> fmap str -> outcome item.

Lemma XInv_put c t it cond names vals : XInv t -> XInv (fst (t_put lang_match c t it cond names vals)).
Proof.
  intros H. unfold t_put.
  destruct (get_key (t_ks t) (t_defs t) it) as [e|key]; [exact H|].
  destruct (check_cond lang_match c t (get_item t key) cond names vals) as [[[] f]| | |]; try exact H.
  destruct (validate_index_keys (t_defs t) (t_indexes t) it) eqn:V; [|exact H].
  now apply XInv_write.
Qed.

Lemma XInv_update c t k expr cond names vals :
  XInv t -> XInv (fst (t_update lang_match lang_update c t k expr cond names vals)).
Proof.
  intros H. unfold t_update.
  destruct (get_key (t_ks t) (t_defs t) k) as [e|key]; [exact H|].
  destruct (check_cond lang_match c t _ cond names vals) as [[[] f]| | |]; try exact H.
  destruct (interp_update lang_update c (t_name t) expr _ vals names) as [[it' f']| | |]; try exact H.
  destruct (validate_index_keys (t_defs t) (t_indexes t) it') eqn:V; [|exact H].
  now apply XInv_write.
Qed.

Lemma XInv_delete_op c t k cond names vals : XInv t -> XInv (fst (t_delete lang_match c t k cond names vals)).
Proof.
  intros H. unfold t_delete.
  destruct (get_key (t_ks t) (t_defs t) k) as [e|key]; [exact H|].
  destruct (check_cond lang_match c t _ cond names vals) as [[[] f]| | |]; try exact H.
  destruct (lookup key (t_data t)) as [old|] eqn:L; [|exact H].
  destruct (Nat.eqb (lower_bound key (t_sorted t)) (length (t_sorted t))) eqn:E.
  - (* unreachable under TInv: the key is in SortedKeys *)
    exfalso. apply Nat.eqb_eq in E. destruct H as [[Hw Hs] _].
    assert (Hin : In key (t_sorted t)). { rewrite Hs. apply mem_true_iff. unfold mem. now rewrite L. }
    assert (Hs' : ssorted (t_sorted t)) by (rewrite Hs; exact Hw).
    pose proof (remove_at_lower_bound key (t_sorted t) Hs' Hin key) as R.
    rewrite E, remove_at_length in R. apply R in Hin. destruct Hin as [_ Hne]. now apply Hne.
  - cbn [fst]. eapply XInv_delete; eauto.
Qed.

End Ops.

(* ---------- index creation with backfill ---------- *)

Lemma wf_app_last {V} (d1 : fmap V) k v : wf (d1 ++ [(k, v)]) -> insert k v d1 = d1 ++ [(k, v)].
Proof.
  unfold wf. induction d1 as [|[k1 v1] d1 IH]; cbn; auto.
  intros H. apply ssorted_cons_inv in H as [Hs Hall].
  rewrite Forall_forall in Hall.
  assert (str_lt k1 k) as L. { apply Hall. unfold keys. rewrite map_app. apply in_or_app. right. now left. }
  assert (str_compare k k1 = Gt) as ->.
  { unfold str_lt in L. rewrite (str_compare_antisym k1 k), L. reflexivity. }
  f_equal. apply IH. exact Hs.
Qed.

Lemma wf_app_inv {V} (d1 d2 : fmap V) : wf (d1 ++ d2) -> wf d1.
Proof.
  unfold wf, keys. rewrite map_app. induction (map fst d1) as [|x l IH]; cbn; [constructor|].
  intros H. apply ssorted_cons_inv in H as [Hs Hall]. constructor; [apply IH; exact Hs|].
  apply Forall_forall. intros y Hy. rewrite Forall_forall in Hall. apply Hall. apply in_or_app. now left.
Qed.

Lemma lookup_app_fresh {V} (d1 d2 : fmap V) k v : wf (d1 ++ (k, v) :: d2) -> lookup k (d1 ++ (k, v) :: d2) = Some v /\ lookup k d1 = None.
Proof.
  unfold wf. induction d1 as [|[k1 v1] d1 IH]; cbn.
  - now rewrite str_eqb_refl.
  - intros H. apply ssorted_cons_inv in H as [Hs Hall]. rewrite Forall_forall in Hall.
    assert (str_lt k1 k) as L. { apply Hall. unfold keys. rewrite map_app. apply in_or_app. right. now left. }
    assert (str_eqb k k1 = false) as ->. { apply str_eqb_neq. intros ->. now apply str_lt_irrefl in L. }
    now apply IH.
Qed.

Definition backfill_step (defs : fmap str) (data : fmap item) (ix : index) (key : str) : index :=
  match lookup key data with
  | Some it => match ix_put defs key it ix with inr ix' => ix' | inl _ => ix end
  | None => ix
  end.

Lemma backfill_IInv defs : forall d2 d1 ix,
  wf (d1 ++ d2) -> IInv defs d1 ix ->
  IInv defs (d1 ++ d2) (fold_left (backfill_step defs (d1 ++ d2)) (keys d2) ix) /\
  ix_ks (fold_left (backfill_step defs (d1 ++ d2)) (keys d2) ix) = ix_ks ix.
Proof.
  induction d2 as [|[k it] d2 IH]; intros d1 ix Hw H; unfold keys; cbn [map fold_left fst]; [|fold (keys d2)].
  - rewrite app_nil_r. auto.
  - destruct (lookup_app_fresh d1 d2 k it Hw) as [L1 L2].
    assert (d1 ++ (k, it) :: d2 = (d1 ++ [(k, it)]) ++ d2) as Eq by (rewrite <- app_assoc; reflexivity).
    assert (wf (d1 ++ [(k, it)])) as Hw1. { rewrite Eq in Hw. eapply wf_app_inv; eauto. }
    assert (backfill_step defs (d1 ++ (k, it) :: d2) ix k = match ix_put defs k it ix with inr ix' => ix' | inl _ => ix end) as Hb
      by (unfold backfill_step; now rewrite L1).
    rewrite Hb.
    assert (IInv defs (d1 ++ [(k, it)]) (match ix_put defs k it ix with inr ix' => ix' | inl _ => ix end) /\
            ix_ks (match ix_put defs k it ix with inr ix' => ix' | inl _ => ix end) = ix_ks ix) as [H1 K1].
    { rewrite <- (wf_app_last d1 k it Hw1).
      destruct (ix_put defs k it ix) as [e|ix1] eqn:P.
      - split; auto.
        pose proof (IInv_add defs d1 ix k it H L2) as A.
        assert (index_key_of (ix_ks ix) defs it = None) as Hk.
        { unfold index_key_of. unfold ix_put in P. destruct (get_key (ix_ks ix) defs it) as [e'|ik]; auto.
          destruct ik; discriminate. }
        rewrite Hk in A. exact A.
      - split; [|eapply ix_put_ks; eauto]. eapply IInv_put; eauto. eapply wf_app_inv; eauto. }
    rewrite Eq in *. destruct (IH (d1 ++ [(k, it)]) _ Hw H1) as [R1 R2]. split; auto. congruence.
Qed.

Lemma XInv_add_global_index t ppr d t' : XInv t -> add_global_index t ppr d = Some t' -> XInv t'.
Proof.
  intros [HT HI]. unfold add_global_index.
  destruct (negb ppr && negb (id_throughput d)); [discriminate|].
  destruct (check_schema (t_defs t) (id_hash d) (id_range d)) as [[h r]|] eqn:C; [|discriminate].
  intros E; inversion E; subst; clear E. split; [exact HT|].
  cbn [with_indexes t_indexes t_defs t_data].
  destruct HT as [Hw Hs].
  pose proof (backfill_IInv (t_defs t) (t_data t) [] (new_index IxGlobal h r) Hw (IInv_empty _ _ _ _)) as [B1 B2].
  cbn [app] in B1, B2. rewrite <- Hs in B1, B2.
  assert (forall ix0 ks, fold_left (fun ix key => match lookup key (t_data t) with
                                                   | Some it => match ix_put (t_defs t) key it ix with inr ix' => ix' | inl _ => ix end
                                                   | None => ix end) ks ix0
                         = fold_left (backfill_step (t_defs t) (t_data t)) ks ix0) as Ef by reflexivity.
  rewrite Ef.
  intros n ix Hin.
  (* entries of an insertion are the new entry or old ones *)
  assert (forall (m : fmap index) k v n ix, In (n, ix) (insert k v m) -> (n = k /\ ix = v) \/ In (n, ix) m) as Hins.
  { clear. induction m as [|[k0 v0] m IH]; cbn; intros k v n ix H.
    - destruct H as [H|[]]. inversion H; auto.
    - destruct (str_compare k k0); cbn in H.
      + destruct H as [H|H]; [inversion H; auto|auto].
      + destruct H as [H|H]; [inversion H; auto|auto].
      + destruct H as [H|H]; [auto|]. apply IH in H as [H|H]; auto. }
  apply Hins in Hin as [[-> ->]|Hin]; [|now apply (HI n ix)].
  split; [exact B1|].
  unfold ix_declared. rewrite B2. cbn.
  unfold check_schema in C.
  destruct (id_hash d) as [[|c0 hk]|]; try discriminate.
  destruct (mem (c0 :: hk) (t_defs t)) eqn:M; [|discriminate].
  destruct (id_range d) as [[|c1 rk]|].
  - destruct (key_typed _ _); inversion C; subst; auto.
  - destruct (mem (c1 :: rk) (t_defs t)) eqn:M2; [|discriminate].
    destruct (key_typed _ _ && key_typed _ _); inversion C; subst; auto.
  - destruct (key_typed _ _); inversion C; subst; auto.
Qed.
