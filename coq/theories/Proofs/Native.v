(* C20: the native registry dispatches on exactly (table, kind, expression text up to whitespace). *)
From Coq Require Import List Bool Arith NArith Lia DecimalNat.
From Coq Require Import Strings.Byte Strings.String.
From Minidyn Require Import Base.Str Base.FMap Base.Outcome Model.Value Model.Key Model.Index Model.Table.
From Minidyn Require Import Proofs.FMapFacts.
Import ListNotations.

Definition space_free (w : str) : Prop := Forall (fun c => is_space c = false) w.
Definition word (w : str) : Prop := w <> [] /\ space_free w.

(* ---- strings.Fields ---- *)
Lemma fields_aux_word w : forall s cur, space_free w -> fields_aux (w ++ s) cur = fields_aux s (rev w ++ cur).
Proof.
  induction w as [|c w IH]; intros s cur H; cbn; auto.
  inversion H; subst. rewrite H2. rewrite IH by auto. now rewrite <- app_assoc.
Qed.

Lemma rev_word x cur : space_free (x :: cur) -> word (rev (x :: cur)).
Proof.
  intros H. split.
  - intros E. apply (f_equal (@List.length byte)) in E. rewrite rev_length in E. discriminate.
  - unfold space_free in *. now apply Forall_rev.
Qed.

Lemma fields_aux_words : forall s cur, space_free cur -> Forall word (fields_aux s cur).
Proof.
  induction s as [|c s IH]; intros cur Hc; cbn.
  - destruct cur as [|x cur]; [constructor|]. constructor; [now apply rev_word|constructor].
  - destruct (is_space c) eqn:E.
    + destruct cur as [|x cur].
      * apply IH. constructor.
      * constructor; [now apply rev_word|]. apply IH. constructor.
    + apply IH. constructor; auto.
Qed.

Lemma fields_words s : Forall word (fields s).
Proof. apply fields_aux_words. constructor. Qed.

(* fields is a left inverse of joining words with single spaces *)
Lemma space_is_space : is_space " "%byte = true.
Proof. reflexivity. Qed.

Lemma fields_aux_nil cur : cur <> [] -> fields_aux [] cur = [rev cur].
Proof. destruct cur; [congruence|reflexivity]. Qed.

Lemma fields_aux_space s cur : cur <> [] -> fields_aux (" "%byte :: s) cur = rev cur :: fields_aux s [].
Proof. destruct cur; [congruence|reflexivity]. Qed.

Lemma rev_nonempty (w : str) : w <> [] -> rev w <> [].
Proof. intros H E. apply H. apply (f_equal (@rev byte)) in E. now rewrite rev_involutive in E. Qed.

Lemma fields_aux_word0 w cur : space_free w -> fields_aux w cur = fields_aux [] (rev w ++ cur).
Proof. intros H. pose proof (fields_aux_word w [] cur H) as E. now rewrite app_nil_r in E. Qed.

Lemma fields_join l : Forall word l -> fields (join (bs " ") l) = l.
Proof.
  unfold fields. induction l as [|w l IH]; intros H; [reflexivity|].
  inversion H as [|? ? [Hne Hsf] Hl]; subst.
  destruct l as [|w2 l].
  - cbn [join]. rewrite fields_aux_word0 by auto. rewrite app_nil_r.
    rewrite fields_aux_nil by (now apply rev_nonempty). now rewrite rev_involutive.
  - change (join (bs " ") (w :: w2 :: l)) with (w ++ " "%byte :: join (bs " ") (w2 :: l)).
    rewrite fields_aux_word by auto. rewrite app_nil_r.
    rewrite fields_aux_space by (now apply rev_nonempty). rewrite rev_involutive. f_equal. apply IH. exact Hl.
Qed.

(* two texts have the same normal form iff they are the same sequence of words *)
Theorem norm_expr_eq_iff a b : norm_expr a = norm_expr b <-> fields a = fields b.
Proof.
  split; [|unfold norm_expr; now intros ->].
  unfold norm_expr. intros H.
  rewrite <- (fields_join (fields a)) by apply fields_words.
  rewrite <- (fields_join (fields b)) by apply fields_words.
  now rewrite H.
Qed.

Theorem norm_expr_idempotent a : norm_expr (norm_expr a) = norm_expr a.
Proof.
  unfold norm_expr. pose proof (fields_join (fields a) (fields_words a)) as E. now rewrite E.
Qed.

(* surrounding whitespace does not matter *)
Lemma fields_leading_space c s : is_space c = true -> fields (c :: s) = fields s.
Proof. intros H. unfold fields. cbn. now rewrite H. Qed.

(* ---- the registry key ---- *)
Definition no_bar (t : str) : Prop := ~ In "|"%byte t.

Lemma reg_key_inj t1 t2 a b : no_bar t1 -> no_bar t2 -> t1 ++ bs "|" ++ a = t2 ++ bs "|" ++ b -> t1 = t2 /\ a = b.
Proof.
  revert t2; induction t1 as [|c t1 IH]; intros t2 H1 H2 E.
  - destruct t2 as [|d t2]; cbn in E.
    + inversion E; auto.
    + inversion E; subst. exfalso. apply H2. now left.
  - destruct t2 as [|d t2]; cbn in E.
    + inversion E; subst. exfalso. apply H1. now left.
    + inversion E; subst. destruct (IH t2) as [-> ->]; auto.
      * intros Hin. apply H1. now right.
      * intros Hin. apply H2. now right.
Qed.

(* the registration key since fix cbdfecf: the decimal length of the table name, "|", the table name, "|", the
   normalised expression; it identifies the pair for ALL table names and expressions *)
Lemma dec_str_no_bar u : no_bar (dec_str u).
Proof. induction u; cbn; intros H; try (destruct H as [H|H]; [discriminate|now apply IHu]); destruct H. Qed.

Lemma dec_str_inj u : forall v, dec_str u = dec_str v -> u = v.
Proof. induction u; intros v E; destruct v; cbn in E; try discriminate; auto; inversion E; f_equal; auto. Qed.

Lemma itoa_inj n m : itoa n = itoa m -> n = m.
Proof. unfold itoa. intros E. apply dec_str_inj in E. now apply Unsigned.to_uint_inj. Qed.

Lemma app_same_length {A} (a1 a2 b1 b2 : list A) : List.length a1 = List.length a2 -> a1 ++ b1 = a2 ++ b2 -> a1 = a2 /\ b1 = b2.
Proof.
  revert a2; induction a1 as [|x a1 IH]; intros [|y a2] L E; cbn in *; try discriminate; auto.
  inversion E; subst. destruct (IH a2) as [-> ->]; auto.
Qed.

Lemma reg_key_injective t1 e1 t2 e2 : reg_key t1 e1 = reg_key t2 e2 -> t1 = t2 /\ norm_expr e1 = norm_expr e2.
Proof.
  unfold reg_key. intros E.
  apply reg_key_inj in E as [Hl E]; [|apply dec_str_no_bar|apply dec_str_no_bar].
  apply itoa_inj in Hl. apply app_same_length in E as [-> E]; auto. split; auto.
  cbn in E. now inversion E.
Qed.

Definition ekind_eqb (a b : ekind) : bool :=
  match a, b with KKey, KKey | KFilter, KFilter | KCond, KCond => true | _, _ => false end.

Lemma lookup_add_matcher r t' k' e' id v t k e :
  lookup (reg_key t e) (reg_matchers (add_matcher r t' k' e' id v) k) =
  if ekind_eqb k k' && str_eqb (reg_key t e) (reg_key t' e') then Some (id, v)
  else lookup (reg_key t e) (reg_matchers r k).
Proof.
  destruct k, k'; cbn; try reflexivity; apply lookup_insert.
Qed.

(* a registration answers a request iff table, kind and the word sequence of the expression agree *)
Theorem registration_matches_exactly t' k' e' t k e :
  (ekind_eqb k k' && str_eqb (reg_key t e) (reg_key t' e') = true) <-> (k = k' /\ t = t' /\ fields e = fields e').
Proof.
  rewrite andb_true_iff, str_eqb_eq. split.
  - intros [Hk He]. apply reg_key_injective in He as [-> Hn]. apply norm_expr_eq_iff in Hn.
    destruct k, k'; try discriminate; auto.
  - intros [-> [-> Hf]]. split; [destruct k'; reflexivity|]. apply norm_expr_eq_iff in Hf. unfold reg_key. now rewrite Hf.
Qed.

Lemma lookup_add_updater_matchers r t' e' id set k key :
  lookup key (reg_matchers (add_updater r t' e' id set) k) = lookup key (reg_matchers r k).
Proof. destruct k; reflexivity. Qed.

Lemma lookup_add_updater r t' e' id set t e :
  lookup (reg_key t e) (r_upd (add_updater r t' e' id set)) =
  if str_eqb (reg_key t e) (reg_key t' e') then Some (id, set) else lookup (reg_key t e) (r_upd r).
Proof. cbn. apply lookup_insert. Qed.

Lemma lookup_add_matcher_upd r t' k' e' id v key :
  lookup key (r_upd (add_matcher r t' k' e' id v)) = lookup key (r_upd r).
Proof. destruct k'; reflexivity. Qed.

Section Dispatch.
Variable lang_match : str -> item -> item -> fmap str -> outcome bool.
Variable lang_update : str -> item -> item -> fmap str -> outcome item.

Definition lang_only (expr : str) (it vals : item) (names : fmap str) : outcome (bool * list nat) :=
  match lang_match expr it vals names with
  | Ok b => Ok (b, [])
  | Err e => lang_panic e
  | Panic p => Panic p
  | OutOfFuel => OutOfFuel
  end.

(* the registered verdict is what the operation uses, and the callback is the one that ran *)
Theorem native_hit c tn k e it vals names id v :
  use_native c = true -> lookup (reg_key tn e) (reg_matchers (reg c) k) = Some (id, v) ->
  interp_match lang_match c tn k e it vals names = Ok (v, [id]).
Proof. intros Hn Hl. unfold interp_match. now rewrite Hn, Hl. Qed.

(* no registered matcher (or native interpreter off): the built-in interpreter decides, no callback runs *)
Theorem native_miss_falls_back c tn k e it vals names :
  use_native c = false \/ lookup (reg_key tn e) (reg_matchers (reg c) k) = None ->
  interp_match lang_match c tn k e it vals names = lang_only e it vals names.
Proof.
  intros [H|H]; unfold interp_match, lang_only.
  - now rewrite H.
  - rewrite H. destruct (use_native c); reflexivity.
Qed.

(* an update with no registered updater fails with the unsupported-feature error *)
Theorem native_update_miss c tn e it vals names :
  use_native c = true -> lookup (reg_key tn e) (r_upd (reg c)) = None ->
  interp_update lang_update c tn e it vals names = Err Unsupported.
Proof. intros Hn Hl. unfold interp_update. now rewrite Hn, Hl. Qed.

(* ... and the item is untouched: the table comes back unchanged *)
Theorem native_update_miss_untouched c t k e names vals key :
  use_native c = true -> lookup (reg_key (t_name t) e) (r_upd (reg c)) = None ->
  get_key (t_ks t) (t_defs t) k = inr key ->
  t_update lang_match lang_update c t k e None names vals = (t, WErr Unsupported).
Proof.
  intros Hn Hl G. unfold t_update. rewrite G. cbn [check_cond].
  now rewrite (native_update_miss c (t_name t) e _ vals names Hn Hl).
Qed.

End Dispatch.
