(* C10 / C17: the SDK mappers on attribute values. *)
From Coq Require Import List Bool Arith Lia.
From Coq Require Import Strings.Byte Strings.String.
From Minidyn Require Import Base.Str Base.FMap Base.Outcome Model.Value Model.Key Model.Index Model.Table Model.Client.
Import ListNotations.

(* no empty binary, set, list or map anywhere in the value *)
Fixpoint no_empty (v : av) : bool :=
  match v with
  | AB [] | ABS [] | ANS [] | ASS [] | AL [] | AM [] => false
  | AL l => forallb no_empty l
  | AM m => forallb (fun kv => no_empty (snd kv)) m
  | _ => true
  end.

Lemma v2_out_id v : no_empty v = true -> v2_out v = v.
Proof.
  induction v using av_ind'; cbn; intros Hn; auto.
  - destruct s; [discriminate|reflexivity].
  - destruct l as [|x l]; [discriminate|]. f_equal.
    cbn in Hn. apply andb_true_iff in Hn as [Hx Hl].
    inversion H as [|? ? Px Pl]; subst. cbn. rewrite (Px Hx). f_equal.
    clear - Pl Hl. induction l as [|y l IH]; cbn; auto.
    cbn in Hl. apply andb_true_iff in Hl as [Hy Hl]. inversion Pl; subst. rewrite H1 by auto. f_equal. auto.
  - destruct m as [|[k x] m]; [discriminate|]. f_equal.
    cbn in Hn. apply andb_true_iff in Hn as [Hx Hl].
    inversion H as [|? ? Px Pl]; subst. cbn in *. rewrite (Px Hx). f_equal.
    clear - Pl Hl. induction m as [|[k' y] m IH]; cbn; auto.
    cbn in Hl. apply andb_true_iff in Hl as [Hy Hl]. inversion Pl; subst. cbn in *. rewrite H1 by auto. f_equal. auto.
  - destruct l; [discriminate|reflexivity].
  - destruct l; [discriminate|reflexivity].
  - destruct l; [discriminate|reflexivity].
Qed.

Definition item_no_empty (i : item) : bool := forallb (fun kv => no_empty (snd kv)) i.

Lemma out_item_v2_id i : item_no_empty i = true -> out_item V2 i = i.
Proof.
  induction i as [|[k v] i IH]; cbn; auto. intros H. apply andb_true_iff in H as [Hv Hi].
  rewrite v2_out_id by auto. f_equal. now apply IH.
Qed.

Lemma out_item_v1_id i : out_item V1 i = i.
Proof. reflexivity. Qed.

(* what GetItem returns is the stored item passed through the SDK's output mapper *)
Lemma get_returns_stored lm lu s c tn key names proj t k :
  preamble s c tn names [] [proj] = inr t -> get_key (t_ks t) (t_defs t) key = inr k ->
  snd (step lm lu s c (OGet tn key names proj)) = ok_obs (PItem (out_item s (get_item t k))) [].
Proof. intros P G. cbn. unfold get_item_op. now rewrite P, G. Qed.
