(* C19: a batch write is the fold of its single requests. *)
From Coq Require Import List Bool Arith Lia.
From Coq Require Import Strings.Byte Strings.String.
From Minidyn Require Import Base.Str Base.FMap Base.Outcome Model.Value Model.Key Model.Index Model.Table Model.Client.
Import ListNotations.

Section Batch.
Variable lang_match : str -> item -> item -> fmap str -> outcome bool.
Variable flavour : sdk.

(* the single operation a write request stands for *)
Definition single (c : client) (tn : str) (r : wreq) : client * obs :=
  match r with
  | WPut i | WBoth i _ => put_item lang_match flavour c tn i None [] [] false
  | WDelete k => delete_item lang_match flavour c tn k None [] [] false
  | WNeither => match c_failure c with Some f => (c, err_obs (failure_err f)) | None => (c, ok_obs PNone []) end
  end.

Definition all_ok (c : client) (tn : str) (rs : list wreq) : Prop :=
  forall pre r post, rs = pre ++ r :: post ->
    o_res (snd (single (fold_left (fun c r => fst (single c tn r)) pre c) tn r)) = ROk.

Lemma batch_write_one_single c tn r :
  o_res (snd (single c tn r)) = ROk -> batch_write_one lang_match flavour c tn r = (fst (single c tn r), None).
Proof.
  unfold batch_write_one, single. destruct r; cbn.
  - destruct (put_item lang_match flavour c tn i None [] [] false) as [c' o]; cbn. now intros ->.
  - destruct (delete_item lang_match flavour c tn k None [] [] false) as [c' o]; cbn. now intros ->.
  - destruct (c_failure c); cbn; [discriminate|reflexivity].
  - destruct (put_item lang_match flavour c tn i None [] [] false) as [c' o]; cbn. now intros ->.
Qed.

(* when every request succeeds, the batch leaves exactly the state of the single requests applied in order,
   and nothing is reported as unprocessed *)
Theorem batch_reqs_is_fold rs : forall c tn un,
  all_ok c tn rs ->
  batch_write_reqs lang_match flavour c tn rs un = (fold_left (fun c r => fst (single c tn r)) rs c, un, None).
Proof.
  induction rs as [|r rs IH]; intros c tn un H; cbn [batch_write_reqs fold_left]; auto.
  assert (o_res (snd (single c tn r)) = ROk) as H0 by (apply (H [] r rs); reflexivity).
  rewrite (batch_write_one_single c tn r H0). apply IH.
  intros pre r' post E. specialize (H (r :: pre) r' post). cbn in H. apply H. now rewrite E.
Qed.

Theorem batch_tables_is_fold ts : forall c un,
  (forall pre tn rs post, ts = pre ++ (tn, rs) :: post ->
     all_ok (fold_left (fun c tr => fold_left (fun c r => fst (single c (fst tr) r)) (snd tr) c) pre c) tn rs) ->
  batch_write_tables lang_match flavour c ts un =
  (fold_left (fun c tr => fold_left (fun c r => fst (single c (fst tr) r)) (snd tr) c) ts c, un, None).
Proof.
  induction ts as [|[tn rs] ts IH]; intros c un H; cbn [batch_write_tables fold_left]; auto.
  rewrite (batch_reqs_is_fold rs c tn []) by (apply (H [] tn rs ts); reflexivity).
  cbn [fst snd]. apply IH.
  intros pre tn' rs' post E. specialize (H ((tn, rs) :: pre) tn' rs' post). cbn in H. apply H. now rewrite E.
Qed.

End Batch.

(* ---------- BatchGetItem ---------- *)
Section BatchGet.
Variable lang_match : str -> item -> item -> fmap str -> outcome bool.

(* the items GetItem returns for a list of keys of one table (keys without a stored item contribute nothing) *)
Definition gets (c : client) (tn : str) (names : fmap str) (proj : str) (keys : list item) : list item :=
  flat_map (fun k => match snd (get_item_op V2 c tn k names proj) with
                     | {| o_res := ROk; o_pay := PItem ((_ :: _) as i) |} => [i]
                     | _ => [] end) keys.

(* with no emulated failure BatchGetItem (SDK v2) answers, per table and in request order, exactly with the items the
   individual GetItem calls return, and does not change the client *)
Definition opts_of (opts : fmap (fmap str * str)) (tn : str) : fmap str * str :=
  match lookup tn opts with Some o => o | None => ([], []) end.

(* the request validation of BatchGetItem: every table entry's names and projection obey the expression rules, and every
   table exists; the errors of the offending entries, in request order *)
Definition batch_get_errors (c : client) (reqs : fmap (list item)) (opts : fmap (fmap str * str)) : list errclass :=
  flat_map (fun tk : str * list item =>
              let '(names, proj) := opts_of opts (fst tk) in
              if negb (validate_expr_attrs (keys names) [] [proj]) then [Validation]
              else if mem (fst tk) (c_tables c) then [] else [NotFound]) reqs.

Theorem batch_get_invalid_rejected c reqs opts e es :
  c_failure c = None -> batch_get_errors c reqs opts = e :: es ->
  batch_get V2 c reqs opts = (c, {| o_res := RErr e; o_pay := PAlt (e :: es); o_fired := [] |}).
Proof. intros Hf Hv. unfold batch_get. rewrite Hf. unfold batch_get_errors, opts_of in Hv. rewrite Hv. reflexivity. Qed.

Theorem batch_get_is_gets c reqs opts :
  c_failure c = None -> batch_get_errors c reqs opts = [] ->
  exists unprocessed,
    batch_get V2 c reqs opts =
    (c, ok_obs (PBatchGet (map (fun tk => (fst tk, gets c (fst tk) (fst (opts_of opts (fst tk))) (snd (opts_of opts (fst tk))) (snd tk))) reqs) unprocessed) []).
Proof.
  intros Hf Hv. unfold batch_get. rewrite Hf. unfold batch_get_errors, opts_of in Hv. rewrite Hv. eexists. f_equal. f_equal. f_equal.
  rewrite map_map. apply map_ext. intros [tn keys]. cbn [fst snd]. unfold opts_of.
  destruct (match lookup tn opts with Some o => o | None => ([], []) end) as [names proj]. cbn [fst snd]. f_equal.
  unfold gets. rewrite flat_map_concat_map, flat_map_concat_map, map_map. f_equal. apply map_ext. intros k. cbn [fst snd].
  destruct (snd (get_item_op V2 c tn k names proj)) as [r p f]. cbn. destruct r; auto; destruct p; auto.
Qed.

End BatchGet.
