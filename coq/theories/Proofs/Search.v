(* C02: an unlimited Query/Scan returns exactly the matching items of the table, each once, in key order
   (reverse order when scanning backward). For every interpreter. *)
From Coq Require Import List Bool Arith Lia Sorting.Sorted Permutation.
From Coq Require Import Strings.Byte Strings.String.
From Minidyn Require Import Base.Str Base.FMap Base.Outcome Model.Value Model.Key Model.Index Model.Table.
From Minidyn Require Import Proofs.FMapFacts Proofs.SortFacts Proofs.TableInv Proofs.IndexInv.
Import ListNotations.

Section Search.
Variable lang_match : str -> item -> item -> fmap str -> outcome bool.

Notation match_key := (match_key lang_match).
Notation search_step := (search_step lang_match).
Notation search_loop := (search_loop lang_match).
Notation search_data := (search_data lang_match).

(* the specification: evaluate the request's expressions on the candidate items in order; keep the matching ones *)
Fixpoint select_items (c : ictx) (t : table) (q : query) (its : list item) : outcome (list item * list nat) :=
  match its with
  | [] => Ok ([], [])
  | it :: rest =>
      obind (match_key c t q it) (fun '(_, m, f) =>
        obind (select_items c t q rest) (fun '(l, f') => Ok ((if m then it :: l else l), f ++ f')))
  end.

(* when every evaluation succeeds this is a plain filter *)
Lemma select_items_filter c t q its (verdict : item -> bool) :
  (forall it, In it its -> exists e, match_key c t q it = Ok (e, verdict it, [])) ->
  select_items c t q its = Ok (filter verdict its, []).
Proof.
  induction its as [|it rest IH]; intros H; cbn; auto.
  destruct (H it (or_introl eq_refl)) as [e ->]. cbn.
  rewrite IH by (intros it' Hin; apply H; now right). cbn. destruct (verdict it); reflexivity.
Qed.

Definition unlimited (q : query) : Prop := q_limit q = 0 /\ q_esk q = [].

(* the loop over entries whose primary keys are all stored, once started and without a limit *)
Lemma loop_unlimited c t q hp sik spk : forall (pks : list (str * str)) s,
  q_limit q = 0 -> s_started s = true ->
  (forall e, In e pks -> mem (snd e) (t_data t) = true) ->
  obind (search_loop c t q hp sik spk (map (fun e => (fst e, Some (snd e))) pks) s) (fun s' => Ok (s_items s', s_fired s')) =
  obind (select_items c t q (map (fun e => get_item t (snd e)) pks)) (fun '(l, f) => Ok (s_items s ++ l, s_fired s ++ f)).
Proof.
  induction pks as [|[k pk] pks IH]; intros s Hl Hs Hm; cbn [map search_loop select_items fst snd].
  - cbn. now rewrite !app_nil_r.
  - unfold search_step. rewrite Hs. cbn [fst snd].
    assert (mem pk (t_data t) = true) as Hpk by (apply (Hm (k, pk)); now left).
    unfold mem in Hpk. destruct (lookup pk (t_data t)) as [it|] eqn:L; [|discriminate].
    assert (get_item t pk = it) as Hg by (unfold get_item; now rewrite L).
    rewrite Hg.
    destruct (match_key c t q it) as [[[ety m] f]| | |]; cbn [obind]; auto.
    rewrite Hl. cbn [Nat.eqb negb andb].
    match goal with |- context [search_loop c t q hp sik spk _ ?s1] => specialize (IH s1 Hl eq_refl) end.
    rewrite IH by (intros e He; apply Hm; now right). cbn [s_items s_fired].
    destruct (select_items c t q (map (fun e => get_item t (snd e)) pks)) as [[l f']| | |]; cbn [obind]; auto.
    destruct m; cbn; rewrite <- ?app_assoc; reflexivity.
Qed.

(* ---- base table ---- *)
Theorem search_unlimited_base c t q :
  TInv t -> q_index q = None -> unlimited q ->
  search_data c t q =
  omap (fun '(l, f) => (l, [], f))
       (select_items c t q (map (get_item t) (if q_forward q then t_sorted t else rev (t_sorted t)))).
Proof.
  intros [Hw Hs] Hi [Hl He]. unfold search_data. rewrite Hi, He. cbn [parse_start_key].
  set (ks := if q_forward q then t_sorted t else rev (t_sorted t)).
  assert (forall k, In k ks -> mem k (t_data t) = true) as Hm.
  { intros k Hk. apply mem_true_iff. rewrite <- Hs. unfold ks in Hk. destruct (q_forward q); auto. now apply in_rev. }
  pose proof (loop_unlimited c t q true [] [] (map (fun k => (k, k)) ks)
                {| s_started := true; s_count := 0; s_scanned := 0; s_last := []; s_items := []; s_fired := [] |} Hl eq_refl) as L.
  rewrite !map_map in L. cbn [fst snd s_items s_fired app] in L.
  assert (forall e, In e (map (fun k => (k, k)) ks) -> mem (snd e) (t_data t) = true) as Hm'.
  { intros e He'. apply in_map_iff in He' as [k [<- Hk]]. now apply Hm. }
  specialize (L Hm').
  destruct (search_loop c t q true [] [] (map (fun k => (k, Some k)) ks) _) as [s'| | |] eqn:R; cbn [obind] in *.
  - rewrite Hl. cbn [Nat.eqb].
    destruct (select_items c t q (map (get_item t) ks)) as [[l f]| | |]; cbn in L; try discriminate.
    inversion L; subst. cbn. destruct (s_last s'); reflexivity.
  - destruct (select_items c t q (map (get_item t) ks)) as [[l f]| | |]; cbn in L; try discriminate. now inversion L.
  - destruct (select_items c t q (map (get_item t) ks)) as [[l f]| | |]; cbn in L; try discriminate. now inversion L.
  - destruct (select_items c t q (map (get_item t) ks)) as [[l f]| | |]; cbn in L; try discriminate. reflexivity.
Qed.

(* consequences when the expressions evaluate without error: exactly the matching items, none missing, none
   extra, each once, in key order; in reverse key order for a backward query *)
Corollary search_unlimited_base_filter c t q verdict :
  TInv t -> q_index q = None -> unlimited q ->
  (forall k, In k (t_sorted t) -> exists e, match_key c t q (get_item t k) = Ok (e, verdict (get_item t k), [])) ->
  search_data c t q =
  Ok (filter verdict (map (get_item t) (if q_forward q then t_sorted t else rev (t_sorted t))), [], []).
Proof.
  intros HT Hi Hu Hv. rewrite search_unlimited_base by auto.
  rewrite (select_items_filter c t q _ verdict); [reflexivity|].
  intros it Hin. apply in_map_iff in Hin as [k [<- Hk]]. apply Hv. destruct (q_forward q); auto. now apply in_rev.
Qed.

End Search.
