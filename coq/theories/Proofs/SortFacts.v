(* Weakly sorted string lists (duplicates allowed): sorting, insertion, removal at the lower bound. *)
From Coq Require Import List Bool Arith Lia Sorting.Sorted Permutation.
From Coq Require Import Strings.Byte.
From Minidyn Require Import Base.Str Base.FMap Proofs.FMapFacts.
Import ListNotations.

Definition str_le (a b : str) : Prop := str_lt a b \/ a = b.

Lemma str_le_refl a : str_le a a.
Proof. now right. Qed.

Lemma str_le_trans a b c : str_le a b -> str_le b c -> str_le a c.
Proof.
  intros [H1| ->] [H2| ->]; unfold str_le; auto. left. eapply str_lt_trans; eauto.
Qed.

Lemma str_le_antisym a b : str_le a b -> str_le b a -> a = b.
Proof.
  intros [H1| ->] [H2|H2]; auto. exfalso. eapply str_lt_asym; eauto.
Qed.

Lemma str_le_total a b : str_le a b \/ str_le b a.
Proof. destruct (str_lt_total a b) as [H|[H|H]]; unfold str_le; auto. Qed.

Lemma str_ltb_false_le x y : str_ltb x y = false -> str_le y x.
Proof. intros H. apply str_ltb_false in H as [H| ->]; [now left|now right]. Qed.

Lemma wsorted_cons_inv x l : wsorted (x :: l) -> wsorted l /\ Forall (str_le x) l.
Proof. intros H. inversion H; subst. auto. Qed.

Lemma wsorted_cons x l : wsorted l -> Forall (str_le x) l -> wsorted (x :: l).
Proof. intros. constructor; auto. Qed.

Lemma ssorted_wsorted l : ssorted l -> wsorted l.
Proof.
  induction l as [|x l IH]; intros H; [constructor|].
  apply ssorted_cons_inv in H as [H1 H2]. apply wsorted_cons; auto.
  eapply Forall_impl; [|exact H2]. intros a Ha. now left.
Qed.

Lemma ins_sorted_perm x l : Permutation (ins_sorted x l) (x :: l).
Proof.
  induction l as [|y l IH]; cbn; auto.
  destruct (str_ltb x y); auto.
  rewrite IH. apply perm_swap.
Qed.

Lemma ins_sorted_wsorted x l : wsorted l -> wsorted (ins_sorted x l).
Proof.
  induction l as [|y l IH]; intros H; cbn.
  - repeat constructor.
  - apply wsorted_cons_inv in H as [H1 H2].
    destruct (str_ltb x y) eqn:E.
    + apply str_ltb_lt in E. apply wsorted_cons; [apply wsorted_cons; auto|].
      constructor; [now left|].
      eapply Forall_impl; [|exact H2]. intros a Ha. eapply str_le_trans; [left; exact E|exact Ha].
    + apply str_ltb_false_le in E. apply wsorted_cons; [apply IH; auto|].
      apply Forall_forall. intros z Hz. rewrite Forall_forall in H2.
      apply (Permutation_in _ (ins_sorted_perm x l)) in Hz. destruct Hz as [<-|Hz]; auto.
Qed.

Lemma sort_strings_perm l : Permutation (sort_strings l) l.
Proof.
  induction l as [|x l IH]; cbn; auto.
  rewrite ins_sorted_perm. now constructor.
Qed.

Lemma sort_strings_wsorted l : wsorted (sort_strings l).
Proof. induction l as [|x l IH]; cbn; [constructor|]. now apply ins_sorted_wsorted. Qed.

(* a weakly sorted list is determined by its multiset *)
Lemma wsorted_perm_eq l1 : forall l2, wsorted l1 -> wsorted l2 -> Permutation l1 l2 -> l1 = l2.
Proof.
  induction l1 as [|a l1 IH]; intros l2 H1 H2 P.
  - apply Permutation_nil in P. now subst.
  - destruct l2 as [|b l2]; [apply Permutation_sym, Permutation_nil in P; discriminate|].
    apply wsorted_cons_inv in H1 as [S1 A1]. apply wsorted_cons_inv in H2 as [S2 A2].
    rewrite Forall_forall in A1, A2.
    assert (a = b) as ->.
    { apply str_le_antisym.
      - assert (In b (a :: l1)) as [-> |Hin] by (eapply Permutation_in; [apply Permutation_sym; exact P|now left]);
          [apply str_le_refl|auto].
      - assert (In a (b :: l2)) as [-> |Hin] by (eapply Permutation_in; [exact P|now left]);
          [apply str_le_refl|auto]. }
    f_equal. apply IH; auto. eapply Permutation_cons_inv; eauto.
Qed.

Lemma sort_strings_unique l s : wsorted s -> Permutation s l -> s = sort_strings l.
Proof.
  intros Hs P. apply wsorted_perm_eq; auto.
  - apply sort_strings_wsorted.
  - rewrite P. symmetry. apply sort_strings_perm.
Qed.

(* removal at the lower bound of a member removes one occurrence of it *)
Lemma lower_bound_member x l :
  wsorted l -> In x l -> nth_error l (lower_bound x l) = Some x /\ Permutation (x :: remove_at (lower_bound x l) l) l.
Proof.
  induction l as [|y l IH]; intros Hs Hin; [inversion Hin|].
  apply wsorted_cons_inv in Hs as [Hs Hall]. cbn.
  destruct (str_leb x y) eqn:E.
  - apply str_leb_spec in E. rewrite Forall_forall in Hall.
    assert (x = y) as ->.
    { destruct Hin as [-> |Hin]; auto. apply str_le_antisym; [exact E|auto]. }
    cbn. split; auto.
  - apply str_leb_false in E.
    destruct Hin as [-> |Hin]; [now apply str_lt_irrefl in E|].
    destruct (IH Hs Hin) as [N P]. cbn. split; auto.
    rewrite perm_swap. now constructor.
Qed.

Lemma remove_at_wsorted n l : wsorted l -> wsorted (remove_at n l).
Proof.
  revert n; induction l as [|x l IH]; intros n Hs; cbn; [destruct n; constructor|].
  apply wsorted_cons_inv in Hs as [Hs Hall].
  destruct n; auto. apply wsorted_cons; [apply IH; auto|].
  apply Forall_forall. intros y Hy. rewrite Forall_forall in Hall. apply Hall.
  eapply In_remove_at; eauto.
Qed.

(* ---------- values of a map under insertion and removal ---------- *)
Section Vals.
Context {V : Type}.
Implicit Types (m : fmap V) (k : str) (v : V).

Lemma vals_insert_fresh m k v : lookup k m = None -> Permutation (map snd (insert k v m)) (v :: map snd m).
Proof.
  induction m as [|[k' v'] t IH]; cbn; auto.
  destruct (str_eqb k k') eqn:E; [discriminate|]. intros L.
  destruct (str_compare k k') eqn:C; cbn.
  - apply str_compare_eq in C; subst. now rewrite str_eqb_refl in E.
  - auto.
  - rewrite (IH L). apply perm_swap.
Qed.

Lemma vals_remove m k v : lookup k m = Some v -> Permutation (map snd m) (v :: map snd (remove k m)).
Proof.
  induction m as [|[k' v'] t IH]; cbn; [discriminate|].
  destruct (str_eqb k k') eqn:E.
  - intros H; inversion H; subst. auto.
  - intros L. cbn. rewrite (IH L). apply perm_swap.
Qed.

End Vals.
