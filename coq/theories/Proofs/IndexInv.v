(* The index invariant IInv: refs is exactly { primary key -> index key } over the items that have the
   index's key attributes (well-typed), and sortedKeys is the sorted multiset of the index keys. *)
From Coq Require Import List Bool Arith Lia Sorting.Sorted Permutation.
From Coq Require Import Strings.Byte.
From Minidyn Require Import Base.Str Base.FMap Base.Outcome Model.Value Model.Key Model.Index Model.Table.
From Minidyn Require Import Proofs.FMapFacts Proofs.SortFacts.
Import ListNotations.

(* the index key of an item, when it has one (sparse indexes: missing or ill-typed attributes give none) *)
Definition index_key_of (ks : keyschema) (defs : fmap str) (it : item) : option str :=
  match get_key ks defs it with
  | inr (c :: s) => Some (c :: s)
  | _ => None
  end.

Record IInv (defs : fmap str) (data : fmap item) (ix : index) : Prop := {
  ii_wf : wf (ix_refs ix);
  ii_refs : forall pk ik, lookup pk (ix_refs ix) = Some ik <->
                          exists it, lookup pk data = Some it /\ index_key_of (ix_ks ix) defs it = Some ik;
  ii_sorted : ix_sorted ix = sort_strings (map snd (ix_refs ix))
}.

Lemma IInv_empty defs typ h r : IInv defs [] (new_index typ h r).
Proof.
  split; cbn; [apply wf_nil| |reflexivity].
  intros pk ik. split; [discriminate|]. intros [it [L _]]. discriminate.
Qed.

Lemma IInv_clear defs ix : IInv defs [] (ix_clear ix).
Proof.
  split; cbn; [apply wf_nil| |reflexivity].
  intros pk ik. split; [discriminate|]. intros [it [L _]]. discriminate.
Qed.

Lemma IInv_sorted_wsorted defs data ix : IInv defs data ix -> wsorted (ix_sorted ix).
Proof. intros H. rewrite (ii_sorted _ _ _ H). apply sort_strings_wsorted. Qed.

Lemma IInv_sorted_perm defs data ix : IInv defs data ix -> Permutation (ix_sorted ix) (map snd (ix_refs ix)).
Proof. intros H. rewrite (ii_sorted _ _ _ H). apply sort_strings_perm. Qed.

(* index.remove *)
Lemma IInv_remove defs data ix key :
  wf data -> IInv defs data ix -> IInv defs (remove key data) (ix_remove key ix).
Proof.
  intros Hd H. unfold ix_remove.
  destruct (lookup key (ix_refs ix)) as [ik|] eqn:L.
  - (* the item was indexed under ik *)
    assert (In ik (ix_sorted ix)) as Hin.
    { eapply Permutation_in; [apply Permutation_sym, (IInv_sorted_perm _ _ _ H)|].
      apply lookup_In in L. now apply (in_map snd) in L. }
    destruct (lower_bound_member ik (ix_sorted ix) (IInv_sorted_wsorted _ _ _ H) Hin) as [N P].
    rewrite N, str_eqb_refl.
    split; cbn [ix_refs ix_sorted ix_ks].
    + apply wf_remove, (ii_wf _ _ _ H).
    + intros pk ik'. destruct (str_eqb pk key) eqn:E.
      * apply str_eqb_eq in E; subst pk.
        rewrite lookup_remove_eq by apply (ii_wf _ _ _ H).
        rewrite lookup_remove_eq by exact Hd.
        split; [discriminate|]. intros [it [L' _]]. discriminate.
      * apply str_eqb_neq in E. rewrite !lookup_remove_neq by exact E. apply (ii_refs _ _ _ H).
    + apply sort_strings_unique.
      * apply remove_at_wsorted, (IInv_sorted_wsorted _ _ _ H).
      * apply (Permutation_cons_inv (a := ik)). rewrite P.
        rewrite (IInv_sorted_perm _ _ _ H). now apply vals_remove.
  - (* not indexed: nothing to do *)
    split.
    + apply (ii_wf _ _ _ H).
    + intros pk ik'. destruct (str_eqb pk key) eqn:E.
      * apply str_eqb_eq in E; subst pk. rewrite L.
        rewrite lookup_remove_eq by exact Hd.
        split; [discriminate|]. intros [it [L' _]]. discriminate.
      * apply str_eqb_neq in E. rewrite lookup_remove_neq by exact E. apply (ii_refs _ _ _ H).
    + apply (ii_sorted _ _ _ H).
Qed.

(* adding an item under a key that is neither in the data nor in the index *)
Lemma IInv_add defs data ix key it :
  IInv defs data ix -> lookup key data = None ->
  IInv defs (insert key it data)
    (match index_key_of (ix_ks ix) defs it with
     | None => ix
     | Some ik => {| ix_ks := ix_ks ix; ix_typ := ix_typ ix; ix_sorted := ins_sorted ik (ix_sorted ix);
                     ix_refs := insert key ik (ix_refs ix) |}
     end).
Proof.
  intros H Ld.
  assert (lookup key (ix_refs ix) = None) as Lr.
  { destruct (lookup key (ix_refs ix)) as [ik|] eqn:L; auto.
    apply (ii_refs _ _ _ H) in L as [it' [L' _]]. congruence. }
  destruct (index_key_of (ix_ks ix) defs it) as [ik|] eqn:K.
  - split; cbn [ix_refs ix_sorted ix_ks].
    + apply wf_insert, (ii_wf _ _ _ H).
    + intros pk ik'. rewrite !lookup_insert. destruct (str_eqb pk key) eqn:E.
      * split.
        -- intros X; inversion X; subst. eauto.
        -- intros [it' [X1 X2]]. inversion X1; subst. congruence.
      * apply (ii_refs _ _ _ H).
    + apply sort_strings_unique.
      * apply ins_sorted_wsorted, (IInv_sorted_wsorted _ _ _ H).
      * rewrite ins_sorted_perm, (IInv_sorted_perm _ _ _ H). symmetry. now apply vals_insert_fresh.
  - split.
    + apply (ii_wf _ _ _ H).
    + intros pk ik'. rewrite lookup_insert. destruct (str_eqb pk key) eqn:E.
      * apply str_eqb_eq in E; subst pk. rewrite Lr. split; [discriminate|].
        intros [it' [X1 X2]]. inversion X1; subst. congruence.
      * apply (ii_refs _ _ _ H).
    + apply (ii_sorted _ _ _ H).
Qed.

Lemma insert_remove {V} (m : fmap V) k v : wf m -> insert k v (remove k m) = insert k v m.
Proof.
  intros H. apply wf_ext.
  - apply wf_insert, wf_remove, H.
  - apply wf_insert, H.
  - intros k'. rewrite !lookup_insert. destruct (str_eqb k' k) eqn:E; auto.
    apply str_eqb_neq in E. now apply lookup_remove_neq.
Qed.

(* index.putData (= updateData) *)
Lemma IInv_put defs data ix key it ix' :
  wf data -> IInv defs data ix -> ix_put defs key it ix = inr ix' -> IInv defs (insert key it data) ix'.
Proof.
  intros Hd H. unfold ix_put.
  destruct (get_key (ix_ks ix) defs it) as [e|ik] eqn:G; [discriminate|].
  pose proof (IInv_remove defs data ix key Hd H) as H1.
  assert (lookup key (remove key data) = None) as L1 by (now apply lookup_remove_eq).
  pose proof (IInv_add defs (remove key data) (ix_remove key ix) key it H1 L1) as H2.
  rewrite insert_remove in H2 by exact Hd.
  assert (ix_ks (ix_remove key ix) = ix_ks ix) as Eks.
  { unfold ix_remove. destruct (lookup key (ix_refs ix)); reflexivity. }
  unfold index_key_of in H2. rewrite Eks, G in H2.
  destruct ik as [|c s]; intros E; inversion E; subst; [exact H2|].
  rewrite Eks. exact H2.
Qed.

Lemma ix_put_error_iff defs key it ix :
  (exists e, ix_put defs key it ix = inl e) <-> (exists e, get_key (ix_ks ix) defs it = inl e).
Proof.
  unfold ix_put. destruct (get_key (ix_ks ix) defs it) as [e|ik].
  - split; eauto.
  - split; intros [e E]; [|discriminate]. destruct ik; discriminate.
Qed.
