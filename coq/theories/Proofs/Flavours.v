(* C17: the two clients are the same state machine; they differ only in request validation (v1),
   in the output mapper (v2 turns empty containers into NULL), in BatchGetItem (v1 has none) and in the item
   carried by a failed condition (v2 only). *)
From Coq Require Import List Bool Arith Lia.
From Coq Require Import Strings.Byte Strings.String.
From Minidyn Require Import Base.Str Base.FMap Base.Outcome Model.Value Model.Key Model.Index Model.Table Model.Client
  Model.Token Gen.Tables.
From Minidyn Require Import Proofs.Restrictions.
Import ListNotations.

(* the request passes the SDK v1 parameter validation that the model covers (name lengths) *)
Definition names_ok (o : op) : bool :=
  let ok (n : str) := Nat.leb 3 (List.length n) in
  match o with
  | OCreateTable ct => ok (ct_table ct) && forallb (fun d => ok (id_name d)) (ct_gsi ct ++ ct_lsi ct)
  | OAddTable t _ _ | ODeleteTable t | OPut t _ _ _ _ _ | OGet t _ _ _ | OUpdate t _ _ _ _ _ _ | ODelete t _ _ _ _ _ => ok t
  | OAddIndex t i _ _ => ok t && ok i
  | OUpdateTable t _ create delete => ok t && match create with Some d => ok (id_name d) | None => true end
                                    && match delete with Some n => ok n | None => true end
  | OBatchWrite reqs => negb (match reqs with [] => true | _ => false end) && forallb (fun tr => ok (fst tr)) reqs
  | _ => true
  end.

Section Flav.
Variable lm : str -> item -> item -> fmap str -> outcome bool.
Variable lu : str -> item -> item -> fmap str -> outcome item.

Lemma preamble_flav c tn names vals exprs :
  Nat.leb 3 (List.length tn) = true -> preamble V1 c tn names vals exprs = preamble V2 c tn names vals exprs.
Proof. intros H. unfold preamble, v1_name_ok. now rewrite H. Qed.

Lemma put_item_flav c tn it cond names vals ro :
  Nat.leb 3 (List.length tn) = true ->
  fst (put_item lm V1 c tn it cond names vals ro) = fst (put_item lm V2 c tn it cond names vals ro) /\
  o_res (snd (put_item lm V1 c tn it cond names vals ro)) = o_res (snd (put_item lm V2 c tn it cond names vals ro)).
Proof.
  intros H. unfold put_item. rewrite (preamble_flav _ _ _ _ _ H).
  destruct (preamble V2 c tn names vals _); [auto|].
  destruct (t_put lm (ctx_of c) t it cond names vals) as [t' r]; destruct r; auto.
Qed.

Lemma delete_item_flav c tn k cond names vals ro :
  Nat.leb 3 (List.length tn) = true ->
  fst (delete_item lm V1 c tn k cond names vals ro) = fst (delete_item lm V2 c tn k cond names vals ro) /\
  o_res (snd (delete_item lm V1 c tn k cond names vals ro)) = o_res (snd (delete_item lm V2 c tn k cond names vals ro)).
Proof.
  intros H. unfold delete_item. rewrite (preamble_flav _ _ _ _ _ H).
  destruct (preamble V2 c tn names vals _); [auto|].
  destruct (t_delete lm (ctx_of c) t k cond names vals) as [t' r]; destruct r; auto.
Qed.

Lemma update_item_flav c tn k e cond names vals ao :
  Nat.leb 3 (List.length tn) = true ->
  fst (update_item lm lu V1 c tn k e cond names vals ao) = fst (update_item lm lu V2 c tn k e cond names vals ao) /\
  o_res (snd (update_item lm lu V1 c tn k e cond names vals ao)) = o_res (snd (update_item lm lu V2 c tn k e cond names vals ao)).
Proof.
  intros H. unfold update_item. rewrite (preamble_flav _ _ _ _ _ H).
  destruct (preamble V2 c tn names vals _); [auto|].
  destruct (t_update lm lu (ctx_of c) t k e cond names vals) as [t' r]; destruct r as [| |[]| |]; auto.
Qed.

Lemma batch_one_flav c tn r :
  Nat.leb 3 (List.length tn) = true -> batch_write_one lm V1 c tn r = batch_write_one lm V2 c tn r \/
  (fst (batch_write_one lm V1 c tn r) = fst (batch_write_one lm V2 c tn r) /\
   match snd (batch_write_one lm V1 c tn r), snd (batch_write_one lm V2 c tn r) with
   | None, None | Some None, Some None => True
   | Some (Some o1), Some (Some o2) => o_res o1 = o_res o2
   | _, _ => False
   end).
Proof.
  intros H. right. unfold batch_write_one. destruct r.
  - destruct (put_item_flav c tn i None [] [] false H) as [E1 E2].
    destruct (put_item lm V1 c tn i None [] [] false) as [c1 o1], (put_item lm V2 c tn i None [] [] false) as [c2 o2]; cbn in *.
    destruct (o_res o1) as [|[]| |] eqn:R1; rewrite <- E2; cbn; rewrite ?R1; auto.
  - destruct (delete_item_flav c tn k None [] [] false H) as [E1 E2].
    destruct (delete_item lm V1 c tn k None [] [] false) as [c1 o1], (delete_item lm V2 c tn k None [] [] false) as [c2 o2]; cbn in *.
    destruct (o_res o1) as [|[]| |] eqn:R1; rewrite <- E2; cbn; rewrite ?R1; auto.
  - cbn. destruct (c_failure c) as [f|]; cbn; auto. destruct f; cbn; auto.
  - destruct (put_item_flav c tn i None [] [] false H) as [E1 E2].
    destruct (put_item lm V1 c tn i None [] [] false) as [c1 o1], (put_item lm V2 c tn i None [] [] false) as [c2 o2]; cbn in *.
    destruct (o_res o1) as [|[]| |] eqn:R1; rewrite <- E2; cbn; rewrite ?R1; auto.
Qed.

Definition bres_rel (a b : option obs) : Prop :=
  match a, b with None, None => True | Some o1, Some o2 => o_res o1 = o_res o2 | _, _ => False end.

Lemma batch_reqs_flav rs : forall c tn un,
  Nat.leb 3 (List.length tn) = true ->
  fst (batch_write_reqs lm V1 c tn rs un) = fst (batch_write_reqs lm V2 c tn rs un) /\
  bres_rel (snd (batch_write_reqs lm V1 c tn rs un)) (snd (batch_write_reqs lm V2 c tn rs un)).
Proof.
  induction rs as [|r rs IH]; intros c tn un H; cbn [batch_write_reqs]; [split; cbn; auto|].
  destruct (batch_one_flav c tn r H) as [E|[E1 E2]].
  - rewrite E. destruct (batch_write_one lm V2 c tn r) as [c' [[o|]|]]; [split; cbn; auto|apply IH; auto|apply IH; auto].
  - destruct (batch_write_one lm V1 c tn r) as [c1 x1], (batch_write_one lm V2 c tn r) as [c2 x2]; cbn in *. subst c2.
    destruct x1 as [[o1|]|], x2 as [[o2|]|]; try contradiction; [split; cbn; auto|apply IH; auto|apply IH; auto].
Qed.

Lemma batch_tables_flav ts : forall c un,
  forallb (fun tr => Nat.leb 3 (List.length (fst tr))) ts = true ->
  fst (batch_write_tables lm V1 c ts un) = fst (batch_write_tables lm V2 c ts un) /\
  bres_rel (snd (batch_write_tables lm V1 c ts un)) (snd (batch_write_tables lm V2 c ts un)).
Proof.
  induction ts as [|[tn rs] ts IH]; intros c un H; cbn [batch_write_tables]; [split; cbn; auto|].
  cbn in H. apply andb_true_iff in H as [H1 H2].
  destruct (batch_reqs_flav rs c tn [] H1) as [E1 E2].
  destruct (batch_write_reqs lm V1 c tn rs []) as [[c1 u1] x1], (batch_write_reqs lm V2 c tn rs []) as [[c2 u2] x2]; cbn in *.
  inversion E1; subst. destruct x1 as [o1|], x2 as [o2|]; try contradiction; [split; cbn; auto|apply IH; auto].
Qed.

Lemma update_table_flav c tn defs create delete :
  Nat.leb 3 (List.length tn) = true -> match create with Some d => Nat.leb 3 (List.length (id_name d)) | None => true end = true ->
  match delete with Some n => Nat.leb 3 (List.length n) | None => true end = true ->
  update_table V1 c tn defs create delete = update_table V2 c tn defs create delete.
Proof.
  intros H1 H2 H3. unfold update_table, v1_name_ok. rewrite H1.
  assert ((match create with Some d => Nat.leb 3 (List.length (id_name d)) | None => true end) = true) as E2 by exact H2.
  destruct create as [d|]; destruct delete as [n|]; rewrite ?H2, ?H3; cbn [negb andb]; reflexivity.
Qed.

Lemma create_table_flav c ct :
  Nat.leb 3 (List.length (ct_table ct)) && forallb (fun d => Nat.leb 3 (List.length (id_name d))) (ct_gsi ct ++ ct_lsi ct) = true ->
  create_table V1 c ct = create_table V2 c ct.
Proof.
  intros H. unfold create_table, ct_names_ok, v1_name_ok. rewrite H. cbn [negb].
  assert (true && forallb (fun _ : index_def => true) (ct_gsi ct ++ ct_lsi ct) = true) as ->; [|reflexivity].
  cbn. apply forallb_forall. auto.
Qed.

Lemma run_search_state f c t q : fst (run_search lm f c t q) = c /\ True.
Proof.
  split; auto. unfold run_search. destruct (q_index q) as [n|].
  - destruct (negb (mem n (t_indexes t)) && negb match n with [] => true | _ => false end); cbn; auto.
    destruct (negb (valid_start_key _ _ _)); cbn; auto.
    destruct (check_expressions _ _ _) as [u| | |]; cbn; auto.
    destruct (search_data _ _ _ _) as [[[items lek] fi]| | |]; cbn; auto.
  - destruct (negb (valid_start_key _ _ _)); cbn; auto.
    destruct (check_expressions _ _ _) as [u| | |]; cbn; auto.
    destruct (search_data _ _ _ _) as [[[items lek] fi]| | |]; cbn; auto.
Qed.

Lemma run_search_res c t q : o_res (snd (run_search lm V1 c t q)) = o_res (snd (run_search lm V2 c t q)).
Proof.
  unfold run_search. destruct (q_index q) as [n|].
  - destruct (negb (mem n (t_indexes t)) && negb match n with [] => true | _ => false end); cbn; auto.
    destruct (negb (valid_start_key _ _ _)); cbn; auto.
    destruct (check_expressions _ _ _) as [u| | |]; cbn; auto.
    destruct (search_data _ _ _ _) as [[[items lek] fi]| | |]; cbn; auto.
  - destruct (negb (valid_start_key _ _ _)); cbn; auto.
    destruct (check_expressions _ _ _) as [u| | |]; cbn; auto.
    destruct (search_data _ _ _ _) as [[[items lek] fi]| | |]; cbn; auto.
Qed.

(* same state transition and same result class through both clients, for every request that passes the v1
   parameter validation, BatchGetItem excepted (the v1 client has none) *)
Theorem clients_same_transition c o :
  names_ok o = true -> (match o with OBatchGet _ _ => False | _ => True end) ->
  fst (step lm lu V1 c o) = fst (step lm lu V2 c o) /\
  o_res (snd (step lm lu V1 c o)) = o_res (snd (step lm lu V2 c o)).
Proof.
  intros Hn Hb. destruct o; cbn [names_ok] in Hn; cbn [step]; try contradiction; auto.
  - now rewrite create_table_flav.
  - rewrite create_table_flav by (cbn [add_table_input ct_table ct_gsi ct_lsi app forallb]; now rewrite Hn). destruct (create_table V2 c _); auto.
  - apply andb_true_iff in Hn as [H1 H2]. rewrite update_table_flav by (auto; exact H2). destruct (update_table V2 c _ _ _ _); auto.
  - unfold v1_name_ok. rewrite Hn. cbn. auto.
  - apply andb_true_iff in Hn as [H12 H3]. apply andb_true_iff in H12 as [H1 H2]. now rewrite (update_table_flav _ _ _ _ _ H1 H2 H3).
  - now apply put_item_flav.
  - unfold get_item_op. rewrite (preamble_flav c table names [] [proj] Hn). destruct (preamble V2 c table names [] _); auto.
    destruct (get_key _ _ _); auto.
  - now apply update_item_flav.
  - now apply delete_item_flav.
  - unfold query_op. destruct (c_failure c); auto. destruct (validate_expr_attrs _ _ _); auto.
    destruct (lookup table (c_tables c)); auto. split; [|apply run_search_res].
    destruct (run_search_state V1 c t {| q_index := index; q_values := vals; q_names := names; q_limit := limit; q_esk := esk;
       q_keycond := opt_str keycond; q_filter := opt_str filter; q_cond := None;
       q_forward := match forward with Some b => b | None => true end; q_scan := false |}) as [-> _].
    destruct (run_search_state V2 c t {| q_index := index; q_values := vals; q_names := names; q_limit := limit; q_esk := esk;
       q_keycond := opt_str keycond; q_filter := opt_str filter; q_cond := None;
       q_forward := match forward with Some b => b | None => true end; q_scan := false |}) as [-> _]. reflexivity.
  - unfold scan_op. destruct (c_failure c); auto. destruct (validate_expr_attrs _ _ _); auto.
    destruct (lookup table (c_tables c)); auto. split; [|apply run_search_res].
    destruct (run_search_state V1 c t {| q_index := index; q_values := vals; q_names := names; q_limit := limit; q_esk := esk;
       q_keycond := []; q_filter := opt_str filter; q_cond := None; q_forward := true; q_scan := true |}) as [-> _].
    destruct (run_search_state V2 c t {| q_index := index; q_values := vals; q_names := names; q_limit := limit; q_esk := esk;
       q_keycond := []; q_filter := opt_str filter; q_cond := None; q_forward := true; q_scan := true |}) as [-> _]. reflexivity.
  - apply andb_true_iff in Hn as [Hne Hn]. unfold batch_write, v1_empty_batch.
    assert ((match c_failure c with Some _ => false | None => match reqs with [] => true | _ :: _ => false end end) = false) as ->
      by (destruct (c_failure c); auto; destruct reqs; [discriminate|reflexivity]).
    unfold batch_write_core. destruct (forced_blocks c); auto. destruct (_ && negb (forallb wreq_ok (flat_map snd reqs))); auto.
    destruct (_ && (batch_limit <? List.length (flat_map snd reqs))); auto.
    destruct (match c_failure c with Some _ => [] | None => flat_map (prevalidate_table c) reqs end); auto.
    destruct (batch_tables_flav reqs c [] Hn) as [E1 E2].
    destruct (batch_write_tables lm V1 c reqs []) as [[c1 u1] x1], (batch_write_tables lm V2 c reqs []) as [[c2 u2] x2]; cbn in *.
    inversion E1; subst. destruct x1 as [o1|], x2 as [o2|]; try contradiction; auto.
Qed.

(* ... and so for whole histories over any number of clients: the two worlds are equal after every history of requests
   that pass the v1 parameter validation, and the two sequences of result classes are equal *)
Definition v1_admissible (co : str * op) : Prop :=
  names_ok (snd co) = true /\ match snd co with OBatchGet _ _ => False | _ => True end.

Theorem clients_same_history ops : forall w,
  Forall v1_admissible ops ->
  fst (run lm lu V1 w ops) = fst (run lm lu V2 w ops) /\
  map o_res (snd (run lm lu V1 w ops)) = map o_res (snd (run lm lu V2 w ops)).
Proof.
  induction ops as [|co ops IH]; intros w Ha; cbn [run]; auto.
  inversion Ha as [|x l [Hn Hb] Hrest]; subst.
  unfold wstep.
  destruct (clients_same_transition (match lookup (fst co) w with Some c => c | None => new_client end) (snd co) Hn Hb) as [E1 E2].
  destruct (step lm lu V1 _ (snd co)) as [c1 o1], (step lm lu V2 _ (snd co)) as [c2 o2]; cbn [fst snd] in *. subst c2.
  destruct (IH (insert (fst co) c1 w) Hrest) as [F1 F2].
  destruct (run lm lu V1 (insert (fst co) c1 w) ops) as [w1 obs1], (run lm lu V2 (insert (fst co) c1 w) ops) as [w2 obs2]; cbn [fst snd map] in *.
  split; [exact F1|]. now rewrite E2, F2.
Qed.

End Flav.
