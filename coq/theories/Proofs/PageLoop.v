(* Pagination: what one pass of SearchData's loop does over a strictly ordered list of (entry key, primary key)
   entries, for the base table and for secondary indexes alike. *)
From Coq Require Import List Bool Arith Lia Sorting.Sorted.
From Coq Require Import Strings.Byte Strings.String.
From Minidyn Require Import Base.Str Base.FMap Base.Outcome Model.Value Model.Key Model.Index Model.Table.
From Minidyn Require Import Proofs.FMapFacts Proofs.SortFacts Proofs.TableInv Proofs.Search Proofs.Paging Proofs.PageGen
  Proofs.Pagination.
Import ListNotations.

(* ---------- the order of afterStartKey on (entry key, primary key) pairs ---------- *)
Definition aft2b (fwd : bool) (a b : str * str) : bool := after_start_key (fst b) (snd b) (fst a) (snd a) fwd.

Definition lex_lt (a b : str * str) : Prop := str_lt (fst a) (fst b) \/ (fst b = fst a /\ str_lt (snd a) (snd b)).

Lemma aft2b_spec fwd a b : aft2b fwd a b = true <-> (if fwd then lex_lt a b else lex_lt b a).
Proof.
  unfold aft2b, lex_lt. destruct fwd.
  - apply after_start_key_forward.
  - rewrite after_start_key_backward. split; intros [H|[E H]]; auto.
Qed.

Lemma lex_lt_irrefl a : ~ lex_lt a a.
Proof. intros [H|[_ H]]; now apply str_lt_irrefl in H. Qed.

Lemma lex_lt_trans a b c : lex_lt a b -> lex_lt b c -> lex_lt a c.
Proof.
  unfold lex_lt. intros [H1|[E1 H1]] [H2|[E2 H2]].
  - left. eapply str_lt_trans; eauto.
  - left. now rewrite E2.
  - left. now rewrite <- E1.
  - right. split; [congruence|eapply str_lt_trans; eauto].
Qed.

Lemma aft2b_irrefl fwd a : aft2b fwd a a = false.
Proof. apply not_true_is_false. intros H. apply aft2b_spec in H. destruct fwd; now apply lex_lt_irrefl in H. Qed.

Lemma aft2b_trans fwd a b c : aft2b fwd a b = true -> aft2b fwd b c = true -> aft2b fwd a c = true.
Proof. rewrite !aft2b_spec. destruct fwd; intros H1 H2; eapply lex_lt_trans; eauto. Qed.

Lemma aft2b_asym fwd a b : aft2b fwd a b = true -> aft2b fwd b a = false.
Proof.
  intros H. apply not_true_is_false. intros H2. pose proof (aft2b_trans _ _ _ _ H H2) as C.
  now rewrite aft2b_irrefl in C.
Qed.

Section Loop.
Variable lang_match : str -> item -> item -> fmap str -> outcome bool.
Variable c : ictx.
Variable t : table.
Variable q : query.
Variable ev : str -> etype * bool * list nat.        (* what the request's expressions yield on the item stored under a key *)
Variable es : list (str * str).                      (* the entries, (entry key, primary key), in scan order *)

Hypothesis Hcond : q_cond q = None.
Hypothesis Hsorted : StronglySorted (aftP (aft2b (q_forward q))) es.
Hypothesis Hstored : forall e, In e es -> mem (snd e) (t_data t) = true.
Hypothesis Hev : forall e, In e es -> match_key lang_match c t q (get_item t (snd e)) = Ok (ev (snd e)).

Definition ematched (e : str * str) : bool := snd (fst (ev (snd e))).
Definition ecounts (e : str * str) : bool :=
  match fst (fst (ev (snd e))) with ENone | EFilter => true | EKey => ematched e | ECond => false end.
Definition entries (l : list (str * str)) : list (str * option str) := map (fun e : str * str => (fst e, Some (snd e))) l.
Definition eitem (e : str * str) : item := get_item t (snd e).

Notation ab := (aft2b (q_forward q)).
Notation gpage' := (gpage ecounts).

Lemma estored e : In e es -> exists it, lookup (snd e) (t_data t) = Some it /\ eitem e = it.
Proof.
  intros H. apply Hstored in H. unfold mem in H. destruct (lookup (snd e) (t_data t)) as [it|] eqn:L; [|discriminate].
  exists it. split; auto. unfold eitem, get_item. now rewrite L.
Qed.

(* over entries that are all after the start key (or once started) the loop follows gpage *)
Lemma gloop_rest L esk0 hp sik spk : forall rest s,
  0 < L -> s_count s < L -> Forall (fun e => In e es) rest ->
  (s_started s = true \/ (hp = true /\ Forall (fun e => ab (sik, spk) e = true) rest)) ->
  exists s',
    search_loop lang_match c t (with_page q L esk0) hp sik spk (entries rest) s = Ok s' /\
    let '(p, u, b) := gpage' L (s_count s) rest in
    s_items s' = s_items s ++ map eitem (filter ematched p) /\
    s_scanned s' = s_scanned s + List.length p /\
    (b = true -> s_count s' = L) /\ (b = false -> s_count s' < L) /\
    s_last s' = match rev p with [] => s_last s | x :: _ => eitem x end.
Proof.
  induction rest as [|k r IH]; intros s HL Hc Hin Hst; cbn [entries map search_loop gpage].
  - exists s. split; auto. cbn. rewrite app_nil_r. repeat split; auto; try lia; intros; try discriminate; auto.
  - inversion Hin as [|? ? Hk Hr]; subst.
    destruct (estored k Hk) as [it [Lk Gk]].
    assert (search_step lang_match c t (with_page q L esk0) hp sik spk (fst k, Some (snd k)) s =
            Ok ({| s_started := true; s_count := if ecounts k then S (s_count s) else s_count s; s_scanned := S (s_scanned s);
                   s_last := it; s_items := if ematched k then s_items s ++ [it] else s_items s;
                   s_fired := s_fired s ++ snd (ev (snd k)) |},
                Nat.eqb L (if ecounts k then S (s_count s) else s_count s))) as St.
    { unfold search_step.
      assert (forall st,
        obind (match_key lang_match c t (with_page q L esk0) (match lookup (snd k) (t_data t) with Some i => i | None => [] end))
          (fun '(ety, m, f) =>
             let matched0 := match lookup (snd k) (t_data t) with Some _ => m | None => true end in
             let count' := match ety with ENone | EFilter => S (s_count s) | EKey => if matched0 then S (s_count s) else s_count s | ECond => s_count s end in
             Ok ({| s_started := st; s_count := count'; s_scanned := S (s_scanned s);
                    s_last := match lookup (snd k) (t_data t) with Some i => i | None => [] end;
                    s_items := if matched0 then s_items s ++ [match lookup (snd k) (t_data t) with Some i => i | None => [] end] else s_items s;
                    s_fired := s_fired s ++ f |},
                 negb (Nat.eqb (q_limit (with_page q L esk0)) 0) && Nat.eqb (q_limit (with_page q L esk0)) count')) =
        Ok ({| s_started := st; s_count := if ecounts k then S (s_count s) else s_count s; s_scanned := S (s_scanned s);
               s_last := it; s_items := if ematched k then s_items s ++ [it] else s_items s; s_fired := s_fired s ++ snd (ev (snd k)) |},
            Nat.eqb L (if ecounts k then S (s_count s) else s_count s))) as Go.
      { intros st. rewrite Lk, match_key_with_page. unfold eitem in Gk. rewrite <- Gk, (Hev k Hk). rewrite Gk.
        assert (fst (fst (ev (snd k))) <> ECond) as Hne.
        { pose proof (Hev k Hk) as M. unfold match_key in M. rewrite Hcond in M. cbn in M.
          destruct (q_keycond q); destruct (q_filter q); cbn in M;
            repeat match goal with
                   | M : context [interp_match ?a ?b ?c0 ?d ?e ?f0 ?g ?h] |- _ => destruct (interp_match a b c0 d e f0 g h) as [[? ?]| | |]; cbn in M
                   | M : context [if ?x then _ else _] |- _ => destruct x; cbn in M
                   end; try discriminate; destruct (ev (snd k)) as [[e0 m0] f0]; inversion M; subst; cbn; discriminate. }
        unfold ecounts, ematched. destruct (ev (snd k)) as [[ety m] f]; cbn [obind fst snd q_limit with_page] in *.
        assert (negb (L =? 0) = true) as -> by (destruct L; [lia|reflexivity]). cbn [andb].
        destruct ety; try congruence; reflexivity. }
      destruct (s_started s) eqn:Es; [apply Go|].
      destruct Hst as [Hst|[Hp Hall]]; [congruence|]. subst hp.
      inversion Hall as [|? ? Ha1 Ha2]; subst. unfold aft2b in Ha1. cbn [fst snd] in Ha1.
      cbn [q_forward with_page]. rewrite Ha1. apply Go. }
    cbn [search_loop fst snd]. rewrite St. cbn [obind].
    destruct (Nat.eqb L (if ecounts k then S (s_count s) else s_count s)) eqn:E.
    + eexists. split; [reflexivity|]. cbn [filter map rev app]. apply Nat.eqb_eq in E.
      cbn [s_items s_scanned s_count s_last List.length].
      split; [destruct (ematched k); cbn; [now rewrite Gk|now rewrite app_nil_r]|].
      split; [lia|]. split; [intros _; lia|]. split; [intros X; discriminate X|]. exact (eq_sym Gk).
    + apply Nat.eqb_neq in E.
      match goal with |- context [search_loop _ _ _ _ _ _ _ _ ?s1] => destruct (IH s1) as [s' [R P]] end; auto.
      * cbn. destruct (ecounts k); lia.
      * exists s'. split; [exact R|]. cbn [s_count s_items s_scanned s_last] in P.
        destruct (gpage' L (if ecounts k then S (s_count s) else s_count s) r) as [[p u] b] eqn:PK.
        destruct P as [P1 [P2 [P3 [P4 P5]]]].
        cbn [filter map List.length].
        split; [rewrite P1; destruct (ematched k); cbn; [now rewrite <- app_assoc, Gk|reflexivity]|].
        split; [lia|]. split; [exact P3|]. split; [exact P4|].
        rewrite P5. cbn [rev]. destruct (rev p) as [|x0 rp]; cbn [app]; [exact (eq_sym Gk)|reflexivity].
Qed.

(* the entries that are not after the start key are skipped without being evaluated *)
Lemma gloop_pre L esk0 sik spk : forall pre tail s,
  s_started s = false -> Forall (fun e => ab (sik, spk) e = false) pre ->
  search_loop lang_match c t (with_page q L esk0) true sik spk (entries (pre ++ tail)) s =
  search_loop lang_match c t (with_page q L esk0) true sik spk (entries tail)
    {| s_started := false; s_count := s_count s; s_scanned := s_scanned s + List.length pre; s_last := s_last s;
       s_items := s_items s; s_fired := s_fired s |}.
Proof.
  induction pre as [|k pre IH]; intros tail s Hs Hall; cbn [app entries map List.length].
  - rewrite Nat.add_0_r. destruct s; cbn in *. now subst.
  - inversion Hall as [|? ? Hk Hr]; subst. cbn [search_loop]. unfold search_step. cbn [fst snd]. rewrite Hs.
    unfold aft2b in Hk. cbn [fst snd] in Hk. cbn [q_forward with_page]. rewrite Hk. cbn [obind].
    fold (entries (pre ++ tail)). rewrite IH by auto. cbn [s_count s_scanned s_last s_items s_fired]. f_equal. f_equal. lia.
Qed.

(* one pass of the loop from the initial state: [hs] = the request names a start key (sik, spk) *)
Definition grest (hs : bool) (sik spk : str) : list (str * str) := if hs then snd (gsplit ab (sik, spk) es) else es.

Lemma grest_in hs sik spk : Forall (fun e => In e es) (grest hs sik spk).
Proof.
  unfold grest. destruct hs; apply Forall_forall; intros k Hk; auto.
  rewrite <- (gsplit_app ab (sik, spk) es). apply in_or_app. now right.
Qed.

Lemma grest_suffix hs sik spk : exists pre, es = pre ++ grest hs sik spk.
Proof.
  unfold grest. destruct hs; [|now exists []].
  exists (fst (gsplit ab (sik, spk) es)). symmetry. apply gsplit_app.
Qed.

Lemma gloop_page L esk0 hs hp sik spk :
  0 < L -> (hs = true -> hp = true) ->
  let '(p, u, b) := gpage' L 0 (grest hs sik spk) in
  exists s',
    search_loop lang_match c t (with_page q L esk0) hp sik spk (entries es)
      {| s_started := negb hs; s_count := 0; s_scanned := 0; s_last := []; s_items := []; s_fired := [] |} = Ok s' /\
    s_items s' = map eitem (filter ematched p) /\
    s_scanned s' <= List.length es /\
    (b = true -> s_count s' = L) /\ (b = false -> s_count s' < L) /\
    s_last s' = match rev p with [] => [] | x :: _ => eitem x end.
Proof.
  intros HL Hhp. destruct (gpage' L 0 (grest hs sik spk)) as [[p u] b] eqn:PK.
  set (s0 := {| s_started := negb hs; s_count := 0; s_scanned := 0; s_last := []; s_items := []; s_fired := [] |}).
  destruct hs eqn:Ehs.
  - rewrite (Hhp eq_refl).
    pose proof (gsplit_app ab (sik, spk) es) as A.
    pose proof (gsplit_pre ab (sik, spk) es) as Hpre.
    pose proof (gsplit_rest ab (aft2b_trans _) (sik, spk) es Hsorted) as Hrest.
    unfold grest in PK.
    destruct (gsplit ab (sik, spk) es) as [pre rest] eqn:S; cbn [fst snd] in *.
    rewrite <- A. rewrite (gloop_pre L esk0 sik spk pre rest s0) by auto.
    match goal with |- context [search_loop _ _ _ _ _ _ _ (entries rest) ?s1] =>
      destruct (gloop_rest L esk0 true sik spk rest s1 HL) as [s' [R P]] end; cbn; auto; try lia.
    { pose proof (grest_in true sik spk) as F. unfold grest in F. now rewrite S in F. }
    exists s'. split; [exact R|].
    unfold s0 in P. cbn [s_count s_items s_scanned s_last] in P. rewrite PK in P. destruct P as [P1 [P2 [P3 [P4 P5]]]]. cbn [app] in *.
    repeat split; auto.
    pose proof (gpage_app ecounts L 0 rest) as A2. rewrite PK in A2. cbn in A2. rewrite app_length, <- A2, app_length. lia.
  - destruct (gloop_rest L esk0 hp sik spk es s0 HL) as [s' [R P]]; cbn; auto; try lia.
    { apply Forall_forall. auto. }
    exists s'. split; [exact R|]. unfold grest in PK. cbn [s_count s0] in P. rewrite PK in P.
    destruct P as [P1 [P2 [P3 [P4 P5]]]]. cbn [s_items s_scanned s_last s0 app] in *.
    repeat split; auto.
    pose proof (gpage_app ecounts L 0 es) as A. rewrite PK in A. cbn in A. rewrite <- A, app_length. lia.
Qed.

End Loop.
