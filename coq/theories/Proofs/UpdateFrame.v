(* C07: an update expression changes only the attributes it targets. Every other attribute of the item keeps its
   value (re-serialised through the evaluator's objects: numbers take their float64 text, see C12). *)
From Coq Require Import List Bool Arith NArith ZArith Lia.
From Coq Require Import Strings.Byte Strings.String Floats.SpecFloat.
From Minidyn Require Import Base.Str Base.FMap Base.Outcome Base.F64 Model.Value Model.Token Gen.Tables Model.Lexer Model.Parser
  Model.Object Model.Eval Model.Update Model.Language.
From Minidyn Require Import Proofs.FMapFacts.
Import ListNotations.
Local Open Scope nat_scope.

(* the top-level attribute an action writes to (after alias resolution); None: the action writes nothing *)
Definition action_target (al : fmap str) (a : expr) : option str :=
  match a with
  | EAction t l r =>
      match base_ident l with
      | Some b =>
          match ty t, l with
          | ADD, EIdent _ | DELETE, EIdent _ | SET, _ | REMOVE, _ => Some (match lookup (lit b) al with Some x => x | None => lit b end)
          | _, _ => None
          end
      | None => None
      end
  | _ => None
  end.

Lemma env_set_frame e n v k : k <> resolve e n -> lookup k (store (env_set e n v)) = lookup k (store e).
Proof. intros H. cbn. now apply lookup_insert_neq. Qed.

Lemma env_remove_frame e n k : k <> resolve e n -> lookup k (store (env_remove e n)) = lookup k (store e).
Proof. intros H. cbn. now apply lookup_remove_neq. Qed.

Lemma eval_action_frame e a e' k :
  eval_action e a = Some e' -> action_target (aliases e) a <> Some k ->
  lookup k (store e') = lookup k (store e) /\ aliases e' = aliases e.
Proof.
  unfold eval_action, action_target. destruct a; try discriminate.
  destruct (ty t) eqn:Ty; try discriminate.
  - (* SET *)
    destruct (eval_upd e a2) as [v0|]; [|discriminate].
    destruct a1; try discriminate.
    + cbn [base_ident]. destruct (eval_ident e t0 true); [|discriminate]. intros E Hk; inversion E; subst.
      split; [|reflexivity]. apply env_set_frame. unfold resolve. intros ->. now apply Hk.
    + destruct (eval_index_positions e (EIndex t0 a1_1 a1_2)) as [[accs o]|]; [|discriminate].
      destruct (base_ident (EIndex t0 a1_1 a1_2)) as [b|] eqn:B; [|discriminate].
      destruct (modify_path _ o (rev accs)) as [o'|]; [|discriminate]. intros E Hk; inversion E; subst.
      split; [|reflexivity]. apply env_set_frame. unfold resolve. intros ->. now apply Hk.
  - (* REMOVE *)
    destruct a1; try discriminate.
    + cbn [base_ident]. destruct (eval_ident e t0 true); [|discriminate]. intros E Hk; inversion E; subst.
      split; [|reflexivity]. apply env_remove_frame. unfold resolve. intros ->. now apply Hk.
    + destruct (eval_index_positions e (EIndex t0 a1_1 a1_2)) as [[accs o]|]; [|discriminate].
      destruct (base_ident (EIndex t0 a1_1 a1_2)) as [b|] eqn:B; [|discriminate].
      destruct (modify_path acc_remove o (rev accs)) as [o'|]; [|discriminate]. intros E Hk; inversion E; subst.
      split; [|reflexivity]. apply env_set_frame. unfold resolve. intros ->. now apply Hk.
  - (* ADD *)
    destruct (eval_upd e a2) as [v|]; [|discriminate].
    destruct a1; try (intros E _; inversion E; subst; auto; fail).
    cbn [base_ident]. destruct (eval_ident e t0 true) as [o|]; [|discriminate].
    destruct (is_undefined o).
    + intros E Hk; inversion E; subst. split; [|reflexivity]. apply env_set_frame. unfold resolve. intros ->. now apply Hk.
    + destruct (obj_add o v); [|discriminate]. intros E Hk; inversion E; subst.
      split; [|reflexivity]. apply env_set_frame. unfold resolve. intros ->. now apply Hk.
  - (* DELETE *)
    destruct (eval_upd e a2) as [v|]; [|discriminate].
    destruct a1; try (intros E _; inversion E; subst; auto; fail).
    cbn [base_ident]. destruct (eval_ident e t0 true) as [o|]; [|discriminate].
    destruct (is_undefined o).
    + intros E _; inversion E; subst; auto.
    + destruct (obj_delete o v) as [o'|]; [|discriminate]. cbn [option_map]. intros E Hk; inversion E; subst.
      destruct (is_empty_set o').
      * split; [|reflexivity]. apply env_remove_frame. unfold resolve. intros ->. now apply Hk.
      * split; [|reflexivity]. apply env_set_frame. unfold resolve. intros ->. now apply Hk.
Qed.

Lemma eval_actions_frame acts : forall e e' k,
  eval_actions e acts = Some e' -> (forall a, In a acts -> action_target (aliases e) a <> Some k) ->
  lookup k (store e') = lookup k (store e) /\ aliases e' = aliases e.
Proof.
  induction acts as [|a acts IH]; intros e e' k; cbn.
  - intros E _; inversion E; auto.
  - destruct (eval_action e a) as [e1|] eqn:A; [|discriminate]. intros E H.
    destruct (eval_action_frame e a e1 k A (H a (or_introl eq_refl))) as [L1 A1].
    destruct (IH e1 e' k E) as [L2 A2]; [intros a' Ha; rewrite A1; apply H; now right|].
    split; congruence.
Qed.

Lemma lookup_map_vals {A B} (f : A -> B) (m : fmap A) k : lookup k (map (fun kv => (fst kv, f (snd kv))) m) = option_map f (lookup k m).
Proof. induction m as [|[k0 v0] m IH]; cbn; auto. destruct (str_eqb k k0); auto. Qed.

Lemma lookup_apply_base (m : fmap obj) (vals : item) k :
  lookup k (flat_map (fun kv => if mem (fst kv) vals then [] else [(fst kv, of_obj (snd kv))]) m)
  = if mem k vals then None else option_map of_obj (lookup k m).
Proof.
  induction m as [|[k0 v0] m IH]; cbn.
  - destruct (mem k vals); reflexivity.
  - destruct (mem k0 vals) eqn:M0; cbn.
    + rewrite IH. destruct (str_eqb k k0) eqn:E; auto. apply str_eqb_eq in E; subst. now rewrite M0.
    + destruct (str_eqb k k0) eqn:E; auto. apply str_eqb_eq in E; subst. now rewrite M0.
Qed.

Lemma lookup_filter_keys (it vals : item) k :
  lookup k (filter (fun kv => mem (fst kv) vals) it) = if mem k vals then lookup k it else None.
Proof.
  induction it as [|[k0 v0] it IH]; cbn; [destruct (mem k vals); reflexivity|].
  destruct (mem k0 vals) eqn:M0; cbn.
  - destruct (str_eqb k k0) eqn:E; [apply str_eqb_eq in E; subst; now rewrite M0|exact IH].
  - rewrite IH. destruct (str_eqb k k0) eqn:E; auto. apply str_eqb_eq in E; subst. now rewrite M0.
Qed.

Lemma lookup_fold_insert (l base : item) k :
  lookup k (fold_right (fun kv acc => insert (fst kv) (snd kv) acc) base l)
  = match lookup k l with Some v => Some v | None => lookup k base end.
Proof.
  induction l as [|[k0 v0] l IH]; cbn [fold_right lookup fst snd]; auto.
  destruct (str_eqb k k0) eqn:E.
  - apply str_eqb_eq in E; subst. apply lookup_insert_eq.
  - rewrite lookup_insert_neq by (now apply str_eqb_neq). exact IH.
Qed.

Lemma lookup_apply_env e it vals k :
  lookup k (apply_env e it vals) = if mem k vals then lookup k it else option_map of_obj (lookup k (store e)).
Proof.
  unfold apply_env. rewrite lookup_fold_insert, lookup_filter_keys, lookup_apply_base.
  destruct (mem k vals); [destruct (lookup k it); reflexivity|reflexivity].
Qed.

Lemma lookup_add_attributes attrs : forall st st' k,
  add_attributes st attrs = Some st' -> lookup k attrs = None -> lookup k st' = lookup k st.
Proof.
  induction attrs as [|[k0 v0] attrs IH]; intros st st' k; cbn.
  - intros E _; now inversion E.
  - destruct (to_obj v0) as [o|]; [|discriminate]. destruct (str_eqb k k0) eqn:E; [discriminate|].
    intros A L. rewrite (IH _ _ _ A L). apply lookup_insert_neq. now apply str_eqb_neq.
Qed.

Lemma lookup_add_attributes_item attrs : forall st st' k v,
  wf attrs -> add_attributes st attrs = Some st' -> lookup k attrs = Some v ->
  exists o, to_obj v = Some o /\ lookup k st' = Some o.
Proof.
  unfold wf. induction attrs as [|[k0 v0] attrs IH]; intros st st' k v Hw; cbn; [discriminate|].
  cbn in Hw. apply ssorted_cons_inv in Hw as [Hs Hall].
  destruct (to_obj v0) as [o0|] eqn:T; [|discriminate].
  destruct (str_eqb k k0) eqn:E.
  - apply str_eqb_eq in E; subst k0. intros A L; inversion L; subst v0. exists o0. split; auto.
    rewrite (lookup_add_attributes attrs _ _ k A).
    + apply lookup_insert_eq.
    + destruct (lookup k attrs) eqn:L2; auto. apply lookup_In in L2. apply (in_map fst) in L2. cbn in L2.
      rewrite Forall_forall in Hall. apply Hall in L2. now apply str_lt_irrefl in L2.
  - intros A L. eapply IH; eauto.
Qed.

(* the value an attribute takes when it merely passes through the evaluator *)
Definition pass_through (v : av) : option av := option_map (fun o => of_obj (compact_obj o)) (to_obj v).

(* FRAME: an attribute that no action targets (and that is not a value placeholder) comes out of the update with the
   value it went in with, passed through the evaluator's object representation *)
Theorem update_frame expr it vals names it' tok acts k :
  wf it ->
  lang_update expr it vals names = Ok it' ->
  parse_upd expr = Some (EUpdate tok (Some acts), 0) ->
  mem k vals = false ->
  (forall a, In a acts -> action_target names a <> Some k) ->
  lookup k it' = match lookup k it with Some v => pass_through v | None => None end.
Proof.
  intros Hw Hu Hp Hv Ht. unfold lang_update in Hu. rewrite Hp in Hu. cbn [Nat.eqb negb] in Hu.
  destruct (add_attributes [] it) as [st1|] eqn:A1; [|discriminate].
  destruct (add_attributes st1 vals) as [st2|] eqn:A2; [|discriminate].
  destruct (eval_update_stmt {| store := st2; aliases := names |} (EUpdate tok (Some acts))) as [e'|] eqn:U; [|discriminate].
  inversion Hu; subst it'; clear Hu.
  rewrite lookup_apply_env, Hv.
  unfold eval_update_stmt in U. destruct acts as [|a0 acts0]; [discriminate|].
  destruct (eval_actions {| store := st2; aliases := names |} (a0 :: acts0)) as [e1|] eqn:EA; [|discriminate].
  inversion U; subst e'; clear U. cbn [store].
  rewrite lookup_map_vals.
  destruct (eval_actions_frame _ _ _ k EA Ht) as [L _]. rewrite L. cbn [store].
  assert (lookup k vals = None) as Lv. { unfold mem in Hv. destruct (lookup k vals); [discriminate|reflexivity]. }
  rewrite (lookup_add_attributes vals st1 st2 k A2 Lv).
  destruct (lookup k it) as [v|] eqn:Li.
  - destruct (lookup_add_attributes_item it [] st1 k v Hw A1 Li) as [o [To Lo]].
    rewrite Lo. unfold pass_through. rewrite To. reflexivity.
  - rewrite (lookup_add_attributes it [] st1 k A1 Li). reflexivity.
Qed.

(* ... and an attribute of the item that is literally named like a value placeholder of the request can not be addressed
   by the expression at all: it comes out exactly as it went in *)
Theorem update_frame_placeholder_named expr it vals names it' k :
  lang_update expr it vals names = Ok it' -> mem k vals = true -> lookup k it' = lookup k it.
Proof.
  intros Hu Hv. unfold lang_update in Hu.
  destruct (parse_upd expr) as [[ast nerr]|]; [|discriminate].
  destruct (negb (Nat.eqb nerr 0)); [discriminate|].
  destruct (add_attributes [] it) as [st1|]; [|discriminate].
  destruct (add_attributes st1 vals) as [st2|]; [|discriminate].
  destruct (eval_update_stmt _ ast) as [e'|]; [|discriminate].
  inversion Hu; subst it'. now rewrite lookup_apply_env, Hv.
Qed.

(* REMOVED MEANS GONE: the last action on a top-level attribute being REMOVE, the attribute is absent afterwards *)
Theorem removed_is_gone e t id e' :
  eval_action e (EAction t (EIdent id) ENil) = Some e' -> ty t = REMOVE -> wf (store e) ->
  lookup (resolve e (lit id)) (store e') = None.
Proof.
  intros E Ty Hw. unfold eval_action in E. rewrite Ty in E.
  destruct (eval_ident e id true); [|discriminate]. inversion E; subst. cbn. now apply lookup_remove_eq.
Qed.

(* SET on a top-level attribute stores a copy of the value of its right-hand side *)
Theorem set_stores_value e t id r e' v :
  eval_action e (EAction t (EIdent id) r) = Some e' -> ty t = SET -> eval_upd e r = EVal v ->
  lookup (resolve e (lit id)) (store e') = Some (copy_obj v).
Proof.
  intros E Ty R. unfold eval_action in E. rewrite Ty, R in E.
  destruct (eval_ident e id true); [|discriminate]. inversion E; subst. cbn. apply lookup_insert_eq.
Qed.
