(* Generic lifting of table invariants to clients and histories, instantiated with TInv:
   any predicate on tables that every table operation preserves holds for every table of every client after
   every history (any interpreter, both SDKs). *)
From Coq Require Import List Bool Arith Lia Sorting.Sorted.
From Coq Require Import Strings.Byte Strings.String.
From Minidyn Require Import Base.Str Base.FMap Base.Outcome Model.Value Model.Key Model.Index Model.Table Model.Client.
From Minidyn Require Import Proofs.FMapFacts Proofs.TableInv.
Import ListNotations.

Lemma fold_opt_inv {A B} (Q : A -> Prop) (f : A -> B -> option A) l :
  (forall a b a', Q a -> f a b = Some a' -> Q a') -> forall a a', Q a -> fold_opt f l a = Some a' -> Q a'.
Proof.
  intros Hf. induction l as [|x l IH]; intros a a' Ha; cbn.
  - intros E; inversion E; subst; auto.
  - destruct (f a x) as [a1|] eqn:E; [|discriminate]. intros H. apply (IH a1 a'); auto. eapply Hf; eauto.
Qed.

Lemma add_global_index_data t ppr d t' : add_global_index t ppr d = Some t' -> t_data t' = t_data t /\ t_name t' = t_name t.
Proof.
  unfold add_global_index. destruct (negb ppr && negb (id_throughput d)); [discriminate|].
  destruct (check_schema _ _ _) as [[h r]|]; [|discriminate]. intros E; inversion E; subst. auto.
Qed.

Lemma add_local_index_data t d t' : add_local_index t d = Some t' -> t_data t' = t_data t /\ t_name t' = t_name t.
Proof.
  unfold add_local_index. destruct (check_schema _ _ _) as [[h r]|]; [|discriminate]. intros E; inversion E; subst. auto.
Qed.

Section Generic.
Variable P : table -> Prop.
Variable U : ictx -> table -> item -> str -> fmap str -> item -> Prop.   (* side condition of UpdateItem: key, expression, names, values *)
Variable lang_match : str -> item -> item -> fmap str -> outcome bool.
Variable lang_update : str -> item -> item -> fmap str -> outcome item.
Variable flavour : sdk.

Hypothesis P_put : forall c t it cond names vals, P t -> P (fst (t_put lang_match c t it cond names vals)).
Hypothesis P_update : forall c t k e cond names vals, P t -> U c t k e names vals -> P (fst (t_update lang_match lang_update c t k e cond names vals)).
Hypothesis P_delete : forall c t k cond names vals, P t -> P (fst (t_delete lang_match c t k cond names vals)).
Hypothesis P_clear : forall t, P t -> P (t_clear t).
Hypothesis P_empty : forall n oh orr h r defs, check_schema defs oh orr = Some (h, r) ->
  P {| t_name := n; t_ks := {| hashk := h; rangek := r; secondary := false |}; t_defs := defs; t_sorted := []; t_data := []; t_indexes := [] |}.
Hypothesis P_agi : forall t ppr d t', P t -> add_global_index t ppr d = Some t' -> P t'.
Hypothesis P_ali : forall t d t', P t -> t_data t = [] -> add_local_index t d = Some t' -> P t'.
(* UpdateTable re-declares attributes only when Table.CheckAttributeDefinition accepts it (defs_ok) *)
Hypothesis P_defs : forall t defs, P t -> defs_ok t defs = true ->
  P {| t_name := t_name t; t_ks := t_ks t; t_defs := set_defs (t_defs t) defs; t_sorted := t_sorted t;
       t_data := t_data t; t_indexes := t_indexes t |}.
Hypothesis P_drop_index : forall t n, P t -> P (with_indexes t (remove n (t_indexes t))).

Definition TOk (n : str) (t : table) : Prop := P t /\ t_name t = n.

Definition CInv (c : client) : Prop :=
  wf (c_tables c) /\ forall n t, lookup n (c_tables c) = Some t -> TOk n t.

(* the side condition along one step *)
Definition step_env (c : client) (o : op) : Prop :=
  match o with
  | OUpdate tn k e _ names vals _ => forall t, lookup tn (c_tables c) = Some t -> U (ctx_of c) t k e names vals
  | _ => True
  end.

Lemma CInv_new : CInv new_client.
Proof. split; [apply wf_nil|]. intros n t H. discriminate. Qed.

Lemma CInv_set_table c t : CInv c -> P t -> CInv (set_table c t).
Proof.
  intros [Hw Hc] Ht. split; cbn; [now apply wf_insert|].
  intros n t' H. rewrite lookup_insert in H. destruct (str_eqb n (t_name t)) eqn:Eq.
  - inversion H; subst. apply str_eqb_eq in Eq. split; auto.
  - eauto.
Qed.

Lemma CInv_tables_only c c' : c_tables c' = c_tables c -> CInv c -> CInv c'.
Proof. intros Eq [Hw H]. split; rewrite Eq; auto. Qed.

Lemma CInv_P c n t : CInv c -> lookup n (c_tables c) = Some t -> P t.
Proof. intros [_ H] L. now apply H in L as [L _]. Qed.

Lemma preamble_lookup c tn names vals exprs t :
  preamble flavour c tn names vals exprs = inr t -> lookup tn (c_tables c) = Some t.
Proof.
  unfold preamble. destruct (c_failure c); [discriminate|].
  destruct (negb (v1_name_ok flavour tn)); [discriminate|].
  destruct (validate_expr_attrs _ _ _); [|discriminate].
  destruct (lookup tn (c_tables c)); [|discriminate]. now intros H; inversion H.
Qed.

Lemma CInv_put_item c tn it cond names vals ro :
  CInv c -> CInv (fst (put_item lang_match flavour c tn it cond names vals ro)).
Proof.
  intros H. unfold put_item.
  destruct (preamble flavour c tn names vals _) as [e|t] eqn:Pr; cbn; auto.
  apply preamble_lookup in Pr.
  pose proof (P_put (ctx_of c) t it cond names vals (CInv_P _ _ _ H Pr)) as T.
  destruct (t_put lang_match (ctx_of c) t it cond names vals) as [t' r]; cbn in *.
  destruct r; cbn; auto. now apply CInv_set_table.
Qed.

Lemma CInv_update_item c tn k e cond names vals ao :
  CInv c -> (forall t, lookup tn (c_tables c) = Some t -> U (ctx_of c) t k e names vals) -> CInv (fst (update_item lang_match lang_update flavour c tn k e cond names vals ao)).
Proof.
  intros H Hu. unfold update_item.
  destruct (preamble flavour c tn names vals _) as [er|t] eqn:Pr; cbn; auto.
  apply preamble_lookup in Pr.
  pose proof (P_update (ctx_of c) t k e cond names vals (CInv_P _ _ _ H Pr) (Hu _ Pr)) as T.
  destruct (t_update lang_match lang_update (ctx_of c) t k e cond names vals) as [t' r]; cbn in *.
  destruct r as [| | [] | |]; cbn; auto. now apply CInv_set_table.
Qed.

Lemma CInv_delete_item c tn k cond names vals ro :
  CInv c -> CInv (fst (delete_item lang_match flavour c tn k cond names vals ro)).
Proof.
  intros H. unfold delete_item.
  destruct (preamble flavour c tn names vals _) as [er|t] eqn:Pr; cbn; auto.
  apply preamble_lookup in Pr.
  pose proof (P_delete (ctx_of c) t k cond names vals (CInv_P _ _ _ H Pr)) as T.
  destruct (t_delete lang_match (ctx_of c) t k cond names vals) as [t' r]; cbn in *.
  destruct r; cbn; auto. now apply CInv_set_table.
Qed.

Lemma CInv_batch_write_one c tn r : CInv c -> CInv (fst (batch_write_one lang_match flavour c tn r)).
Proof.
  intros H. unfold batch_write_one.
  destruct r; cbn.
  - pose proof (CInv_put_item c tn i None [] [] false H) as Q.
    destruct (put_item lang_match flavour c tn i None [] [] false) as [c' o]; cbn in *.
    destruct (o_res o) as [|[]| |]; auto.
  - pose proof (CInv_delete_item c tn k None [] [] false H) as Q.
    destruct (delete_item lang_match flavour c tn k None [] [] false) as [c' o]; cbn in *.
    destruct (o_res o) as [|[]| |]; auto.
  - destruct (c_failure c) as [f|]; cbn; [|exact H]. destruct (failure_err f); exact H.
  - pose proof (CInv_put_item c tn i None [] [] false H) as Q.
    destruct (put_item lang_match flavour c tn i None [] [] false) as [c' o]; cbn in *.
    destruct (o_res o) as [|[]| |]; auto.
Qed.

Lemma CInv_batch_write_reqs rs : forall c tn un,
  CInv c -> CInv (fst (fst (batch_write_reqs lang_match flavour c tn rs un))).
Proof.
  induction rs as [|r rs IH]; intros c tn un H; cbn; auto.
  pose proof (CInv_batch_write_one c tn r H) as Q.
  destruct (batch_write_one lang_match flavour c tn r) as [c' [[o|]|]]; cbn in *; auto.
Qed.

Lemma CInv_batch_write_tables ts : forall c un,
  CInv c -> CInv (fst (fst (batch_write_tables lang_match flavour c ts un))).
Proof.
  induction ts as [|[tn rs] ts IH]; intros c un H; cbn; auto.
  pose proof (CInv_batch_write_reqs rs c tn [] H) as Q.
  destruct (batch_write_reqs lang_match flavour c tn rs []) as [[c' u] [o|]]; cbn in *; auto.
Qed.

Lemma CInv_batch_write c reqs : CInv c -> CInv (fst (batch_write lang_match flavour c reqs)).
Proof.
  intros H. unfold batch_write. destruct (v1_empty_batch flavour c reqs); [exact H|]. unfold batch_write_core.
  destruct (forced_blocks c); [exact H|].
  destruct (_ && negb (forallb wreq_ok (flat_map snd reqs))); [exact H|].
  destruct (_ && (batch_limit <? List.length (flat_map snd reqs))); [exact H|].
  destruct (match c_failure c with Some _ => [] | None => flat_map (prevalidate_table c) reqs end); [|exact H].
  pose proof (CInv_batch_write_tables reqs c [] H) as Q.
  destruct (batch_write_tables lang_match flavour c reqs []) as [[c' un] [o|]]; exact Q.
Qed.

Lemma CInv_insert_table c n t b : CInv c -> TOk n t ->
  CInv {| c_tables := insert n t (c_tables c); c_billing := b; c_failure := c_failure c; c_native := c_native c; c_reg := c_reg c |}.
Proof.
  intros [Hw H] Ht. split; cbn; [now apply wf_insert|].
  intros n' t' L. rewrite lookup_insert in L. destruct (str_eqb n' n) eqn:Eq.
  - apply str_eqb_eq in Eq. inversion L; subst. exact Ht.
  - eauto.
Qed.

Lemma CInv_create_table c ct : CInv c -> CInv (fst (create_table flavour c ct)).
Proof.
  intros H. unfold create_table.
  destruct (negb (ct_names_ok flavour ct)); [exact H|].
  destruct (mem (ct_table ct) (c_tables c)); [exact H|].
  destruct (check_schema _ _ _) as [[h r]|] eqn:CS; [|exact H].
  destruct (negb (ct_pay_per_request ct) && negb (ct_throughput ct)); [exact H|].
  match goal with |- context [fold_opt ?f (ct_gsi ct) ?t0] => destruct (fold_opt f (ct_gsi ct) t0) as [t1|] eqn:E1 end; [|exact H].
  destruct (fold_opt add_local_index (ct_lsi ct) t1) as [t2|] eqn:E2; [|exact H].
  set (Q := fun t => TOk (ct_table ct) t /\ t_data t = []).
  assert (Q t1) as T1.
  { eapply (fold_opt_inv Q) in E1; eauto.
    - intros a b a' [[Ha Hn] Hd] Hb. destruct (add_global_index_data _ _ _ _ Hb) as [D N].
      split; [split; [eapply P_agi; eauto|congruence]|congruence].
    - split; [split; [exact (P_empty _ _ _ _ _ _ CS)|reflexivity]|reflexivity]. }
  assert (Q t2) as T2.
  { eapply (fold_opt_inv Q) in E2; eauto.
    intros a b a' [[Ha Hn] Hd] Hb. destruct (add_local_index_data _ _ _ Hb) as [D N].
    split; [split; [eapply P_ali; eauto|congruence]|congruence]. }
  cbn [fst]. apply CInv_insert_table; auto. apply T2.
Qed.

Lemma CInv_set_table' c n t : CInv c -> TOk n t -> CInv (set_table c t).
Proof. intros H [T _]. now apply CInv_set_table. Qed.

Lemma CInv_update_table c tn defs create delete :
  CInv c -> CInv (fst (update_table flavour c tn defs create delete)).
Proof.
  intros H. unfold update_table.
  match goal with |- context [if negb ?b then _ else _] => destruct (negb b) end; [exact H|].
  destruct (lookup tn (c_tables c)) as [t|] eqn:L; [|exact H].
  destruct (defs_ok t defs) eqn:He; cbn [negb]; [|exact H].
  pose proof (CInv_P _ _ _ H L) as T.
  set (t1 := {| t_name := t_name t; t_ks := t_ks t; t_defs := set_defs (t_defs t) defs; t_sorted := t_sorted t;
                t_data := t_data t; t_indexes := t_indexes t |}).
  assert (TOk (t_name t) t1) as T1 by (split; [apply P_defs; auto|reflexivity]).
  assert (forall t2, TOk (t_name t) t2 ->
            CInv (fst (match delete with
                       | None => (set_table c t2, ok_obs (PDesc (describe t2)) [])
                       | Some n => if mem n (t_indexes t2)
                                   then (set_table c (with_indexes t2 (remove n (t_indexes t2))),
                                         ok_obs (PDesc (describe (with_indexes t2 (remove n (t_indexes t2))))) [])
                                   else (set_table c t2, err_obs NotFound)
                       end))) as Hdel.
  { intros t2 [T2 N2]. destruct delete as [n|]; [destruct (mem n (t_indexes t2))|]; cbn [fst];
      apply CInv_set_table; auto. }
  destruct create as [d|].
  - destruct (add_global_index t1 _ d) as [t2|] eqn:Ea.
    + apply Hdel. destruct T1 as [T1 N1]. destruct (add_global_index_data _ _ _ _ Ea) as [_ N]. split; [eapply P_agi; eauto|congruence].
    + cbn [fst]. apply CInv_set_table; auto. apply T1.
  - apply Hdel. exact T1.
Qed.

Lemma CInv_remove_table c tn :
  CInv c -> CInv {| c_tables := remove tn (c_tables c); c_billing := remove tn (c_billing c); c_failure := c_failure c;
                    c_native := c_native c; c_reg := c_reg c |}.
Proof.
  intros [Hw H]. split; cbn; [now apply wf_remove|].
  intros n t L. destruct (str_eqb n tn) eqn:Eq.
  - apply str_eqb_eq in Eq; subst. rewrite lookup_remove_eq in L; [discriminate|auto].
  - apply str_eqb_neq in Eq. rewrite lookup_remove_neq in L; eauto.
Qed.

Lemma fst_run_search c t q : fst (run_search lang_match flavour c t q) = c.
Proof.
  unfold run_search. destruct (q_index q) as [n|].
  - destruct (negb (mem n (t_indexes t)) && negb match n with [] => true | _ => false end); cbn; auto.
    destruct (negb (valid_start_key _ _ _)); cbn; auto.
    destruct (check_expressions _ _ _) as [u| | |]; cbn; auto.
    destruct (search_data _ _ _ _) as [[[items lek] f]| | |]; cbn; auto.
  - destruct (negb (valid_start_key _ _ _)); cbn; auto.
    destruct (check_expressions _ _ _) as [u| | |]; cbn; auto.
    destruct (search_data _ _ _ _) as [[[items lek] f]| | |]; cbn; auto.
Qed.

(* every step preserves the invariant *)
Theorem CInv_step c o : CInv c -> step_env c o -> CInv (fst (step lang_match lang_update flavour c o)).
Proof.
  intros H He. destruct o; cbn [step].
  - apply CInv_new.
  - now apply CInv_create_table.
  - pose proof (CInv_create_table c (add_table_input table hash range) H) as Q.
    destruct (create_table flavour c (add_table_input table hash range)); cbn in *; auto.
  - match goal with |- context [update_table flavour c ?a ?b ?d ?e] =>
      pose proof (CInv_update_table c a b d e H) as Q; destruct (update_table flavour c a b d e) end; cbn in *; auto.
  - destruct (negb (v1_name_ok flavour table)); cbn; auto.
    destruct (lookup table (c_tables c)); cbn; auto. now apply CInv_remove_table.
  - destruct (lookup table (c_tables c)); cbn; auto.
  - now apply CInv_update_table.
  - destruct (lookup table (c_tables c)) as [tb|] eqn:L; cbn; auto.
    apply CInv_set_table; auto. apply P_clear. eapply CInv_P; eauto.
  - now apply CInv_put_item.
  - unfold get_item_op. destruct (preamble _ _ _ _ _ _); cbn; auto. destruct (get_key _ _ _); cbn; auto.
  - now apply CInv_update_item.
  - now apply CInv_delete_item.
  - unfold query_op. destruct (c_failure c); cbn; auto.
    destruct (validate_expr_attrs _ _ _); cbn; auto.
    destruct (lookup table (c_tables c)); cbn; auto. now rewrite fst_run_search.
  - unfold scan_op. destruct (c_failure c); cbn; auto.
    destruct (validate_expr_attrs _ _ _); cbn; auto.
    destruct (lookup table (c_tables c)); cbn; auto. now rewrite fst_run_search.
  - now apply CInv_batch_write.
  - unfold batch_get. destruct flavour; cbn; auto. destruct (c_failure c); cbn; auto.
    match goal with |- context [match ?l with [] => _ | _ :: _ => _ end] => destruct l end; cbn; auto.
  - destruct (c_failure c); cbn; auto.
  - eapply CInv_tables_only; [reflexivity|exact H].
  - eapply CInv_tables_only; [reflexivity|exact H].
  - eapply CInv_tables_only; [reflexivity|exact H].
  - eapply CInv_tables_only; [reflexivity|exact H].
  - eapply CInv_tables_only; [reflexivity|exact H].
  - eapply CInv_tables_only; [reflexivity|exact H].
  - eapply CInv_tables_only; [reflexivity|exact H].
Qed.

Definition WInv (w : world) : Prop := forall n c, lookup n w = Some c -> CInv c.

Definition client_of (w : world) (n : str) : client := match lookup n w with Some c => c | None => new_client end.

Lemma WInv_wstep w o : WInv w -> step_env (client_of w (fst o)) (snd o) -> WInv (fst (wstep lang_match lang_update flavour w o)).
Proof.
  intros H He. unfold wstep. fold (client_of w (fst o)).
  assert (CInv (client_of w (fst o))) as Hc. { unfold client_of. destruct (lookup (fst o) w) eqn:L; [eauto|apply CInv_new]. }
  pose proof (CInv_step _ (snd o) Hc He) as Q.
  destruct (step lang_match lang_update flavour (client_of w (fst o)) (snd o)) as [c' ob]; cbn in *.
  intros n c0 L. rewrite lookup_insert in L. destruct (str_eqb n (fst o)); [now inversion L; subst|eauto].
Qed.

(* the side condition along a whole history *)
Fixpoint run_env (w : world) (ops : list (str * op)) : Prop :=
  match ops with
  | [] => True
  | o :: rest => step_env (client_of w (fst o)) (snd o) /\ run_env (fst (wstep lang_match lang_update flavour w o)) rest
  end.

Theorem WInv_run ops : forall w, WInv w -> run_env w ops -> WInv (fst (run lang_match lang_update flavour w ops)).
Proof.
  induction ops as [|o ops IH]; intros w H He; cbn; auto.
  destruct He as [He1 He2].
  pose proof (WInv_wstep w o H He1) as Q.
  destruct (wstep lang_match lang_update flavour w o) as [w1 ob]; cbn in *.
  specialize (IH w1 Q He2).
  destruct (run lang_match lang_update flavour w1 ops) as [w2 obs]; cbn in *. exact IH.
Qed.

Theorem P_reachable ops cn tn c t :
  run_env [] ops ->
  lookup cn (fst (run lang_match lang_update flavour [] ops)) = Some c ->
  lookup tn (c_tables c) = Some t -> P t.
Proof.
  intros He Lc Lt. assert (WInv (fst (run lang_match lang_update flavour [] ops))) as H.
  { apply WInv_run; auto. intros n c0 L. discriminate. }
  eapply CInv_P; eauto.
Qed.

(* every table of every client after every history is filed under its own name *)
Theorem names_reachable ops cn tn c t :
  run_env [] ops ->
  lookup cn (fst (run lang_match lang_update flavour [] ops)) = Some c ->
  lookup tn (c_tables c) = Some t -> t_name t = tn.
Proof.
  intros He Lc Lt. assert (WInv (fst (run lang_match lang_update flavour [] ops))) as H.
  { apply WInv_run; auto. intros n c0 L. discriminate. }
  destruct (H cn c Lc) as [_ Hc]. now apply Hc in Lt as [_ N].
Qed.

End Generic.

(* ---------------- instance: TInv, no side condition ---------------- *)
Section TInvInstance.
Variable lang_match : str -> item -> item -> fmap str -> outcome bool.
Variable lang_update : str -> item -> item -> fmap str -> outcome item.
Variable flavour : sdk.

Lemma run_env_True ops : forall w, run_env (fun _ _ _ _ _ _ => True) lang_match lang_update flavour w ops.
Proof.
  induction ops as [|o ops IH]; intros w; cbn; auto. split; auto.
  destruct (snd o); cbn; auto.
Qed.

Theorem TInv_reachable ops cn tn c t :
  lookup cn (fst (run lang_match lang_update flavour [] ops)) = Some c ->
  lookup tn (c_tables c) = Some t -> TInv t.
Proof.
  apply (P_reachable TInv (fun _ _ _ _ _ _ => True) lang_match lang_update flavour).
  - apply TInv_put.
  - intros c0 t0 k e cond names vals H _. now apply TInv_update.
  - apply TInv_delete.
  - intros t0 _. apply TInv_clear.
  - intros n oh orr h r defs _. split; cbn; [apply wf_nil|reflexivity].
  - intros t0 ppr d t' H Ea. destruct (add_global_index_data _ _ _ _ Ea) as [D _].
    unfold add_global_index in Ea. destruct (negb ppr && negb (id_throughput d)); [discriminate|].
    destruct (check_schema _ _ _) as [[h r]|]; [|discriminate]. inversion Ea; subst. exact H.
  - intros t0 d t' H _ Ea. unfold add_local_index in Ea.
    destruct (check_schema _ _ _) as [[h r]|]; [|discriminate]. inversion Ea; subst. exact H.
  - intros t0 defs H _. exact H.
  - intros t0 n H. exact H.
  - apply run_env_True.
Qed.

End TInvInstance.

(* ---------------- instance: no table predicate at all, just the names ---------------- *)
Section NamesInstance.
Variable lang_match : str -> item -> item -> fmap str -> outcome bool.
Variable lang_update : str -> item -> item -> fmap str -> outcome item.
Variable flavour : sdk.

Theorem table_names_reachable ops cn tn c t :
  lookup cn (fst (run lang_match lang_update flavour [] ops)) = Some c ->
  lookup tn (c_tables c) = Some t -> t_name t = tn.
Proof.
  apply (names_reachable (fun _ => True) (fun _ _ _ _ _ _ => True) lang_match lang_update flavour); try (intros; exact I).
  apply run_env_True.
Qed.

End NamesInstance.
