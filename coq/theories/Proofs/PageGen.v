(* Pagination, generically: entries of any type in a strict order, pages that evaluate a prefix of what is left,
   and the stitching argument: following LastEvaluatedKey visits every entry exactly once, in order. *)
From Coq Require Import List Bool Arith Lia Sorting.Sorted.
From Minidyn Require Import Base.Str Base.FMap Base.Outcome Model.Value.
Import ListNotations.

Lemma filter_all_id' {A} (f : A -> bool) l : (forall x, In x l -> f x = true) -> filter f l = l.
Proof. induction l as [|a l IH]; intros H; cbn; auto. rewrite (H a) by (now left). f_equal. apply IH. intros x Hx. apply H. now right. Qed.

Section Order.
Context {A : Type}.
Variable aftb : A -> A -> bool.                 (* aftb a b: b is positioned after a *)
Hypothesis aft_irrefl : forall a, aftb a a = false.
Hypothesis aft_trans : forall a b c, aftb a b = true -> aftb b c = true -> aftb a c = true.
Hypothesis aft_asym : forall a b, aftb a b = true -> aftb b a = false.

Definition aftP (a b : A) : Prop := aftb a b = true.

(* the entries not after sk, then the entries after sk *)
Fixpoint gsplit (sk : A) (l : list A) : list A * list A :=
  match l with
  | [] => ([], [])
  | k :: r => if aftb sk k then ([], l) else let '(a, b) := gsplit sk r in (k :: a, b)
  end.

Lemma gsplit_app sk l : fst (gsplit sk l) ++ snd (gsplit sk l) = l.
Proof.
  induction l as [|k r IH]; cbn; auto. destruct (aftb sk k); cbn; auto.
  destruct (gsplit sk r) as [a b]; cbn in *. now rewrite IH.
Qed.

Lemma gsplit_pre sk l : Forall (fun k => aftb sk k = false) (fst (gsplit sk l)).
Proof.
  induction l as [|k r IH]; cbn; [constructor|]. destruct (aftb sk k) eqn:E; cbn; [constructor|].
  destruct (gsplit sk r) as [a b]; cbn in *. constructor; auto.
Qed.

Lemma gsplit_rest sk l : StronglySorted aftP l -> Forall (fun k => aftb sk k = true) (snd (gsplit sk l)).
Proof.
  induction l as [|k r IH]; intros Hs; cbn; [constructor|]. inversion Hs as [|? ? Hr Hall]; subst.
  destruct (aftb sk k) eqn:E; cbn.
  - constructor; auto. eapply Forall_impl; [|exact Hall]. intros a Ha. eapply aft_trans; eauto.
  - destruct (gsplit sk r) as [a b] eqn:S; cbn in *. now apply IH.
Qed.

Lemma gsplit_member a x b : StronglySorted aftP (a ++ x :: b) -> gsplit x (a ++ x :: b) = (a ++ [x], b).
Proof.
  induction a as [|y a IH]; intros Hs; cbn.
  - rewrite aft_irrefl. inversion Hs as [|? ? Hr Hall]; subst.
    destruct b as [|z b]; cbn; auto.
    inversion Hall as [|? ? Hz _]; subst. unfold aftP in Hz. now rewrite Hz.
  - inversion Hs as [|? ? Hr Hall]; subst.
    assert (aftb y x = true) as Hyx. { rewrite Forall_forall in Hall. apply Hall. apply in_or_app. right. now left. }
    rewrite (aft_asym _ _ Hyx). rewrite IH by auto. reflexivity.
Qed.

Lemma gsplit_filter sk l : StronglySorted aftP l -> snd (gsplit sk l) = filter (aftb sk) l.
Proof.
  induction l as [|k r IH]; intros Hs; cbn; auto. inversion Hs as [|? ? Hr Hall]; subst.
  destruct (aftb sk k) eqn:E; cbn.
  - f_equal. symmetry. apply filter_all_id'. intros x Hx.
    rewrite Forall_forall in Hall. eapply aft_trans; eauto. now apply Hall.
  - destruct (gsplit sk r) as [a b] eqn:S; cbn in *. now apply IH.
Qed.

(* ---------- what one page evaluates ---------- *)
Variable counts : A -> bool.

(* the shortest prefix of [rest] containing L counting entries (all of it if there are fewer); what is left; full? *)
Fixpoint gpage (L cnt : nat) (rest : list A) : list A * list A * bool :=
  match rest with
  | [] => ([], [], false)
  | k :: r =>
      let cnt' := if counts k then S cnt else cnt in
      if Nat.eqb L cnt' then ([k], r, true)
      else let '(p, u, b) := gpage L cnt' r in (k :: p, u, b)
  end.

Lemma gpage_app L cnt rest : fst (fst (gpage L cnt rest)) ++ snd (fst (gpage L cnt rest)) = rest.
Proof.
  revert cnt; induction rest as [|k r IH]; intros cnt; cbn; auto.
  destruct (Nat.eqb L _); cbn; auto. specialize (IH (if counts k then S cnt else cnt)).
  destruct (gpage L _ r) as [[p u] b]; cbn in *. now rewrite IH.
Qed.

Lemma gpage_false L : forall rest cnt p u, gpage L cnt rest = (p, u, false) -> u = [].
Proof.
  induction rest as [|k r IH]; intros cnt p u H; cbn in H; [now inversion H|].
  destruct (Nat.eqb L _); [inversion H|]. destruct (gpage L _ r) as [[p1 u1] b1] eqn:E. inversion H; subst.
  eapply IH; eauto.
Qed.

Lemma gpage_true_nonempty L rest cnt u : gpage L cnt rest <> ([], u, true).
Proof.
  destruct rest as [|k r]; cbn; [discriminate|].
  destruct (Nat.eqb L _); [discriminate|]. destruct (gpage L _ r) as [[p1 u1] b1]. discriminate.
Qed.

(* ---------- stitching ---------- *)
Variable es : list A.
Hypothesis es_sorted : StronglySorted aftP es.
Variable matched : A -> bool.
Variable item_of : A -> item.
Variable lek_of : A -> item.                                        (* the LastEvaluatedKey naming an entry *)
Variable page : nat -> item -> outcome (list item * item * list nat).   (* one request with Limit L and start key esk *)
Variable rest_for : item -> list A -> Prop.     (* the entries a request with this start key has yet to evaluate *)

Definition lek_after (p : list A) : item := match rev p with x :: _ => lek_of x | [] => [] end.

Hypothesis rest_nil : rest_for [] es.
Hypothesis rest_lek : forall a x b, es = a ++ x :: b -> rest_for (lek_of x) b.
Hypothesis lek_nonempty : forall x, In x es -> lek_of x <> [].
Hypothesis page_spec : forall L esk rest, 0 < L -> rest_for esk rest -> (exists pre, es = pre ++ rest) ->
  let '(p, u, b) := gpage L 0 rest in
  exists f, page L esk = Ok (map item_of (filter matched p), (if b then lek_after p else []), f).

(* the client-side loop: follow LastEvaluatedKey until a page comes without one *)
Fixpoint gpages (fuel L : nat) (esk : item) : option (list item) :=
  match fuel with
  | O => None
  | S f => match page L esk with
           | Ok (items, lek, _) => match lek with [] => Some items | _ => option_map (app items) (gpages f L lek) end
           | _ => None
           end
  end.

Lemma gpages_from L : 0 < L -> forall n esk rest,
  rest_for esk rest -> (exists pre, es = pre ++ rest) -> List.length rest <= n ->
  gpages (S n) L esk = Some (map item_of (filter matched rest)).
Proof.
  intros HL. induction n as [|n IH]; intros esk rest Hr Hsuf Hlen.
  - destruct rest as [|k0 r0]; [|cbn in Hlen; lia].
    pose proof (page_spec L esk [] HL Hr Hsuf) as P. cbn [gpage] in P.
    destruct P as [f P]. cbn [gpages]. rewrite P. reflexivity.
  - pose proof (page_spec L esk rest HL Hr Hsuf) as P.
    destruct (gpage L 0 rest) as [[p u] b] eqn:PK. destruct P as [f P].
    pose proof (gpage_app L 0 rest) as Ap. rewrite PK in Ap. cbn [fst snd] in Ap.
    change (gpages (S (S n)) L esk) with
      (match page L esk with
       | Ok (items, lek, _) => match lek with [] => Some items | _ => option_map (app items) (gpages (S n) L lek) end
       | _ => None end).
    rewrite P. destruct b.
    + destruct p as [|p0 p']; [exfalso; eapply gpage_true_nonempty; eauto|].
      destruct (@exists_last _ (p0 :: p') ltac:(discriminate)) as [l' [x Ex]]. rewrite Ex in *.
      unfold lek_after. rewrite rev_app_distr. cbn [rev app].
      destruct Hsuf as [pre Hpre].
      assert (es = (pre ++ l') ++ x :: u) as Hes. { rewrite Hpre, <- Ap, <- !app_assoc. reflexivity. }
      assert (In x es) as Hin. { rewrite Hes. apply in_or_app. right. now left. }
      pose proof (lek_nonempty x Hin) as Hne.
      destruct (lek_of x) as [|kv kr] eqn:EK; [congruence|]. rewrite <- EK in *.
      rewrite (IH (lek_of x) u).
      * cbn [option_map]. f_equal. rewrite <- Ap, !filter_app, !map_app. reflexivity.
      * eapply rest_lek; eauto.
      * exists ((pre ++ l') ++ [x]). rewrite Hes, <- !app_assoc. reflexivity.
      * rewrite <- Ap, !app_length in Hlen. cbn [List.length] in Hlen. lia.
    + apply gpage_false in PK as Hu. subst u. rewrite app_nil_r in Ap. now rewrite Ap.
Qed.

(* following LastEvaluatedKey from the beginning ends within |entries|+1 pages and returns every matching entry,
   once, in order *)
Theorem gpages_complete L : 0 < L -> gpages (S (List.length es)) L [] = Some (map item_of (filter matched es)).
Proof. intros HL. apply gpages_from; auto. now exists []. Qed.

End Order.
