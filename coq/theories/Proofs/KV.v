(* Single-item writes as operations on the key -> item map Data (C01), locality and atomicity of
   conditional writes (C05), and "a failing write leaves no trace" at table level (C08). All for every interpreter. *)
From Coq Require Import List Bool Arith Lia.
From Coq Require Import Strings.Byte.
From Minidyn Require Import Base.Str Base.FMap Base.Outcome Model.Value Model.Key Model.Index Model.Table.
From Minidyn Require Import Proofs.FMapFacts Proofs.TableInv.
Import ListNotations.

Definition is_ok (r : wres) : bool := match r with WOk _ _ => true | _ => false end.

Section KV.
Variable lang_match : str -> item -> item -> fmap str -> outcome bool.
Variable lang_update : str -> item -> item -> fmap str -> outcome item.

(* ---- a write that does not succeed changes nothing at all (table, sorted keys, every index) ---- *)
Lemma put_fail_unchanged c t it cond names vals :
  is_ok (snd (t_put lang_match c t it cond names vals)) = false -> fst (t_put lang_match c t it cond names vals) = t.
Proof.
  unfold t_put. destruct (get_key _ _ _); cbn; auto.
  destruct (check_cond _ _ _ _ _ _ _) as [[[] f]| | |]; cbn; auto.
  destruct (validate_index_keys _ _ _); cbn; auto. discriminate.
Qed.

Lemma update_fail_unchanged c t k e cond names vals :
  is_ok (snd (t_update lang_match lang_update c t k e cond names vals)) = false ->
  fst (t_update lang_match lang_update c t k e cond names vals) = t.
Proof.
  unfold t_update. destruct (get_key _ _ _); cbn; auto.
  destruct (check_cond _ _ _ _ _ _ _) as [[[] f]| | |]; cbn; auto.
  destruct (interp_update _ _ _ _ _ _ _) as [[it' f']| | |]; cbn; auto.
  destruct (validate_index_keys _ _ _); cbn; auto. discriminate.
Qed.

Lemma delete_fail_unchanged c t k cond names vals :
  is_ok (snd (t_delete lang_match c t k cond names vals)) = false -> fst (t_delete lang_match c t k cond names vals) = t.
Proof.
  unfold t_delete. destruct (get_key _ _ _); cbn; auto.
  destruct (check_cond _ _ _ _ _ _ _) as [[[] f]| | |]; cbn; auto.
  destruct (lookup _ _); cbn; auto. destruct (Nat.eqb _ _); cbn; discriminate.
Qed.

Lemma name_put c t it cond names vals : t_name (fst (t_put lang_match c t it cond names vals)) = t_name t.
Proof.
  unfold t_put. destruct (get_key _ _ _); cbn; auto.
  destruct (check_cond _ _ _ _ _ _ _) as [[[] f]| | |]; cbn; auto.
  destruct (validate_index_keys _ _ _); cbn; auto.
Qed.

Lemma name_update c t k e cond names vals : t_name (fst (t_update lang_match lang_update c t k e cond names vals)) = t_name t.
Proof.
  unfold t_update. destruct (get_key _ _ _); cbn; auto.
  destruct (check_cond _ _ _ _ _ _ _) as [[[] f]| | |]; cbn; auto.
  destruct (interp_update _ _ _ _ _ _ _) as [[it' f']| | |]; cbn; auto.
  destruct (validate_index_keys _ _ _); cbn; auto.
Qed.

Lemma name_delete c t k cond names vals : t_name (fst (t_delete lang_match c t k cond names vals)) = t_name t.
Proof.
  unfold t_delete. destruct (get_key _ _ _); cbn; auto.
  destruct (check_cond _ _ _ _ _ _ _) as [[[] f]| | |]; cbn; auto.
  destruct (lookup _ _); cbn; auto. destruct (Nat.eqb _ _); cbn; auto.
Qed.

(* ---- the effect of a successful write on Data: exactly one key changes ---- *)
Lemma put_effect c t it cond names vals t' r :
  t_put lang_match c t it cond names vals = (t', r) -> is_ok r = true ->
  exists key, get_key (t_ks t) (t_defs t) it = inr key /\ t_data t' = insert key it (t_data t).
Proof.
  unfold t_put. destruct (get_key _ _ _) as [e|key]; [intros E; inversion E; subst; discriminate|].
  destruct (check_cond _ _ _ _ _ _ _) as [[[] f]| | |]; try (intros E; inversion E; subst; discriminate).
  destruct (validate_index_keys _ _ _); intros E; inversion E; subst; [|discriminate].
  intros _. exists key. split; auto.
Qed.

(* a successful Put reports the item it replaced (nothing when the key held nothing): what ReturnValues = ALL_OLD answers *)
Lemma put_returns_replaced c t it cond names vals t' old f :
  t_put lang_match c t it cond names vals = (t', WOk old f) ->
  exists key, get_key (t_ks t) (t_defs t) it = inr key /\ old = lookup key (t_data t).
Proof.
  unfold t_put. destruct (get_key _ _ _) as [e|key]; [intros E; inversion E|].
  destruct (check_cond _ _ _ _ _ _ _) as [[[] f0]| | |]; try (intros E; inversion E; fail).
  destruct (validate_index_keys _ _ _); intros E; inversion E; subst. eauto.
Qed.

Lemma put_then_get c t it cond names vals t' r key :
  t_put lang_match c t it cond names vals = (t', r) -> is_ok r = true ->
  get_key (t_ks t) (t_defs t) it = inr key -> get_item t' key = it.
Proof.
  intros E Hok G. destruct (put_effect _ _ _ _ _ _ _ _ E Hok) as [key' [G' D]].
  rewrite G in G'. inversion G'; subst key'. unfold get_item. rewrite D, lookup_insert_eq. reflexivity.
Qed.

Lemma put_frame c t it cond names vals key k' :
  get_key (t_ks t) (t_defs t) it = inr key -> k' <> key ->
  lookup k' (t_data (fst (t_put lang_match c t it cond names vals))) = lookup k' (t_data t).
Proof.
  intros G Hne. unfold t_put. rewrite G.
  destruct (check_cond _ _ _ _ _ _ _) as [[[] f]| | |]; cbn; auto.
  destruct (validate_index_keys _ _ _); cbn; auto. now apply lookup_insert_neq.
Qed.

Lemma update_effect c t k e cond names vals t' it' f :
  t_update lang_match lang_update c t k e cond names vals = (t', WOk (Some it') f) ->
  exists key, get_key (t_ks t) (t_defs t) k = inr key /\ t_data t' = insert key it' (t_data t) /\
              exists f', interp_update lang_update c (t_name t) e
                            (match lookup key (t_data t) with Some i => i | None => Key.key_item (t_ks t) k end) vals names = Ok (it', f').
Proof.
  unfold t_update. destruct (get_key _ _ _) as [er|key]; [intros X; now inversion X|].
  destruct (check_cond _ _ _ _ _ _ _) as [[[] f0]| | |]; try (intros X; now inversion X).
  destruct (interp_update _ _ _ _ _ _ _) as [[it1 f1]| | |] eqn:U; try (intros X; now inversion X).
  destruct (validate_index_keys _ _ _); intros E; inversion E; subst.
  exists key. split; auto. split; auto. eauto.
Qed.

Lemma update_frame c t k e cond names vals key k' :
  get_key (t_ks t) (t_defs t) k = inr key -> k' <> key ->
  lookup k' (t_data (fst (t_update lang_match lang_update c t k e cond names vals))) = lookup k' (t_data t).
Proof.
  intros G Hne. unfold t_update. rewrite G.
  destruct (check_cond _ _ _ _ _ _ _) as [[[] f]| | |]; cbn; auto.
  destruct (interp_update _ _ _ _ _ _ _) as [[it1 f1]| | |]; cbn; auto.
  destruct (validate_index_keys _ _ _); cbn; auto. now apply lookup_insert_neq.
Qed.

Lemma delete_effect c t k cond names vals t' old f :
  TInv t -> t_delete lang_match c t k cond names vals = (t', WOk old f) ->
  exists key, get_key (t_ks t) (t_defs t) k = inr key /\ old = lookup key (t_data t) /\ t_data t' = remove key (t_data t).
Proof.
  intros [Hw Hs]. unfold t_delete. destruct (get_key _ _ _) as [er|key]; [intros X; now inversion X|].
  destruct (check_cond _ _ _ _ _ _ _) as [[[] f0]| | |]; try (intros X; now inversion X).
  destruct (lookup key (t_data t)) as [o|] eqn:L.
  - destruct (Nat.eqb _ _); intros E; inversion E; subst; exists key; cbn; auto.
  - intros E; inversion E; subst. exists key. split; auto. split; auto.
    (* removing an absent key changes nothing *)
    apply wf_ext; auto.
    + now apply wf_remove.
    + intros k0. destruct (str_eqb k0 key) eqn:Eq.
      * apply str_eqb_eq in Eq; subst. rewrite lookup_remove_eq; auto.
      * apply str_eqb_neq in Eq. now rewrite lookup_remove_neq.
Qed.

Lemma delete_frame c t k cond names vals key k' :
  get_key (t_ks t) (t_defs t) k = inr key -> k' <> key ->
  lookup k' (t_data (fst (t_delete lang_match c t k cond names vals))) = lookup k' (t_data t).
Proof.
  intros G Hne. unfold t_delete. rewrite G.
  destruct (check_cond _ _ _ _ _ _ _) as [[[] f]| | |]; cbn; auto.
  destruct (lookup key (t_data t)); cbn; auto.
  destruct (Nat.eqb _ _); cbn; now apply lookup_remove_neq.
Qed.

Lemma delete_absent_noop c t k names vals key :
  get_key (t_ks t) (t_defs t) k = inr key -> lookup key (t_data t) = None ->
  t_delete lang_match c t k None names vals = (t, WOk None []).
Proof. intros G L. unfold t_delete. rewrite G. cbn. now rewrite L. Qed.

(* ---- C05: the outcome of the condition depends on the stored target item only ---- *)
Lemma check_cond_local c t1 t2 cur cond names vals :
  t_name t1 = t_name t2 ->
  check_cond lang_match c t1 cur cond names vals = check_cond lang_match c t2 cur cond names vals.
Proof.
  intros Hn. unfold check_cond. destruct cond as [ce|]; auto.
  unfold match_key, cond_query; cbn. now rewrite Hn.
Qed.

(* two tables that agree on the item stored under the request's key refuse (or not) a conditional write alike:
   no other item of the table can influence the decision *)
Definition is_cond_failed (r : wres) : bool := match r with WCondFailed _ _ => true | _ => false end.

Lemma put_cond_local c t1 t2 it cond names vals key :
  t_name t1 = t_name t2 -> t_ks t1 = t_ks t2 -> t_defs t1 = t_defs t2 ->
  get_key (t_ks t1) (t_defs t1) it = inr key ->
  lookup key (t_data t1) = lookup key (t_data t2) ->
  is_cond_failed (snd (t_put lang_match c t1 it cond names vals)) = is_cond_failed (snd (t_put lang_match c t2 it cond names vals)).
Proof.
  intros Hn Hk Hd G L. unfold t_put. rewrite <- Hk, <- Hd, G.
  assert (get_item t1 key = get_item t2 key) as Eg by (unfold get_item; now rewrite L).
  rewrite <- Eg, (check_cond_local c t1 t2 _ cond names vals Hn).
  destruct (check_cond lang_match c t2 (get_item t1 key) cond names vals) as [[[] f]| | |]; cbn; auto.
  destruct (validate_index_keys (t_defs t1) (t_indexes t1) it), (validate_index_keys (t_defs t1) (t_indexes t2) it); reflexivity.
Qed.

Lemma update_cond_local c t1 t2 k e cond names vals key :
  t_name t1 = t_name t2 -> t_ks t1 = t_ks t2 -> t_defs t1 = t_defs t2 ->
  get_key (t_ks t1) (t_defs t1) k = inr key ->
  lookup key (t_data t1) = lookup key (t_data t2) ->
  is_cond_failed (snd (t_update lang_match lang_update c t1 k e cond names vals)) =
  is_cond_failed (snd (t_update lang_match lang_update c t2 k e cond names vals)).
Proof.
  intros Hn Hk Hd G L. unfold t_update. rewrite <- Hk, <- Hd, G, <- L, <- Hn.
  rewrite (check_cond_local c t1 t2 _ cond names vals Hn).
  destruct (check_cond lang_match c t2 _ cond names vals) as [[[] f]| | |]; cbn; auto.
  destruct (interp_update _ _ _ _ _ _ _) as [[it1 f1]| | |]; cbn; auto.
  destruct (validate_index_keys (t_defs t1) (t_indexes t1) it1), (validate_index_keys (t_defs t1) (t_indexes t2) it1); reflexivity.
Qed.

Lemma delete_cond_local c t1 t2 k cond names vals key :
  t_name t1 = t_name t2 -> t_ks t1 = t_ks t2 -> t_defs t1 = t_defs t2 ->
  get_key (t_ks t1) (t_defs t1) k = inr key ->
  lookup key (t_data t1) = lookup key (t_data t2) ->
  is_cond_failed (snd (t_delete lang_match c t1 k cond names vals)) = is_cond_failed (snd (t_delete lang_match c t2 k cond names vals)).
Proof.
  intros Hn Hk Hd G L. unfold t_delete. rewrite <- Hk, <- Hd, G.
  assert (get_item t1 key = get_item t2 key) as Eg by (unfold get_item; now rewrite L).
  rewrite <- Eg, (check_cond_local c t1 t2 _ cond names vals Hn), <- L.
  destruct (check_cond lang_match c t2 (get_item t1 key) cond names vals) as [[[] f]| | |]; cbn; auto.
  destruct (lookup key (t_data t1)); cbn; auto.
  destruct (Nat.eqb _ _), (Nat.eqb _ _); reflexivity.
Qed.

Lemma cond_false_unchanged_put c t it cond names vals cur f :
  snd (t_put lang_match c t it cond names vals) = WCondFailed cur f -> fst (t_put lang_match c t it cond names vals) = t.
Proof. intros H. apply put_fail_unchanged. now rewrite H. Qed.

Lemma cond_false_unchanged_update c t k e cond names vals cur f :
  snd (t_update lang_match lang_update c t k e cond names vals) = WCondFailed cur f ->
  fst (t_update lang_match lang_update c t k e cond names vals) = t /\
  cur = match lookup (match get_key (t_ks t) (t_defs t) k with inr key => key | inl _ => [] end) (t_data t) with Some i => i | None => [] end.
Proof.
  intros H. split; [apply update_fail_unchanged; now rewrite H|].
  unfold t_update in H. destruct (get_key _ _ _) as [er|key]; [discriminate|].
  destruct (check_cond _ _ _ _ _ _ _) as [[[] f0]| | |]; try discriminate.
  - destruct (interp_update _ _ _ _ _ _ _) as [[it1 f1]| | |]; try discriminate.
    destruct (validate_index_keys _ _ _); discriminate.
  - cbn in H. now inversion H.
Qed.

Lemma cond_false_unchanged_delete c t k cond names vals cur f :
  snd (t_delete lang_match c t k cond names vals) = WCondFailed cur f -> fst (t_delete lang_match c t k cond names vals) = t.
Proof. intros H. apply delete_fail_unchanged. now rewrite H. Qed.

End KV.
