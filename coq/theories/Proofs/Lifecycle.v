(* C18 / C15: table lifecycle facts and batch writes under an emulated failure. For every interpreter, both SDKs. *)
From Coq Require Import List Bool Arith Lia.
From Coq Require Import Strings.Byte Strings.String.
From Minidyn Require Import Base.Str Base.FMap Base.Outcome Model.Value Model.Key Model.Index Model.Table Model.Client.
From Minidyn Require Import Proofs.FMapFacts Proofs.ClientInv.
Import ListNotations.

Section Life.
Variable lm : str -> item -> item -> fmap str -> outcome bool.
Variable lu : str -> item -> item -> fmap str -> outcome item.
Variable s : sdk.

(* creating a table that exists fails with ResourceInUse and changes nothing *)
Theorem create_existing_in_use c ct :
  ct_names_ok s ct = true -> mem (ct_table ct) (c_tables c) = true ->
  create_table s c ct = (c, err_obs InUse).
Proof. intros Hn Hm. unfold create_table. now rewrite Hn, Hm. Qed.

(* a created table starts empty, with the declared key schema *)
Theorem create_starts_empty c ct c' d :
  create_table s c ct = (c', ok_obs (PDesc d) []) ->
  exists t, lookup (ct_table ct) (c_tables c') = Some t /\ t_data t = [] /\ t_sorted t = [] /\ d = describe t /\ d_count d = 0.
Proof.
  unfold create_table.
  destruct (negb (ct_names_ok s ct)); [discriminate|].
  destruct (mem (ct_table ct) (c_tables c)); [discriminate|].
  destruct (check_schema _ _ _) as [[h r]|]; [|discriminate].
  destruct (negb (ct_pay_per_request ct) && negb (ct_throughput ct)); [discriminate|].
  match goal with |- context [fold_opt ?f (ct_gsi ct) ?t0] => destruct (fold_opt f (ct_gsi ct) t0) as [t1|] eqn:E1 end; [|discriminate].
  destruct (fold_opt add_local_index (ct_lsi ct) t1) as [t2|] eqn:E2; [|discriminate].
  intros E; inversion E; subst; clear E.
  set (Q := fun t => t_data t = [] /\ t_sorted t = []).
  assert (Q t1) as Q1.
  { eapply (fold_opt_inv Q) in E1; eauto; [|split; reflexivity].
    intros a b a' [Ha Hb] Hf. unfold add_global_index in Hf.
    destruct (negb (ct_pay_per_request ct) && negb (id_throughput b)); [discriminate|].
    destruct (check_schema _ _ _) as [[h0 r0]|]; [|discriminate]. inversion Hf; subst. split; assumption. }
  assert (Q t2) as Q2.
  { eapply (fold_opt_inv Q) in E2; eauto.
    intros a b a' [Ha Hb] Hf. unfold add_local_index in Hf.
    destruct (check_schema _ _ _) as [[h0 r0]|]; [|discriminate]. inversion Hf; subst. split; assumption. }
  destruct Q2 as [D S]. exists t2. cbn. rewrite lookup_insert_eq. repeat split; auto. cbn. now rewrite S.
Qed.

(* operating on a table that does not exist fails with ResourceNotFound (no failure active, request attributes valid) *)
Theorem missing_table_not_found c tn names vals exprs :
  v1_name_ok s tn = true -> c_failure c = None -> validate_expr_attrs (keys names) (keys vals) exprs = true ->
  lookup tn (c_tables c) = None -> preamble s c tn names vals exprs = inl NotFound.
Proof. intros Hn Hf Hv Hl. unfold preamble. now rewrite Hn, Hf, Hv, Hl. Qed.

Theorem describe_missing_not_found c tn : lookup tn (c_tables c) = None -> step lm lu s c (ODescribeTable tn) = (c, err_obs NotFound).
Proof. intros H. cbn. now rewrite H. Qed.

Theorem delete_missing_not_found c tn :
  v1_name_ok s tn = true -> lookup tn (c_tables c) = None -> step lm lu s c (ODeleteTable tn) = (c, err_obs NotFound).
Proof. intros Hn H. cbn. now rewrite Hn, H. Qed.

(* deleting a table removes it; re-creating it under the same name gives a table that shares nothing with its predecessor:
   it is the empty table of create_starts_empty, whatever the old one contained *)
Theorem delete_removes_table c tn t :
  v1_name_ok s tn = true -> wf (c_tables c) -> lookup tn (c_tables c) = Some t ->
  lookup tn (c_tables (fst (step lm lu s c (ODeleteTable tn)))) = None.
Proof. intros Hn Hw H. cbn. rewrite Hn, H. cbn. now apply lookup_remove_eq. Qed.

(* clearing a table empties the table and every index *)
Theorem clear_empties c tn t :
  lookup tn (c_tables c) = Some t -> t_name t = tn ->
  exists t', lookup tn (c_tables (fst (step lm lu s c (OClearTable tn)))) = Some t' /\ t_data t' = [] /\ t_sorted t' = [] /\
             forall n ix, In (n, ix) (t_indexes t') -> ix_sorted ix = [] /\ ix_refs ix = [].
Proof.
  intros H Hn. cbn. rewrite H. cbn. exists (t_clear t). rewrite <- Hn at 1. cbn. rewrite lookup_insert_eq.
  split; [reflexivity|]. split; [reflexivity|]. split; [reflexivity|].
  intros n1 ix1 Hin. cbn in Hin. apply in_map_iff in Hin as [[n0 ix0] [E _]]. inversion E; subst. split; reflexivity.
Qed.

(* separate clients share no state: a step of one client leaves every other client of the world untouched *)
Theorem clients_independent w co other :
  other <> fst co -> lookup other (fst (wstep lm lu s w co)) = lookup other w.
Proof.
  intros H. unfold wstep. destruct (step lm lu s _ (snd co)) as [c' o]. cbn. now apply lookup_insert_neq.
Qed.

(* C15: a batch write under the emulated internal-server failure applies nothing and returns every request as unprocessed,
   whatever the requests, the tables and the size of the batch are (nothing of the batch is looked at) *)
Lemma batch_one_under_failure c tn r :
  c_failure c = Some FInternal -> batch_write_one lm s c tn r = (c, Some None).
Proof.
  intros Hf. unfold batch_write_one. destruct r; cbn.
  - unfold put_item, preamble. rewrite Hf. reflexivity.
  - unfold delete_item, preamble. rewrite Hf. reflexivity.
  - rewrite Hf. reflexivity.
  - unfold put_item, preamble. rewrite Hf. reflexivity.
Qed.

Lemma batch_reqs_under_failure rs : forall c tn un,
  c_failure c = Some FInternal -> batch_write_reqs lm s c tn rs un = (c, un ++ rs, None).
Proof.
  induction rs as [|r rs IH]; intros c tn un Hf; cbn [batch_write_reqs].
  - now rewrite app_nil_r.
  - rewrite (batch_one_under_failure c tn r Hf). rewrite IH by auto. now rewrite <- app_assoc.
Qed.

(* the unprocessed map of a batch of which nothing is applied: every table entry that has requests, with all of them *)
Fixpoint all_unprocessed (ts : fmap (list wreq)) (un : fmap (list wreq)) : fmap (list wreq) :=
  match ts with
  | [] => un
  | (tn, rs) :: rest => all_unprocessed rest (match rs with [] => un | _ => insert tn rs un end)
  end.

Lemma batch_tables_under_failure ts : forall c un,
  c_failure c = Some FInternal -> batch_write_tables lm s c ts un = (c, all_unprocessed ts un, None).
Proof.
  induction ts as [|[tn rs] ts IH]; intros c un Hf; cbn [batch_write_tables all_unprocessed]; auto.
  rewrite (batch_reqs_under_failure rs c tn [] Hf). cbn [app]. now apply IH.
Qed.

Theorem batch_under_failure_general c reqs :
  c_failure c = Some FInternal ->
  batch_write lm s c reqs = (c, ok_obs (PBatchWrite (all_unprocessed reqs [])) []).
Proof.
  intros Hf. unfold batch_write, v1_empty_batch. rewrite Hf.
  assert ((match s with V1 => false | V2 => false end) = false) as -> by (destruct s; reflexivity).
  unfold batch_write_core, forced_blocks. rewrite Hf. cbv iota. cbn [andb].
  now rewrite (batch_tables_under_failure reqs c [] Hf).
Qed.

(* under the deprecated forced failure a batch write fails as a whole, whatever it holds (also when it holds nothing) *)
Theorem batch_under_forced_failure c reqs :
  c_failure c = Some FDeprecated -> batch_write lm s c reqs = (c, err_obs ForcedFailure).
Proof.
  intros Hf. unfold batch_write, v1_empty_batch. rewrite Hf.
  assert ((match s with V1 => false | V2 => false end) = false) as -> by (destruct s; reflexivity).
  unfold batch_write_core, forced_blocks. now rewrite Hf.
Qed.

Theorem batch_under_failure_all_unprocessed c tn rs :
  c_failure c = Some FInternal -> rs <> [] ->
  batch_write lm s c [(tn, rs)] = (c, ok_obs (PBatchWrite [(tn, rs)]) []).
Proof.
  intros Hf Hne. rewrite (batch_under_failure_general c _ Hf). cbn [all_unprocessed].
  destruct rs; [congruence|]. reflexivity.
Qed.

End Life.
