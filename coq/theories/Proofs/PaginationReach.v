(* C04 on reachable states: the premises TInv / KInv / IInv of the pagination theorems hold after every history
   (any interpreter, both SDK flavours) whose updates keep the key attributes (UK) and whose table updates do not
   re-type attributes (EK, EX); so pagination is complete in every state such a history can reach. *)
From Coq Require Import List Bool Arith Lia.
From Coq Require Import Strings.Byte Strings.String.
From Minidyn Require Import Base.Str Base.FMap Base.Outcome Model.Value Model.Key Model.Index Model.Table Model.Client.
From Minidyn Require Import Proofs.FMapFacts Proofs.TableInv Proofs.IndexInv Proofs.TableIndexInv Proofs.ClientInv Proofs.ClientIndexInv
  Proofs.KeyInv Proofs.Pagination Proofs.PageLoop Proofs.PaginationIndex.
Import ListNotations.

Section Reach.
Variable lm : str -> item -> item -> fmap str -> outcome bool.
Variable lu : str -> item -> item -> fmap str -> outcome item.
Variable flavour : sdk.
Variable ops : list (str * op).
Variables (cn tn : str) (c : client) (t : table).

Hypothesis Hkeys : run_env (UK lu) lm lu flavour [] ops.
Hypothesis Hc : lookup cn (fst (run lm lu flavour [] ops)) = Some c.
Hypothesis Ht : lookup tn (c_tables c) = Some t.

Theorem pagination_reachable_base q ev :
  q_index q = None -> q_cond q = None ->
  (forall k, In k (t_sorted t) -> match_key lm (ctx_of c) t q (get_item t k) = Ok (ev k)) ->
  forall L, 0 < L ->
  exists items f, search_data lm (ctx_of c) t (with_page q 0 []) = Ok (items, [], f) /\
                  pages lm (ctx_of c) t q (S (List.length (t_sorted t))) L [] = Some items.
Proof.
  intros Hb Hcd Hev L HL.
  destruct (KInv_reachable lm lu flavour ops cn tn c t Hkeys Hc Ht) as [HT [HK Hs]].
  now apply (pagination_complete_base lm (ctx_of c) t q ev).
Qed.


Theorem pagination_reachable_index q ev n ix :
  q_index q = Some n -> lookup n (t_indexes t) = Some ix -> q_cond q = None ->
  (forall e, In e (ies q ix) -> match_key lm (ctx_of c) t q (get_item t (snd e)) = Ok (ev (snd e))) ->
  forall L, 0 < L ->
  exists items f, search_data lm (ctx_of c) t (with_page q 0 []) = Ok (items, [], f) /\
                  ipages lm (ctx_of c) t q (S (ix_count ix)) L [] = Some items.
Proof.
  intros Hq Hl Hcd Hev L HL.
  destruct (KInv_reachable lm lu flavour ops cn tn c t Hkeys Hc Ht) as [HT [HK Hs]].
  destruct (XInv_reachable lm lu flavour ops cn tn c t Hc Ht) as [_ HX].
  apply (index_pagination_equals_unpaginated lm (ctx_of c) t q ev n ix); auto.
  apply (HX n). now apply lookup_In.
Qed.

End Reach.
