(* Facts about sorted string lists and the association-list maps. *)
From Coq Require Import List Bool Arith Lia Sorting.Sorted Permutation.
From Coq Require Import Strings.Byte.
From Minidyn Require Import Base.Str Base.FMap.
Import ListNotations.

(* ---------- lookup / insert / remove on arbitrary association lists ---------- *)
Section Maps.
Context {V : Type}.
Implicit Types (m : fmap V) (k : str) (v : V).

Lemma lookup_insert_eq m k v : lookup k (insert k v m) = Some v.
Proof.
  induction m as [|[k' v'] t IH]; cbn.
  - now rewrite str_eqb_refl.
  - destruct (str_compare k k') eqn:E; cbn.
    + now rewrite str_eqb_refl.
    + now rewrite str_eqb_refl.
    + assert (str_eqb k k' = false) as ->. { unfold str_eqb. now rewrite E. }
      exact IH.
Qed.

Lemma lookup_insert_neq m k k' v : k' <> k -> lookup k' (insert k v m) = lookup k' m.
Proof.
  intros Hne. induction m as [|[k0 v0] t IH]; cbn.
  - apply str_eqb_neq in Hne. now rewrite Hne.
  - destruct (str_compare k k0) eqn:E; cbn.
    + apply str_compare_eq in E; subst k0.
      apply str_eqb_neq in Hne. now rewrite Hne.
    + apply str_eqb_neq in Hne. now rewrite Hne.
    + destruct (str_eqb k' k0); auto.
Qed.

Lemma lookup_insert m k k' v : lookup k' (insert k v m) = if str_eqb k' k then Some v else lookup k' m.
Proof.
  destruct (str_eqb k' k) eqn:E.
  - apply str_eqb_eq in E; subst. apply lookup_insert_eq.
  - apply str_eqb_neq in E. now apply lookup_insert_neq.
Qed.

Lemma lookup_remove_neq m k k' : k' <> k -> lookup k' (remove k m) = lookup k' m.
Proof.
  intros Hne. induction m as [|[k0 v0] t IH]; cbn; auto.
  destruct (str_eqb k k0) eqn:E; cbn.
  - apply str_eqb_eq in E; subst k0. apply str_eqb_neq in Hne. now rewrite Hne.
  - destruct (str_eqb k' k0); auto.
Qed.

Lemma mem_insert m k k' v : mem k' (insert k v m) = str_eqb k' k || mem k' m.
Proof. unfold mem. rewrite lookup_insert. destruct (str_eqb k' k); auto. Qed.

Lemma lookup_In m k v : lookup k m = Some v -> In (k, v) m.
Proof.
  induction m as [|[k' v'] t IH]; cbn; [discriminate|].
  destruct (str_eqb k k') eqn:E.
  - apply str_eqb_eq in E; subst. intros H; inversion H; auto.
  - auto.
Qed.

Lemma lookup_None_notin m k : lookup k m = None -> ~ In k (keys m).
Proof.
  induction m as [|[k' v'] t IH]; cbn; auto.
  destruct (str_eqb k k') eqn:E; [discriminate|].
  intros H [H1|H1].
  - subst. now rewrite str_eqb_refl in E.
  - now apply IH.
Qed.

Lemma In_keys_lookup m k : In k (keys m) -> exists v, lookup k m = Some v.
Proof.
  induction m as [|[k' v'] t IH]; cbn; [tauto|].
  intros [H|H].
  - subst. rewrite str_eqb_refl. eauto.
  - destruct (str_eqb k k'); eauto.
Qed.

Lemma mem_true_iff m k : mem k m = true <-> In k (keys m).
Proof.
  unfold mem. split.
  - destruct (lookup k m) eqn:E; [|discriminate]. intros _.
    apply lookup_In in E. unfold keys. now apply (in_map fst) in E.
  - intros H. apply In_keys_lookup in H as [v ->]. reflexivity.
Qed.

End Maps.

(* ---------- strictly sorted lists ---------- *)

Lemma ssorted_cons_inv x l : ssorted (x :: l) -> ssorted l /\ Forall (str_lt x) l.
Proof. intros H. inversion H; subst. auto. Qed.

Lemma ssorted_NoDup l : ssorted l -> NoDup l.
Proof.
  induction l as [|x l IH]; intros H; [constructor|].
  apply ssorted_cons_inv in H as [H1 H2]. constructor; auto.
  intros Hin. rewrite Forall_forall in H2. apply H2 in Hin. now apply str_lt_irrefl in Hin.
Qed.

Lemma ins_sorted_In x y l : In y (ins_sorted x l) <-> y = x \/ In y l.
Proof.
  induction l as [|z l IH]; cbn; [intuition|].
  destruct (str_ltb x z); cbn; [intuition|]. rewrite IH. intuition.
Qed.

Lemma ins_sorted_ssorted x l : ssorted l -> ~ In x l -> ssorted (ins_sorted x l).
Proof.
  induction l as [|y l IH]; intros Hs Hn; cbn.
  - repeat constructor.
  - apply ssorted_cons_inv in Hs as [Hs Hall].
    destruct (str_ltb x y) eqn:E.
    + apply str_ltb_lt in E. constructor.
      * constructor; auto.
      * constructor; auto. rewrite Forall_forall in *. intros z Hz. eapply str_lt_trans; eauto.
    + apply str_ltb_false in E as [E|E]; [|subst; exfalso; apply Hn; now left].
      constructor.
      * apply IH; auto. intros H; apply Hn; now right.
      * rewrite Forall_forall in *. intros z Hz. apply ins_sorted_In in Hz as [-> |Hz]; auto.
Qed.

Lemma ins_sorted_length x l : length (ins_sorted x l) = S (length l).
Proof. induction l as [|y l IH]; cbn; auto. destruct (str_ltb x y); cbn; auto. Qed.

Lemma lower_bound_le x l : lower_bound x l <= length l.
Proof. induction l as [|y l IH]; cbn; [lia|]. destruct (str_leb x y); cbn; lia. Qed.

(* on a strictly sorted list that contains x, the lower bound is the position of x *)
Lemma remove_at_lower_bound x l :
  ssorted l -> In x l -> forall y, In y (remove_at (lower_bound x l) l) <-> (In y l /\ y <> x).
Proof.
  induction l as [|z l IH]; intros Hs Hin y; [inversion Hin|].
  apply ssorted_cons_inv in Hs as [Hs Hall]. cbn.
  destruct (str_leb x z) eqn:E.
  - (* x <= z: x must be z *)
    apply str_leb_spec in E. rewrite Forall_forall in Hall.
    assert (x = z) as ->.
    { destruct Hin as [-> |Hin]; auto. destruct E as [E|E]; auto.
      apply Hall in Hin. exfalso. eapply str_lt_asym; eauto. }
    cbn. split.
    + intros H. split; auto. intros ->. apply Hall in H. now apply str_lt_irrefl in H.
    + intros [[-> |H] Hne]; [congruence|auto].
  - apply str_leb_false in E. cbn.
    destruct Hin as [-> |Hin]; [now apply str_lt_irrefl in E|].
    rewrite (IH Hs Hin). split.
    + intros [-> |[H Hne]]; [|auto]. split; auto. intros ->. now apply str_lt_irrefl in E.
    + intros [[-> |H] Hne]; auto.
Qed.

Lemma In_remove_at {A} (y : A) n l : In y (remove_at n l) -> In y l.
Proof.
  revert n; induction l as [|z l IH]; intros n Hy; cbn in *; [destruct n; auto|].
  destruct n; cbn in *; auto. destruct Hy; auto. right. eapply IH; eauto.
Qed.

Lemma remove_at_ssorted n l : ssorted l -> ssorted (remove_at n l).
Proof.
  revert n; induction l as [|x l IH]; intros n Hs; cbn; [destruct n; constructor|].
  apply ssorted_cons_inv in Hs as [Hs Hall].
  destruct n; auto. constructor; [apply IH; auto|].
  apply Forall_forall. intros y Hy. rewrite Forall_forall in Hall. apply Hall.
  eapply In_remove_at; eauto.
Qed.

(* two strictly sorted lists with the same elements are equal *)
Lemma ssorted_ext l1 l2 : ssorted l1 -> ssorted l2 -> (forall x, In x l1 <-> In x l2) -> l1 = l2.
Proof.
  revert l2; induction l1 as [|a l1 IH]; intros l2 H1 H2 Hext.
  - destruct l2 as [|b l2]; auto. exfalso. apply (Hext b). now left.
  - destruct l2 as [|b l2]; [exfalso; apply (Hext a); now left|].
    apply ssorted_cons_inv in H1 as [H1 A1]. apply ssorted_cons_inv in H2 as [H2 A2].
    rewrite Forall_forall in A1, A2.
    assert (a = b) as ->.
    { destruct (str_lt_total a b) as [L|[E|L]]; auto; exfalso.
      - assert (In a (b :: l2)) as [E|Hin] by (apply Hext; now left).
        + subst. now apply str_lt_irrefl in L.
        + apply A2 in Hin. eapply str_lt_asym; eauto.
      - assert (In b (a :: l1)) as [E|Hin] by (apply Hext; now left).
        + subst. now apply str_lt_irrefl in L.
        + apply A1 in Hin. eapply str_lt_asym; eauto. }
    f_equal. apply IH; auto. intros x. split; intros Hx.
    + assert (In x (b :: l2)) as [E|Hin] by (apply Hext; now right); auto.
      subst. apply A1 in Hx. now apply str_lt_irrefl in Hx.
    + assert (In x (b :: l1)) as [E|Hin] by (apply Hext; now right); auto.
      subst. apply A2 in Hx. now apply str_lt_irrefl in Hx.
Qed.

(* ---------- well-formed maps: keys strictly sorted ---------- *)
Section WF.
Context {V : Type}.
Implicit Types (m : fmap V) (k : str) (v : V).

Lemma wf_nil : wf (@nil (str * V)).
Proof. constructor. Qed.

Lemma keys_insert_In m k v x : In x (keys (insert k v m)) <-> x = k \/ In x (keys m).
Proof.
  induction m as [|[k' v'] t IH]; cbn; [intuition|].
  destruct (str_compare k k') eqn:E; cbn.
  - apply str_compare_eq in E; subst. intuition.
  - intuition.
  - rewrite IH. intuition.
Qed.

Lemma wf_insert m k v : wf m -> wf (insert k v m).
Proof.
  unfold wf. induction m as [|[k' v'] t IH]; intros H; cbn.
  - repeat constructor.
  - cbn in H. apply ssorted_cons_inv in H as [Hs Hall].
    destruct (str_compare k k') eqn:E; cbn.
    + apply str_compare_eq in E; subst. constructor; auto.
    + constructor.
      * constructor; auto.
      * constructor; [exact E|].
        apply Forall_forall. intros z Hz. rewrite Forall_forall in Hall.
        eapply str_lt_trans; [exact E|]. now apply Hall.
    + constructor.
      * apply IH; auto.
      * apply Forall_forall. intros z Hz. rewrite Forall_forall in Hall.
        apply (keys_insert_In t k v z) in Hz as [-> |Hz]; auto.
        unfold str_lt. rewrite (str_compare_antisym k k'), E. reflexivity.
Qed.

Lemma keys_remove_In m k x : wf m -> (In x (keys (remove k m)) <-> In x (keys m) /\ x <> k).
Proof.
  unfold wf. induction m as [|[k' v'] t IH]; intros H; cbn; [intuition|].
  cbn in H. apply ssorted_cons_inv in H as [Hs Hall]. rewrite Forall_forall in Hall.
  destruct (str_eqb k k') eqn:E; cbn.
  - apply str_eqb_eq in E; subst k'. split.
    + intros Hx. split; auto. intros ->. apply Hall in Hx. now apply str_lt_irrefl in Hx.
    + intros [[-> |Hx] Hne]; [congruence|auto].
  - apply str_eqb_neq in E. rewrite (IH Hs). split.
    + intros [-> |[Hx Hne]]; auto.
    + intros [[-> |Hx] Hne]; auto.
Qed.

Lemma wf_remove m k : wf m -> wf (remove k m).
Proof.
  unfold wf. induction m as [|[k' v'] t IH]; intros H; cbn; auto.
  cbn in H. apply ssorted_cons_inv in H as [Hs Hall].
  destruct (str_eqb k k'); cbn; auto.
  constructor; [apply IH; auto|].
  apply Forall_forall. intros z Hz. rewrite Forall_forall in Hall.
  apply (keys_remove_In t k z Hs) in Hz as [Hz _]. auto.
Qed.

Lemma lookup_remove_eq m k : wf m -> lookup k (remove k m) = None.
Proof.
  intros H. destruct (lookup k (remove k m)) eqn:E; auto.
  apply lookup_In in E. apply (in_map fst) in E. cbn in E.
  apply (keys_remove_In m k k H) in E as [_ E]. congruence.
Qed.

(* keys of an insertion: unchanged when the key was present, one sorted insertion otherwise *)
Lemma keys_insert m k v : wf m -> keys (insert k v m) = if mem k m then keys m else ins_sorted k (keys m).
Proof.
  intros H. apply ssorted_ext.
  - apply wf_insert; auto.
  - destruct (mem k m) eqn:E; auto. apply ins_sorted_ssorted; auto.
    intros Hin. apply mem_true_iff in Hin. congruence.
  - intros x. rewrite keys_insert_In. destruct (mem k m) eqn:E.
    + apply mem_true_iff in E. split; [intros [-> |Hx]; auto|auto].
    + rewrite ins_sorted_In. tauto.
Qed.

Lemma keys_remove m k : wf m -> mem k m = true -> keys (remove k m) = remove_at (lower_bound k (keys m)) (keys m).
Proof.
  intros H Hm. apply mem_true_iff in Hm. apply ssorted_ext.
  - apply wf_remove; auto.
  - apply remove_at_ssorted; auto.
  - intros x. rewrite (keys_remove_In m k x H). rewrite remove_at_lower_bound; auto. tauto.
Qed.

(* extensional equality of well-formed maps *)
Lemma wf_ext m1 m2 : wf m1 -> wf m2 -> (forall k, lookup k m1 = lookup k m2) -> m1 = m2.
Proof.
  unfold wf. revert m2; induction m1 as [|[k1 v1] t1 IH]; intros m2 H1 H2 Hext.
  - destruct m2 as [|[k2 v2] t2]; auto. specialize (Hext k2). cbn in Hext. now rewrite str_eqb_refl in Hext.
  - destruct m2 as [|[k2 v2] t2].
    + specialize (Hext k1). cbn in Hext. now rewrite str_eqb_refl in Hext.
    + cbn in H1, H2. apply ssorted_cons_inv in H1 as [S1 A1]. apply ssorted_cons_inv in H2 as [S2 A2].
      rewrite Forall_forall in A1, A2.
      assert (k1 = k2) as ->.
      { destruct (str_lt_total k1 k2) as [L|[E|L]]; auto; exfalso.
        - pose proof (Hext k1) as E. cbn in E. rewrite str_eqb_refl in E.
          assert (str_eqb k1 k2 = false) as N by (apply str_eqb_neq; now apply str_lt_neq).
          rewrite N in E. symmetry in E. apply lookup_In in E. apply (in_map fst) in E. cbn in E.
          apply A2 in E. eapply str_lt_asym; eauto.
        - pose proof (Hext k2) as E. cbn in E. rewrite str_eqb_refl in E.
          assert (str_eqb k2 k1 = false) as N by (apply str_eqb_neq; now apply str_lt_neq).
          rewrite N in E. apply lookup_In in E. apply (in_map fst) in E. cbn in E.
          apply A1 in E. eapply str_lt_asym; eauto. }
      pose proof (Hext k2) as E. cbn in E. rewrite str_eqb_refl in E. inversion E; subst v2.
      f_equal. apply IH; auto. intros k. specialize (Hext k). cbn in Hext.
      destruct (str_eqb k k2) eqn:Ek; auto.
      apply str_eqb_eq in Ek; subst k.
      destruct (lookup k2 t1) eqn:L1.
      { apply lookup_In in L1. apply (in_map fst) in L1. apply A1 in L1. now apply str_lt_irrefl in L1. }
      destruct (lookup k2 t2) eqn:L2; auto.
      apply lookup_In in L2. apply (in_map fst) in L2. apply A2 in L2. now apply str_lt_irrefl in L2.
Qed.

Lemma insert_comm m k1 k2 v1 v2 : wf m -> k1 <> k2 -> insert k1 v1 (insert k2 v2 m) = insert k2 v2 (insert k1 v1 m).
Proof.
  intros H Hne. apply wf_ext; try (repeat apply wf_insert; auto).
  intros k. rewrite !lookup_insert.
  destruct (str_eqb k k1) eqn:E1, (str_eqb k k2) eqn:E2; auto.
  apply str_eqb_eq in E1, E2. congruence.
Qed.

End WF.
