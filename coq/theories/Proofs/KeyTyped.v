(* C13: the key attributes of a table are declared with a key type (S, N or B) in every reachable state.
   CreateTable / AddTable check it (fix d92fdf4), UpdateTable can not re-type a key attribute (fix c854008), and no other
   operation touches the key schema or the attribute definitions.  No side condition on the history. *)
From Coq Require Import List Bool Arith Lia.
From Coq Require Import Strings.Byte Strings.String.
From Minidyn Require Import Base.Str Base.FMap Base.Outcome Model.Value Model.Key Model.Index Model.Table Model.Client.
From Minidyn Require Import Proofs.FMapFacts Proofs.TableInv Proofs.ClientInv Proofs.ClientIndexInv Proofs.KeyInv.
Import ListNotations.

Definition key_types_ok (t : table) : Prop :=
  key_typed (t_defs t) (hashk (t_ks t)) = true /\ (rangek (t_ks t) = [] \/ key_typed (t_defs t) (rangek (t_ks t)) = true).

(* what the schema check of CreateTable / AddTable / index creation guarantees *)
Lemma check_schema_key_typed defs oh orr h r :
  check_schema defs oh orr = Some (h, r) -> key_typed defs h = true /\ (r = [] \/ key_typed defs r = true).
Proof.
  unfold check_schema. intros CS.
  destruct oh as [[|c0 hk]|]; try discriminate.
  destruct (mem (c0 :: hk) defs); [|discriminate].
  destruct orr as [[|c1 rk]|].
  - destruct (key_typed defs (c0 :: hk)) eqn:K; inversion CS; subst; auto.
  - destruct (mem (c1 :: rk) defs); [|discriminate].
    destruct (key_typed defs (c0 :: hk)) eqn:K1, (key_typed defs (c1 :: rk)) eqn:K2; cbn in CS; inversion CS; subst; auto.
  - destruct (key_typed defs (c0 :: hk)) eqn:K; inversion CS; subst; auto.
Qed.

(* a declaration with a non-key type is refused *)
Lemma non_key_type_refused defs oh orr h :
  oh = Some h -> key_typed defs h = false -> check_schema defs oh orr = None.
Proof.
  intros -> K. unfold check_schema. destruct h as [|c0 hk]; auto.
  destruct (mem (c0 :: hk) defs); auto.
  destruct orr as [[|c1 rk]|]; rewrite ?K; auto. destruct (mem (c1 :: rk) defs); auto.
Qed.

Lemma key_typed_mem defs k : key_typed defs k = true -> mem k defs = true.
Proof. unfold key_typed, mem. destruct (lookup k defs); auto. Qed.

Lemma key_types_same t t' : t_ks t' = t_ks t -> t_defs t' = t_defs t -> key_types_ok t -> key_types_ok t'.
Proof. unfold key_types_ok. intros -> ->. auto. Qed.

Section Reach.
Variable lang_match : str -> item -> item -> fmap str -> outcome bool.
Variable lang_update : str -> item -> item -> fmap str -> outcome item.
Variable flavour : sdk.

Theorem key_types_reachable ops cn tn c t :
  lookup cn (fst (run lang_match lang_update flavour [] ops)) = Some c ->
  lookup tn (c_tables c) = Some t -> key_types_ok t.
Proof.
  apply (P_reachable key_types_ok (UAny) lang_match lang_update flavour); [| | | | | | | | |apply run_env_UAny].
  - intros c0 t0 it cond names vals H. destruct (ks_put lang_match c0 t0 it cond names vals) as [K D]. eapply key_types_same; eauto.
  - intros c0 t0 k e cond names vals H _. destruct (ks_update lang_match lang_update c0 t0 k e cond names vals) as [K D]. eapply key_types_same; eauto.
  - intros c0 t0 k cond names vals H. destruct (ks_delete lang_match c0 t0 k cond names vals) as [K D]. eapply key_types_same; eauto.
  - intros t0 H. exact H.
  - intros n oh orr h r defs CS. apply check_schema_key_typed in CS. exact CS.
  - intros t0 ppr d t' H Ea. unfold add_global_index in Ea.
    destruct (negb ppr && negb (id_throughput d)); [discriminate|].
    destruct (check_schema _ _ _) as [[h r]|]; [|discriminate]. inversion Ea; subst. exact H.
  - intros t0 d t' H _ Ea. unfold add_local_index in Ea.
    destruct (check_schema _ _ _) as [[h r]|]; [|discriminate]. inversion Ea; subst. exact H.
  - intros t0 defs [D1 D2] Hok. destruct (used_key_attrs_table t0) as [U1 U2].
    assert (forall a, mem_str a (used_key_attrs t0) = true -> key_typed (t_defs t0) a = true ->
                      key_typed (set_defs (t_defs t0) defs) a = true) as Hk.
    { intros a Hu Ha. unfold key_typed in *. unfold defs_ok in Hok.
      rewrite (set_defs_protected (t_defs t0) (used_key_attrs t0) defs (t_defs t0)); auto.
      unfold mem. destruct (lookup a (t_defs t0)); auto. }
    unfold key_types_ok; cbn [t_ks t_defs]. split; [now apply Hk|]. destruct D2 as [D2|D2]; [now left|right; now apply Hk].
  - intros t0 n H. exact H.
Qed.

End Reach.
