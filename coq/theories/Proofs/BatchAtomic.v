(* C08 / C19: BatchWriteItem is all-or-nothing for EVERY batch: once the up-front validation has passed, no request of the
   batch can fail any more, so a batch that fails has written nothing. *)
From Coq Require Import List Bool Arith Lia.
From Coq Require Import Strings.Byte Strings.String.
From Minidyn Require Import Base.Str Base.FMap Base.Outcome Model.Value Model.Key Model.Index Model.Table Model.Client.
From Minidyn Require Import Proofs.FMapFacts Proofs.ClientFacts Proofs.ClientInv.
Import ListNotations.

Section Atomic.
Variable lm : str -> item -> item -> fmap str -> outcome bool.
Variable lu : str -> item -> item -> fmap str -> outcome item.
Variable s : sdk.

(* what the validation of a request looks at: key schema, attribute definitions, key schemas of the indexes *)
Definition ix_sch (ixs : fmap index) : list (str * keyschema) := map (fun ni => (fst ni, ix_ks (snd ni))) ixs.
Definition tsch (t : tbl) := (t_name t, t_ks t, t_defs t, ix_sch (t_indexes t)).

(* every table is filed under its own name (true of every reachable client: ClientInv.names_reachable) *)
Definition Named (c : client) : Prop :=
  forall n t, lookup n (c_tables c) = Some t -> t_name t = n.

Definition same_schemas (c c1 : client) : Prop :=
  c_failure c1 = c_failure c /\
  forall n, option_map tsch (lookup n (c_tables c1)) = option_map tsch (lookup n (c_tables c)).

Lemma same_schemas_refl c : same_schemas c c.
Proof. split; auto. Qed.

Lemma same_schemas_trans a b c : same_schemas a b -> same_schemas b c -> same_schemas a c.
Proof. intros [F1 H1] [F2 H2]. split; [congruence|]. intros n. now rewrite H2, H1. Qed.

Lemma Named_same c c1 : same_schemas c c1 -> Named c -> Named c1.
Proof.
  intros [_ H] N n t1 L. specialize (H n). rewrite L in H. cbn in H.
  destruct (lookup n (c_tables c)) as [t|] eqn:L0; [|discriminate]. cbn in H. inversion H.
  pose proof (N n t L0) as Hn. congruence.
Qed.

Lemma validate_index_keys_sch defs ixs ixs' it :
  ix_sch ixs' = ix_sch ixs -> validate_index_keys defs ixs' it = validate_index_keys defs ixs it.
Proof.
  revert ixs'. induction ixs as [|[n ix] ixs IH]; intros [|[n' ix'] ixs'] H; try discriminate; auto.
  cbn in H. inversion H as [[Hn Hk Hr]]. cbn. rewrite Hk. destruct (get_key (ix_ks ix) defs it); auto.
Qed.

Lemma ix_remove_ks key ix : ix_ks (ix_remove key ix) = ix_ks ix.
Proof. unfold ix_remove. destruct (lookup key (ix_refs ix)); reflexivity. Qed.

Lemma ix_put_ks defs key it ix ix' : ix_put defs key it ix = inr ix' -> ix_ks ix' = ix_ks ix.
Proof.
  unfold ix_put. destruct (get_key (ix_ks ix) defs it) as [e|ik]; [discriminate|].
  destruct ik; intros H; inversion H; cbn; apply ix_remove_ks.
Qed.

Lemma put_indexes_sch defs key it ixs : ix_sch (put_indexes defs key it ixs) = ix_sch ixs.
Proof.
  unfold ix_sch, put_indexes. rewrite map_map. apply map_ext. intros [n ix]. cbn [fst snd].
  destruct (ix_put defs key it ix) as [e|ix'] eqn:E; [reflexivity|]. now rewrite (ix_put_ks _ _ _ _ _ E).
Qed.

Lemma delete_indexes_sch key ixs : ix_sch (delete_indexes key ixs) = ix_sch ixs.
Proof.
  unfold ix_sch, delete_indexes. rewrite map_map. apply map_ext. intros [n ix]. cbn [fst snd].
  unfold ix_delete. now rewrite ix_remove_ks.
Qed.

(* replacing a table by one of the same name and schemas keeps every schema of the client *)
Lemma set_table_same c n t t' :
  lookup n (c_tables c) = Some t -> t_name t = n -> tsch t' = tsch t -> same_schemas c (set_table c t').
Proof.
  intros L Hn Hs. split; [reflexivity|]. intros n'. cbn. rewrite lookup_insert.
  assert (t_name t' = n) as -> by (unfold tsch in Hs; inversion Hs; congruence).
  destruct (str_eqb n' n) eqn:E; [|reflexivity].
  apply str_eqb_eq in E. subst n'. rewrite L. cbn. now rewrite Hs.
Qed.

(* the precondition the up-front validation establishes for one request *)
Definition pre_ok (c : client) (tn : str) (r : wreq) : Prop :=
  v1_name_ok s tn = true /\ exists t, lookup tn (c_tables c) = Some t /\
    match r with
    | WPut i | WBoth i _ => (exists k, get_key (t_ks t) (t_defs t) i = inr k) /\ validate_index_keys (t_defs t) (t_indexes t) i = true
    | WDelete k => exists k', get_key (t_ks t) (t_defs t) k = inr k'
    | WNeither => True
    end.

Lemma pre_ok_same c c1 tn r : same_schemas c c1 -> pre_ok c tn r -> pre_ok c1 tn r.
Proof.
  intros [_ H] [Hv [t [L P]]]. split; [exact Hv|]. specialize (H tn). rewrite L in H. cbn in H.
  destruct (lookup tn (c_tables c1)) as [t1|] eqn:L1; [|discriminate]. cbn in H. inversion H as [[Hn Hk Hd Hi]].
  exists t1. split; [first [exact L1|reflexivity]|]. rewrite Hk, Hd.
  destruct r; auto; now rewrite (validate_index_keys_sch _ _ _ _ Hi).
Qed.

Lemma preamble_plain c tn t :
  c_failure c = None -> v1_name_ok s tn = true -> lookup tn (c_tables c) = Some t ->
  preamble s c tn [] [] [opt_str None] = inr t.
Proof. intros Hf Hv L. unfold preamble. rewrite Hf, Hv, L. reflexivity. Qed.

Lemma put_applied c tn i :
  c_failure c = None -> Named c -> v1_name_ok s tn = true ->
  (exists t, lookup tn (c_tables c) = Some t /\ (exists k, get_key (t_ks t) (t_defs t) i = inr k) /\
             validate_index_keys (t_defs t) (t_indexes t) i = true) ->
  o_res (snd (put_item lm s c tn i None [] [] false)) = ROk /\
  same_schemas c (fst (put_item lm s c tn i None [] [] false)).
Proof.
  intros Hf N Hv [t [L [[k G] V]]]. pose proof (N tn t L) as Hn.
  unfold put_item. rewrite (preamble_plain c tn t Hf Hv L).
  unfold t_put. rewrite G. cbn [check_cond]. rewrite V. cbn [fst snd o_res ok_obs]. split; [reflexivity|].
  apply (set_table_same c tn t); auto.
  unfold tsch, with_indexes, set_item. cbn [t_name t_ks t_defs t_indexes]. now rewrite put_indexes_sch.
Qed.

Lemma delete_applied c tn key :
  c_failure c = None -> Named c -> v1_name_ok s tn = true ->
  (exists t, lookup tn (c_tables c) = Some t /\ exists k, get_key (t_ks t) (t_defs t) key = inr k) ->
  o_res (snd (delete_item lm s c tn key None [] [] false)) = ROk /\
  same_schemas c (fst (delete_item lm s c tn key None [] [] false)).
Proof.
  intros Hf N Hv [t [L [k G]]]. pose proof (N tn t L) as Hn.
  unfold delete_item. rewrite (preamble_plain c tn t Hf Hv L).
  unfold t_delete. rewrite G. cbn [check_cond].
  destruct (lookup k (t_data t)) as [old|].
  - destruct (Nat.eqb _ _); cbn [fst snd o_res ok_obs]; (split; [reflexivity|]);
      apply (set_table_same c tn t); auto; unfold tsch; cbn [t_name t_ks t_defs t_indexes]; auto. now rewrite delete_indexes_sch.
  - cbn [fst snd o_res ok_obs]. split; [reflexivity|]. apply (set_table_same c tn t); auto.
Qed.

Lemma one_applied c tn r :
  c_failure c = None -> Named c -> pre_ok c tn r ->
  exists c1, batch_write_one lm s c tn r = (c1, None) /\ same_schemas c c1.
Proof.
  intros Hf N [Hv [t [L P]]]. unfold batch_write_one. destruct r.
  - destruct (put_applied c tn i Hf N Hv) as [Hr Hs]; [eauto|].
    destruct (put_item lm s c tn i None [] [] false) as [c1 o]. cbn in *. rewrite Hr. eauto.
  - destruct (delete_applied c tn k Hf N Hv) as [Hr Hs]; [eauto|].
    destruct (delete_item lm s c tn k None [] [] false) as [c1 o]. cbn in *. rewrite Hr. eauto.
  - rewrite Hf. cbn. exists c. split; [reflexivity|apply same_schemas_refl].
  - destruct (put_applied c tn i Hf N Hv) as [Hr Hs]; [eauto|].
    destruct (put_item lm s c tn i None [] [] false) as [c1 o]. cbn in *. rewrite Hr. eauto.
Qed.

Lemma reqs_applied rs : forall c tn un,
  c_failure c = None -> Named c -> Forall (pre_ok c tn) rs ->
  exists c1, batch_write_reqs lm s c tn rs un = (c1, un, None) /\ same_schemas c c1.
Proof.
  induction rs as [|r rs IH]; intros c tn un Hf N Hall; cbn [batch_write_reqs].
  - exists c. split; [reflexivity|apply same_schemas_refl].
  - inversion Hall as [|? ? Hr Hrs]; subst.
    destruct (one_applied c tn r Hf N Hr) as [c1 [E S1]]. rewrite E.
    destruct (IH c1 tn un) as [c2 [E2 S2]].
    + destruct S1 as [F _]. congruence.
    + eapply Named_same; eauto.
    + eapply Forall_impl; [|exact Hrs]. intros r'. now apply pre_ok_same.
    + exists c2. split; [exact E2|eapply same_schemas_trans; eauto].
Qed.

Lemma tables_applied ts : forall c un,
  c_failure c = None -> Named c -> Forall (fun tr => Forall (pre_ok c (fst tr)) (snd tr)) ts ->
  exists c1, batch_write_tables lm s c ts un = (c1, un, None).
Proof.
  induction ts as [|[tn rs] ts IH]; intros c un Hf N Hall; cbn [batch_write_tables].
  - eauto.
  - inversion Hall as [|? ? Hr Hrs]; subst. cbn [fst snd] in Hr.
    destruct (reqs_applied rs c tn [] Hf N Hr) as [c1 [E S1]]. rewrite E.
    apply IH.
    + destruct S1 as [F _]. congruence.
    + eapply Named_same; eauto.
    + eapply Forall_impl; [|exact Hrs]. intros tr. apply Forall_impl. intros r'. now apply pre_ok_same.
Qed.

(* what prevalidate_table establishes *)
Lemma prevalidated c tr : v1_name_ok s (fst tr) = true -> prevalidate_table c tr = [] -> Forall (pre_ok c (fst tr)) (snd tr).
Proof.
  intros Hv. unfold prevalidate_table. destruct (lookup (fst tr) (c_tables c)) as [t|] eqn:L; [|discriminate].
  destruct (forallb _ (snd tr)) eqn:F; [|discriminate]. intros _.
  rewrite forallb_forall in F. apply Forall_forall. intros r Hin. specialize (F r Hin).
  split; [exact Hv|]. exists t. split; [exact L|]. destruct r; auto.
  - destruct (get_key (t_ks t) (t_defs t) i); [discriminate|]. eauto.
  - destruct (get_key (t_ks t) (t_defs t) k); [discriminate|]. eauto.
  - destruct (get_key (t_ks t) (t_defs t) i); [discriminate|]. eauto.
Qed.

Lemma flat_map_nil {A B} (f : A -> list B) l : flat_map f l = [] -> Forall (fun x => f x = []) l.
Proof.
  induction l as [|x l IH]; cbn; intros H; constructor.
  - now apply app_eq_nil in H as [H _].
  - apply IH. now apply app_eq_nil in H as [_ H].
Qed.

(* ALL-OR-NOTHING, every batch: with no failure emulated, a BatchWriteItem that does not succeed has changed nothing *)
Theorem failed_batch_no_trace c reqs :
  c_failure c = None -> Named c -> (forall tn, In tn (keys reqs) -> v1_name_ok s tn = true) ->
  res_ok (o_res (snd (batch_write lm s c reqs))) = false -> fst (batch_write lm s c reqs) = c.
Proof.
  intros Hf N Hnames. unfold batch_write. destruct (v1_empty_batch s c reqs); [reflexivity|].
  unfold batch_write_core. destruct (forced_blocks c); [reflexivity|].
  destruct (_ && negb (forallb wreq_ok (flat_map snd reqs))); [reflexivity|].
  destruct (_ && (batch_limit <? List.length (flat_map snd reqs))); [reflexivity|].
  rewrite Hf. destruct (flat_map (prevalidate_table c) reqs) eqn:E; [|reflexivity].
  destruct (tables_applied reqs c [] Hf N) as [c1 E1].
  { apply flat_map_nil in E. apply Forall_forall. intros tr Hin. rewrite Forall_forall in E.
    apply prevalidated; [|now apply E]. apply Hnames. unfold keys. now apply in_map. }
  rewrite E1. cbn. discriminate.
Qed.

(* ... and once the validation has passed the batch succeeds with nothing unprocessed *)
Theorem validated_batch_succeeds c reqs :
  c_failure c = None -> Named c -> (forall tn, In tn (keys reqs) -> v1_name_ok s tn = true) ->
  (s = V1 -> reqs <> []) ->
  forallb wreq_ok (flat_map snd reqs) = true -> Nat.ltb batch_limit (List.length (flat_map snd reqs)) = false ->
  flat_map (prevalidate_table c) reqs = [] ->
  exists c1, batch_write lm s c reqs = (c1, ok_obs (PBatchWrite []) []).
Proof.
  intros Hf N Hnames Hne Hs Hl E. unfold batch_write.
  assert (v1_empty_batch s c reqs = false) as ->.
  { unfold v1_empty_batch. rewrite Hf. destruct s; auto. destruct reqs; auto. now destruct Hne. }
  unfold batch_write_core, forced_blocks. rewrite Hf, Hs, Hl, E. cbn [negb andb].
  destruct (tables_applied reqs c [] Hf N) as [c1 E1].
  { apply flat_map_nil in E. apply Forall_forall. intros tr Hin. rewrite Forall_forall in E.
    apply prevalidated; [|now apply E]. apply Hnames. unfold keys. now apply in_map. }
  rewrite E1. eauto.
Qed.

(* the same two facts for every client of every history *)
Lemma Named_reachable ops cn c : lookup cn (fst (run lm lu s [] ops)) = Some c -> Named c.
Proof. intros Lc n t Lt. exact (table_names_reachable lm lu s ops cn n c t Lc Lt). Qed.

Theorem failed_batch_no_trace_reachable ops cn c reqs :
  lookup cn (fst (run lm lu s [] ops)) = Some c ->
  c_failure c = None -> (forall tn, In tn (keys reqs) -> v1_name_ok s tn = true) ->
  res_ok (o_res (snd (batch_write lm s c reqs))) = false -> fst (batch_write lm s c reqs) = c.
Proof. intros Lc Hf Hn. apply failed_batch_no_trace; auto. eapply Named_reachable; eauto. Qed.

Theorem validated_batch_succeeds_reachable ops cn c reqs :
  lookup cn (fst (run lm lu s [] ops)) = Some c ->
  c_failure c = None -> (forall tn, In tn (keys reqs) -> v1_name_ok s tn = true) ->
  (s = V1 -> reqs <> []) ->
  forallb wreq_ok (flat_map snd reqs) = true -> Nat.ltb batch_limit (List.length (flat_map snd reqs)) = false ->
  flat_map (prevalidate_table c) reqs = [] ->
  exists c1, batch_write lm s c reqs = (c1, ok_obs (PBatchWrite []) []).
Proof. intros Lc Hf Hn. apply validated_batch_succeeds; auto. eapply Named_reachable; eauto. Qed.

End Atomic.
