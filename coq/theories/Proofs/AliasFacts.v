From Coq Require Import List Bool Arith Lia.
From Coq Require Import Strings.Byte Strings.String.
From Minidyn Require Import Base.Str Gen.Copies Model.Alias.
Import ListNotations.

(* both mappers of both clients copy every kind of attribute value (table read from the sources), and the table
   covers all ten kinds in both directions *)
Theorem copy_table_all_fresh :
  forallb (fun e => negb (snd e)) copy_table = true /\
  table_covers (bs "v1") (bs "in") = true /\ table_covers (bs "v1") (bs "out") = true /\
  table_covers (bs "v2") (bs "in") = true /\ table_covers (bs "v2") (bs "out") = true.
Proof. vm_compute. repeat split; reflexivity. Qed.

(* a nested induction principle for located values *)
Section LvalInd.
Variable P : lval -> Prop.
Hypothesis H : forall l k cs, Forall P cs -> P (LNode l k cs).
Fixpoint lval_ind' (v : lval) : P v :=
  match v with
  | LNode l k cs => H l k cs ((fix go (cs : list lval) : Forall P cs :=
                                 match cs with [] => Forall_nil _ | c :: t => Forall_cons _ (lval_ind' c) (go t) end) cs)
  end.
End LvalInd.

(* with a policy that shares nothing, a copy lives entirely in new locations: it has no cell in common with anything
   that existed before (in particular with its argument), so later mutations of one cannot be seen through the other *)
Theorem fresh_copy_is_isolated v : forall next,
  (forall l, In l (locs (fst (copy_val (fun _ => false) next v))) -> next <= l /\ l < snd (copy_val (fun _ => false) next v)) /\
  next <= snd (copy_val (fun _ => false) next v).
Proof.
  induction v using lval_ind'. intros next. cbn [copy_val].
  assert (forall n, (forall l, In l (flat_map locs (fst (copy_list (copy_val (fun _ => false)) cs n))) ->
                       n <= l /\ l < snd (copy_list (copy_val (fun _ => false)) cs n)) /\
                    n <= snd (copy_list (copy_val (fun _ => false)) cs n)) as G.
  { induction H as [|c cs Hc Hcs IH]; intros n; cbn.
    - split; [intros l1 []|lia].
    - destruct (Hc n) as [C1 C2]. destruct (copy_val (fun _ => false) n c) as [c' n1] eqn:E1; cbn in *.
      destruct (IH n1) as [R1 R2]. destruct (copy_list (copy_val (fun _ => false)) cs n1) as [rest' n2] eqn:E2; cbn in *.
      split; [|lia]. intros l1 Hin. apply in_app_or in Hin as [Hin|Hin].
      + apply C1 in Hin. lia.
      + apply R1 in Hin. lia. }
  destruct (G (S next)) as [G1 G2]. destruct (copy_list (copy_val (fun _ => false)) cs (S next)) as [cs' n2] eqn:E; cbn in *.
  split; [|lia]. intros l0 [<-|Hin]; [lia|]. apply G1 in Hin. lia.
Qed.

Corollary fresh_copy_disjoint v next :
  (forall l, In l (locs v) -> l < next) ->
  forall l, In l (locs (fst (copy_val (fun _ => false) next v))) -> ~ In l (locs v).
Proof.
  intros Hold l Hin Hin2. apply Hold in Hin2. destruct (fresh_copy_is_isolated v next) as [F _]. apply F in Hin. lia.
Qed.

(* the policy read from the sources shares nothing *)
Theorem table_policy_is_fresh sdk dir k : table_shared sdk dir k = false.
Proof.
  unfold table_shared. apply not_true_is_false. intros H. apply existsb_exists in H as [[[[s d] k'] b] [Hin Hb]].
  destruct copy_table_all_fresh as [F _]. rewrite forallb_forall in F. specialize (F _ Hin). cbn in F.
  destruct b; [discriminate|]. now rewrite andb_false_r in Hb.
Qed.
