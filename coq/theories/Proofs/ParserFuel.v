(* C09: the parser terminates on every input.  The model's parser functions recurse on a fuel argument; this file shows
   that the fuel handed out by parse_cond / parse_upd (8 * length + 16) is never exhausted: for every byte string both
   parsers return a tree and an error count.  The measure is the amount of input not yet consumed. *)
From Coq Require Import List Bool Arith NArith Lia.
From Coq Require Import Strings.Byte Strings.String.
From Minidyn Require Import Base.Str Model.Token Gen.Tables Model.Lexer Model.Parser.
Import ListNotations.

(* ---------- the lexer consumes input ---------- *)
Lemma skip_ws_len s : List.length (skip_ws s) <= List.length s.
Proof. induction s as [|c t IH]; cbn; auto. destruct (is_lex_space c); cbn; lia. Qed.

Lemma read_ident_len s : List.length (snd (read_ident s)) <= List.length s.
Proof.
  induction s as [|c t IH]; cbn; auto. destruct (is_ident_char c); cbn; [|lia].
  destruct (read_ident t) as [i r]; cbn in *. lia.
Qed.

(* facts about the generated tables: no single-character token and no keyword is EOF *)
Lemma single_char_not_eof : forallb (fun kv => negb (tt_beq (snd kv) EOF)) single_char = true.
Proof. reflexivity. Qed.

Lemma keywords_not_eof : forallb (fun kv => negb (tt_beq (snd kv) EOF)) keywords = true.
Proof. reflexivity. Qed.

Lemma assoc_N_in {A} k (l : list (N * A)) v : assoc_N k l = Some v -> In (k, v) l.
Proof.
  induction l as [|[k' v'] l IH]; cbn; [discriminate|]. destruct (N.eqb k k') eqn:E.
  - apply N.eqb_eq in E. intros H; inversion H; subst. now left.
  - intros H. right. auto.
Qed.

Lemma assoc_in {A} k (l : list (str * A)) v : assoc k l = Some v -> exists k', In (k', v) l.
Proof.
  induction l as [|[k' v'] l IH]; cbn; [discriminate|]. destruct (str_eqb k k').
  - intros H; inversion H; subst. exists k'. now left.
  - intros H. destruct (IH H) as [k0 H0]. exists k0. now right.
Qed.

Lemma single_char_ty c ty' : assoc_N c single_char = Some ty' -> ty' <> EOF.
Proof.
  intros H. apply assoc_N_in in H. pose proof single_char_not_eof as F. rewrite forallb_forall in F.
  apply F in H. cbn in H. intros ->. discriminate.
Qed.

Lemma lookup_ident_ty i : lookup_ident i <> EOF.
Proof.
  unfold lookup_ident. destruct (assoc i keywords) as [t|] eqn:E; [|discriminate].
  apply assoc_in in E as [k H]. pose proof keywords_not_eof as F. rewrite forallb_forall in F.
  apply F in H. cbn in H. intros ->. discriminate.
Qed.

Definition live (t : token) : nat := if tt_beq (ty t) EOF then 0 else 1.

Lemma live_eof t : ty t = EOF -> live t = 0.
Proof. unfold live. intros ->. reflexivity. Qed.

Lemma live_not_eof t : ty t <> EOF -> live t = 1.
Proof. unfold live. intros H. destruct (tt_beq (ty t) EOF) eqn:E; auto. apply internal_tt_dec_bl in E. congruence. Qed.

(* the three shapes of a token read at a non-space byte c followed by t *)
Definition tok_shape (c : byte) (t : str) (X : token * str) : Prop :=
  (X = (let '(i, r) := read_ident (c :: t) in ({| ty := lookup_ident i; lit := i |}, r)) /\ is_ident_char c = true) \/
  (exists ty', ty' <> EOF /\ X = ({| ty := ty'; lit := rune_str c |}, t)) \/
  (exists ty' d t', ty' <> EOF /\ t = d :: t' /\ X = ({| ty := ty'; lit := [c; d] |}, t')).

Lemma tok_shape_consumes c t X : tok_shape c t X ->
  let '(tk, r) := X in List.length r + live tk <= S (List.length t) /\ (ty tk = EOF -> r = []).
Proof.
  intros [[-> IC]|[[ty' [Hne ->]]|[ty' [d [t' [Hne [-> ->]]]]]]].
  - cbn [read_ident]. rewrite IC. pose proof (read_ident_len t) as R. destruct (read_ident t) as [i r]. cbn in *.
    rewrite live_not_eof by (cbn; apply lookup_ident_ty). split; [lia|]. intros H. now apply lookup_ident_ty in H.
  - rewrite live_not_eof by exact Hne. cbn. split; [lia|congruence].
  - rewrite live_not_eof by exact Hne. cbn in *. split; [lia|congruence].
Qed.

Ltac shape_leaf c t :=
  first
    [ (* identifier or illegal character *)
      destruct (is_ident_char c) eqn:?IC;
      [left; split; [reflexivity|assumption]|right; left; exists ILLEGAL; split; [discriminate|reflexivity]]
    | (* one-character operator *)
      right; left; eexists; split; [|reflexivity]; discriminate
    | (* possibly two-character operator *)
      destruct t as [|?d ?t'];
      [right; left; eexists; split; [|reflexivity]; discriminate|];
      repeat match goal with |- context [if ?b then _ else _] => destruct b end;
      first [ right; right; eexists _, _, _; split; [|split; reflexivity]; discriminate
            | right; left; eexists; split; [|reflexivity]; discriminate ] ].

(* a token other than EOF costs at least one byte; EOF leaves nothing behind *)
Lemma next_token_consumes s : let '(t, r) := next_token s in
  List.length r + live t <= List.length s /\ (ty t = EOF -> r = []).
Proof.
  unfold next_token. pose proof (skip_ws_len s) as W. destruct (skip_ws s) as [|c t]; cbn [List.length] in *.
  - cbn. split; [lia|auto].
  - assert (forall X, tok_shape c t X -> let '(tk, r) := X in List.length r + live tk <= List.length s /\ (ty tk = EOF -> r = [])) as Ok.
    { intros X HX. apply tok_shape_consumes in HX. destruct X as [tk r]. destruct HX; split; [lia|auto]. }
    destruct (assoc_N (b2n c) single_char) as [ty'|] eqn:SC.
    + apply (Ok ({| ty := ty'; lit := rune_str c |}, t)). right; left. exists ty'. split; [eapply single_char_ty; eauto|reflexivity].
    + match goal with |- (let '(tk, r) := ?X in _) => apply (Ok X) end. destruct (b2n c) as [|pc]; [shape_leaf c t|].
      do 7 (try match goal with |- context [match ?p with xI _ => _ | xO _ => _ | xH => _ end] => destruct p end);
        shape_leaf c t.
Qed.

(* ---------- the parser state: what is left of the input ---------- *)
Definition mu (p : ps) : nat := List.length (rest p) + live (peek p) + live (cur p).

(* once EOF is reached it stays: cur = EOF => peek = EOF => nothing left to read *)
Definition PInv (p : ps) : Prop :=
  (ty (cur p) = EOF -> ty (peek p) = EOF) /\ (ty (peek p) = EOF -> rest p = []).

Lemma next_inv p : PInv p -> PInv (next p).
Proof.
  intros [H1 H2]. unfold next. pose proof (next_token_consumes (rest p)) as C.
  destruct (next_token (rest p)) as [t r] eqn:E. destruct C as [_ C2]. split; cbn.
  - intros Hp. rewrite (H2 Hp) in E. cbn in E. inversion E. reflexivity.
  - exact C2.
Qed.

Lemma next_mu p : mu (next p) + live (cur p) <= mu p.
Proof.
  unfold mu, next. pose proof (next_token_consumes (rest p)) as C.
  destruct (next_token (rest p)) as [t r]. destruct C as [C1 _]. cbn. lia.
Qed.

Lemma next_mu_le p : mu (next p) <= mu p.
Proof. pose proof (next_mu p). lia. Qed.

Lemma add_err_inv p : PInv p -> PInv (add_err p).
Proof. intros H. exact H. Qed.

Lemma add_err_mu p : mu (add_err p) = mu p.
Proof. reflexivity. Qed.

Lemma peek_is_true p t : peek_is p t = true -> ty (peek p) = t.
Proof. unfold peek_is. apply internal_tt_dec_bl. Qed.

Lemma peek_is_false p t : peek_is p t = false -> ty (peek p) <> t.
Proof. unfold peek_is. intros H E. rewrite E in H. now rewrite internal_tt_dec_lb in H. Qed.

Lemma live_cur_of_peek p : PInv p -> ty (peek p) <> EOF -> live (cur p) = 1.
Proof. intros [H1 _] Hp. apply live_not_eof. intros E. auto. Qed.

(* reading past a token that is not EOF makes progress *)
Lemma next_mu_lt p : PInv p -> ty (peek p) <> EOF -> mu (next p) + 1 <= mu p.
Proof. intros H Hp. pose proof (next_mu p). rewrite (live_cur_of_peek p H Hp) in *. lia. Qed.

Lemma next_mu_lt_cur p : ty (cur p) <> EOF -> mu (next p) + 1 <= mu p.
Proof. intros Hc. pose proof (next_mu p). rewrite (live_not_eof _ Hc) in *. lia. Qed.

Lemma expect_peek_ok p t : PInv p -> PInv (snd (expect_peek p t)) /\ mu (snd (expect_peek p t)) <= mu p.
Proof.
  intros H. unfold expect_peek. destruct (peek_is p t); cbn.
  - split; [now apply next_inv|apply next_mu_le].
  - split; auto.
Qed.

(* no parse function is registered for EOF in either parser (generated tables) *)
Lemma prefix_fn_eof upd : prefix_fn upd EOF = None.
Proof. destruct upd; reflexivity. Qed.

(* ---------- fuel adequacy, all parse functions at once ---------- *)
Definition ok {A} (r : res (A * ps)) (p : ps) : Prop := exists a p', r = Some (a, p') /\ PInv p' /\ mu p' <= mu p.

Lemma ok_here {A} (a : A) p' p : PInv p' -> mu p' <= mu p -> ok (Some (a, p')) p.
Proof. intros. exists a, p'. auto. Qed.

Section Fuel.
Variable upd : bool.

Definition AllOk (n : nat) : Prop :=
  (forall pr p, PInv p -> 5 * mu p + 3 <= n -> ok (pexpr upd n pr p) p) /\
  (forall pr l p, PInv p -> 5 * mu p + 1 <= n -> ok (ploop upd n pr l p) p) /\
  (forall f p, PInv p -> ty (cur p) <> EOF -> 5 * mu p + 2 <= n -> ok (pprefix upd n f p) p) /\
  (forall f l p, PInv p -> 5 * mu p + 5 <= n -> ok (pinfix upd n f l p) p) /\
  (forall p, PInv p -> 5 * mu p + 4 <= n -> ok (pargs upd n p) p) /\
  (forall acc p, PInv p -> 5 * mu p + 1 <= n -> ok (pargs_more upd n acc p) p) /\
  (forall t p, PInv p -> 5 * mu p + 4 <= n -> ok (paction upd n t p) p) /\
  (forall t p, PInv p -> 5 * mu p + 1 <= n -> ok (pactions upd n t p) p) /\
  (forall t acc p, PInv p -> 5 * mu p + 1 <= n -> ok (pactions_more upd n t acc p) p).


(* one-step unfoldings of the mutually recursive parse functions *)
Lemma pexpr_S n pr p : pexpr upd (S n) pr p =
  match prefix_fn upd (ty (cur p)) with
  | None => Some (ENil, add_err p)
  | Some f => bind (pprefix upd n f p) (fun '(l, p) => ploop upd n pr l p)
  end.
Proof. reflexivity. Qed.

Lemma ploop_S n pr l p : ploop upd (S n) pr l p =
  if negb (peek_is p EOF) && (pr <? prec (ty (peek p))) then
    match infix_fn upd (ty (peek p)) with
    | None => Some (l, p)
    | Some f => bind (pinfix upd n f l (next p)) (fun '(l', p') => ploop upd n pr l' p')
    end
  else Some (l, p).
Proof. reflexivity. Qed.

Lemma pprefix_S n f p : pprefix upd (S n) f p =
  match f with
  | PIdent => Some (EIdent (cur p), p)
  | PNot => let t := cur p in bind (pexpr upd n prec_not (next p)) (fun '(r, p) => Some (EPrefix t r, p))
  | PGroup => bind (pexpr upd n prec_lowest (next p)) (fun '(e, p) =>
                let '(ok, p) := expect_peek p RPAREN in Some (if ok then e else ENil, p))
  | PAction => let t := cur p in bind (pactions upd n t p) (fun '(a, p) => Some (EUpdate t a, p))
  end.
Proof. reflexivity. Qed.

Lemma pinfix_S n f l p : pinfix upd (S n) f l p =
  match f with
  | IInfix => let t := cur p in bind (pexpr upd n (prec (ty t)) (next p)) (fun '(r, p) => Some (EInfix t l r, p))
  | ICall => let t := cur p in bind (pargs upd n p) (fun '(a, p) => Some (ECall t l a, p))
  | IIndex => let t := cur p in
              let '(ok0, p) := expect_peek p IDENT in
              if negb ok0 then Some (ENil, p)
              else let idx := EIdent (cur p) in
                   if tt_beq (ty t) DOT then Some (EIndex t l idx, p)
                   else let '(ok, p) := expect_peek p RBRACKET in Some (if ok then EIndex t l idx else ENil, p)
  | IBetween => let t := cur p in
                let '(ok0, p) := expect_peek p IDENT in
                if negb ok0 then Some (ENil, p)
                else let lo := EIdent (cur p) in
                     let '(ok, p) := expect_peek p AND in
                     if negb ok then Some (ENil, p)
                     else let '(ok2, p) := expect_peek p IDENT in
                          if ok2 then Some (EBetween t l lo (EIdent (cur p)), p) else Some (ENil, p)
  | IIn => let '(ok, p) := expect_peek p LPAREN in
           if ok then let t := cur p in bind (pargs upd n p) (fun '(a, p) => Some (EIn t l a, match a with Some [] => add_err p | _ => p end))
           else Some (ENil, p)
  end.
Proof. reflexivity. Qed.

Lemma pargs_S n p : pargs upd (S n) p =
  if peek_is p RPAREN then Some (Some [], next p)
  else bind (pexpr upd n prec_lowest (next p)) (fun '(e, p) =>
       bind (pargs_more upd n [e] p) (fun '(es, p) =>
       let '(ok, p) := expect_peek p RPAREN in Some (if ok then Some es else None, p))).
Proof. reflexivity. Qed.

Lemma pargs_more_S n acc p : pargs_more upd (S n) acc p =
  if peek_is p COMMA then bind (pexpr upd n prec_lowest (next (next p))) (fun '(e, p) => pargs_more upd n (acc ++ [e]) p)
  else Some (acc, p).
Proof. reflexivity. Qed.

Lemma paction_S n t p : paction upd (S n) t p =
  bind (pexpr upd n prec_lowest p) (fun '(l, p) =>
    if tt_beq (ty t) SET && negb (peek_is p EQ) then Some (EActionNil, add_err p)
    else let p := if tt_beq (ty t) SET then next p else p in
         if negb (tt_beq (ty t) REMOVE) then bind (pexpr upd n prec_lowest (next p)) (fun '(r, p) => Some (EAction t l r, p))
         else Some (EAction t l ENil, p)).
Proof. reflexivity. Qed.

Lemma pactions_S n t p : pactions upd (S n) t p =
  if peek_is p EOF then Some (Some [], p)
  else bind (paction upd n t (next p)) (fun '(a, p) =>
       bind (pactions_more upd n t [a] p) (fun '(acts, p) =>
       let '(ok, p) := expect_peek p EOF in Some (if ok then Some acts else None, p))).
Proof. reflexivity. Qed.

Lemma pactions_more_S n t acc p : pactions_more upd (S n) t acc p =
  if peek_is p COMMA then bind (paction upd n t (next (next p))) (fun '(a, p) => pactions_more upd n t (acc ++ [a]) p)
  else if peek_is p SET || peek_is p ADD || peek_is p REMOVE || peek_is p DELETE then
    let p := next p in let t' := cur p in
    bind (pactions upd n t' p) (fun '(other, p) =>
      match other with
      | Some ((_ :: _) as l) => pactions_more upd n t (acc ++ l) p
      | _ => pactions_more upd n t acc (add_err p)
      end)
  else Some (acc, p).
Proof. reflexivity. Qed.

(* use one of the induction hypotheses on a recursive call and continue with its result *)
Ltac call H p1 I1 M1 :=
  let a := fresh "a" in
  match goal with
  | |- context [bind ?r _] =>
      let Hr := fresh "Hr" in
      assert (exists a p', r = Some (a, p') /\ PInv p' /\ mu p' <= _) as Hr by (apply H; auto; lia);
      destruct Hr as [a [p1 [-> [I1 M1]]]]; cbn [bind]
  end.

Theorem all_ok : forall n, AllOk n.
Proof.
  induction n as [|n IH].
  - repeat split; intros; lia.
  - destruct IH as [E [Lp [Pf [If [Ag [Am [Ac [As Asm]]]]]]]].
    repeat split.
    + (* pexpr *)
      intros pr p I Hn. rewrite pexpr_S. cbv zeta. destruct (prefix_fn upd (ty (cur p))) as [f|] eqn:PF.
      * assert (ty (cur p) <> EOF) as Hc by (intros Ec; rewrite Ec, prefix_fn_eof in PF; discriminate).
        destruct (Pf f p I Hc ltac:(lia)) as [l [p1 [-> [I1 M1]]]]. cbn [bind].
        destruct (Lp pr l p1 I1 ltac:(lia)) as [l2 [p2 [-> [I2 M2]]]]. apply ok_here; auto; lia.
      * apply ok_here; auto.
    + (* ploop *)
      intros pr l p I Hn. rewrite ploop_S. cbv zeta.
      destruct (negb (peek_is p EOF) && (pr <? prec (ty (peek p)))) eqn:Cnd; [|apply ok_here; auto].
      apply andb_true_iff in Cnd as [Cp _]. apply negb_true_iff, peek_is_false in Cp.
      destruct (infix_fn upd (ty (peek p))) as [f|]; [|apply ok_here; auto].
      pose proof (next_mu_lt p I Cp) as Mn. pose proof (next_inv p I) as In.
      destruct (If f l (next p) In ltac:(lia)) as [l1 [p1 [-> [I1 M1]]]]. cbn [bind].
      destruct (Lp pr l1 p1 I1 ltac:(lia)) as [l2 [p2 [-> [I2 M2]]]]. apply ok_here; auto; lia.
    + (* pprefix *)
      intros f p I Hc Hn. rewrite pprefix_S. cbv zeta. pose proof (next_mu_lt_cur p Hc) as Mn. pose proof (next_inv p I) as In.
      destruct f.
      * apply ok_here; auto.
      * destruct (E prec_not (next p) In ltac:(lia)) as [r [p1 [-> [I1 M1]]]]. cbn [bind]. apply ok_here; auto; lia.
      * destruct (E prec_lowest (next p) In ltac:(lia)) as [r [p1 [-> [I1 M1]]]]. cbn [bind].
        pose proof (expect_peek_ok p1 RPAREN I1) as [I2 M2]. destruct (expect_peek p1 RPAREN) as [ok1 p2]; cbn [snd] in *.
        apply ok_here; auto; lia.
      * destruct (As (cur p) p I ltac:(lia)) as [r [p1 [-> [I1 M1]]]]. cbn [bind]. apply ok_here; auto.
    + (* pinfix *)
      intros f l p I Hn. rewrite pinfix_S. cbv zeta. pose proof (next_mu_le p) as Mn. pose proof (next_inv p I) as In.
      destruct f.
      * destruct (E (prec (ty (cur p))) (next p) In ltac:(lia)) as [r [p1 [-> [I1 M1]]]]. cbn [bind]. apply ok_here; auto; lia.
      * pose proof (expect_peek_ok p IDENT I) as [I0 M0]. destruct (expect_peek p IDENT) as [ok0 p0]; cbn [snd negb] in *.
        destruct ok0; cbn [negb]; [|apply ok_here; auto].
        destruct (tt_beq (ty (cur p)) DOT); [apply ok_here; auto|].
        pose proof (expect_peek_ok p0 RBRACKET I0) as [I2 M2]. destruct (expect_peek p0 RBRACKET) as [ok1 p2]; cbn [snd] in *.
        apply ok_here; auto; lia.
      * pose proof (expect_peek_ok p IDENT I) as [I0 M0]. destruct (expect_peek p IDENT) as [ok0 p0]; cbn [snd negb] in *.
        destruct ok0; cbn [negb]; [|apply ok_here; auto].
        pose proof (expect_peek_ok p0 AND I0) as [I2 M2]. destruct (expect_peek p0 AND) as [ok1 p2]; cbn [snd] in *.
        destruct ok1; cbn [negb]; [|apply ok_here; auto; lia].
        pose proof (expect_peek_ok p2 IDENT I2) as [I3 M3]. destruct (expect_peek p2 IDENT) as [ok2 p3]; cbn [snd] in *.
        destruct ok2; apply ok_here; auto; lia.
      * destruct (Ag p I ltac:(lia)) as [r [p1 [-> [I1 M1]]]]. cbn [bind]. apply ok_here; auto.
      * pose proof (expect_peek_ok p LPAREN I) as [I0 M0]. destruct (expect_peek p LPAREN) as [ok0 p0]; cbn [snd] in *.
        destruct ok0; [|apply ok_here; auto].
        destruct (Ag p0 I0 ltac:(lia)) as [r [p1 [-> [I1 M1]]]]. cbn [bind].
        destruct r as [[|r0 rs]|]; apply ok_here; auto; rewrite ?add_err_mu; lia.
    + (* pargs *)
      intros p I Hn. rewrite pargs_S. cbv zeta. pose proof (next_mu_le p) as Mn. pose proof (next_inv p I) as In.
      destruct (peek_is p RPAREN); [apply ok_here; auto|].
      destruct (E prec_lowest (next p) In ltac:(lia)) as [e [p1 [-> [I1 M1]]]]. cbn [bind].
      destruct (Am [e] p1 I1 ltac:(lia)) as [es [p2 [-> [I2 M2]]]]. cbn [bind].
      pose proof (expect_peek_ok p2 RPAREN I2) as [I3 M3]. destruct (expect_peek p2 RPAREN) as [ok1 p3]; cbn [snd] in *.
      apply ok_here; auto; lia.
    + (* pargs_more *)
      intros acc p I Hn. rewrite pargs_more_S. cbv zeta. destruct (peek_is p COMMA) eqn:Pc; [|apply ok_here; auto].
      assert (ty (peek p) <> EOF) as Cp by (apply peek_is_true in Pc; rewrite Pc; discriminate).
      pose proof (next_mu_lt p I Cp) as Mn. pose proof (next_inv p I) as In.
      pose proof (next_mu_le (next p)) as Mn2. pose proof (next_inv _ In) as In2.
      destruct (E prec_lowest (next (next p)) In2 ltac:(lia)) as [e [p1 [-> [I1 M1]]]]. cbn [bind].
      destruct (Am (acc ++ [e]) p1 I1 ltac:(lia)) as [es [p2 [-> [I2 M2]]]]. apply ok_here; auto; lia.
    + (* paction *)
      intros t p I Hn. rewrite paction_S. cbv zeta.
      destruct (E prec_lowest p I ltac:(lia)) as [l [p1 [-> [I1 M1]]]]. cbn [bind].
      destruct (tt_beq (ty t) SET && negb (peek_is p1 EQ)); [apply ok_here; auto|].
      set (p2 := if tt_beq (ty t) SET then next p1 else p1).
      assert (PInv p2 /\ mu p2 <= mu p1) as [I2 M2].
      { unfold p2. destruct (tt_beq (ty t) SET); [split; [now apply next_inv|apply next_mu_le]|auto]. }
      destruct (negb (tt_beq (ty t) REMOVE)); [|apply ok_here; auto; lia].
      pose proof (next_mu_le p2) as Mn. pose proof (next_inv p2 I2) as In.
      destruct (E prec_lowest (next p2) In ltac:(lia)) as [r [p3 [-> [I3 M3]]]]. cbn [bind]. apply ok_here; auto; lia.
    + (* pactions *)
      intros t p I Hn. rewrite pactions_S. cbv zeta. destruct (peek_is p EOF) eqn:Pe; [apply ok_here; auto|].
      apply peek_is_false in Pe. pose proof (next_mu_lt p I Pe) as Mn. pose proof (next_inv p I) as In.
      destruct (Ac t (next p) In ltac:(lia)) as [a [p1 [-> [I1 M1]]]]. cbn [bind].
      destruct (Asm t [a] p1 I1 ltac:(lia)) as [acts [p2 [-> [I2 M2]]]]. cbn [bind].
      pose proof (expect_peek_ok p2 EOF I2) as [I3 M3]. destruct (expect_peek p2 EOF) as [ok1 p3]; cbn [snd] in *.
      apply ok_here; auto; lia.
    + (* pactions_more *)
      intros t acc p I Hn. rewrite pactions_more_S. cbv zeta. destruct (peek_is p COMMA) eqn:Pc.
      * assert (ty (peek p) <> EOF) as Cp by (apply peek_is_true in Pc; rewrite Pc; discriminate).
        pose proof (next_mu_lt p I Cp) as Mn. pose proof (next_inv p I) as In.
        pose proof (next_mu_le (next p)) as Mn2. pose proof (next_inv _ In) as In2.
        destruct (Ac t (next (next p)) In2 ltac:(lia)) as [a [p1 [-> [I1 M1]]]]. cbn [bind].
        destruct (Asm t (acc ++ [a]) p1 I1 ltac:(lia)) as [es [p2 [-> [I2 M2]]]]. apply ok_here; auto; lia.
      * destruct (peek_is p SET || peek_is p ADD || peek_is p REMOVE || peek_is p DELETE) eqn:Pk; [|apply ok_here; auto].
        assert (ty (peek p) <> EOF) as Cp.
        { repeat (apply orb_true_iff in Pk as [Pk|Pk]); apply peek_is_true in Pk; rewrite Pk; discriminate. }
        pose proof (next_mu_lt p I Cp) as Mn. pose proof (next_inv p I) as In.
        destruct (As (cur (next p)) (next p) In ltac:(lia)) as [other [p1 [-> [I1 M1]]]]. cbn [bind].
        destruct other as [[|a0 l0]|].
        -- destruct (Asm t acc (add_err p1) I1 ltac:(rewrite add_err_mu; lia)) as [es [p2 [-> [I2 M2]]]]. rewrite add_err_mu in M2. apply ok_here; auto; lia.
        -- destruct (Asm t (acc ++ a0 :: l0) p1 I1 ltac:(lia)) as [es [p2 [-> [I2 M2]]]]. apply ok_here; auto; lia.
        -- destruct (Asm t acc (add_err p1) I1 ltac:(rewrite add_err_mu; lia)) as [es [p2 [-> [I2 M2]]]]. rewrite add_err_mu in M2. apply ok_here; auto; lia.
Qed.

End Fuel.

(* ---------- the two entry points ---------- *)
Lemma init_ok s : PInv (init s) /\ mu (init s) <= List.length s + 2.
Proof.
  unfold init. set (z := {| ty := ILLEGAL; lit := [] |}).
  set (p0 := {| rest := s; cur := z; peek := z; nerrs := 0; unsupported := false |}).
  assert (PInv p0) as I0 by (split; cbn; discriminate).
  assert (mu p0 = List.length s + 2) as M0 by (unfold mu; cbn; lia).
  split; [now apply next_inv, next_inv|].
  pose proof (next_mu_le p0). pose proof (next_mu_le (next p0)). lia.
Qed.

Lemma ptop_total upd s : exists e p, ptop upd (parse_fuel s) (init s) = Some (e, p).
Proof.
  destruct (init_ok s) as [I M]. unfold ptop. destruct (tt_beq (ty (cur (init s))) EOF); [eauto|].
  destruct (all_ok upd (parse_fuel s)) as [E _].
  destruct (E prec_lowest (init s) I) as [e [p' [-> _]]]; [unfold parse_fuel; lia|]. cbn. eauto.
Qed.

(* both parsers return a tree and an error count for EVERY byte string: the fuel is never exhausted *)
Theorem parse_cond_total s : exists e k, parse_cond s = Some (e, k).
Proof.
  unfold parse_cond, parse_cond_fuel. destruct (_ && _); [eauto|].
  destruct (ptop_total false s) as [e [p ->]]. cbn. eauto.
Qed.

Theorem parse_upd_total s : exists e k, parse_upd s = Some (e, k).
Proof. unfold parse_upd, parse_upd_fuel. destruct (ptop_total true s) as [e [p ->]]. cbn. eauto. Qed.
