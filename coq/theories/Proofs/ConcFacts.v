From Coq Require Import List Bool Arith Lia.
From Coq Require Import Strings.Byte Strings.String.
From Minidyn Require Import Base.Str Gen.Locks Model.Conc.
Import ListNotations.

(* both clients follow the discipline (checked on the tables generated from the sources) *)
Theorem clients_well_locked : well_locked lock_table_v1 = true /\ well_locked lock_table_v2 = true.
Proof. vm_compute. split; reflexivity. Qed.

(* every client method that reads or writes shared state does so under the mutex: listed explicitly *)
Theorem no_public_unlocked_access :
  forallb (fun m => negb (m_public m) || match m_unlocked m with [] => true | _ => false end) (lock_table_v1 ++ lock_table_v2) = true.
Proof. vm_compute. reflexivity. Qed.

(* every public method of both clients enters at most one critical section per call (the batch calls included) *)
Theorem clients_one_section_per_call : one_section_per_call lock_table_v1 = true /\ one_section_per_call lock_table_v2 = true.
Proof. vm_compute. split; reflexivity. Qed.

(* the registry of the native interpreter (interpreter/native.go, its own RWMutex): every access to the four registry maps
   happens while the lock is held, and no method that holds it calls one that takes it (a second read lock dead-locks
   against a waiting writer) *)
Theorem native_registry_well_locked : well_locked lock_table_native = true.
Proof. vm_compute. reflexivity. Qed.

Lemma flat_map_app {A B} (f : A -> list B) l1 l2 : flat_map f (l1 ++ l2) = flat_map f l1 ++ flat_map f l2.
Proof. induction l1; cbn; auto. now rewrite IHl1, app_assoc. Qed.

Lemma cstep_flat s x s1 : cstep s x = Some s1 -> flat s1 = flat s ++ match snd x with Ev e => [e] | _ => [] end.
Proof.
  destruct x as [t k]. unfold cstep, flat; cbn [fst snd].
  destruct k; destruct (cur s) as [[h l]|] eqn:C; try discriminate.
  - intros E; inversion E; subst; cbn. now rewrite !app_nil_r.
  - destruct (Nat.eqb h t); [|discriminate]. intros E; inversion E; subst; cbn. now rewrite app_assoc.
  - destruct (Nat.eqb h t); [|discriminate]. intros E; inversion E; subst; cbn.
    rewrite flat_map_app. cbn. now rewrite !app_nil_r.
Qed.

(* serializability of the shared accesses: in every execution allowed by the mutex, the global order of accesses is
   the concatenation of whole critical sections, i.e. that of some serial execution of the sections *)
Theorem mutex_serializes tr : forall s s',
  crun s tr = Some s' -> flat s' = flat s ++ events tr.
Proof.
  induction tr as [|x tr IH]; intros s s'; cbn [crun events flat_map].
  - intros E; inversion E; subst. now rewrite app_nil_r.
  - destruct (cstep s x) as [s1|] eqn:St; [|discriminate]. intros R.
    rewrite (IH _ _ R), (cstep_flat _ _ _ St). now rewrite <- app_assoc.
Qed.

(* at most one thread is ever inside a critical section, and an access always belongs to the holder *)
Theorem mutex_excludes s t e s' : cstep s (t, Ev e) = Some s' -> exists l, cur s = Some (t, l).
Proof.
  unfold cstep; cbn. destruct (cur s) as [[h l]|]; [|discriminate].
  destruct (Nat.eqb_spec h t); [|discriminate]. subst. eauto.
Qed.
