(* C13 / C04: key consistency.  KInv: every stored item is filed under the key string of its own key attributes.
   Preserved by every write except an UpdateItem that changes a key attribute (known finding C13-2), which is
   excluded through the side condition UK; then it holds in every reachable state, and it yields the premise of the
   pagination theorem (the LastEvaluatedKey of an item names that item's position). *)
From Coq Require Import List Bool Arith Lia.
From Coq Require Import Strings.Byte Strings.String.
From Minidyn Require Import Base.Str Base.FMap Base.Outcome Model.Value Model.Key Model.Index Model.Table Model.Client.
From Minidyn Require Import Proofs.FMapFacts Proofs.TableInv Proofs.ClientInv Proofs.ClientIndexInv.
Import ListNotations.

Definition KInv (t : table) : Prop :=
  forall k it, lookup k (t_data t) = Some it -> get_key (t_ks t) (t_defs t) it = inr k.

(* the key item carries the same key *)
Lemma lookup_key_item ks it a :
  a = hashk ks \/ (rangek ks <> [] /\ a = rangek ks) ->
  lookup a (key_item ks it) = lookup a it.
Proof.
  intros Ha. unfold key_item.
  destruct (rangek ks) as [|r0 r] eqn:R.
  - destruct Ha as [->|[Hn _]]; [|congruence].
    destruct (lookup (hashk ks) it) as [v|] eqn:L; [|reflexivity].
    now rewrite lookup_insert_eq.
  - set (rk := r0 :: r) in *.
    destruct (lookup (hashk ks) it) as [v|] eqn:L; destruct (lookup rk it) as [w|] eqn:L2;
      destruct Ha as [->|[_ ->]]; rewrite ?lookup_insert; cbn [lookup]; rewrite ?str_eqb_refl, ?L, ?L2; try reflexivity.
    all: try (destruct (str_eqb (hashk ks) rk) eqn:E; [apply str_eqb_eq in E; rewrite E in *; congruence|reflexivity]).
    all: try (destruct (str_eqb rk (hashk ks)) eqn:E; [apply str_eqb_eq in E; rewrite <- E in *; congruence|reflexivity]).
Qed.

Lemma item_value_key_item ks it a typ :
  a = hashk ks \/ (rangek ks <> [] /\ a = rangek ks) ->
  item_value (key_item ks it) a typ = item_value it a typ.
Proof. intros Ha. unfold item_value. now rewrite lookup_key_item. Qed.

Lemma get_key_key_item ks defs it : get_key ks defs (key_item ks it) = get_key ks defs it.
Proof.
  unfold get_key, key_value. rewrite item_value_key_item by (now left).
  destruct (item_value it (hashk ks) _); auto.
  destruct (rangek ks) as [|r0 r] eqn:R; auto.
  rewrite <- R. rewrite item_value_key_item by (right; split; [congruence|reflexivity]). reflexivity.
Qed.

Lemma get_key_inr_nonempty ks defs it k : secondary ks = false -> get_key ks defs it = inr k -> it <> [] /\ key_item ks it <> [].
Proof.
  intros Hs H. unfold get_key, key_value, item_value in H. rewrite Hs in H.
  destruct (lookup (hashk ks) it) as [v|] eqn:L; [|discriminate].
  split.
  - intros ->. discriminate.
  - intros E. pose proof (lookup_key_item ks it (hashk ks) (or_introl eq_refl)) as K. rewrite E, L in K. discriminate.
Qed.

(* what the pagination theorem needs of a table *)
Lemma KInv_page_premise t :
  secondary (t_ks t) = false -> KInv t ->
  forall k it, lookup k (t_data t) = Some it ->
    get_key (t_ks t) (t_defs t) (key_item (t_ks t) it) = inr k /\ key_item (t_ks t) it <> [] /\ it <> [].
Proof.
  intros Hs HK k it L. pose proof (HK k it L) as G.
  destruct (get_key_inr_nonempty _ _ _ _ Hs G) as [N1 N2].
  rewrite get_key_key_item. auto.
Qed.

(* ---------- preservation ---------- *)
Section Ops.
Variable lang_match : str -> item -> item -> fmap str -> outcome bool.
Variable lang_update : str -> item -> item -> fmap str -> outcome item.

Lemma KInv_store t key it ixs :
  KInv t -> get_key (t_ks t) (t_defs t) it = inr key -> KInv (with_indexes (set_item t key it) ixs).
Proof.
  intros H G k it0 L. cbn [with_indexes set_item t_data t_ks t_defs] in *.
  rewrite lookup_insert in L. destruct (str_eqb k key) eqn:E.
  - apply str_eqb_eq in E. inversion L; subst. exact G.
  - now apply H.
Qed.

Lemma KInv_put c t it cond names vals : KInv t -> KInv (fst (t_put lang_match c t it cond names vals)).
Proof.
  intros H. unfold t_put. destruct (get_key (t_ks t) (t_defs t) it) as [e|key] eqn:G; cbn; auto.
  destruct (check_cond _ _ _ _ _ _ _) as [[[] f]| | |]; cbn; auto.
  destruct (validate_index_keys _ _ _); cbn; auto. now apply KInv_store.
Qed.

(* UpdateItem keeps the invariant when the updated item still carries the key it is filed under *)
Definition UK (c : ictx) (t : table) (k : item) (e : str) (names : fmap str) (vals : item) : Prop :=
  forall key it' f, get_key (t_ks t) (t_defs t) k = inr key ->
    interp_update lang_update c (t_name t) e (match lookup key (t_data t) with Some i => i | None => Key.key_item (t_ks t) k end) vals names = Ok (it', f) ->
    get_key (t_ks t) (t_defs t) it' = inr key.

Lemma KInv_update c t k e cond names vals :
  KInv t -> UK c t k e names vals -> KInv (fst (t_update lang_match lang_update c t k e cond names vals)).
Proof.
  intros H Hu. unfold t_update. destruct (get_key (t_ks t) (t_defs t) k) as [er|key] eqn:G; cbn; auto.
  destruct (check_cond _ _ _ _ _ _ _) as [[[] f]| | |]; cbn; auto.
  destruct (interp_update _ _ _ _ _ _ _) as [[it' f']| | |] eqn:I; cbn; auto.
  destruct (validate_index_keys _ _ _); cbn; auto. apply KInv_store; auto. eapply Hu; eauto.
Qed.

Lemma KInv_delete c t k cond names vals : TInv t -> KInv t -> KInv (fst (t_delete lang_match c t k cond names vals)).
Proof.
  intros [Hw _] H. unfold t_delete. destruct (get_key (t_ks t) (t_defs t) k) as [er|key] eqn:G; cbn; auto.
  destruct (check_cond _ _ _ _ _ _ _) as [[[] f]| | |]; cbn; auto.
  destruct (lookup key (t_data t)) as [old|] eqn:L; cbn; auto.
  assert (forall k0 it0, lookup k0 (remove key (t_data t)) = Some it0 -> get_key (t_ks t) (t_defs t) it0 = inr k0) as R.
  { intros k0 it0 L0. destruct (str_eqb k0 key) eqn:E.
    - apply str_eqb_eq in E; subst. rewrite lookup_remove_eq in L0; [discriminate|auto].
    - apply str_eqb_neq in E. rewrite lookup_remove_neq in L0 by auto. now apply H. }
  destruct (Nat.eqb _ _); cbn; exact R.
Qed.

End Ops.

(* ---------- every reachable state ---------- *)
Section Reach.
Variable lang_match : str -> item -> item -> fmap str -> outcome bool.
Variable lang_update : str -> item -> item -> fmap str -> outcome item.
Variable flavour : sdk.

(* the table's own key attributes are declared (CreateTable checks it; UpdateTable can not re-type them) *)
Definition key_declared (t : table) : Prop :=
  mem (hashk (t_ks t)) (t_defs t) = true /\ (rangek (t_ks t) = [] \/ mem (rangek (t_ks t)) (t_defs t) = true).

Definition TK (t : table) : Prop := TInv t /\ KInv t /\ secondary (t_ks t) = false /\ key_declared t.

Lemma ks_put c t it cond names vals : t_ks (fst (t_put lang_match c t it cond names vals)) = t_ks t /\ t_defs (fst (t_put lang_match c t it cond names vals)) = t_defs t.
Proof.
  unfold t_put. destruct (get_key _ _ _); cbn; auto. destruct (check_cond _ _ _ _ _ _ _) as [[[] f]| | |]; cbn; auto.
  destruct (validate_index_keys _ _ _); auto.
Qed.

Lemma ks_update c t k e cond names vals : t_ks (fst (t_update lang_match lang_update c t k e cond names vals)) = t_ks t /\ t_defs (fst (t_update lang_match lang_update c t k e cond names vals)) = t_defs t.
Proof.
  unfold t_update. destruct (get_key _ _ _); cbn; auto. destruct (check_cond _ _ _ _ _ _ _) as [[[] f]| | |]; cbn; auto.
  destruct (interp_update _ _ _ _ _ _ _) as [[it' f']| | |]; cbn; auto. destruct (validate_index_keys _ _ _); auto.
Qed.

Lemma ks_delete c t k cond names vals : t_ks (fst (t_delete lang_match c t k cond names vals)) = t_ks t /\ t_defs (fst (t_delete lang_match c t k cond names vals)) = t_defs t.
Proof.
  unfold t_delete. destruct (get_key _ _ _); cbn; auto. destruct (check_cond _ _ _ _ _ _ _) as [[[] f]| | |]; cbn; auto.
  destruct (lookup _ _); cbn; auto. destruct (Nat.eqb _ _); auto.
Qed.

Lemma key_declared_same t t' : t_ks t' = t_ks t -> t_defs t' = t_defs t -> key_declared t -> key_declared t'.
Proof. unfold key_declared. intros -> ->. auto. Qed.

Theorem KInv_reachable ops cn tn c t :
  run_env (UK lang_update) lang_match lang_update flavour [] ops ->
  lookup cn (fst (run lang_match lang_update flavour [] ops)) = Some c ->
  lookup tn (c_tables c) = Some t -> TInv t /\ KInv t /\ secondary (t_ks t) = false.
Proof.
  intros He Hc Ht.
  assert (TK t) as [H1 [H2 [H3 _]]]; [|auto].
  revert He Hc Ht. apply (P_reachable TK (UK lang_update) lang_match lang_update flavour).
  - intros c0 t0 it cond names vals [H1 [H2 [H3 H4]]]. destruct (ks_put c0 t0 it cond names vals) as [K D].
    split; [now apply TInv_put|split; [now apply KInv_put|split; [now rewrite K|eapply key_declared_same; eauto]]].
  - intros c0 t0 k e cond names vals [H1 [H2 [H3 H4]]] Hu. destruct (ks_update c0 t0 k e cond names vals) as [K D].
    split; [now apply TInv_update|split; [now apply KInv_update|split; [now rewrite K|eapply key_declared_same; eauto]]].
  - intros c0 t0 k cond names vals [H1 [H2 [H3 H4]]]. destruct (ks_delete c0 t0 k cond names vals) as [K D].
    split; [now apply TInv_delete|split; [now apply KInv_delete|split; [now rewrite K|eapply key_declared_same; eauto]]].
  - intros t0 [_ [_ [H3 H4]]]. split; [apply TInv_clear|split; [|split; [exact H3|exact H4]]]. intros k it L. discriminate.
  - intros n oh orr h r defs CS. split; [split; cbn; [apply wf_nil|reflexivity]|split; [|split; [reflexivity|]]].
    + intros k it L. discriminate.
    + unfold key_declared; cbn. unfold check_schema in CS.
      destruct oh as [[|c0 hk]|]; try discriminate.
      destruct (mem (c0 :: hk) defs) eqn:M; [|discriminate].
      destruct orr as [[|c1 rk]|].
      * destruct (key_typed _ _); inversion CS; subst; auto.
      * destruct (mem (c1 :: rk) defs) eqn:M2; [|discriminate].
        destruct (key_typed _ _ && key_typed _ _); inversion CS; subst; auto.
      * destruct (key_typed _ _); inversion CS; subst; auto.
  - intros t0 ppr d t' [H1 [H2 [H3 H4]]] Ea. unfold add_global_index in Ea.
    destruct (negb ppr && negb (id_throughput d)); [discriminate|].
    destruct (check_schema _ _ _) as [[h r]|]; [|discriminate]. inversion Ea; subst. split; [exact H1|split; [exact H2|split; [exact H3|exact H4]]].
  - intros t0 d t' [H1 [H2 [H3 H4]]] _ Ea. unfold add_local_index in Ea.
    destruct (check_schema _ _ _) as [[h r]|]; [|discriminate]. inversion Ea; subst. split; [exact H1|split; [exact H2|split; [exact H3|exact H4]]].
  - (* UpdateTable accepted the definitions: the key attributes keep their type *)
    intros t0 defs [H1 [H2 [H3 [D1 D2]]]] Hok. destruct (used_key_attrs_table t0) as [U1 U2].
    assert (def_type (set_defs (t_defs t0) defs) (hashk (t_ks t0)) = def_type (t_defs t0) (hashk (t_ks t0))) as E1
      by (apply defs_ok_protected; auto).
    assert (rangek (t_ks t0) = [] \/ def_type (set_defs (t_defs t0) defs) (rangek (t_ks t0)) = def_type (t_defs t0) (rangek (t_ks t0))) as E2
      by (destruct D2 as [D2|D2]; [now left|right; apply defs_ok_protected; auto]).
    split; [exact H1|split; [|split; [exact H3|]]].
    + intros k it L. cbn [t_data t_ks t_defs] in *. rewrite (get_key_defs_agree (t_ks t0) (t_defs t0)); auto.
    + unfold key_declared; cbn [t_ks t_defs].
      assert (forall a, mem_str a (used_key_attrs t0) = true -> mem a (t_defs t0) = true -> mem a (set_defs (t_defs t0) defs) = true) as Hm.
      { intros a Hu Ha. unfold mem. rewrite (set_defs_protected (t_defs t0) (used_key_attrs t0) defs (t_defs t0)); auto. }
      split; [now apply Hm|]. destruct D2 as [D2|D2]; [now left|right; now apply Hm].
  - intros t0 n [H1 [H2 [H3 H4]]]. split; [exact H1|split; [exact H2|split; [exact H3|exact H4]]].
Qed.

End Reach.
