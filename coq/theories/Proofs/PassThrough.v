(* C07 / C10: values that pass through the evaluator's object representation unchanged.  The frame theorem of C07 says an
   untargeted attribute comes out as [pass_through] of what went in; for "plain" values - any nesting of strings,
   binaries, booleans, NULL, lists, maps, canonically written numbers, sorted string sets and duplicate-free binary
   sets - that is the value itself.  (Non-canonical numerals such as "2.50" are re-rendered: known finding C12-1.) *)
From Coq Require Import List Bool Arith Lia.
From Coq Require Import Strings.Byte Strings.String.
From Minidyn Require Import Base.Str Base.FMap Base.Outcome Base.F64 Model.Value Model.Token Model.Parser Model.Object Model.Eval Model.Update.
From Minidyn Require Import Model.Language Proofs.UpdateFrame.
Import ListNotations.

Fixpoint ssorted_b (l : list str) : bool :=
  match l with
  | a :: (b :: _) as t => str_ltb a b && ssorted_b t
  | _ => true
  end.

Fixpoint nodup_strs (l : list str) : bool :=
  match l with [] => true | x :: t => negb (mem_str x t) && nodup_strs t end.

Fixpoint plain (v : av) : bool :=
  match v with
  | AS _ | AB _ | ABOOL _ | ANULL => true
  | AN s => match renumber s with Some s' => str_eqb s' s | None => false end
  | AL l => (fix go (l : list av) : bool := match l with [] => true | x :: t => plain x && go t end) l
  | AM m => (fix go (m : list (str * av)) : bool := match m with [] => true | (_, x) :: t => plain x && go t end) m
  | ASS l => ssorted_b l
  | ABS l => nodup_strs l
  | ANS _ => false
  end.

(* ---- sets ---- *)
Lemma add_str_last x : forall acc, Forall (fun y => str_lt y x) acc -> add_str x acc = acc ++ [x].
Proof.
  induction acc as [|y t IH]; intros H; cbn; auto. inversion H as [|? ? Hy Ht]; subst.
  unfold str_lt in Hy. rewrite (str_compare_antisym y x), Hy. cbn. now rewrite IH.
Qed.

Lemma ssorted_b_cons a l : ssorted_b (a :: l) = true -> ssorted_b l = true /\ Forall (fun y => str_lt a y) l.
Proof.
  revert a. induction l as [|b t IH]; intros a H; cbn in *; [split; auto|].
  apply andb_true_iff in H as [H1 H2]. apply str_ltb_lt in H1. split; auto.
  constructor; auto. destruct (IH b H2) as [_ F]. eapply Forall_impl; [|exact F]. intros y Hy. eapply str_lt_trans; eauto.
Qed.

Lemma fold_add_str l : forall acc, ssorted_b l = true -> Forall (fun y => Forall (fun x => str_lt y x) l) acc ->
  fold_left (fun a x => add_str x a) l acc = acc ++ l.
Proof.
  induction l as [|x t IH]; intros acc Hs Ha; cbn; [now rewrite app_nil_r|].
  apply ssorted_b_cons in Hs as [Hs Hx].
  rewrite add_str_last.
  - rewrite IH; auto; [now rewrite <- app_assoc|].
    apply Forall_app. split.
    + eapply Forall_impl; [|exact Ha]. intros y Hy. now inversion Hy.
    + constructor; auto.
  - eapply Forall_impl; [|exact Ha]. intros y Hy. now inversion Hy.
Qed.

Lemma mem_str_app x a b : mem_str x (a ++ b) = mem_str x a || mem_str x b.
Proof. induction a as [|y a IH]; cbn; auto. rewrite IH. now rewrite orb_assoc. Qed.

Lemma fold_add_bin l : forall acc, nodup_strs l = true -> forallb (fun x => negb (mem_str x acc)) l = true ->
  fold_left (fun a x => add_bin x a) l acc = acc ++ l.
Proof.
  induction l as [|x t IH]; intros acc Hn Ha; cbn [fold_left]; [now rewrite app_nil_r|].
  cbn [nodup_strs forallb] in Hn, Ha. apply andb_true_iff in Hn as [Hx Hn]. apply andb_true_iff in Ha as [Hxa Ha].
  unfold add_bin. apply negb_true_iff in Hxa. rewrite Hxa. rewrite IH; auto; [now rewrite <- app_assoc|].
  apply forallb_forall. intros y Hy. rewrite mem_str_app. rewrite forallb_forall in Ha.
  apply negb_true_iff. apply orb_false_iff. split; [now apply negb_true_iff, Ha|].
  cbn [mem_str]. rewrite orb_false_r.
  destruct (str_eqb y x) eqn:E; auto.
  apply str_eqb_eq in E; subst. apply negb_true_iff in Hx.
  assert (mem_str x t = true) as C by (now apply mem_str_In). congruence.
Qed.

(* ---- the round trip ---- *)
Lemma compact_to_obj v : forall o, to_obj v = Some o -> compact_obj o = o.
Proof.
  induction v using av_ind'; intros o E; cbn in E; try (inversion E; subst; reflexivity).
  - destruct (parse_float s); inversion E; reflexivity.
  - (* list *)
    match type of E with option_map VList ?g = _ => destruct g as [os|] eqn:G end; inversion E; subst; clear E.
    cbn. f_equal. revert os G. induction H as [|x t Hx Ht IH]; intros os G.
    + inversion G. reflexivity.
    + destruct (to_obj x) as [y|] eqn:Ey; [|discriminate].
      match type of G with match ?g with _ => _ end = _ => destruct g as [r|] eqn:Gr end; [|discriminate].
      inversion G; subst. cbn. rewrite (Hx y eq_refl). f_equal. now apply IH.
  - (* map *)
    match type of E with option_map VMap ?g = _ => destruct g as [os|] eqn:G end; inversion E; subst; clear E.
    cbn. f_equal. revert os G. induction H as [|[k x] t Hx Ht IH]; intros os G.
    + inversion G. reflexivity.
    + cbn in Hx. destruct (to_obj x) as [y|] eqn:Ey; [|discriminate].
      match type of G with match ?g with _ => _ end = _ => destruct g as [r|] eqn:Gr end; [|discriminate].
      inversion G; subst. cbn. rewrite (Hx y eq_refl). f_equal. now apply IH.
  - destruct (map_opt parse_float l); inversion E; reflexivity.
Qed.

Theorem plain_pass_through v : plain v = true -> pass_through v = Some v.
Proof.
  unfold pass_through. induction v using av_ind'; intros Hp; cbn in Hp; try reflexivity.
  - (* number *)
    unfold renumber in Hp. cbn [to_obj]. destruct (parse_float s) as [f|]; cbn in *; [|discriminate].
    apply str_eqb_eq in Hp. now rewrite Hp.
  - (* list *)
    assert (exists os, (fix go (l : list av) : option (list (option obj)) :=
               match l with [] => Some [] | x :: t => match to_obj x, go t with Some y, Some r => Some (Some y :: r) | _, _ => None end end) l = Some os /\
             flat_map (fun x => match x with Some y => [of_obj y] | None => [] end)
               (flat_map (fun x => match x with Some y => [Some (compact_obj y)] | None => [] end) os) = l) as [os [G R]].
    { induction H as [|x t Hx Ht IH]; [exists []; auto|].
      apply andb_true_iff in Hp as [Hpx Hpt]. destruct (IH Hpt) as [os [G R]].
      specialize (Hx Hpx). destruct (to_obj x) as [y|] eqn:Ey; [|discriminate]. cbn in Hx. inversion Hx as [Hy].
      exists (Some y :: os). rewrite G. split; auto. cbn [flat_map app]. rewrite Hy. f_equal. exact R. }
    cbn [to_obj]. rewrite G. cbn. now rewrite R.
  - (* map *)
    assert (exists os, (fix go (m : list (str * av)) : option (list (str * obj)) :=
               match m with [] => Some [] | (k, x) :: t => match to_obj x, go t with Some y, Some r => Some ((k, y) :: r) | _, _ => None end end) m = Some os /\
             map (fun kv => (fst kv, of_obj (snd kv))) (map (fun kv => (fst kv, compact_obj (snd kv))) os) = m) as [os [G R]].
    { induction H as [|[k x] t Hx Ht IH]; [exists []; auto|].
      apply andb_true_iff in Hp as [Hpx Hpt]. destruct (IH Hpt) as [os [G R]].
      cbn in Hx. specialize (Hx Hpx). destruct (to_obj x) as [y|] eqn:Ey; [|discriminate]. cbn in Hx. inversion Hx as [Hy].
      exists ((k, y) :: os). rewrite G. split; auto. cbn [map fst snd]. rewrite Hy. f_equal. exact R. }
    cbn [to_obj]. rewrite G. cbn. now rewrite R.
  - (* string set *)
    cbn [to_obj]. rewrite (fold_add_str l []) by auto. reflexivity.
  - discriminate.
  - (* binary set *)
    cbn [to_obj]. rewrite (fold_add_bin l []); auto. apply forallb_forall. intros x _. reflexivity.
Qed.

(* C07, literally: an attribute holding a plain value that no action targets keeps exactly its prior value *)
Corollary plain_attribute_kept expr it vals names it' tok acts k v :
  wf it -> lang_update expr it vals names = Ok it' ->
  parse_upd expr = Some (EUpdate tok (Some acts), 0) ->
  mem k vals = false ->
  (forall a, In a acts -> action_target names a <> Some k) ->
  lookup k it = Some v -> plain v = true -> lookup k it' = Some v.
Proof.
  intros Hw Hu Hp Hv Ht Lk Pv. rewrite (update_frame expr it vals names it' tok acts k Hw Hu Hp Hv Ht), Lk.
  now apply plain_pass_through.
Qed.
