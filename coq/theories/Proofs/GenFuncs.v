(* The page-accounting functions of core/table.go, TRANSLATED from the Go source on every run (Gen/Funcs.v), coincide
   with what the hand-written model of SearchData computes: a change of one of these functions in the code changes
   the generated definition and breaks the corresponding lemma here. *)
From Coq Require Import List Bool Arith.
From Coq Require Import Strings.Byte Strings.String.
From Minidyn Require Import Base.Str Base.FMap Base.Outcome Model.Value Model.Key Model.Index Model.Table Gen.Funcs.
Import ListNotations.

(* the Go representation of the expression type that matchKey evaluated last *)
Definition etype_str (e : etype) : str :=
  match e with ENone => [] | EKey => go_ExpressionTypeKey | EFilter => go_ExpressionTypeFilter | ECond => go_ExpressionTypeConditional end.

(* afterStartKey *)
Lemma after_start_key_is_code k pk sik spk fwd : go_afterStartKey k pk sik spk fwd = after_start_key k pk sik spk fwd.
Proof. reflexivity. Qed.

(* shouldCountItem: the counting rule of search_step *)
Lemma count_rule_is_code ety (matched : bool) cnt :
  (match ety with ENone | EFilter => S cnt | EKey => if matched then S cnt else cnt | ECond => cnt end) =
  (if go_shouldCountItem (etype_str ety) matched then S cnt else cnt).
Proof. destruct ety, matched; reflexivity. Qed.

(* shouldBreakPage: the break condition of search_step *)
Lemma break_rule_is_code limit cnt : negb (Nat.eqb limit 0) && Nat.eqb limit cnt = go_shouldBreakPage cnt limit.
Proof. reflexivity. Qed.

(* shouldReturnNextKey: when search_data returns a LastEvaluatedKey *)
Lemma lek_rule_is_code (last : item) limit scanned size cnt :
  (match last with [] => false | _ => if Nat.eqb limit 0 then false else Nat.leb scanned size && Nat.leb limit cnt end) =
  go_shouldReturnNextKey last cnt scanned limit size.
Proof. unfold go_shouldReturnNextKey. destruct last; cbn [List.length Nat.eqb orb]; [reflexivity|]. destruct (Nat.eqb limit 0); reflexivity. Qed.

(* ---------- the lexer's character classes (interpreter/language/lexer.go) ---------- *)
From Minidyn Require Import Model.Token Gen.Tables Model.Lexer.

Lemma is_letter_is_code c : go_isLetter c = is_letter c.
Proof. reflexivity. Qed.

Lemma is_ident_char_is_code c : go_isIdentifierLetter c = is_ident_char c.
Proof. reflexivity. Qed.

Lemma is_lex_space_is_code c : go_isWhitespace c = is_lex_space c.
Proof. reflexivity. Qed.
