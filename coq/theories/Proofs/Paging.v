(* C04 (partial): the resume position is decided by order, pages never exceed the limit. *)
From Coq Require Import List Bool Arith Lia.
From Coq Require Import Strings.Byte Strings.String.
From Minidyn Require Import Base.Str Base.FMap Base.Outcome Model.Value Model.Key Model.Index Model.Table.
Import ListNotations.

(* afterStartKey is the strict order on (entry key, primary key) pairs, in the scan direction: the search resumes at
   the first entry positioned after the exclusive start key, whether or not the item it names still exists *)
Theorem after_start_key_forward k pk sik spk :
  after_start_key k pk sik spk true = true <-> (str_lt sik k \/ (k = sik /\ str_lt spk pk)).
Proof.
  unfold after_start_key. destruct (str_eqb k sik) eqn:E1; cbn [negb].
  - apply str_eqb_eq in E1; subst. destruct (str_eqb pk spk) eqn:E2; cbn [negb].
    + apply str_eqb_eq in E2; subst. split; [discriminate|]. intros [H|[_ H]]; now apply str_lt_irrefl in H.
    + rewrite eqb_true_iff, str_ltb_lt. split; [intros H; right; auto|]. intros [H|[_ H]]; auto. now apply str_lt_irrefl in H.
  - apply str_eqb_neq in E1. rewrite eqb_true_iff, str_ltb_lt. split; [auto|]. intros [H|[H _]]; auto. congruence.
Qed.

Theorem after_start_key_backward k pk sik spk :
  after_start_key k pk sik spk false = true <-> (str_lt k sik \/ (k = sik /\ str_lt pk spk)).
Proof.
  unfold after_start_key. destruct (str_eqb k sik) eqn:E1; cbn [negb].
  - apply str_eqb_eq in E1; subst. destruct (str_eqb pk spk) eqn:E2; cbn [negb].
    + apply str_eqb_eq in E2; subst. split; [discriminate|]. intros [H|[_ H]]; now apply str_lt_irrefl in H.
    + apply str_eqb_neq in E2. rewrite eqb_true_iff, str_ltb_false. split.
      * intros [H|H]; [right; auto|congruence].
      * intros [H|[_ H]]; [now apply str_lt_irrefl in H|now left].
  - apply str_eqb_neq in E1. rewrite eqb_true_iff, str_ltb_false. split.
    + intros [H|H]; [now left|congruence].
    + intros [H|[H _]]; [now left|congruence].
Qed.

Section Pages.
Variable lang_match : str -> item -> item -> fmap str -> outcome bool.

(* a page never holds more items than the limit: items <= count <= limit *)
Definition page_inv (limit : nat) (s : sstate) : Prop := List.length (s_items s) <= s_count s /\ s_count s <= limit.

Lemma search_step_inv c t q hp sik spk e s s' brk :
  q_cond q = None -> 0 < q_limit q ->
  List.length (s_items s) <= s_count s -> s_count s < q_limit q ->
  search_step lang_match c t q hp sik spk e s = Ok (s', brk) ->
  List.length (s_items s') <= s_count s' /\
  (if brk then s_count s' = q_limit q else s_count s' < q_limit q).
Proof.
  intros Hc Hl I1 I2. unfold search_step. destruct e as [k [pk|]].
  - assert (forall started',
      obind (match_key lang_match c t q (match lookup pk (t_data t) with Some i => i | None => [] end))
        (fun '(ety, m, f) =>
           let matched := match lookup pk (t_data t) with Some _ => m | None => true end in
           let count' := match ety with ENone | EFilter => S (s_count s) | EKey => if matched then S (s_count s) else s_count s | ECond => s_count s end in
           Ok ({| s_started := started'; s_count := count'; s_scanned := S (s_scanned s);
                  s_last := match lookup pk (t_data t) with Some i => i | None => [] end;
                  s_items := if matched then s_items s ++ [match lookup pk (t_data t) with Some i => i | None => [] end] else s_items s;
                  s_fired := s_fired s ++ f |},
               negb (Nat.eqb (q_limit q) 0) && Nat.eqb (q_limit q) count')) = Ok (s', brk) ->
      List.length (s_items s') <= s_count s' /\ (if brk then s_count s' = q_limit q else s_count s' < q_limit q)) as Go.
    { intros st. destruct (match_key lang_match c t q _) as [[[ety m] f]| | |] eqn:M; cbn [obind]; try discriminate.
      assert (ety <> ECond) as Hne.
      { unfold match_key in M. rewrite Hc in M. cbn in M.
        destruct (q_keycond q); destruct (q_filter q); cbn in M;
          repeat match goal with
                 | M : context [interp_match ?a ?b ?c ?d ?e ?f ?g ?h] |- _ => destruct (interp_match a b c d e f g h) as [[? ?]| | |]; cbn in M
                 | M : context [if ?x then _ else _] |- _ => destruct x; cbn in M
                 end; try discriminate; inversion M; subst; discriminate. }
      intros E; inversion E; subst; clear E. cbn [s_items s_count].
      assert (negb (q_limit q =? 0) = true) as -> by (destruct (q_limit q); [lia|reflexivity]). cbn [andb].
      set (matched := match lookup pk (t_data t) with Some _ => m | None => true end).
      destruct ety; try congruence; destruct matched; rewrite ?app_length; cbn [List.length];
        match goal with |- context [Nat.eqb ?a ?b] => destruct (Nat.eqb_spec a b) end; lia. }
    destruct (s_started s); [apply Go|].
    destruct hp; [|intros E; inversion E; subst; cbn; split; [exact I1|exact I2]].
    destruct (after_start_key _ _ _ _ _); [apply Go|].
    intros E; inversion E; subst; cbn; split; [exact I1|exact I2].
  - intros E; inversion E; subst; cbn. split; [exact I1|exact I2].
Qed.

Lemma search_loop_inv c t q hp sik spk es : forall s s',
  q_cond q = None -> 0 < q_limit q ->
  List.length (s_items s) <= s_count s -> s_count s < q_limit q ->
  search_loop lang_match c t q hp sik spk es s = Ok s' ->
  List.length (s_items s') <= s_count s' /\ s_count s' <= q_limit q.
Proof.
  induction es as [|e es IH]; intros s s' Hc Hl I1 I2; cbn [search_loop].
  - intros E; inversion E; subst. split; [exact I1|lia].
  - destruct (search_step lang_match c t q hp sik spk e s) as [[s1 brk]| | |] eqn:St; cbn [obind]; try discriminate.
    destruct (search_step_inv _ _ _ _ _ _ _ _ _ _ Hc Hl I1 I2 St) as [J1 J2].
    destruct brk.
    + intros E; inversion E; subst. split; [exact J1|lia].
    + apply IH; auto.
Qed.

Theorem page_size_le_limit c t q items lek f :
  q_cond q = None -> 0 < q_limit q ->
  search_data lang_match c t q = Ok (items, lek, f) -> List.length items <= q_limit q.
Proof.
  intros Hc Hl. unfold search_data.
  match goal with |- context [search_loop lang_match c t q ?h ?a ?b ?es ?s0] => destruct (search_loop lang_match c t q h a b es s0) as [s'| | |] eqn:L end;
    cbn [obind]; try discriminate.
  apply search_loop_inv in L; auto; cbn; try lia.
  intros E; inversion E; subst. lia.
Qed.

End Pages.
