(* C03: in every reachable state every secondary index satisfies IInv, provided UpdateTable never changes the
   declared type of an attribute (DynamoDB does not allow it either). *)
From Coq Require Import List Bool Arith Lia Sorting.Sorted Permutation.
From Coq Require Import Strings.Byte Strings.String.
From Minidyn Require Import Base.Str Base.FMap Base.Outcome Model.Value Model.Key Model.Index Model.Table Model.Client.
From Minidyn Require Import Proofs.FMapFacts Proofs.SortFacts Proofs.TableInv Proofs.IndexInv Proofs.TableIndexInv Proofs.ClientInv.
Import ListNotations.

(* new attribute definitions agree with the ones the table already has *)
Definition defs_stable (old : fmap str) (new : list (str * str)) : bool :=
  forallb (fun kv => match lookup (fst kv) old with Some ty => str_eqb ty (snd kv) | None => true end) new.

Lemma set_defs_stable old0 new : forall cur,
  defs_stable old0 new = true ->
  (forall n, mem n old0 = true -> lookup n cur = lookup n old0) ->
  forall n, mem n old0 = true -> lookup n (set_defs cur new) = lookup n old0.
Proof.
  induction new as [|[k ty] new IH]; intros cur Hs Hc n Hn; cbn.
  - now apply Hc.
  - cbn in Hs. apply andb_true_iff in Hs as [H1 H2].
    unfold set_defs in *. cbn. apply IH; auto.
    intros n' Hn'. rewrite lookup_insert. destruct (str_eqb n' k) eqn:E.
    + apply str_eqb_eq in E; subst n'. cbn in H1.
      unfold mem in Hn'. destruct (lookup k old0) as [ty0|] eqn:L; [|discriminate].
      apply str_eqb_eq in H1. now subst.
    + now apply Hc.
Qed.

Lemma get_key_defs_agree ks defs defs' it :
  def_type defs' (hashk ks) = def_type defs (hashk ks) ->
  (rangek ks = [] \/ def_type defs' (rangek ks) = def_type defs (rangek ks)) ->
  get_key ks defs' it = get_key ks defs it.
Proof.
  intros H1 H2. unfold get_key, key_value. rewrite H1.
  destruct (item_value it (hashk ks) (def_type defs (hashk ks))); auto.
  destruct (rangek ks) eqn:R; auto.
  destruct H2 as [H2|H2]; [discriminate|]. now rewrite H2.
Qed.

Lemma IInv_defs_agree defs defs' data ix :
  (forall it, get_key (ix_ks ix) defs' it = get_key (ix_ks ix) defs it) ->
  IInv defs data ix -> IInv defs' data ix.
Proof.
  intros Hg H. split.
  - apply (ii_wf _ _ _ H).
  - intros pk ik. rewrite (ii_refs _ _ _ H). unfold index_key_of.
    split; intros [it [L K]]; exists it; split; auto; [rewrite Hg|rewrite <- Hg]; exact K.
  - apply (ii_sorted _ _ _ H).
Qed.

Lemma In_remove_entry {V} (m : fmap V) k n v : In (n, v) (remove k m) -> In (n, v) m.
Proof.
  induction m as [|[k0 v0] m IH]; cbn; auto.
  destruct (str_eqb k k0); cbn; auto. intros [H|H]; auto.
Qed.

Lemma In_insert_entry {V} (m : fmap V) k v n x : In (n, x) (insert k v m) -> (n = k /\ x = v) \/ In (n, x) m.
Proof.
  induction m as [|[k0 v0] m IH]; cbn; intros H.
  - destruct H as [H|[]]. inversion H; auto.
  - destruct (str_compare k k0); cbn in H.
    + destruct H as [H|H]; [inversion H; auto|auto].
    + destruct H as [H|H]; [inversion H; auto|auto].
    + destruct H as [H|H]; [auto|]. apply IH in H as [H|H]; auto.
Qed.

Section Reach.
Variable lang_match : str -> item -> item -> fmap str -> outcome bool.
Variable lang_update : str -> item -> item -> fmap str -> outcome item.
Variable flavour : sdk.

Definition EX (t : table) (defs : list (str * str)) : Prop := defs_stable (t_defs t) defs = true.
Definition UAny (c : ictx) (t : table) (k : item) (e : str) (names : fmap str) (vals : item) : Prop := True.

Theorem XInv_reachable ops cn tn c t :
  run_env EX UAny lang_match lang_update flavour [] ops ->
  lookup cn (fst (run lang_match lang_update flavour [] ops)) = Some c ->
  lookup tn (c_tables c) = Some t -> XInv t.
Proof.
  apply (P_reachable XInv EX UAny lang_match lang_update flavour).
  - apply XInv_put.
  - intros c0 t0 k e cond names vals H _. now apply XInv_update.
  - apply XInv_delete_op.
  - intros t0. apply XInv_clear.
  - intros n h r defs. split; [split; cbn; [apply wf_nil|reflexivity]|]. intros n0 ix [].
  - intros t0 ppr d t'. apply XInv_add_global_index.
  - (* a local index on an empty table *)
    intros t0 d t' [HT HI] Hd Ea. unfold add_local_index in Ea.
    destruct (check_schema (t_defs t0) (id_hash d) (id_range d)) as [[h r]|] eqn:C; [|discriminate].
    inversion Ea; subst; clear Ea. split; [exact HT|].
    cbn [with_indexes t_indexes t_defs t_data]. intros n ix Hin.
    apply In_insert_entry in Hin as [[-> ->]|Hin]; [|now apply (HI n ix)].
    split.
    + rewrite Hd. apply IInv_empty.
    + unfold ix_declared; cbn. unfold check_schema in C.
      destruct (id_hash d) as [[|c0 hk]|]; try discriminate.
      destruct (mem (c0 :: hk) (t_defs t0)) eqn:M; [|discriminate].
      destruct (id_range d) as [[|c1 rk]|]; inversion C; subst; auto.
      destruct (mem (c1 :: rk) (t_defs t0)) eqn:M2; inversion C; subst; auto.
  - (* attribute definitions change compatibly *)
    intros t0 defs [HT HI] Hs. unfold EX in Hs. split; [exact HT|].
    cbn [t_indexes t_defs t_data]. intros n ix Hin.
    destruct (HI n ix Hin) as [H1 [D1 D2]].
    assert (forall a, mem a (t_defs t0) = true -> lookup a (set_defs (t_defs t0) defs) = lookup a (t_defs t0)) as Hl.
    { intros a Ha. apply (set_defs_stable (t_defs t0) defs (t_defs t0)); auto. }
    assert (forall a, mem a (t_defs t0) = true -> def_type (set_defs (t_defs t0) defs) a = def_type (t_defs t0) a) as Hd.
    { intros a Ha. unfold def_type. now rewrite Hl. }
    split.
    + apply (IInv_defs_agree (t_defs t0)); auto. intros it. apply get_key_defs_agree; auto.
      destruct D2 as [D2|D2]; auto.
    + split.
      * unfold mem. rewrite Hl by exact D1. exact D1.
      * destruct D2 as [D2|D2]; auto. right. unfold mem. rewrite Hl by exact D2. exact D2.
  - intros t0 n [HT HI]. split; [exact HT|]. cbn [with_indexes t_indexes t_defs t_data].
    intros n0 ix Hin. apply In_remove_entry in Hin. now apply (HI n0 ix).
Qed.

End Reach.
