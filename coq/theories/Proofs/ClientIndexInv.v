(* C03: in every reachable state every secondary index satisfies IInv, provided UpdateTable never changes the
   declared type of an attribute (DynamoDB does not allow it either). *)
From Coq Require Import List Bool Arith Lia Sorting.Sorted Permutation.
From Coq Require Import Strings.Byte Strings.String.
From Minidyn Require Import Base.Str Base.FMap Base.Outcome Model.Value Model.Key Model.Index Model.Table Model.Client.
From Minidyn Require Import Proofs.FMapFacts Proofs.SortFacts Proofs.TableInv Proofs.IndexInv Proofs.TableIndexInv Proofs.ClientInv.
Import ListNotations.

(* new attribute definitions agree with the ones the table already has *)
Definition defs_stable (old : fmap str) (new : list (str * str)) : bool :=
  forallb (fun kv => match lookup (fst kv) old with Some ty => str_eqb ty (snd kv) | None => true end) new.

Lemma set_defs_stable old0 new : forall cur,
  defs_stable old0 new = true ->
  (forall n, mem n old0 = true -> lookup n cur = lookup n old0) ->
  forall n, mem n old0 = true -> lookup n (set_defs cur new) = lookup n old0.
Proof.
  induction new as [|[k ty] new IH]; intros cur Hs Hc n Hn; cbn.
  - now apply Hc.
  - cbn in Hs. apply andb_true_iff in Hs as [H1 H2].
    unfold set_defs in *. cbn. apply IH; auto.
    intros n' Hn'. rewrite lookup_insert. destruct (str_eqb n' k) eqn:E.
    + apply str_eqb_eq in E; subst n'. cbn in H1.
      unfold mem in Hn'. destruct (lookup k old0) as [ty0|] eqn:L; [|discriminate].
      apply str_eqb_eq in H1. now subst.
    + now apply Hc.
Qed.

(* the same for the attributes protected by Table.CheckAttributeDefinition (defs_ok): the keys of the table and of its
   indexes keep their declared type *)
Lemma set_defs_protected old0 prot new : forall cur,
  forallb (fun kv => match lookup (fst kv) old0 with
                     | Some ty => negb (mem_str (fst kv) prot) || str_eqb ty (snd kv)
                     | None => true end) new = true ->
  (forall n, mem_str n prot = true -> mem n old0 = true -> lookup n cur = lookup n old0) ->
  forall n, mem_str n prot = true -> mem n old0 = true -> lookup n (set_defs cur new) = lookup n old0.
Proof.
  induction new as [|[k ty] new IH]; intros cur Hs Hc n Hp Hn; cbn.
  - now apply Hc.
  - cbn in Hs. apply andb_true_iff in Hs as [H1 H2].
    unfold set_defs in *. cbn. apply IH; auto.
    intros n' Hp' Hn'. rewrite lookup_insert. destruct (str_eqb n' k) eqn:E.
    + apply str_eqb_eq in E; subst n'. cbn in H1.
      unfold mem in Hn'. destruct (lookup k old0) as [ty0|] eqn:L; [|discriminate].
      rewrite Hp' in H1. cbn in H1. apply str_eqb_eq in H1. now subst.
    + now apply Hc.
Qed.

Lemma used_key_attrs_index t n ix :
  In (n, ix) (t_indexes t) ->
  mem_str (hashk (ix_ks ix)) (used_key_attrs t) = true /\ mem_str (rangek (ix_ks ix)) (used_key_attrs t) = true.
Proof.
  intros Hin. unfold used_key_attrs. split; apply mem_str_In; right; right; apply in_flat_map; exists (n, ix); split; auto; cbn; auto.
Qed.

Lemma used_key_attrs_table t :
  mem_str (hashk (t_ks t)) (used_key_attrs t) = true /\ mem_str (rangek (t_ks t)) (used_key_attrs t) = true.
Proof. unfold used_key_attrs. split; apply mem_str_In; cbn; auto. Qed.

Lemma defs_ok_protected t defs a :
  defs_ok t defs = true -> mem_str a (used_key_attrs t) = true -> mem a (t_defs t) = true ->
  def_type (set_defs (t_defs t) defs) a = def_type (t_defs t) a.
Proof.
  intros Hok Hu Hm. unfold def_type.
  rewrite (set_defs_protected (t_defs t) (used_key_attrs t) defs (t_defs t)); auto.
Qed.

Lemma get_key_defs_agree ks defs defs' it :
  def_type defs' (hashk ks) = def_type defs (hashk ks) ->
  (rangek ks = [] \/ def_type defs' (rangek ks) = def_type defs (rangek ks)) ->
  get_key ks defs' it = get_key ks defs it.
Proof.
  intros H1 H2. unfold get_key, key_value. rewrite H1.
  destruct (item_value it (hashk ks) (def_type defs (hashk ks))); auto.
  destruct (rangek ks) eqn:R; auto.
  destruct H2 as [H2|H2]; [discriminate|]. now rewrite H2.
Qed.

Lemma IInv_defs_agree defs defs' data ix :
  (forall it, get_key (ix_ks ix) defs' it = get_key (ix_ks ix) defs it) ->
  IInv defs data ix -> IInv defs' data ix.
Proof.
  intros Hg H. split.
  - apply (ii_wf _ _ _ H).
  - intros pk ik. rewrite (ii_refs _ _ _ H). unfold index_key_of.
    split; intros [it [L K]]; exists it; split; auto; [rewrite Hg|rewrite <- Hg]; exact K.
  - apply (ii_sorted _ _ _ H).
Qed.

Lemma In_remove_entry {V} (m : fmap V) k n v : In (n, v) (remove k m) -> In (n, v) m.
Proof.
  induction m as [|[k0 v0] m IH]; cbn; auto.
  destruct (str_eqb k k0); cbn; auto. intros [H|H]; auto.
Qed.

Lemma In_insert_entry {V} (m : fmap V) k v n x : In (n, x) (insert k v m) -> (n = k /\ x = v) \/ In (n, x) m.
Proof.
  induction m as [|[k0 v0] m IH]; cbn; intros H.
  - destruct H as [H|[]]. inversion H; auto.
  - destruct (str_compare k k0); cbn in H.
    + destruct H as [H|H]; [inversion H; auto|auto].
    + destruct H as [H|H]; [inversion H; auto|auto].
    + destruct H as [H|H]; [auto|]. apply IH in H as [H|H]; auto.
Qed.

Section Reach.
Variable lang_match : str -> item -> item -> fmap str -> outcome bool.
Variable lang_update : str -> item -> item -> fmap str -> outcome item.
Variable flavour : sdk.

Definition UAny (c : ictx) (t : table) (k : item) (e : str) (names : fmap str) (vals : item) : Prop := True.

Lemma run_env_UAny ops : forall w, run_env UAny lang_match lang_update flavour w ops.
Proof.
  induction ops as [|o ops IH]; intros w; cbn; auto. split; auto.
  destruct (snd o); cbn; auto. intros; exact I.
Qed.

Theorem XInv_reachable ops cn tn c t :
  lookup cn (fst (run lang_match lang_update flavour [] ops)) = Some c ->
  lookup tn (c_tables c) = Some t -> XInv t.
Proof.
  apply (P_reachable XInv UAny lang_match lang_update flavour); [| | | | | | | | |apply run_env_UAny].
  - apply XInv_put.
  - intros c0 t0 k e cond names vals H _. now apply XInv_update.
  - apply XInv_delete_op.
  - intros t0. apply XInv_clear.
  - intros n oh orr h r defs _. split; [split; cbn; [apply wf_nil|reflexivity]|]. intros n0 ix [].
  - intros t0 ppr d t'. apply XInv_add_global_index.
  - (* a local index on an empty table *)
    intros t0 d t' [HT HI] Hd Ea. unfold add_local_index in Ea.
    destruct (check_schema (t_defs t0) (id_hash d) (id_range d)) as [[h r]|] eqn:C; [|discriminate].
    inversion Ea; subst; clear Ea. split; [exact HT|].
    cbn [with_indexes t_indexes t_defs t_data]. intros n ix Hin.
    apply In_insert_entry in Hin as [[-> ->]|Hin]; [|now apply (HI n ix)].
    split.
    + rewrite Hd. apply IInv_empty.
    + unfold ix_declared; cbn. unfold check_schema in C.
      destruct (id_hash d) as [[|c0 hk]|]; try discriminate.
      destruct (mem (c0 :: hk) (t_defs t0)) eqn:M; [|discriminate].
      destruct (id_range d) as [[|c1 rk]|].
      * destruct (key_typed _ _); inversion C; subst; auto.
      * destruct (mem (c1 :: rk) (t_defs t0)) eqn:M2; [|discriminate].
        destruct (key_typed _ _ && key_typed _ _); inversion C; subst; auto.
      * destruct (key_typed _ _); inversion C; subst; auto.
  - (* attribute definitions change compatibly *)
    intros t0 defs [HT HI] Hs. split; [exact HT|].
    cbn [t_indexes t_defs t_data]. intros n ix Hin.
    destruct (HI n ix Hin) as [H1 [D1 D2]].
    destruct (used_key_attrs_index t0 n ix Hin) as [U1 U2].
    assert (forall a, mem_str a (used_key_attrs t0) = true -> mem a (t_defs t0) = true ->
                      lookup a (set_defs (t_defs t0) defs) = lookup a (t_defs t0)) as Hl.
    { intros a Hu Ha. apply (set_defs_protected (t_defs t0) (used_key_attrs t0) defs (t_defs t0)); auto. }
    assert (forall a, mem_str a (used_key_attrs t0) = true -> mem a (t_defs t0) = true ->
                      def_type (set_defs (t_defs t0) defs) a = def_type (t_defs t0) a) as Hd.
    { intros a Hu Ha. unfold def_type. now rewrite Hl. }
    split.
    + apply (IInv_defs_agree (t_defs t0)); auto. intros it. apply get_key_defs_agree; auto.
      destruct D2 as [D2|D2]; auto.
    + split.
      * unfold mem. rewrite Hl by auto. exact D1.
      * destruct D2 as [D2|D2]; auto. right. unfold mem. rewrite Hl by auto. exact D2.
  - intros t0 n [HT HI]. split; [exact HT|]. cbn [with_indexes t_indexes t_defs t_data].
    intros n0 ix Hin. apply In_remove_entry in Hin. now apply (HI n0 ix).
Qed.

End Reach.
