(* C16: usage restrictions; facts about the tables generated from the sources. *)
From Coq Require Import List Bool Arith NArith Lia.
From Coq Require Import Strings.Byte Strings.String.
From Minidyn Require Import Base.Str Base.FMap Base.Outcome Model.Value Model.Key Model.Index Model.Table Model.Client
  Model.Token Gen.Tables Model.Lexer Model.Parser Model.Object Model.Eval Model.Update Model.Language.
Import ListNotations.

(* ---- the generated constants are the ones the model's proofs were written for; both clients agree ---- *)
Lemma batch_limits_agree : batch_limit_v1 = 25 /\ batch_limit_v2 = 25.
Proof. split; reflexivity. Qed.

Lemma regexes_agree :
  names_regex_v1 = bs "^#[A-Za-z0-9_]+$" /\ names_regex_v2 = bs "^#[A-Za-z0-9_]+$" /\
  values_regex_v1 = bs "^:[A-Za-z0-9_]+$" /\ values_regex_v2 = bs "^:[A-Za-z0-9_]+$".
Proof. repeat split; reflexivity. Qed.

Lemma emulating_errors_agree :
  emulating_errors_v1 = emulating_errors_v2 /\
  assoc (bs "internal_server") emulating_errors_v2 = Some (Some FInternal) /\
  assoc (bs "deprecated") emulating_errors_v2 = Some (Some FDeprecated) /\
  assoc (bs "none") emulating_errors_v2 = Some None.
Proof. repeat split; reflexivity. Qed.

(* ---- the reserved-word list: 573 upper-case, distinct words ---- *)
Fixpoint nodup_b (l : list str) : bool :=
  match l with [] => true | x :: t => negb (mem_str x t) && nodup_b t end.

Lemma reserved_table_facts :
  List.length reserved_words = 573 /\
  forallb (fun w => str_eqb (to_upper w) w) reserved_words = true /\
  nodup_b reserved_words = true.
Proof. vm_compute. repeat split; reflexivity. Qed.

Lemma upper_byte_idem c : upper_byte (upper_byte c) = upper_byte c.
Proof. destruct c; reflexivity. Qed.

Lemma to_upper_idem s : to_upper (to_upper s) = to_upper s.
Proof. unfold to_upper. rewrite map_map. apply map_ext. apply upper_byte_idem. Qed.

(* the check does not depend on the casing of the word *)
Lemma is_reserved_any_case w : is_reserved (to_upper w) = is_reserved w.
Proof. unfold is_reserved. now rewrite to_upper_idem. Qed.

(* ---- a reserved word in a bare (evaluated) position makes the evaluation fail ---- *)
Lemma reserved_ident_rejected e t : is_reserved (lit t) = true -> eval e (EIdent t) = EErr.
Proof. intros H. cbn. unfold eval_ident. now rewrite H. Qed.

Lemma reserved_in_comparison_left e op t r : is_reserved (lit t) = true -> eval e (EInfix op (EIdent t) r) = EErr.
Proof.
  intros H. cbn. destruct (is_keyword_op op); cbn; auto.
  unfold eval_ident. now rewrite H.
Qed.

Lemma reserved_in_comparison_right e op l t : is_reserved (lit t) = true -> eval e (EInfix op l (EIdent t)) = EErr.
Proof.
  intros H. cbn [eval is_ident]. destruct (is_keyword_op op); destruct (is_ident l); cbn [andb orb]; auto;
    destruct (eval e l); cbn [ebind]; auto; cbn; unfold eval_ident; now rewrite H.
Qed.

Lemma reserved_as_path_base e t0 t idx : is_reserved (lit t) = true -> eval e (EIndex t0 (EIdent t) idx) = EErr.
Proof.
  intros H. cbn. unfold eval_index. cbn.
  destruct (eval_index_value e t0 idx); auto.
  unfold eval_ident. now rewrite H.
Qed.

Lemma reserved_as_first_argument e t0 f t rest :
  is_reserved (lit t) = true -> eval e (ECall t0 (EIdent f) (Some (EIdent t :: rest))) = EErr.
Proof.
  intros H. cbn [eval]. destruct (assoc (lit f) functions) as [[[fu ar] impl]|]; auto.
  destruct fu; auto. cbn [eval ebind]. unfold eval_ident. rewrite H. reflexivity.
Qed.

(* a condition that is just a comparison on a reserved bare name is rejected by Language.Match *)
Theorem reserved_condition_rejected expr it vals names op t r :
  parse_cond expr = Some (EInfix op (EIdent t) r, 0) -> is_reserved (lit t) = true ->
  mem [] names = false ->
  lang_match expr it vals names = Err Syntax \/ lang_match expr it vals names = Err Unsupported.
Proof.
  intros P H Hn. unfold lang_match. rewrite P. cbn [Nat.eqb negb]. rewrite Hn.
  destruct (add_attributes [] it) as [st1|]; auto. destruct (add_attributes st1 vals) as [st2|]; auto.
  unfold eval_conditional. rewrite reserved_in_comparison_left by exact H. now left.
Qed.

(* ---- batch rules ---- *)
Theorem batch_limit_exact lm s c reqs :
  c_failure c = None ->
  forallb wreq_ok (flat_map snd reqs) = true ->
  (25 <? List.length (flat_map snd reqs) = true -> snd (batch_write lm s c reqs) = err_obs Validation) /\
  (25 <? List.length (flat_map snd reqs) = false ->
   snd (batch_write lm s c reqs) = err_obs Validation -> False \/
   flat_map (prevalidate_table c) reqs <> [] \/
   exists c' un o, batch_write_tables lm s c reqs [] = (c', un, Some o)).
Proof.
  intros Hf Hok. unfold batch_write. destruct (v1_empty_batch s c reqs) eqn:E0.
  { (* SDK v1, no table entry: refused as an invalid parameter; there are no requests at all *)
    unfold v1_empty_batch in E0. destruct s; [|discriminate]. rewrite Hf in E0. destruct reqs; [|discriminate].
    cbn. split; [discriminate|]. intros _ H. inversion H. }
  unfold batch_write_core, forced_blocks. rewrite Hf, Hok. cbv iota. cbn [negb andb].
  change batch_limit with 25. split.
  - intros ->. reflexivity.
  - intros ->. intros H.
    destruct (flat_map (prevalidate_table c) reqs) eqn:E.
    + destruct (batch_write_tables lm s c reqs []) as [[c' un] [o|]] eqn:B; [right; right; eauto|].
      cbn in H. discriminate.
    + right. left. discriminate.
Qed.

Theorem write_request_shape lm s c reqs :
  c_failure c = None ->
  forallb wreq_ok (flat_map snd reqs) = false -> batch_write lm s c reqs = (c, err_obs Validation).
Proof.
  intros Hf H. unfold batch_write. destruct (v1_empty_batch s c reqs) eqn:E0.
  { unfold v1_empty_batch in E0. destruct s; [|discriminate]. rewrite Hf in E0. destruct reqs; [|discriminate]. cbn in H. discriminate. }
  unfold batch_write_core, forced_blocks. now rewrite Hf, H.
Qed.

(* ---- expression attribute names and values ---- *)
Theorem unused_name_rejected names vals exprs n :
  In n names -> contains_sub (trim (join (bs " ") exprs)) n = false -> validate_expr_attrs names vals exprs = false.
Proof.
  intros Hin Hc. unfold validate_expr_attrs.
  assert (forallb (fun n0 => contains_sub (trim (join (bs " ") exprs)) n0) names = false) as F.
  { apply not_true_is_false. intros Ht. rewrite forallb_forall in Ht. apply Ht in Hin. congruence. }
  destruct (trim (join (bs " ") exprs)); destruct names; try (inversion Hin; fail); destruct vals; cbn [andb] in *; rewrite ?F; auto.
Qed.

Theorem malformed_name_rejected names vals exprs n :
  In n names -> placeholder_ok "#"%byte n = false -> validate_expr_attrs names vals exprs = false.
Proof.
  intros Hin Hc. unfold validate_expr_attrs.
  assert (forallb (placeholder_ok "#"%byte) names = false) as F.
  { apply not_true_is_false. intros Ht. rewrite forallb_forall in Ht. apply Ht in Hin. congruence. }
  destruct (trim (join (bs " ") exprs)); destruct names; try (inversion Hin; fail); destruct vals; cbn in *;
    rewrite ?F, ?andb_false_r; auto.
Qed.

(* ---- placeholders that were never supplied, reserved words in any position (fixes 1740da6, fb4521f) ---- *)
Theorem undefined_name_rejected names vals exprs :
  undefined_name_in (trim (join (bs " ") exprs)) names = true -> validate_expr_attrs names vals exprs = false.
Proof.
  intros H. unfold validate_expr_attrs. rewrite H.
  destruct (trim (join (bs " ") exprs)) eqn:G.
  - vm_compute in H. discriminate.
  - cbn [negb]. now rewrite andb_false_r, andb_false_l.
Qed.

Theorem reserved_word_rejected names vals exprs e :
  In e exprs -> reserved_word_in e = true -> trim (join (bs " ") exprs) <> [] -> validate_expr_attrs names vals exprs = false.
Proof.
  intros Hin Hr Hg. unfold validate_expr_attrs.
  assert (existsb reserved_word_in exprs = true) as -> by (apply existsb_exists; eauto).
  destruct (trim (join (bs " ") exprs)); [congruence|]. cbn [negb]. now rewrite andb_false_r.
Qed.

(* a reserved word is found wherever it stands as a name: any identifier token that is not followed by "(" *)
Theorem reserved_in_tokens_spec pre a b post :
  ty a = IDENT -> ty b <> LPAREN -> is_reserved (lit a) = true -> reserved_in_tokens (pre ++ a :: b :: post) = true.
Proof.
  intros Ha Hb Hr. induction pre as [|x pre IH]; cbn [app reserved_in_tokens].
  - rewrite Ha, Hr. cbn. destruct (tt_beq (ty b) LPAREN) eqn:E; [apply internal_tt_dec_bl in E; congruence|reflexivity].
  - destruct (pre ++ a :: b :: post) eqn:E; [destruct pre; discriminate|]. rewrite IH. apply orb_true_r.
Qed.
