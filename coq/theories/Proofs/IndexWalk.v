(* C02 / C04 on secondary indexes: under the index invariant IInv the lock-step walk of SearchData over sortedKeys and
   the sorted refs yields exactly the refs in (index key, primary key) order (reverse order when scanning backward),
   every entry with its primary key: no entry is skipped or mispaired. *)
From Coq Require Import List Bool Arith Lia Sorting.Sorted Permutation.
From Coq Require Import Strings.Byte Strings.String.
From Minidyn Require Import Base.Str Base.FMap Base.Outcome Model.Value Model.Key Model.Index Model.Table.
From Minidyn Require Import Proofs.FMapFacts Proofs.SortFacts Proofs.IndexInv.
Import ListNotations.

(* refs are (primary key, index key) pairs; the order is by index key, then primary key *)
Definition rlt (a b : str * str) : Prop := str_lt (snd a) (snd b) \/ (snd a = snd b /\ str_lt (fst a) (fst b)).
Definition rle (a b : str * str) : Prop := rlt a b \/ a = b.

Lemma ref_ltb_rlt a b : ref_ltb a b = true <-> rlt a b.
Proof.
  unfold ref_ltb, rlt, str_lt. destruct (str_compare (snd a) (snd b)) eqn:E.
  - apply str_compare_eq in E. rewrite str_ltb_lt. unfold str_lt. split; [intros H; right; auto|intros [H|[_ H]]; [congruence|auto]].
  - split; auto.
  - split; [discriminate|]. intros [H|[H _]]; [discriminate|]. apply str_compare_eq in H. congruence.
Qed.

Lemma ref_ltb_false a b : ref_ltb a b = false -> rle b a.
Proof.
  unfold ref_ltb, rle, rlt, str_lt. rewrite (str_compare_antisym (snd a) (snd b)).
  destruct (str_compare (snd a) (snd b)) eqn:E; cbn; intros H; try discriminate.
  - apply str_compare_eq in E. apply str_ltb_false_le in H. destruct H as [H|H].
    + left. right. auto.
    + right. destruct a, b; cbn in *; congruence.
  - left. now left.
Qed.

Lemma rlt_trans a b c : rlt a b -> rlt b c -> rlt a c.
Proof.
  unfold rlt. intros [H1|[E1 H1]] [H2|[E2 H2]].
  - left. eapply str_lt_trans; eauto.
  - left. now rewrite <- E2.
  - left. now rewrite E1.
  - right. split; [congruence|eapply str_lt_trans; eauto].
Qed.

Lemma rlt_irrefl a : ~ rlt a a.
Proof. intros [H|[_ H]]; now apply str_lt_irrefl in H. Qed.

Lemma rle_trans a b c : rle a b -> rle b c -> rle a c.
Proof. intros [H1| ->] [H2| ->]; [left; eapply rlt_trans; eauto|now left|now left|now right]. Qed.

Lemma rle_snd a b : rle a b -> str_le (snd a) (snd b).
Proof. intros [[H|[E _]]| ->]; [now left|right; auto|apply str_le_refl]. Qed.

Lemma ins_ref_perm x l : Permutation (ins_ref x l) (x :: l).
Proof. induction l as [|y l IH]; cbn; auto. destruct (ref_ltb x y); auto. rewrite IH. apply perm_swap. Qed.

Lemma ins_ref_sorted x l : StronglySorted rle l -> StronglySorted rle (ins_ref x l).
Proof.
  induction l as [|y l IH]; intros H; cbn; [repeat constructor|].
  inversion H as [|? ? Hs Hall]; subst. destruct (ref_ltb x y) eqn:E.
  - apply ref_ltb_rlt in E. constructor; auto. constructor; [now left|].
    eapply Forall_impl; [|exact Hall]. intros a Ha. eapply rle_trans; [left; exact E|exact Ha].
  - apply ref_ltb_false in E. constructor; [apply IH; auto|].
    apply Forall_forall. intros z Hz. rewrite Forall_forall in Hall.
    apply (Permutation_in _ (ins_ref_perm x l)) in Hz. destruct Hz as [<-|Hz]; auto.
Qed.

Definition asc_refs (refs : fmap str) : list (str * str) := fold_right ins_ref [] refs.

Lemma asc_refs_perm refs : Permutation (asc_refs refs) refs.
Proof. induction refs as [|x l IH]; cbn; auto. rewrite ins_ref_perm. now constructor. Qed.

Lemma asc_refs_sorted refs : StronglySorted rle (asc_refs refs).
Proof. induction refs as [|x l IH]; cbn; [constructor|]. now apply ins_ref_sorted. Qed.

Lemma sorted_rle_wsorted l : StronglySorted rle l -> wsorted (map snd l).
Proof.
  induction l as [|a l IH]; intros H; cbn; [constructor|]. inversion H as [|? ? Hs Hall]; subst.
  apply wsorted_cons; auto. apply Forall_forall. intros z Hz. apply in_map_iff in Hz as [b [<- Hb]].
  rewrite Forall_forall in Hall. now apply rle_snd, Hall.
Qed.

(* the index keys of the sorted refs are the sortedKeys *)
Lemma asc_refs_keys refs : map snd (asc_refs refs) = sort_strings (map snd refs).
Proof.
  apply sort_strings_unique; [apply sorted_rle_wsorted, asc_refs_sorted|].
  apply Permutation_map, asc_refs_perm.
Qed.

(* distinct primary keys: the order is strict *)
Lemma sorted_rle_strict l : NoDup (map fst l) -> StronglySorted rle l -> StronglySorted rlt l.
Proof.
  induction l as [|a l IH]; intros Hn H; [constructor|]. inversion H as [|? ? Hs Hall]; subst.
  cbn in Hn. inversion Hn as [|? ? Hnot Hn']; subst. constructor; auto.
  apply Forall_forall. intros z Hz. rewrite Forall_forall in Hall. destruct (Hall z Hz) as [Hlt| ->]; auto.
  exfalso. apply Hnot. now apply in_map.
Qed.

Lemma keys_NoDup {V} (m : fmap V) : wf m -> NoDup (map fst m).
Proof. intros H. apply ssorted_NoDup. exact H. Qed.

Lemma In_lookup {V} (m : fmap V) k v : wf m -> In (k, v) m -> lookup k m = Some v.
Proof.
  induction m as [|[k' v'] t IH]; intros Hw Hin; [destruct Hin|]. cbn.
  apply ssorted_cons_inv in Hw as [Hw Hall]. destruct Hin as [E|Hin].
  - inversion E; subst. now rewrite str_eqb_refl.
  - destruct (str_eqb k k') eqn:E; [|now apply IH].
    apply str_eqb_eq in E; subst. rewrite Forall_forall in Hall.
    assert (str_lt k' k') as C by (apply Hall; apply (in_map fst) in Hin; exact Hin).
    now apply str_lt_irrefl in C.
Qed.

Lemma asc_refs_strict refs : wf refs -> StronglySorted rlt (asc_refs refs).
Proof.
  intros Hw. apply sorted_rle_strict; [|apply asc_refs_sorted].
  eapply Permutation_NoDup; [apply Permutation_map, Permutation_sym, asc_refs_perm|]. now apply keys_NoDup.
Qed.

(* the walk pairs every position with its ref *)
Lemma walk_index_paired l : walk_index (map snd l) l = map (fun r : str * str => (snd r, Some (fst r))) l.
Proof. induction l as [|[pk ik] l IH]; cbn; auto. now rewrite str_eqb_refl, IH. Qed.

(* the entries SearchData iterates over, for an index satisfying IInv, in either direction *)
Theorem index_entries defs data ix (fwd : bool) :
  IInv defs data ix ->
  walk_index (if fwd then ix_sorted ix else rev (ix_sorted ix)) (sorted_refs ix fwd) =
  map (fun r : str * str => (snd r, Some (fst r))) (sorted_refs ix fwd).
Proof.
  intros H. rewrite (ii_sorted _ _ _ H), <- asc_refs_keys. unfold sorted_refs. fold (asc_refs (ix_refs ix)).
  destruct fwd; [apply walk_index_paired|].
  rewrite <- map_rev. apply walk_index_paired.
Qed.

(* membership: the entries are exactly the refs, i.e. (by IInv) exactly the stored items that have the index key *)
Lemma sorted_refs_In defs data ix (fwd : bool) pk ik :
  IInv defs data ix ->
  (In (pk, ik) (sorted_refs ix fwd) <-> exists it, lookup pk data = Some it /\ index_key_of (ix_ks ix) defs it = Some ik).
Proof.
  intros H. rewrite <- (ii_refs _ _ _ H). unfold sorted_refs. fold (asc_refs (ix_refs ix)).
  assert (In (pk, ik) (asc_refs (ix_refs ix)) <-> lookup pk (ix_refs ix) = Some ik) as A.
  { split.
    - intros Hin. apply (Permutation_in _ (asc_refs_perm _)) in Hin. apply In_lookup; auto. apply (ii_wf _ _ _ H).
    - intros L. apply (Permutation_in _ (Permutation_sym (asc_refs_perm _))). now apply lookup_In. }
  destruct fwd; [exact A|]. rewrite <- in_rev. exact A.
Qed.

(* ---------- C02 through an index: the unlimited read ---------- *)
From Minidyn Require Import Proofs.TableInv Proofs.Search.

Section IndexRead.
Variable lang_match : str -> item -> item -> fmap str -> outcome bool.

(* an unlimited Query/Scan through an index satisfying IInv evaluates the request on exactly the items that have the
   index key attributes, in (index key, primary key) order (reverse when backward), and returns the matching ones *)
Theorem search_unlimited_index c t q n ix :
  q_index q = Some n -> lookup n (t_indexes t) = Some ix -> IInv (t_defs t) (t_data t) ix -> unlimited q ->
  search_data lang_match c t q =
  omap (fun '(l, f) => (l, [], f))
       (select_items lang_match c t q (map (fun r : str * str => get_item t (fst r)) (sorted_refs ix (q_forward q)))).
Proof.
  intros Hi Hl HI [Hlim He]. unfold search_data. rewrite Hi, Hl, He. cbn [parse_start_key has_start_key negb].
  rewrite (index_entries _ _ _ _ HI).
  set (refs := sorted_refs ix (q_forward q)).
  assert (forall e, In e (map (fun r : str * str => (snd r, fst r)) refs) -> mem (snd e) (t_data t) = true) as Hm.
  { intros e Hin. apply in_map_iff in Hin as [[pk ik] [<- Hr]]. cbn.
    apply (sorted_refs_In _ _ _ _ _ _ HI) in Hr as [it [L _]]. unfold mem. now rewrite L. }
  match goal with |- context [search_loop lang_match c t q ?hp ?sik ?spk _ ?s0] =>
    pose proof (loop_unlimited lang_match c t q hp sik spk (map (fun r : str * str => (snd r, fst r)) refs) s0 Hlim eq_refl Hm) as L end.
  rewrite !map_map in L. cbn [fst snd s_items s_fired app] in L.
  match goal with |- context [search_loop lang_match c t q ?hp ?sik ?spk ?es ?s0] =>
    destruct (search_loop lang_match c t q hp sik spk es s0) as [s'| | |] eqn:R end; cbn [obind] in *.
  - rewrite Hlim. cbn [Nat.eqb].
    destruct (select_items lang_match c t q _) as [[l f]| | |]; cbn in L; try discriminate.
    inversion L; subst. cbn. destruct (s_last s'); reflexivity.
  - destruct (select_items lang_match c t q _) as [[l f]| | |]; cbn in L; try discriminate. now inversion L.
  - destruct (select_items lang_match c t q _) as [[l f]| | |]; cbn in L; try discriminate. now inversion L.
  - destruct (select_items lang_match c t q _) as [[l f]| | |]; cbn in L; try discriminate. reflexivity.
Qed.

End IndexRead.

(* ---------- C03: the item count of an index ---------- *)
Definition indexed (ks : keyschema) (defs : fmap str) (kv : str * item) : bool :=
  match index_key_of ks defs (snd kv) with Some _ => true | None => false end.

Lemma filter_keys_ssorted {V} (P : str * V -> bool) (m : fmap V) : wf m -> ssorted (keys (filter P m)).
Proof.
  unfold wf, keys. induction m as [|[k v] m IH]; intros H; [constructor|].
  change (map fst ((k, v) :: m)) with (k :: map fst m) in H.
  apply ssorted_cons_inv in H as [Hs Hall]. cbn [filter]. destruct (P (k, v)); [|exact (IH Hs)].
  change (map fst ((k, v) :: filter P m)) with (k :: map fst (filter P m)).
  constructor; [exact (IH Hs)|]. apply Forall_forall. intros x Hx. rewrite Forall_forall in Hall. apply Hall.
  apply in_map_iff in Hx as [[k' v'] [<- Hin]]. apply filter_In in Hin as [Hin _]. now apply (in_map fst) in Hin.
Qed.

Lemma In_keys_filter {V} (P : str * V -> bool) (m : fmap V) k : wf m ->
  (In k (keys (filter P m)) <-> exists v, lookup k m = Some v /\ P (k, v) = true).
Proof.
  intros Hw. unfold keys. rewrite in_map_iff. split.
  - intros [[k' v] [E Hin]]. cbn in E. subst k'. apply filter_In in Hin as [Hin HP]. exists v. split; auto. now apply In_lookup.
  - intros [v [L HP]]. exists (k, v). split; auto. apply filter_In. split; auto. now apply lookup_In.
Qed.

(* the number of entries of an index (what DescribeTable reports for it) is the number of stored items that have the
   index's key attributes *)
Theorem index_count_is_indexed_items defs data ix :
  wf data -> IInv defs data ix -> ix_count ix = List.length (filter (indexed (ix_ks ix) defs) data).
Proof.
  intros Hw H. unfold ix_count. rewrite (ii_sorted _ _ _ H).
  rewrite (Permutation_length (sort_strings_perm _)), map_length.
  assert (keys (ix_refs ix) = keys (filter (indexed (ix_ks ix) defs) data)) as E.
  { apply ssorted_ext; [apply (ii_wf _ _ _ H)|now apply filter_keys_ssorted|].
    intros k. rewrite (In_keys_filter _ _ _ Hw). split.
    - intros Hin. apply In_keys_lookup in Hin as [ik L]. apply (ii_refs _ _ _ H) in L as [it [L K]].
      exists it. split; auto. unfold indexed. cbn. now rewrite K.
    - intros [it [L HP]]. unfold indexed in HP. cbn in HP.
      destruct (index_key_of (ix_ks ix) defs it) as [ik|] eqn:K; [|discriminate].
      assert (lookup k (ix_refs ix) = Some ik) as R by (apply (ii_refs _ _ _ H); eauto).
      apply lookup_In in R. now apply (in_map fst) in R. }
  unfold keys in E. rewrite <- (map_length fst (ix_refs ix)), E, map_length. reflexivity.
Qed.
