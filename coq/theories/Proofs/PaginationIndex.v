(* C04 through a secondary index: following LastEvaluatedKey with any Limit >= 1 visits every index entry exactly
   once, in (index key, primary key) order - also inside runs of equal index keys - and the pages concatenate to the
   unpaginated read.  For every interpreter, global and local indexes, both directions. *)
From Coq Require Import List Bool Arith Lia Sorting.Sorted Permutation.
From Coq Require Import Strings.Byte Strings.String.
From Minidyn Require Import Base.Str Base.FMap Base.Outcome Model.Value Model.Key Model.Index Model.Table.
From Minidyn Require Import Proofs.FMapFacts Proofs.SortFacts Proofs.TableInv Proofs.IndexInv Proofs.Search Proofs.Paging
  Proofs.KeyInv Proofs.IndexWalk Proofs.PageGen Proofs.Pagination Proofs.PageLoop.
Import ListNotations.

(* ---------- the LastEvaluatedKey of an index page: table key attributes overlaid with the index key attributes ---------- *)
Lemma insert_nonempty {V} k (v : V) m : insert k v m <> [].
Proof. destruct m as [|[k0 v0] m]; cbn; [discriminate|]. destruct (str_compare k k0); discriminate. Qed.

Lemma merge_items_nonempty a b : a <> [] -> merge_items a b <> [].
Proof.
  unfold merge_items. revert a. induction b as [|[k v] b IH]; intros a Ha; cbn; auto.
  apply IH. apply insert_nonempty.
Qed.

Lemma wf_tail {V} (kv : str * V) m : wf (kv :: m) -> wf m /\ lookup (fst kv) m = None.
Proof.
  intros H. unfold wf in H. cbn in H. apply ssorted_cons_inv in H as [Hs Hall]. split; auto.
  destruct (lookup (fst kv) m) as [v|] eqn:L; auto. exfalso.
  apply lookup_In in L. apply (in_map fst) in L. cbn in L. rewrite Forall_forall in Hall.
  apply Hall in L. now apply str_lt_irrefl in L.
Qed.

Lemma lookup_merge_items a b k : wf b ->
  lookup k (merge_items a b) = match lookup k b with Some v => Some v | None => lookup k a end.
Proof.
  unfold merge_items. revert a. induction b as [|[k0 v0] b IH]; intros a Hw; cbn [fold_left lookup fst snd]; auto.
  apply wf_tail in Hw as [Hw Hn]. cbn [fst] in Hn. rewrite IH by auto. rewrite lookup_insert.
  destruct (str_eqb k k0) eqn:E.
  - apply str_eqb_eq in E; subst. now rewrite Hn.
  - reflexivity.
Qed.

Lemma wf_key_item ks it : wf (key_item ks it).
Proof.
  unfold key_item. destruct (rangek ks); destruct (lookup (hashk ks) it); try destruct (lookup _ it);
    repeat apply wf_insert; apply wf_nil.
Qed.

(* the key item holds only attributes of the item *)
Lemma key_item_sub ks it a v : lookup a (key_item ks it) = Some v -> lookup a it = Some v.
Proof.
  unfold key_item. destruct (lookup (hashk ks) it) as [vh|] eqn:Lh; destruct (rangek ks) as [|r0 r] eqn:R;
    try destruct (lookup (r0 :: r) it) as [vr|] eqn:Lr; rewrite ?lookup_insert; cbn [lookup];
    repeat match goal with |- context [str_eqb ?x ?y] => destruct (str_eqb x y) eqn:?E end;
    intros H; try discriminate; inversion H; subst;
    repeat match goal with E : str_eqb _ _ = true |- _ => apply str_eqb_eq in E; subst end; auto.
Qed.

Definition index_lek (tks iks : keyschema) (it : item) : item := merge_items (key_item tks it) (key_item iks it).

(* on the attributes of either key schema the LastEvaluatedKey agrees with the item it was built from *)
Lemma lookup_index_lek tks iks it a :
  (a = hashk tks \/ (rangek tks <> [] /\ a = rangek tks) \/ a = hashk iks \/ (rangek iks <> [] /\ a = rangek iks)) ->
  lookup a (index_lek tks iks it) = lookup a it.
Proof.
  intros Ha. unfold index_lek. rewrite lookup_merge_items by apply wf_key_item.
  destruct (lookup a (key_item iks it)) as [v|] eqn:L1.
  - symmetry. now apply key_item_sub in L1.
  - destruct Ha as [Ha|[Ha|Hb]].
    + now apply lookup_key_item; left.
    + now apply lookup_key_item; right.
    + rewrite lookup_key_item in L1 by (destruct Hb as [Hb|Hb]; [now left|now right]). rewrite L1.
      destruct (lookup a (key_item tks it)) as [v|] eqn:L2; auto. apply key_item_sub in L2. congruence.
Qed.

Lemma get_key_index_lek_table tks iks defs it : get_key tks defs (index_lek tks iks it) = get_key tks defs it.
Proof.
  unfold get_key, key_value, item_value. rewrite lookup_index_lek by (now left).
  destruct (lookup (hashk tks) it) as [v|]; auto. destruct (go_value v _); auto.
  destruct (rangek tks) as [|r0 r] eqn:R; auto. rewrite <- R.
  rewrite lookup_index_lek by (right; left; split; [congruence|reflexivity]). reflexivity.
Qed.

Lemma get_key_index_lek_index tks iks defs it : get_key iks defs (index_lek tks iks it) = get_key iks defs it.
Proof.
  unfold get_key, key_value, item_value. rewrite lookup_index_lek by (right; right; now left).
  destruct (lookup (hashk iks) it) as [v|]; auto. destruct (go_value v _); auto.
  destruct (rangek iks) as [|r0 r] eqn:R; auto. rewrite <- R.
  rewrite lookup_index_lek by (right; right; right; split; [congruence|reflexivity]). reflexivity.
Qed.

Lemma rev_sorted_gen {A} (R : A -> A -> Prop) l : StronglySorted R l -> StronglySorted (fun a b => R b a) (rev l).
Proof.
  induction l as [|x l IH]; intros H; cbn; [constructor|]. inversion H as [|? ? Hs Hall]; subst.
  assert (forall a b, StronglySorted (fun a b => R b a) a -> Forall (fun y => R b y) a -> StronglySorted (fun a b => R b a) (a ++ [b])) as App.
  { induction a as [|y a IHa]; intros b Ha Hb; cbn; [repeat constructor|].
    inversion Ha; subst. inversion Hb; subst. constructor; [apply IHa; auto|].
    apply Forall_app. split; auto. }
  apply App; [apply IH; auto|]. apply Forall_rev. exact Hall.
Qed.

Lemma sorted_map {A B} (R : A -> A -> Prop) (S : B -> B -> Prop) (f : A -> B) l :
  (forall a b, R a b -> S (f a) (f b)) -> StronglySorted R l -> StronglySorted S (map f l).
Proof.
  intros Hf. induction l as [|x l IH]; intros H; cbn; [constructor|]. inversion H as [|? ? Hs Hall]; subst.
  constructor; auto. apply Forall_forall. intros z Hz. apply in_map_iff in Hz as [y [<- Hy]].
  rewrite Forall_forall in Hall. auto.
Qed.

Definition swap (r : str * str) : str * str := (snd r, fst r).

(* the index entries, as (index key, primary key) pairs in scan order, are strictly ordered by afterStartKey *)
Lemma index_entries_sorted defs data ix (fwd : bool) :
  IInv defs data ix -> StronglySorted (aftP (aft2b fwd)) (map swap (sorted_refs ix fwd)).
Proof.
  intros H. pose proof (asc_refs_strict (ix_refs ix) (ii_wf _ _ _ H)) as S.
  unfold sorted_refs. fold (asc_refs (ix_refs ix)). destruct fwd.
  - eapply sorted_map; [|exact S]. intros a b Hab. unfold aftP. apply aft2b_spec. unfold lex_lt, swap; cbn.
    destruct Hab as [Hl|[E Hl]]; auto.
  - apply rev_sorted_gen in S. eapply sorted_map; [|exact S]. intros a b Hab. unfold aftP. apply aft2b_spec.
    unfold lex_lt, swap; cbn. destruct Hab as [Hl|[E Hl]]; auto.
Qed.

Section IndexPages.
Variable lang_match : str -> item -> item -> fmap str -> outcome bool.
Variable c : ictx.
Variable t : table.
Variable q : query.
Variable ev : str -> etype * bool * list nat.
Variable n : str.
Variable ix : index.

Hypothesis Hq : q_index q = Some n.
Hypothesis Hl : lookup n (t_indexes t) = Some ix.
Hypothesis Hcond : q_cond q = None.
Hypothesis Hsec : secondary (t_ks t) = false.
Hypothesis HK : KInv t.
Hypothesis HI : IInv (t_defs t) (t_data t) ix.

Definition ies : list (str * str) := map swap (sorted_refs ix (q_forward q)).

Hypothesis Hev : forall e, In e ies -> match_key lang_match c t q (get_item t (snd e)) = Ok (ev (snd e)).

Lemma ies_sorted : StronglySorted (aftP (aft2b (q_forward q))) ies.
Proof. apply (index_entries_sorted _ _ _ _ HI). Qed.

Lemma ies_In e : In e ies -> exists it, lookup (snd e) (t_data t) = Some it /\ index_key_of (ix_ks ix) (t_defs t) it = Some (fst e).
Proof.
  intros H. apply in_map_iff in H as [[pk ik] [<- Hr]]. cbn.
  now apply (sorted_refs_In _ _ _ _ _ _ HI) in Hr.
Qed.

Lemma ies_stored e : In e ies -> mem (snd e) (t_data t) = true.
Proof. intros H. apply ies_In in H as [it [L _]]. unfold mem. now rewrite L. Qed.

Definition ilek (e : str * str) : item := index_lek (t_ks t) (ix_ks ix) (get_item t (snd e)).

(* the position an exclusive start key names in this index, when it carries both keys *)
Definition esk_pos (esk : item) : str * str :=
  (parse_start_key (ix_ks ix) (t_defs t) esk, parse_start_key (t_ks t) (t_defs t) esk).
Definition esk_positioned (esk : item) : Prop :=
  has_start_key (t_ks t) (t_defs t) esk = true /\ fst (esk_pos esk) <> [].

Definition irest_for (esk : item) (rest : list (str * str)) : Prop :=
  (esk = [] /\ rest = ies) \/ (exists a x b, ies = a ++ x :: b /\ esk = ilek x /\ rest = b) \/
  (esk_positioned esk /\ rest = snd (gsplit (aft2b (q_forward q)) (esk_pos esk) ies)).

Definition ipage (L : nat) (esk : item) := search_data lang_match c t (with_page q L esk).

(* the start position a LastEvaluatedKey resolves to is the entry it was built from *)
Lemma ilek_resolves x : In x ies ->
  ilek x <> [] /\
  has_start_key (t_ks t) (t_defs t) (ilek x) = true /\
  parse_start_key (t_ks t) (t_defs t) (ilek x) = snd x /\
  parse_start_key (ix_ks ix) (t_defs t) (ilek x) = fst x /\ fst x <> [].
Proof.
  intros Hin. destruct (ies_In x Hin) as [it [L K]].
  assert (get_item t (snd x) = it) as G by (unfold get_item; now rewrite L).
  unfold ilek. rewrite G.
  pose proof (HK _ _ L) as Gk.
  destruct (get_key_inr_nonempty _ _ _ _ Hsec Gk) as [N1 N2].
  assert (index_lek (t_ks t) (ix_ks ix) it <> []) as Hne by (apply merge_items_nonempty; exact N2).
  unfold index_key_of in K. destruct (get_key (ix_ks ix) (t_defs t) it) as [er|[|c0 s0]] eqn:Gi; try discriminate.
  apply (f_equal (fun o => match o with Some s => s | None => [] end)) in K. cbn in K.
  split; [exact Hne|].
  unfold has_start_key, parse_start_key.
  destruct (index_lek (t_ks t) (ix_ks ix) it) as [|kv kr] eqn:E; [congruence|]. rewrite <- E.
  rewrite get_key_index_lek_table, get_key_index_lek_index, Gk, Gi.
  split; [reflexivity|]. split; [reflexivity|]. split; [congruence|]. rewrite <- K. discriminate.
Qed.

Lemma ipage_spec L esk rest : 0 < L -> irest_for esk rest -> (exists pre, ies = pre ++ rest) ->
  let '(p, u, b) := gpage (ecounts ev) L 0 rest in
  exists f, ipage L esk =
    Ok (map (eitem t) (filter (ematched ev) p), (if b then lek_after ilek p else []), f).
Proof.
  intros HL Hr _. unfold ipage, search_data. cbn [q_index with_page q_forward q_esk q_limit]. rewrite Hq, Hl.
  rewrite (index_entries _ _ _ _ HI).
  assert (map (fun r : str * str => (snd r, Some (fst r))) (sorted_refs ix (q_forward q)) = entries ies) as ->.
  { unfold entries, ies. rewrite map_map. reflexivity. }
  set (spk := parse_start_key (t_ks t) (t_defs t) esk).
  set (sik := match parse_start_key (ix_ks ix) (t_defs t) esk with
              | [] => match lookup spk (ix_refs ix) with Some ik => ik | None => [] end
              | ik => ik end).
  set (hp := match sik with [] => false | _ => true end).
  set (hs := has_start_key (t_ks t) (t_defs t) esk).
  assert (rest = grest q ies hs sik spk /\ (hs = true -> hp = true)) as [Hrest Hhp].
  { destruct Hr as [[-> ->]|[[a [x [b [Hes [-> ->]]]]]|[[Hh Hp] ->]]].
    - subst hs. cbn. split; [reflexivity|discriminate].
    - assert (In x ies) as Hin by (rewrite Hes; apply in_or_app; right; now left).
      destruct (ilek_resolves x Hin) as [Hne [Hh [Hp [Hi Hix]]]].
      subst hs spk sik hp. rewrite Hh, Hp, Hi.
      destruct (fst x) as [|c0 s0] eqn:Ef; [congruence|]. split; [|reflexivity].
      unfold grest. rewrite <- Ef. replace (fst x, snd x) with x by (destruct x; reflexivity).
      pose proof ies_sorted as S. rewrite Hes in *.
      rewrite (gsplit_member _ (aft2b_irrefl _) (aft2b_asym _)) by exact S. reflexivity.
    - subst hs spk sik hp. rewrite Hh. unfold esk_pos in *. cbn [fst snd] in *.
      destruct (parse_start_key (ix_ks ix) (t_defs t) esk) as [|c0 s0] eqn:Ei; [congruence|].
      split; reflexivity. }
  pose proof (gloop_page lang_match c t q ev ies Hcond ies_sorted ies_stored Hev L esk hs hp sik spk HL Hhp) as P.
  rewrite <- Hrest in P.
  destruct (gpage (ecounts ev) L 0 rest) as [[p u] b] eqn:PK.
  destruct P as [s' [R [I1 [I2 [I3 [I4 I5]]]]]].
  rewrite R. cbn [obind]. exists (s_fired s'). rewrite I1. f_equal. f_equal. f_equal.
  rewrite I5. unfold lek_after. destruct (rev p) as [|x rp] eqn:Erp.
  - destruct b; auto.
  - assert (In x ies) as Hin.
    { assert (In x p) as Hxp by (apply in_rev; rewrite Erp; now left).
      pose proof (gpage_app (ecounts ev) L 0 rest) as A. rewrite PK in A. cbn [fst snd] in A.
      pose proof (grest_in q ies hs sik spk) as F. rewrite <- Hrest in F. rewrite Forall_forall in F. apply F.
      rewrite <- A. apply in_or_app. now left. }
    destruct (ies_In x Hin) as [it [L0 _]].
    assert (eitem t x = it) as G by (unfold eitem, get_item; now rewrite L0).
    rewrite G. pose proof (HK _ _ L0) as Gk. destruct (get_key_inr_nonempty _ _ _ _ Hsec Gk) as [N1 _].
    destruct it as [|kv it']; [congruence|].
    destruct (Nat.eqb L 0) eqn:E0; [apply Nat.eqb_eq in E0; lia|].
    assert (Nat.leb (s_scanned s') (List.length (entries ies)) = true) as ->
      by (apply Nat.leb_le; unfold entries; now rewrite map_length).
    destruct b.
    + rewrite (I3 eq_refl), Nat.leb_refl. cbn [andb]. unfold ilek, index_lek. unfold eitem in G. rewrite G. reflexivity.
    + assert (Nat.leb L (s_count s') = false) as -> by (apply Nat.leb_gt; auto). reflexivity.
Qed.

Definition ipages := gpages ipage.

(* C04 through an index: the pages concatenate to every matching entry, once, in scan order *)
Theorem index_pages_complete L : 0 < L ->
  ipages (S (List.length ies)) L [] = Some (map (eitem t) (filter (ematched ev) ies)).
Proof.
  intros HL. unfold ipages.
  apply (gpages_complete (ecounts ev) ies (ematched ev) (eitem t) ilek ipage irest_for); auto.
  - left. auto.
  - intros a x b Hes. right. left. exists a, x, b. auto.
  - intros x Hin. now destruct (ilek_resolves x Hin).
  - intros L0 esk rest HL0 Hr Hs. apply ipage_spec; auto.
Qed.

(* resuming through the index from ANY start key that carries the index key and the table key - whether or not the
   item it names is still stored - returns every matching entry positioned after it, and only those *)
Theorem index_resume_complete L esk : 0 < L -> esk_positioned esk ->
  ipages (S (List.length ies)) L esk =
  Some (map (eitem t) (filter (ematched ev) (filter (aft2b (q_forward q) (esk_pos esk)) ies))).
Proof.
  intros HL Hp. unfold ipages.
  rewrite <- (gsplit_filter _ (aft2b_trans _) (esk_pos esk) ies ies_sorted).
  apply (gpages_from (ecounts ev) ies (ematched ev) (eitem t) ilek ipage irest_for); auto.
  - intros a x b Hes. right. left. exists a, x, b. auto.
  - intros x Hin. now destruct (ilek_resolves x Hin).
  - intros L0 esk0 rest HL0 Hr Hs. apply ipage_spec; auto.
  - right. right. auto.
  - exists (fst (gsplit (aft2b (q_forward q)) (esk_pos esk) ies)). symmetry. apply gsplit_app.
  - pose proof (gsplit_app (aft2b (q_forward q)) (esk_pos esk) ies) as A.
    rewrite <- A at 2. rewrite app_length. lia.
Qed.

(* the unpaginated read through the index returns the same list *)
Lemma select_items_iev : forall l, Forall (fun e => In e ies) l ->
  exists f, select_items lang_match c t q (map (eitem t) l) = Ok (map (eitem t) (filter (ematched ev) l), f).
Proof.
  induction l as [|e l IH]; intros H; cbn; [eauto|]. inversion H as [|? ? He Hl']; subst.
  unfold eitem at 1. rewrite (Hev e He). destruct (IH Hl') as [f ->]. unfold ematched at 2.
  destruct (ev (snd e)) as [[ety m] f0]; cbn. destruct m; eauto.
Qed.

Theorem index_unpaginated :
  exists f, search_data lang_match c t (with_page q 0 []) = Ok (map (eitem t) (filter (ematched ev) ies), [], f).
Proof.
  rewrite (search_unlimited_index lang_match c t (with_page q 0 []) n ix Hq Hl HI (conj eq_refl eq_refl)).
  cbn [q_forward with_page].
  assert (map (fun r : str * str => get_item t (fst r)) (sorted_refs ix (q_forward q)) = map (eitem t) ies) as ->.
  { unfold ies. rewrite map_map. reflexivity. }
  unfold with_page. rewrite functional_select.
  destruct (select_items_iev ies) as [f ->]; [apply Forall_forall; auto|]. cbn. eauto.
Qed.

Theorem index_pagination_equals_unpaginated L : 0 < L ->
  exists items f, search_data lang_match c t (with_page q 0 []) = Ok (items, [], f) /\
                  ipages (S (ix_count ix)) L [] = Some items.
Proof.
  intros HL. destruct index_unpaginated as [f U]. exists (map (eitem t) (filter (ematched ev) ies)), f. split; auto.
  assert (ix_count ix = List.length ies) as ->.
  { unfold ix_count, ies. rewrite (ii_sorted _ _ _ HI), map_length.
    rewrite (Permutation_length (sort_strings_perm _)), map_length.
    unfold sorted_refs. fold (asc_refs (ix_refs ix)). destruct (q_forward q); [|rewrite rev_length];
      apply Permutation_length, Permutation_sym, asc_refs_perm. }
  now apply index_pages_complete.
Qed.

End IndexPages.
