(* C19: a batch write that succeeds IS its decomposition - read off the batch's own trace, no hypothesis on the requests. *)
From Coq Require Import List Bool Arith Lia.
From Coq Require Import Strings.Byte Strings.String.
From Minidyn Require Import Base.Str Base.FMap Base.Outcome Model.Value Model.Key Model.Index Model.Table Model.Client.
From Minidyn Require Import Proofs.Batch.
Import ListNotations.

Section Closure.
Variable lm : str -> item -> item -> fmap str -> outcome bool.
Variable s : sdk.

Notation single := (single lm s).

(* every request, performed individually in the state its predecessors left, succeeds *)
Fixpoint each_ok (c : client) (tn : str) (rs : list wreq) : Prop :=
  match rs with
  | [] => True
  | r :: rest => o_res (snd (single c tn r)) = ROk /\ each_ok (fst (single c tn r)) tn rest
  end.

Fixpoint each_table_ok (c : client) (ts : list (str * list wreq)) : Prop :=
  match ts with
  | [] => True
  | (tn, rs) :: rest => each_ok c tn rs /\ each_table_ok (fold_left (fun c r => fst (single c tn r)) rs c) rest
  end.

Lemma one_applied c tn r c1 :
  batch_write_one lm s c tn r = (c1, None) -> o_res (snd (single c tn r)) = ROk /\ c1 = fst (single c tn r).
Proof.
  unfold batch_write_one, Batch.single. destruct r; cbn.
  - destruct (put_item lm s c tn i None [] [] false) as [c' o]; cbn. destruct (o_res o) as [|[]| |]; intros H; inversion H; auto.
  - destruct (delete_item lm s c tn k None [] [] false) as [c' o]; cbn. destruct (o_res o) as [|[]| |]; intros H; inversion H; auto.
  - destruct (c_failure c) as [f|]; cbn.
    + destruct (failure_err f); intros H; inversion H.
    + intros H; inversion H; auto.
  - destruct (put_item lm s c tn i None [] [] false) as [c' o]; cbn. destruct (o_res o) as [|[]| |]; intros H; inversion H; auto.
Qed.

Lemma reqs_trace rs : forall c tn un c' un',
  batch_write_reqs lm s c tn rs un = (c', un', None) ->
  exists extra, un' = un ++ extra /\
    (extra = [] -> c' = fold_left (fun c r => fst (single c tn r)) rs c /\ each_ok c tn rs).
Proof.
  induction rs as [|r rs IH]; intros c tn un c' un' H; cbn [batch_write_reqs] in H.
  - inversion H; subst. exists []. rewrite app_nil_r. cbn. auto.
  - destruct (batch_write_one lm s c tn r) as [c1 [[o|]|]] eqn:E1.
    + discriminate.
    + apply IH in H as [extra [-> _]]. exists (r :: extra). rewrite <- app_assoc. cbn. split; [reflexivity|discriminate].
    + apply one_applied in E1 as [Hok ->]. apply IH in H as [extra [-> Hx]]. exists extra. split; [reflexivity|].
      intros Hn. destruct (Hx Hn) as [-> He]. cbn [fold_left each_ok]. auto.
Qed.

Lemma insert_not_nil {V} k (v : V) m : insert k v m <> [].
Proof. destruct m as [|[k' v'] t]; cbn; [discriminate|]. destruct (str_compare k k'); discriminate. Qed.

Lemma tables_trace ts : forall c un c',
  batch_write_tables lm s c ts un = (c', [], None) ->
  un = [] /\ c' = fold_left (fun c tr => fold_left (fun c r => fst (single c (fst tr) r)) (snd tr) c) ts c /\ each_table_ok c ts.
Proof.
  induction ts as [|[tn rs] ts IH]; intros c un c' H; cbn [batch_write_tables] in H.
  - inversion H; subst. cbn. auto.
  - destruct (batch_write_reqs lm s c tn rs []) as [[c1 u] [o|]] eqn:E1; [discriminate|].
    apply reqs_trace in E1 as [extra [Hu Hx]]. cbn in Hu. subst u.
    apply IH in H as [Hun [-> Ht]].
    destruct extra as [|e extra].
    + destruct (Hx eq_refl) as [-> He]. cbn [fold_left fst snd each_table_ok]. auto.
    + exfalso. exact (insert_not_nil _ _ _ Hun).
Qed.

(* THE closure: whatever the batch holds and whatever the state, a BatchWriteItem that answers success with nothing
   unprocessed has left exactly the client that performing its requests one by one, in order, leaves - and each of those
   individual requests succeeds *)
Theorem successful_batch_is_its_decomposition c reqs c' :
  batch_write lm s c reqs = (c', ok_obs (PBatchWrite []) []) ->
  c' = fold_left (fun c tr => fold_left (fun c r => fst (single c (fst tr) r)) (snd tr) c) reqs c /\ each_table_ok c reqs.
Proof.
  unfold batch_write. destruct (v1_empty_batch s c reqs); [discriminate|].
  unfold batch_write_core. destruct (forced_blocks c); [discriminate|].
  destruct (_ && negb (forallb wreq_ok (flat_map snd reqs))); [discriminate|].
  destruct (_ && (batch_limit <? List.length (flat_map snd reqs))); [discriminate|].
  destruct (match c_failure c with Some _ => [] | None => flat_map (prevalidate_table c) reqs end); [|discriminate].
  destruct (batch_write_tables lm s c reqs []) as [[c1 un] [o|]] eqn:E; [discriminate|].
  intros H. inversion H; subst. apply tables_trace in E as [_ [-> Ht]]. auto.
Qed.

(* with no failure emulated a batch that does not fail never has unprocessed requests: success IS the case above *)
End Closure.
