(* C04 / C13: the ExclusiveStartKey of Query and Scan is validated (fix 9111e82).  A start key is either rejected with a
   validation error or it positions the read: it is never dropped silently (which restarted the read from the first item). *)
From Coq Require Import List Bool Arith Lia.
From Coq Require Import Strings.Byte Strings.String.
From Minidyn Require Import Base.Str Base.FMap Base.Outcome Model.Value Model.Key Model.Index Model.Table Model.Client.
Import ListNotations.

Section StartKey.
Variable lang_match : str -> item -> item -> fmap str -> outcome bool.
Variable flavour : sdk.

(* what the validation accepts: no start key at all, or one from which the key string of the table can be built and, when
   an index is read, the key string of that index too *)
Lemma valid_start_key_spec t oix esk :
  valid_start_key t oix esk = true <->
  esk = [] \/
  ((exists k, get_key (t_ks t) (t_defs t) esk = inr k) /\
   (forall n ix, oix = Some n -> lookup n (t_indexes t) = Some ix -> exists k, get_key (ix_ks ix) (t_defs t) esk = inr k)).
Proof.
  unfold valid_start_key. destruct esk as [|e esk]; [split; auto|].
  destruct (get_key (t_ks t) (t_defs t) (e :: esk)) as [err|k] eqn:G.
  - split; [discriminate|]. intros [H|[[k H] _]]; discriminate.
  - destruct oix as [n|].
    + destruct (lookup n (t_indexes t)) as [ix|] eqn:L.
      * destruct (get_key (ix_ks ix) (t_defs t) (e :: esk)) as [err|k'] eqn:G2.
        -- split; [discriminate|]. intros [H|[_ H]]; [discriminate|]. destruct (H n ix eq_refl L) as [k' H']. congruence.
        -- split; auto. intros _. right. split; [eauto|]. intros n0 ix0 E L0. inversion E; subst. rewrite L in L0. inversion L0; subst. eauto.
      * split; auto. intros _. right. split; [eauto|]. intros n0 ix0 E L0. inversion E; subst. congruence.
    + split; auto. intros _. right. split; [eauto|]. intros n0 ix0 E. discriminate.
Qed.

(* an accepted start key is never dropped: the search starts at the position it names *)
Theorem accepted_start_key_positions t oix esk :
  valid_start_key t oix esk = true -> esk <> [] -> has_start_key (t_ks t) (t_defs t) esk = true.
Proof.
  intros V Hne. apply valid_start_key_spec in V as [V|[[k G] _]]; [congruence|].
  unfold has_start_key. destruct esk; [congruence|]. now rewrite G.
Qed.

(* a start key that is not accepted is an error of the request *)
Theorem rejected_start_key_is_an_error c t q :
  valid_start_key t (match q_index q with Some [] => None | o => o end) (q_esk q) = false ->
  (match q_index q with Some n => mem n (t_indexes t) = true \/ n = [] | None => True end) ->
  run_search lang_match flavour c t q = (c, err_obs Validation).
Proof.
  intros V Hi. unfold run_search. cbv beta zeta. destruct (q_index q) as [n|] eqn:Qi.
  - destruct n as [|a n].
    + rewrite andb_false_r. cbn [q_index q_esk]. now rewrite V.
    + destruct Hi as [Hi|Hi]; [|discriminate]. rewrite Hi. cbn [negb andb q_index q_esk]. now rewrite V.
  - now rewrite V.
Qed.

End StartKey.

(* C02: the Count of a Query / Scan answer is the number of items it returns *)
Section Count.
Variable lang_match : str -> item -> item -> fmap str -> outcome bool.
Variable flavour : sdk.

Lemma run_search_count c t q its n lek :
  o_pay (snd (run_search lang_match flavour c t q)) = PItems its n lek -> n = List.length its.
Proof.
  unfold run_search. cbv beta zeta.
  destruct (q_index q) as [ix|].
  - destruct (negb (mem ix (t_indexes t)) && negb match ix with [] => true | _ => false end); [cbn; discriminate|].
    destruct (negb (valid_start_key _ _ _)); [cbn; discriminate|].
    destruct (check_expressions _ _ _ _) as [u| | |]; try (cbn; discriminate).
    destruct (search_data _ _ _ _) as [[[items lek0] f]| | |]; try (cbn; discriminate).
    cbn. intros E; inversion E; subst. now rewrite map_length.
  - destruct (negb (valid_start_key _ _ _)); [cbn; discriminate|].
    destruct (check_expressions _ _ _ _) as [u| | |]; try (cbn; discriminate).
    destruct (search_data _ _ _ _) as [[[items lek0] f]| | |]; try (cbn; discriminate).
    cbn. intros E; inversion E; subst. now rewrite map_length.
Qed.

Theorem query_count_is_length c tn ix kc fl names vals lim esk fw proj its n lek :
  o_pay (snd (query_op lang_match flavour c tn ix kc fl names vals lim esk fw proj)) = PItems its n lek -> n = List.length its.
Proof.
  unfold query_op. destruct (c_failure c); [cbn; discriminate|].
  destruct (validate_expr_attrs _ _ _); [|cbn; discriminate].
  destruct (lookup tn (c_tables c)); [|cbn; discriminate]. apply run_search_count.
Qed.

Theorem scan_count_is_length c tn ix fl names vals lim esk proj its n lek :
  o_pay (snd (scan_op lang_match flavour c tn ix fl names vals lim esk proj)) = PItems its n lek -> n = List.length its.
Proof.
  unfold scan_op. destruct (c_failure c); [cbn; discriminate|].
  destruct (validate_expr_attrs _ _ _); [|cbn; discriminate].
  destruct (lookup tn (c_tables c)); [|cbn; discriminate]. apply run_search_count.
Qed.

End Count.
