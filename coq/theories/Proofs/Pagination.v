(* C04: paginating the base table with any Limit >= 1 returns, page after page, exactly the items of the unpaginated
   read, in the same order, in at most |keys|+1 pages; a page without LastEvaluatedKey is the last one.
   For every interpreter; both directions; scans and queries (with or without filter). *)
From Coq Require Import List Bool Arith Lia Sorting.Sorted.
From Coq Require Import Strings.Byte Strings.String.
From Minidyn Require Import Base.Str Base.FMap Base.Outcome Model.Value Model.Key Model.Index Model.Table.
From Minidyn Require Import Proofs.FMapFacts Proofs.SortFacts Proofs.TableInv Proofs.Search Proofs.KeyInv.
Import ListNotations.

(* ---------- order in the scan direction ---------- *)
Definition aft (fwd : bool) (a b : str) : Prop := if fwd then str_lt a b else str_lt b a.
Definition aftb (fwd : bool) (a b : str) : bool := if fwd then str_ltb a b else str_ltb b a.

Lemma aftb_spec fwd a b : aftb fwd a b = true <-> aft fwd a b.
Proof. destruct fwd; apply str_ltb_lt. Qed.

Lemma aft_irrefl fwd a : ~ aft fwd a a.
Proof. destruct fwd; apply str_lt_irrefl. Qed.

Lemma aft_trans fwd a b c : aft fwd a b -> aft fwd b c -> aft fwd a c.
Proof. destruct fwd; cbn; intros; eapply str_lt_trans; eauto. Qed.

Lemma aft_asym fwd a b : aft fwd a b -> ~ aft fwd b a.
Proof. destruct fwd; cbn; intros H H2; eapply str_lt_asym; eauto. Qed.

(* on the base table the entry key and the primary key are the same string *)
Lemma after_base k sk fwd : after_start_key k k sk sk fwd = aftb fwd sk k.
Proof.
  unfold after_start_key, aftb. destruct (str_eqb k sk) eqn:E; cbn [negb].
  - apply str_eqb_eq in E; subst. destruct fwd; symmetry; apply not_true_is_false; intros H; apply str_ltb_lt in H; now apply str_lt_irrefl in H.
  - apply str_eqb_neq in E. destruct fwd; cbn.
    + destruct (str_ltb sk k); reflexivity.
    + destruct (str_ltb sk k) eqn:L; cbn; symmetry.
      * apply not_true_is_false. intros H. apply str_ltb_lt in H, L. eapply str_lt_asym; eauto.
      * apply str_ltb_false in L as [L|L]; [now apply str_ltb_lt|congruence].
Qed.

Lemma rev_sorted l : ssorted l -> StronglySorted (aft false) (rev l).
Proof.
  induction l as [|x l IH]; intros H; cbn; [constructor|].
  apply ssorted_cons_inv in H as [Hs Hall].
  assert (forall a b, StronglySorted (aft false) a -> Forall (fun y => aft false y b) a -> StronglySorted (aft false) (a ++ [b])) as App.
  { induction a as [|y a IHa]; intros b Ha Hb; cbn; [repeat constructor|].
    inversion Ha; subst. inversion Hb; subst. constructor; [apply IHa; auto|].
    apply Forall_app. split; auto. }
  apply App; [apply IH; auto|]. apply Forall_rev. eapply Forall_impl; [|exact Hall]. intros a Ha. exact Ha.
Qed.

Lemma scan_order_sorted fwd l : ssorted l -> StronglySorted (aft fwd) (if fwd then l else rev l).
Proof. destruct fwd; [intros H; exact H|apply rev_sorted]. Qed.

(* the keys not after sk, then the keys after sk *)
Fixpoint split_after (fwd : bool) (sk : str) (ks : list str) : list str * list str :=
  match ks with
  | [] => ([], [])
  | k :: r => if aftb fwd sk k then ([], ks) else let '(a, b) := split_after fwd sk r in (k :: a, b)
  end.

Lemma split_after_app fwd sk ks : fst (split_after fwd sk ks) ++ snd (split_after fwd sk ks) = ks.
Proof.
  induction ks as [|k r IH]; cbn; auto. destruct (aftb fwd sk k); cbn; auto.
  destruct (split_after fwd sk r) as [a b]; cbn in *. now rewrite IH.
Qed.

Lemma split_after_pre fwd sk ks : Forall (fun k => aftb fwd sk k = false) (fst (split_after fwd sk ks)).
Proof.
  induction ks as [|k r IH]; cbn; [constructor|]. destruct (aftb fwd sk k) eqn:E; cbn; [constructor|].
  destruct (split_after fwd sk r) as [a b]; cbn in *. constructor; auto.
Qed.

Lemma split_after_rest fwd sk ks :
  StronglySorted (aft fwd) ks -> Forall (fun k => aftb fwd sk k = true) (snd (split_after fwd sk ks)).
Proof.
  induction ks as [|k r IH]; intros Hs; cbn; [constructor|]. inversion Hs; subst.
  destruct (aftb fwd sk k) eqn:E; cbn.
  - constructor; auto. apply aftb_spec in E. eapply Forall_impl; [|exact H2]. intros a Ha. apply aftb_spec. eapply aft_trans; eauto.
  - destruct (split_after fwd sk r) as [a b] eqn:S; cbn in *. apply IH. auto.
Qed.

(* after a key x of the sorted list: exactly the keys that follow it *)
Lemma split_after_member fwd a x b :
  StronglySorted (aft fwd) (a ++ x :: b) -> split_after fwd x (a ++ x :: b) = (a ++ [x], b).
Proof.
  induction a as [|y a IH]; intros Hs; cbn.
  - assert (aftb fwd x x = false) as -> by (apply not_true_is_false; intros H; apply aftb_spec in H; now apply aft_irrefl in H).
    inversion Hs; subst.
    destruct b as [|z b]; cbn; auto.
    inversion H2; subst. apply aftb_spec in H3. now rewrite H3.
  - inversion Hs; subst.
    assert (aft fwd y x) as Hyx. { rewrite Forall_forall in H2. apply H2. apply in_or_app. right. now left. }
    assert (aftb fwd x y = false) as ->.
    { apply not_true_is_false. intros H. apply aftb_spec in H. eapply aft_asym; eauto. }
    rewrite IH by auto. reflexivity.
Qed.

Lemma filter_all_id {A} (f : A -> bool) l : (forall x, In x l -> f x = true) -> filter f l = l.
Proof. induction l as [|a l IH]; intros H; cbn; auto. rewrite (H a) by (now left). f_equal. apply IH. intros x Hx. apply H. now right. Qed.

(* in a sorted list the keys after sk are a suffix: exactly the keys ordered after sk *)
Lemma split_after_filter fwd sk ks :
  StronglySorted (aft fwd) ks -> snd (split_after fwd sk ks) = filter (aftb fwd sk) ks.
Proof.
  induction ks as [|k r IH]; intros Hs; cbn; auto. inversion Hs as [|? ? Hr Hall]; subst.
  destruct (aftb fwd sk k) eqn:E; cbn.
  - f_equal. symmetry. apply filter_all_id. intros x Hx.
    rewrite Forall_forall in Hall. apply aftb_spec. apply aftb_spec in E. eapply aft_trans; eauto.
  - destruct (split_after fwd sk r) as [a b] eqn:S; cbn in *. now apply IH.
Qed.

(* select_items reads only the expressions of the request *)
Lemma functional_select lm c t q L esk its :
  select_items lm c t
    {| q_index := q_index q; q_values := q_values q; q_names := q_names q; q_limit := L; q_esk := esk;
       q_keycond := q_keycond q; q_filter := q_filter q; q_cond := q_cond q; q_forward := q_forward q; q_scan := q_scan q |}
    its
  = select_items lm c t q its.
Proof. induction its as [|it r IH]; cbn [select_items]; auto. rewrite IH. reflexivity. Qed.

(* ---------- one page ---------- *)
Section Page.
Variable lang_match : str -> item -> item -> fmap str -> outcome bool.
Variable c : ictx.
Variable t : table.
Variable q : query.                     (* the request without Limit and ExclusiveStartKey *)
Variable ev : str -> etype * bool * list nat.      (* what the request's expressions yield on the item stored under a key *)

Hypothesis Hbase : q_index q = None.
Hypothesis Hcond : q_cond q = None.
Hypothesis HT : TInv t.
Hypothesis Hev : forall k, In k (t_sorted t) -> match_key lang_match c t q (get_item t k) = Ok (ev k).
(* the key attributes of a stored item encode to the key it is stored under (C13), and keys are not empty *)
Hypothesis HK : forall k it, lookup k (t_data t) = Some it -> get_key (t_ks t) (t_defs t) (key_item (t_ks t) it) = inr k /\ key_item (t_ks t) it <> [] /\ it <> [].

Definition fwd := q_forward q.
Definition ks := if fwd then t_sorted t else rev (t_sorted t).

Definition matched (k : str) : bool := snd (fst (ev k)).
Definition counts (k : str) : bool :=
  match fst (fst (ev k)) with ENone | EFilter => true | EKey => matched k | ECond => false end.

Definition with_page (limit : nat) (esk : item) : query :=
  {| q_index := q_index q; q_values := q_values q; q_names := q_names q; q_limit := limit; q_esk := esk;
     q_keycond := q_keycond q; q_filter := q_filter q; q_cond := q_cond q; q_forward := q_forward q; q_scan := q_scan q |}.

Lemma match_key_with_page L esk it : match_key lang_match c t (with_page L esk) it = match_key lang_match c t q it.
Proof. reflexivity. Qed.

Lemma In_ks k : In k ks <-> In k (t_sorted t).
Proof. unfold ks. destruct fwd; [tauto|]. symmetry. apply in_rev. Qed.

Lemma ks_sorted : StronglySorted (aft fwd) ks.
Proof. unfold ks. apply scan_order_sorted. now apply TInv_sorted. Qed.

Lemma stored k : In k ks -> exists it, lookup k (t_data t) = Some it /\ get_item t k = it.
Proof.
  intros H. apply In_ks in H. destruct HT as [Hw Hs]. rewrite Hs in H. apply In_keys_lookup in H as [it L].
  exists it. split; auto. unfold get_item. now rewrite L.
Qed.

(* the keys a page evaluates: the shortest prefix of [rest] whose counting keys number L (all of it if fewer) *)
Fixpoint page_keys (L cnt : nat) (rest : list str) : list str * list str * bool :=
  match rest with
  | [] => ([], [], false)
  | k :: r =>
      let cnt' := if counts k then S cnt else cnt in
      if Nat.eqb L cnt' then ([k], r, true)
      else let '(p, u, b) := page_keys L cnt' r in (k :: p, u, b)
  end.

Lemma page_keys_app L cnt rest : fst (fst (page_keys L cnt rest)) ++ snd (fst (page_keys L cnt rest)) = rest.
Proof.
  revert cnt; induction rest as [|k r IH]; intros cnt; cbn; auto.
  destruct (Nat.eqb L _); cbn; auto. specialize (IH (if counts k then S cnt else cnt)).
  destruct (page_keys L _ r) as [[p u] b]; cbn in *. now rewrite IH.
Qed.

Lemma page_keys_nonempty L cnt k r : fst (fst (page_keys L cnt (k :: r))) <> [].
Proof. cbn. destruct (Nat.eqb L _); cbn; [discriminate|]. destruct (page_keys L _ r) as [[p u] b]; cbn. discriminate. Qed.

(* the search loop over keys that are all after the start key (or once started) follows page_keys *)
Lemma loop_rest L esk0 sk : forall rest s,
  0 < L -> s_count s < L -> Forall (fun k => In k ks) rest ->
  (s_started s = true \/ Forall (fun k => aftb fwd sk k = true) rest) ->
  exists s',
    search_loop lang_match c t (with_page L esk0) true sk sk (map (fun k => (k, Some k)) rest) s = Ok s' /\
    let '(p, u, b) := page_keys L (s_count s) rest in
    s_items s' = s_items s ++ map (get_item t) (filter matched p) /\
    s_scanned s' = s_scanned s + List.length p /\
    (b = true -> s_count s' = L) /\ (b = false -> s_count s' < L) /\
    s_last s' = match p with [] => s_last s | _ => get_item t (last p []) end.
Proof.
  induction rest as [|k r IH]; intros s HL Hc Hin Hst; cbn [map search_loop page_keys].
  - exists s. split; auto. cbn. rewrite app_nil_r. repeat split; auto; try lia; intros; try discriminate; auto.
  - inversion Hin as [|? ? Hk Hr]; subst.
    destruct (stored k Hk) as [it [Lk Gk]].
    assert (search_step lang_match c t (with_page L esk0) true sk sk (k, Some k) s =
            Ok ({| s_started := true; s_count := if counts k then S (s_count s) else s_count s; s_scanned := S (s_scanned s);
                   s_last := it; s_items := if matched k then s_items s ++ [it] else s_items s;
                   s_fired := s_fired s ++ snd (ev k) |},
                Nat.eqb L (if counts k then S (s_count s) else s_count s))) as St.
    { unfold search_step.
      assert (forall st,
        obind (match_key lang_match c t (with_page L esk0) (match lookup k (t_data t) with Some i => i | None => [] end))
          (fun '(ety, m, f) =>
             let matched0 := match lookup k (t_data t) with Some _ => m | None => true end in
             let count' := match ety with ENone | EFilter => S (s_count s) | EKey => if matched0 then S (s_count s) else s_count s | ECond => s_count s end in
             Ok ({| s_started := st; s_count := count'; s_scanned := S (s_scanned s);
                    s_last := match lookup k (t_data t) with Some i => i | None => [] end;
                    s_items := if matched0 then s_items s ++ [match lookup k (t_data t) with Some i => i | None => [] end] else s_items s;
                    s_fired := s_fired s ++ f |},
                 negb (Nat.eqb (q_limit (with_page L esk0)) 0) && Nat.eqb (q_limit (with_page L esk0)) count')) =
        Ok ({| s_started := st; s_count := if counts k then S (s_count s) else s_count s; s_scanned := S (s_scanned s);
               s_last := it; s_items := if matched k then s_items s ++ [it] else s_items s; s_fired := s_fired s ++ snd (ev k) |},
            Nat.eqb L (if counts k then S (s_count s) else s_count s))) as Go.
      { intros st. rewrite Lk, match_key_with_page. rewrite <- Gk, (Hev k) by (now apply In_ks). rewrite Gk.
        assert (fst (fst (ev k)) <> ECond) as Hne.
        { pose proof (Hev k (proj1 (In_ks k) Hk)) as M. unfold match_key in M. rewrite Hcond in M. cbn in M.
          destruct (q_keycond q); destruct (q_filter q); cbn in M;
            repeat match goal with
                   | M : context [interp_match ?a ?b ?c0 ?d ?e ?f0 ?g ?h] |- _ => destruct (interp_match a b c0 d e f0 g h) as [[? ?]| | |]; cbn in M
                   | M : context [if ?x then _ else _] |- _ => destruct x; cbn in M
                   end; try discriminate; destruct (ev k) as [[e0 m0] f0]; inversion M; subst; cbn; discriminate. }
        unfold counts, matched. destruct (ev k) as [[ety m] f]; cbn [obind fst snd q_limit with_page] in *.
        assert (negb (L =? 0) = true) as -> by (destruct L; [lia|reflexivity]). cbn [andb].
        destruct ety; try congruence; reflexivity. }
      destruct (s_started s) eqn:Es; [apply Go|].
      destruct Hst as [Hst|Hall]; [congruence|].
      inversion Hall as [|? ? Ha1 Ha2]; subst. rewrite after_base. unfold fwd in Ha1. cbn [q_forward with_page]. rewrite Ha1. apply Go. }
    cbn [search_loop]. rewrite St. cbn [obind].
    destruct (Nat.eqb L (if counts k then S (s_count s) else s_count s)) eqn:E.
    + eexists. split; [reflexivity|]. cbn [filter map last]. apply Nat.eqb_eq in E.
      cbn [s_items s_scanned s_count s_last List.length].
      split; [destruct (matched k); cbn; [now rewrite Gk|now rewrite app_nil_r]|].
      split; [lia|]. split; [intros _; lia|]. split; [intros X; discriminate X|]. now rewrite Gk.
    + apply Nat.eqb_neq in E.
      match goal with |- context [search_loop _ _ _ _ _ _ _ _ ?s1] => destruct (IH s1) as [s' [R P]] end; auto.
      * cbn. destruct (counts k); lia.
      * exists s'. split; [exact R|]. cbn [s_count s_items s_scanned s_last] in P.
        destruct (page_keys L (if counts k then S (s_count s) else s_count s) r) as [[p u] b] eqn:PK.
        destruct P as [P1 [P2 [P3 [P4 P5]]]].
        cbn [filter map List.length].
        split; [rewrite P1; destruct (matched k); cbn; [now rewrite <- app_assoc, Gk|reflexivity]|].
        split; [lia|]. split; [exact P3|]. split; [exact P4|].
        rewrite P5. destruct p as [|p0 p']; cbn [last]; [now rewrite Gk|reflexivity].
Qed.


(* the keys that are not after the start key are skipped without being evaluated *)
Lemma loop_pre L esk0 sk : forall pre tail s,
  s_started s = false -> Forall (fun k => aftb fwd sk k = false) pre ->
  search_loop lang_match c t (with_page L esk0) true sk sk (map (fun k => (k, Some k)) (pre ++ tail)) s =
  search_loop lang_match c t (with_page L esk0) true sk sk (map (fun k => (k, Some k)) tail)
    {| s_started := false; s_count := s_count s; s_scanned := s_scanned s + List.length pre; s_last := s_last s;
       s_items := s_items s; s_fired := s_fired s |}.
Proof.
  induction pre as [|k pre IH]; intros tail s Hs Hall; cbn [app map List.length].
  - rewrite Nat.add_0_r. destruct s; cbn in *. now subst.
  - inversion Hall as [|? ? Hk Hr]; subst. cbn [search_loop]. unfold search_step. rewrite Hs.
    rewrite after_base. unfold fwd in Hk. cbn [q_forward with_page]. rewrite Hk. cbn [obind].
    rewrite IH by auto. cbn [s_count s_scanned s_last s_items s_fired]. f_equal. f_equal. lia.
Qed.

Definition rest_of (hs : bool) (sk : str) : list str := if hs then snd (split_after fwd sk ks) else ks.

Lemma rest_of_in hs sk : Forall (fun k => In k ks) (rest_of hs sk).
Proof.
  unfold rest_of. destruct hs; apply Forall_forall; intros k Hk; auto.
  rewrite <- (split_after_app fwd sk ks). apply in_or_app. now right.
Qed.

Definition esk_has (esk : item) : bool := has_start_key (t_ks t) (t_defs t) esk.
Definition esk_key (esk : item) : str := parse_start_key (t_ks t) (t_defs t) esk.
Definition esk_rest (esk : item) : list str := rest_of (esk_has esk) (esk_key esk).

(* one page: the items, in order, of the matching keys among the page's keys; a LastEvaluatedKey iff the page is full *)
Lemma page_result L esk :
  0 < L ->
  let '(p, u, b) := page_keys L 0 (esk_rest esk) in
  exists f,
    search_data lang_match c t (with_page L esk) =
    Ok (map (get_item t) (filter matched p),
        (if b then key_item (t_ks t) (get_item t (last p [])) else []), f).
Proof.
  intros HL. unfold search_data. cbn [q_index with_page q_forward q_esk q_limit]. rewrite Hbase.
  fold (esk_key esk). fold (esk_has esk). fold fwd. fold ks.
  set (sk := esk_key esk). set (hs := esk_has esk).
  destruct (page_keys L 0 (esk_rest esk)) as [[p u] b] eqn:PK. unfold esk_rest in PK. fold sk hs in PK.
  set (s0 := {| s_started := negb hs; s_count := 0; s_scanned := 0; s_last := [];
                s_items := []; s_fired := [] |}).
  assert (exists s', search_loop lang_match c t (with_page L esk) true sk sk (map (fun k => (k, Some k)) ks) s0 = Ok s' /\
            s_items s' = map (get_item t) (filter matched p) /\
            s_scanned s' <= List.length ks /\
            (b = true -> s_count s' = L) /\ (b = false -> s_count s' < L) /\
            s_last s' = match p with [] => [] | _ => get_item t (last p []) end) as [s' [R [I1 [I2 [I3 [I4 I5]]]]]].
  { destruct hs eqn:Ehs.
    - (* resuming after the start key *)
      pose proof (split_after_app fwd sk ks) as A.
      pose proof (split_after_pre fwd sk ks) as Hpre.
      pose proof (split_after_rest fwd sk ks ks_sorted) as Hrest.
      destruct (split_after fwd sk ks) as [pre rest] eqn:S; cbn [fst snd] in *.
      rewrite <- A. rewrite (loop_pre L esk sk pre rest s0) by auto.
      assert (rest_of true sk = rest) as Er by (unfold rest_of; now rewrite S).
      match goal with |- context [search_loop _ _ _ _ _ _ _ _ ?s1] =>
        destruct (loop_rest L esk sk rest s1 HL) as [s' [R P]] end; cbn; auto; try lia.
      { rewrite <- Er. apply rest_of_in. }
      exists s'. split; [exact R|]. rewrite Er in PK.
      unfold s0 in P. cbn [s_count s_items s_scanned s_last] in P. rewrite PK in P. destruct P as [P1 [P2 [P3 [P4 P5]]]]. cbn [app] in *.
      repeat split; auto.
      pose proof (page_keys_app L 0 rest) as A2. rewrite PK in A2. cbn in A2. rewrite app_length, <- A2, app_length. lia.
    - (* from the beginning *)
      destruct (loop_rest L esk sk ks s0 HL) as [s' [R P]]; cbn; auto; try lia.
      { apply Forall_forall. auto. }
      exists s'. split; [exact R|]. unfold rest_of in PK. cbn [s_count s0] in P. rewrite PK in P.
      destruct P as [P1 [P2 [P3 [P4 P5]]]]. cbn [s_items s_scanned s_last s0 app] in *.
      repeat split; auto.
      pose proof (page_keys_app L 0 ks) as A. rewrite PK in A. cbn in A. rewrite <- A, app_length. lia. }
  rewrite R. cbn [obind]. exists (s_fired s'). rewrite I1. f_equal. f_equal. f_equal.
  rewrite I5. destruct p as [|p0 p'].
  - destruct b; auto. exfalso.
    (* a full page is not empty *)
    destruct (rest_of hs sk) as [|k0 r0]; cbn in PK; [inversion PK|].
    destruct (Nat.eqb L _); [inversion PK|]. destruct (page_keys L _ r0) as [[p1 u1] b1]. inversion PK.
  - assert (In (last (p0 :: p') []) ks) as Hin.
    { pose proof (rest_of_in hs sk) as F. rewrite Forall_forall in F. apply F.
      pose proof (page_keys_app L 0 (rest_of hs sk)) as A. rewrite PK in A. cbn [fst snd] in A. rewrite <- A.
      apply in_or_app. left.
      destruct (@exists_last _ (p0 :: p') ltac:(discriminate)) as [l' [a Ea]]. rewrite Ea. rewrite last_last. apply in_or_app. right. now left. }
    destruct (stored _ Hin) as [it [Lk Gk]]. rewrite Gk.
    destruct (HK _ _ Lk) as [_ [_ Hne]].
    destruct it as [|kv it']; [congruence|].
    destruct (Nat.eqb L 0) eqn:E0; [apply Nat.eqb_eq in E0; lia|].
    assert (Nat.leb (s_scanned s') (List.length (map (fun k : str => (k, Some k)) ks)) = true) as -> by (apply Nat.leb_le; now rewrite map_length).
    destruct b.
    + rewrite (I3 eq_refl), Nat.leb_refl. cbn. unfold merge_items. reflexivity.
    + assert (Nat.leb L (s_count s') = false) as -> by (apply Nat.leb_gt; auto). reflexivity.
Qed.

(* ---------- stitching the pages ---------- *)
Lemma page_keys_false L : forall rest cnt p u, page_keys L cnt rest = (p, u, false) -> u = [].
Proof.
  induction rest as [|k r IH]; intros cnt p u H; cbn in H; [now inversion H|].
  destruct (Nat.eqb L _); [inversion H|]. destruct (page_keys L _ r) as [[p1 u1] b1] eqn:E. inversion H; subst.
  eapply IH; eauto.
Qed.

Lemma rest_of_suffix hs sk : exists pre, ks = pre ++ rest_of hs sk.
Proof.
  unfold rest_of. destruct hs; [|now exists []].
  exists (fst (split_after fwd sk ks)). symmetry. apply split_after_app.
Qed.

Lemma rest_of_member a x b : ks = a ++ x :: b -> rest_of true x = b.
Proof.
  intros E. unfold rest_of.
  pose proof ks_sorted as S. rewrite E in *. now rewrite split_after_member.
Qed.

(* the LastEvaluatedKey of a page names the last key the page evaluated (which may be the empty string) *)
Lemma stitch x : In x ks ->
  key_item (t_ks t) (get_item t x) <> [] /\
  esk_has (key_item (t_ks t) (get_item t x)) = true /\ esk_key (key_item (t_ks t) (get_item t x)) = x.
Proof.
  intros Hin. destruct (stored _ Hin) as [it [Lk Gk]]. rewrite Gk.
  destruct (HK _ _ Lk) as [G [Hk _]]. repeat split; auto.
  - unfold esk_has, has_start_key. destruct (key_item (t_ks t) it) eqn:E; [congruence|]. now rewrite G.
  - unfold esk_key, parse_start_key. destruct (key_item (t_ks t) it) eqn:E; [congruence|]. now rewrite G.
Qed.

(* the client-side pagination loop: follow LastEvaluatedKey until a page comes without one *)
Fixpoint pages (fuel L : nat) (esk : item) : option (list item) :=
  match fuel with
  | O => None
  | S f => match search_data lang_match c t (with_page L esk) with
           | Ok (items, lek, _) =>
               match lek with [] => Some items | _ => option_map (app items) (pages f L lek) end
           | _ => None
           end
  end.

Lemma pages_from L : 0 < L -> forall n esk,
  List.length (esk_rest esk) <= n ->
  pages (S n) L esk = Some (map (get_item t) (filter matched (esk_rest esk))).
Proof.
  intros HL. induction n as [|n IH]; intros esk Hlen.
  - destruct (esk_rest esk) as [|k0 r0] eqn:E; [|cbn in Hlen; lia].
    pose proof (page_result L esk HL) as P. rewrite E in P. cbn [page_keys] in P.
    destruct P as [f P]. cbn [pages]. rewrite P. reflexivity.
  - pose proof (page_result L esk HL) as P.
    set (rest := esk_rest esk) in *.
    destruct (page_keys L 0 rest) as [[p u] b] eqn:PK. destruct P as [f P].
    pose proof (page_keys_app L 0 rest) as A. rewrite PK in A. cbn [fst snd] in A.
    change (pages (S (S n)) L esk) with
      (match search_data lang_match c t (with_page L esk) with
       | Ok (items, lek, _) => match lek with [] => Some items | _ => option_map (app items) (pages (S n) L lek) end
       | _ => None end).
    rewrite P. destruct b.
    + (* a full page: the next one starts after its last key *)
      destruct p as [|p0 p'].
      { exfalso. destruct rest as [|k0 r0]; cbn in PK; [inversion PK|].
        destruct (Nat.eqb L _); [inversion PK|]. destruct (page_keys L _ r0) as [[p1 u1] b1]. inversion PK. }
      destruct (@exists_last _ (p0 :: p') ltac:(discriminate)) as [l' [x Ex]]. rewrite Ex in *. rewrite last_last.
      destruct (rest_of_suffix (esk_has esk) (esk_key esk)) as [pre Hpre]. fold (esk_rest esk) in Hpre. fold rest in Hpre.
      assert (ks = (pre ++ l') ++ x :: u) as Hks. { rewrite Hpre, <- A, <- !app_assoc. reflexivity. }
      assert (In x ks) as Hin. { rewrite Hks. apply in_or_app. right. now left. }
      destruct (stitch x Hin) as [Hne [Hh Hp]].
      destruct (key_item (t_ks t) (get_item t x)) as [|kv kr] eqn:EK; [congruence|]. rewrite <- EK in *.
      assert (esk_rest (key_item (t_ks t) (get_item t x)) = u) as Hu.
      { unfold esk_rest. rewrite Hh, Hp. eapply rest_of_member; eauto. }
      rewrite IH; rewrite Hu.
      * cbn [option_map]. f_equal. rewrite <- A, !filter_app, !map_app. reflexivity.
      * rewrite <- A, !app_length in Hlen. cbn [List.length] in Hlen. lia.
    + (* a short page is the last: nothing is left *)
      apply page_keys_false in PK as Hu. subst u. rewrite app_nil_r in A. now rewrite A.
Qed.

(* C04 for the base table: following LastEvaluatedKey with any Limit >= 1 terminates within |keys|+1 pages and
   concatenates to the items the request selects, in the scan order *)
Theorem paginate_complete L : 0 < L ->
  pages (S (List.length (t_sorted t))) L [] = Some (map (get_item t) (filter matched ks)).
Proof.
  intros HL. pose proof (pages_from L HL (List.length (t_sorted t)) []) as P.
  apply P. unfold esk_rest, esk_has, has_start_key, rest_of, ks. destruct fwd; [|rewrite rev_length]; lia.
Qed.

(* resuming from ANY start key - whether or not an item is (still) stored under it - returns every matching item
   positioned after that key in the scan order: the item named by a LastEvaluatedKey may be deleted between pages *)
Lemma esk_rest_spec esk : esk_rest esk = if esk_has esk then filter (aftb fwd (esk_key esk)) ks else ks.
Proof. unfold esk_rest, rest_of. destruct (esk_has esk); auto. apply split_after_filter. apply ks_sorted. Qed.

Theorem resume_complete L esk : 0 < L ->
  pages (S (List.length (t_sorted t))) L esk =
  Some (map (get_item t) (filter matched (if esk_has esk then filter (aftb fwd (esk_key esk)) ks else ks))).
Proof.
  intros HL. rewrite <- esk_rest_spec. apply pages_from; auto.
  destruct (rest_of_suffix (esk_has esk) (esk_key esk)) as [pre Hpre]. fold (esk_rest esk) in Hpre.
  assert (List.length ks = List.length (t_sorted t)) as <- by (unfold ks; destruct fwd; [|rewrite rev_length]; reflexivity).
  rewrite Hpre, app_length. lia.
Qed.

(* the unpaginated read of the same request *)
Lemma select_items_ev : forall l, Forall (fun k => In k ks) l ->
  exists f, select_items lang_match c t q (map (get_item t) l) = Ok (map (get_item t) (filter matched l), f).
Proof.
  induction l as [|k l IH]; intros H; cbn; [eauto|]. inversion H as [|? ? Hk Hl]; subst.
  rewrite (Hev k) by (now apply In_ks). destruct (IH Hl) as [f ->]. unfold matched at 2.
  destruct (ev k) as [[e m] f0]; cbn. destruct m; eauto.
Qed.

Theorem unpaginated :
  exists f, search_data lang_match c t (with_page 0 []) = Ok (map (get_item t) (filter matched ks), [], f).
Proof.
  rewrite (search_unlimited_base lang_match c t (with_page 0 []) HT Hbase (conj eq_refl eq_refl)).
  change (q_forward (with_page 0 [])) with fwd. fold ks.
  unfold with_page at 1. rewrite functional_select.
  destruct (select_items_ev ks) as [f ->]; [apply Forall_forall; auto|]. cbn. eauto.
Qed.

(* C04, base table: the pages concatenate to exactly the unpaginated result *)
Theorem paginate_equals_unpaginated L : 0 < L ->
  exists items f, search_data lang_match c t (with_page 0 []) = Ok (items, [], f) /\
                  pages (S (List.length (t_sorted t))) L [] = Some items.
Proof.
  intros HL. destruct unpaginated as [f U]. exists (map (get_item t) (filter matched ks)), f. split; auto.
  now apply paginate_complete.
Qed.

End Page.

(* the same with the premise on keys discharged by the key-consistency invariant (KeyInv.v), which holds in every
   reachable state of histories whose updates do not change key attributes *)
Theorem pagination_complete_base lm c t q ev :
  q_index q = None -> q_cond q = None -> secondary (t_ks t) = false ->
  TInv t -> KInv t ->
  (forall k, In k (t_sorted t) -> match_key lm c t q (get_item t k) = Ok (ev k)) ->
  forall L, 0 < L ->
  exists items f, search_data lm c t (with_page q 0 []) = Ok (items, [], f) /\
                  pages lm c t q (S (List.length (t_sorted t))) L [] = Some items.
Proof.
  intros Hb Hc Hs HT HKi Hev L HL.
  apply (paginate_equals_unpaginated lm c t q ev Hb Hc HT Hev (KInv_page_premise t Hs HKi) L HL).
Qed.

Theorem resume_complete_base lm c t q ev :
  q_index q = None -> q_cond q = None -> secondary (t_ks t) = false ->
  TInv t -> KInv t ->
  (forall k, In k (t_sorted t) -> match_key lm c t q (get_item t k) = Ok (ev k)) ->
  forall L esk, 0 < L ->
  pages lm c t q (S (List.length (t_sorted t))) L esk =
  Some (map (get_item t)
         (filter (matched ev)
            (if has_start_key (t_ks t) (t_defs t) esk
             then filter (aftb (q_forward q) (parse_start_key (t_ks t) (t_defs t) esk)) (ks t q)
             else ks t q))).
Proof.
  intros Hb Hc Hs HT HKi Hev L esk HL.
  apply (resume_complete lm c t q ev Hb Hc HT Hev (KInv_page_premise t Hs HKi) L esk HL).
Qed.
