(* C13: the key string of an item. *)
From Coq Require Import List Bool Arith NArith Lia.
From Coq Require Import Strings.Byte Strings.String.
From Minidyn Require Import Base.Str Base.FMap Base.Outcome Model.Value Model.Key.
Import ListNotations.

Definition no_dot (s : str) : Prop := ~ In dot s.

Lemma sep_inj (sep : byte) t1 t2 a b :
  ~ In sep t1 -> ~ In sep t2 -> t1 ++ [sep] ++ a = t2 ++ [sep] ++ b -> t1 = t2 /\ a = b.
Proof.
  revert t2; induction t1 as [|c t1 IH]; intros t2 H1 H2 E.
  - destruct t2 as [|d t2]; cbn in E.
    + inversion E; auto.
    + inversion E; subst. exfalso. apply H2. now left.
  - destruct t2 as [|d t2]; cbn in E.
    + inversion E; subst. exfalso. apply H1. now left.
    + inversion E; subst. destruct (IH t2) as [-> ->]; auto.
      * intros Hin. apply H1. now right.
      * intros Hin. apply H2. now right.
Qed.

(* string- and number-typed key attributes render as their text *)
Lemma go_value_S v s : go_value v (bs "S") = Some s <-> v = AS s.
Proof. destruct v; cbn; split; intros H; inversion H; auto. Qed.

Lemma go_value_N v s : go_value v (bs "N") = Some s <-> v = AN s.
Proof. destruct v; cbn; split; intros H; inversion H; auto. Qed.

(* hash-only schemas over S or N: equal key strings mean equal key attribute values *)
Theorem key_inj_hash_only ks defs it1 it2 k :
  rangek ks = [] -> (def_type defs (hashk ks) = bs "S" \/ def_type defs (hashk ks) = bs "N") ->
  key_value ks defs it1 = inr k -> key_value ks defs it2 = inr k ->
  lookup (hashk ks) it1 = lookup (hashk ks) it2.
Proof.
  intros Hr Ht. unfold key_value, item_value. rewrite Hr.
  destruct (lookup (hashk ks) it1) as [v1|]; [|discriminate].
  destruct (lookup (hashk ks) it2) as [v2|]; [|discriminate].
  destruct Ht as [-> | ->].
  - destruct (go_value v1 (bs "S")) eqn:G1; [|discriminate]. destruct (go_value v2 (bs "S")) eqn:G2; [|discriminate].
    intros E1 E2. inversion E1; inversion E2; subst. apply go_value_S in G1, G2. congruence.
  - destruct (go_value v1 (bs "N")) eqn:G1; [|discriminate]. destruct (go_value v2 (bs "N")) eqn:G2; [|discriminate].
    intros E1 E2. inversion E1; inversion E2; subst. apply go_value_N in G1, G2. congruence.
Qed.

(* hash+range: the "." separator is unambiguous as soon as the rendered hash values contain no "." *)
Theorem key_inj_dotfree h1 r1 h2 r2 :
  no_dot h1 -> no_dot h2 -> h1 ++ [dot] ++ r1 = h2 ++ [dot] ++ r2 -> h1 = h2 /\ r1 = r2.
Proof. apply sep_inj. Qed.

(* ... and it is ambiguous otherwise: the known finding C13-1 *)
Theorem key_collision_refuted :
  exists ks defs it1 it2,
    lookup (hashk ks) it1 <> lookup (hashk ks) it2 /\ key_value ks defs it1 = key_value ks defs it2 /\
    exists k, key_value ks defs it1 = inr k.
Proof.
  exists {| hashk := bs "h"; rangek := bs "r"; secondary := false |},
         [(bs "h", bs "S"); (bs "r", bs "S")],
         [(bs "h", AS (bs "a.b")); (bs "r", AS (bs "c"))],
         [(bs "h", AS (bs "a")); (bs "r", AS (bs "b.c"))].
  split; [vm_compute; discriminate|]. split; [reflexivity|]. eexists. reflexivity.
Qed.

(* a key that lacks a key attribute, or carries it with another type than declared, is rejected *)
Ltac fin := repeat match goal with
  | H : _ \/ _ |- _ => destruct H
  | H : exists _, _ |- _ => destruct H
  | H : _ /\ _ |- _ => destruct H
  | H : Some _ = Some _ |- _ => inversion H; subst; clear H
  end; try discriminate; try congruence.

Theorem bad_key_rejected ks defs it :
  secondary ks = false ->
  (lookup (hashk ks) it = None \/ (exists v, lookup (hashk ks) it = Some v /\ go_value v (def_type defs (hashk ks)) = None) \/
   (rangek ks <> [] /\ (lookup (rangek ks) it = None \/
                        exists v, lookup (rangek ks) it = Some v /\ go_value v (def_type defs (rangek ks)) = None))) <->
  exists e, get_key ks defs it = inl e.
Proof.
  intros Hs. unfold get_key, key_value, item_value. rewrite Hs.
  destruct (lookup (hashk ks) it) as [vh|] eqn:Lh.
  - destruct (go_value vh (def_type defs (hashk ks))) as [h|] eqn:Gh.
    + destruct (rangek ks) as [|c rk] eqn:Er.
      * split; [intros H; fin|intros [e E]; discriminate].
      * destruct (lookup (c :: rk) it) as [vr|] eqn:Lr.
        -- destruct (go_value vr (def_type defs (c :: rk))) as [r|] eqn:Gr.
           ++ split; [intros H; fin|intros [e E]; discriminate].
           ++ split; [intros _; eauto|]. intros _. right. right. split; [discriminate|]. right. eauto.
        -- split; [intros _; eauto|]. intros _. right. right. split; [discriminate|]. now left.
    + split; [intros _; eauto|]. intros _. right. left. eauto.
  - split; [intros _; eauto|]. intros _. now left.
Qed.
