(* C14  Stored data is isolated from caller-owned memory  (PARTIAL: see DESIGN.md) *)
From Coq Require Import List Bool Arith.
From Coq Require Import Strings.String.
From Minidyn Require Import Base.Str Gen.Copies Model.Alias.
From Minidyn Require Import Proofs.AliasFacts.
Import ListNotations.

(* the copy policy of the four attribute-value mappers, read from the sources on every run: every kind of value
   is copied in both directions by both clients, and all ten kinds are covered *)
Theorem C14_mappers_copy_everything :
  forallb (fun e => negb (snd e)) copy_table = true /\
  table_covers (bs "v1") (bs "in") = true /\ table_covers (bs "v1") (bs "out") = true /\
  table_covers (bs "v2") (bs "in") = true /\ table_covers (bs "v2") (bs "out") = true.
Proof. exact copy_table_all_fresh. Qed.

Theorem C14_policy_shares_nothing : forall sdk dir k, table_shared sdk dir k = false.
Proof. exact table_policy_is_fresh. Qed.

(* for value trees of any shape and depth: a copy made under a policy that shares nothing has no mutable cell in
   common with its argument *)
Theorem C14_fresh_copy_disjoint :
  forall v next, (forall l, In l (locs v) -> l < next) ->
    forall l, In l (locs (fst (copy_val (fun _ => false) next v))) -> ~ In l (locs v).
Proof. exact fresh_copy_disjoint. Qed.
