(* C09  The expression front end is total and strict. *)
From Coq Require Import List Bool Arith.
From Minidyn Require Import Base.Str Base.FMap Base.Outcome Model.Value Model.Key Model.Index Model.Table
  Model.Token Gen.Tables Model.Lexer Model.Parser Model.Object Model.Eval Model.Language.
From Minidyn Require Import Proofs.ExprFacts.
Import ListNotations.

(* strictness: an expression is accepted without parser error only if nothing is left after it *)
Theorem C09_accepted_means_consumed :
  forall p, nerrs (expect_end p) = nerrs p -> ty (cur p) = EOF \/ ty (peek p) = EOF.
Proof. exact accepted_means_consumed. Qed.

Theorem C09_lone_identifier_rejected :
  forall s, ty (cur (init s)) = IDENT -> ty (peek (init s)) = EOF -> parse_cond s = Some (ENil, 1).
Proof. exact lone_identifier_rejected. Qed.

(* keywords in another letter case are not keywords (they lex as names, and are then rejected as trailing tokens) *)
Theorem C09_keywords_are_upper_case_only : forallb (fun kw => str_eqb (to_upper (fst kw)) (fst kw)) keywords = true.
Proof. exact keywords_upper_only. Qed.

(* Language.Match yields a verdict or a syntax / unsupported error, nothing else *)
Theorem C09_match_yields_verdict_or_error :
  forall expr it vals names,
    match lang_match expr it vals names with
    | Ok _ | Err Syntax | Err Unsupported | OutOfFuel => True
    | _ => False
    end.
Proof. exact lang_match_results. Qed.

(* at the client a rejected expression surfaces as the documented panic (conditions) or an error (updates),
   never as a verdict, and the table is unchanged *)
Theorem C09_match_rejection_surfaces :
  forall lm c tn k e it vals names err,
    use_native c = false -> lm e it vals names = Err err ->
    interp_match lm c tn k e it vals names = Panic (match err with Syntax => SyntaxPanic | Unsupported => UnsupportedPanic | _ => RuntimePanic end).
Proof. exact match_rejection_surfaces. Qed.

Theorem C09_update_rejection_surfaces :
  forall lm lu c t k e names vals key err,
    use_native c = false -> get_key (t_ks t) (t_defs t) k = inr key ->
    lu e (match lookup key (t_data t) with Some i => i | None => Key.key_item (t_ks t) k end) vals names = Err err ->
    t_update lm lu c t k e None names vals = (t, WErr err).
Proof. exact update_rejection_surfaces. Qed.

(* totality: for EVERY byte string (no length bound needed) both parsers return a tree and an error count - the fuel
   of the model's parser, 8 * length + 16, is never exhausted; the measure is the input not yet consumed *)
From Minidyn Require Import Proofs.ParserFuel.

Theorem C09_condition_parser_total : forall s, exists e k, parse_cond s = Some (e, k).
Proof. exact parse_cond_total. Qed.

Theorem C09_update_parser_total : forall s, exists e k, parse_upd s = Some (e, k).
Proof. exact parse_upd_total. Qed.

(* hence Match and Update terminate on every expression, item and bindings with a verdict / an item, or with a
   syntax or unsupported error - never out of fuel, never a runtime fault of the model *)
Theorem C09_match_total :
  forall expr it vals names,
    (exists b, lang_match expr it vals names = Ok b) \/ lang_match expr it vals names = Err Syntax \/
    lang_match expr it vals names = Err Unsupported.
Proof. exact lang_match_total. Qed.

Theorem C09_update_total :
  forall expr it vals names,
    (exists it', lang_update expr it vals names = Ok it') \/ lang_update expr it vals names = Err Syntax \/
    lang_update expr it vals names = Err Unsupported.
Proof. exact lang_update_total. Qed.

(* the character classes of the model's lexer are the code's: isLetter, isIdentifierLetter and the loop condition of
   skipWhitespace, translated from lexer.go on every run (Gen/Funcs.v) *)
From Minidyn Require Import Gen.Funcs Proofs.GenFuncs.

Theorem C09_lexer_character_classes_are_the_code :
  forall c, go_isLetter c = is_letter c /\ go_isIdentifierLetter c = is_ident_char c /\ go_isWhitespace c = is_lex_space c.
Proof. intros c. exact (conj (is_letter_is_code c) (conj (is_ident_char_is_code c) (is_lex_space_is_code c))). Qed.

(* dangling operands are rejected (repaired in the code by f345586): BETWEEN takes two identifier tokens around AND,
   "." and "[" take an identifier token, IN requires its opening parenthesis - otherwise the parse records an error *)
Theorem C09_between_operands_checked :
  forall upd n l p e p',
    pinfix upd (S n) IBetween l p = Some (e, p') ->
    (e = ENil /\ nerrs p' = S (nerrs p)) \/
    (exists lo hi, e = EBetween (cur p) l (EIdent lo) (EIdent hi) /\ ty lo = IDENT /\ ty hi = IDENT /\ nerrs p' = nerrs p).
Proof. exact between_operands_checked. Qed.

Theorem C09_index_operand_checked :
  forall upd n l p e p',
    pinfix upd (S n) IIndex l p = Some (e, p') ->
    (e = ENil /\ nerrs p' = S (nerrs p)) \/
    (exists idx, e = EIndex (cur p) l (EIdent idx) /\ ty idx = IDENT /\ nerrs p' = nerrs p).
Proof. exact index_operand_checked. Qed.

Theorem C09_in_requires_parenthesis :
  forall upd n l p, ty (peek p) <> LPAREN -> pinfix upd (S n) IIn l p = Some (ENil, add_err p).
Proof. exact in_requires_parenthesis. Qed.

(* the strings that used to be accepted, evaluated in the kernel: each is now a syntax error, whatever the item *)
Theorem C09_dangling_sentences_rejected :
  (forall it vals names, lang_match dangling1 it vals names = Err Syntax) /\
  (forall it vals names, lang_match dangling2 it vals names = Err Syntax) /\
  (forall it vals names, lang_match dangling3 it vals names = Err Syntax) /\
  (forall it vals names, lang_update dangling4 it vals names = Err Syntax) /\
  (forall it vals names, lang_update dangling5 it vals names = Err Syntax).
Proof. exact dangling_sentences_rejected. Qed.
