(* C06  Condition, filter and key expressions evaluate per DynamoDB semantics. *)
From Coq Require Import List Bool Arith.
From Coq Require Import Strings.String.
From Minidyn Require Import Base.Str Base.FMap Base.Outcome Model.Value Model.Token Gen.Tables Model.Lexer Model.Parser Model.Object Model.Eval.
From Minidyn Require Import Proofs.ExprFacts.
Import ListNotations.

(* comparison binds tighter than NOT, NOT than AND, AND than OR (precedence table read from the sources) *)
Theorem C06_precedence_chain :
  forallb (fun cmp => Nat.ltb prec_not (prec cmp)) [EQ; NotEQ; LT; LTE; GT; GTE; BETWEEN; IN] = true /\
  Nat.ltb (prec AND) prec_not = true /\ Nat.ltb (prec OR) (prec AND) = true /\ Nat.ltb prec_lowest (prec OR) = true.
Proof. exact precedence_chain. Qed.

(* a missing attribute makes every comparison false, and <> true (for every comparable other operand) *)
Theorem C06_missing_attribute_comparisons :
  forall op v, In op cmp_ops -> is_comparable v = true ->
    eval_infix op UNDEFINED v = of_bool (match op with NotEQ => true | _ => false end) /\
    eval_infix op v UNDEFINED = of_bool (match op with NotEQ => true | _ => false end).
Proof. exact missing_attribute_comparisons. Qed.

(* equality is type-sensitive; ordering exists only within one scalar type *)
Theorem C06_equality_type_sensitive :
  forall l r, is_comparable l = true -> is_comparable r = true -> is_undefined l = false -> is_undefined r = false ->
    otype_eqb (type_of l) (type_of r) = false -> eval_infix EQ l r = FALSE /\ eval_infix NotEQ l r = TRUE.
Proof. exact equality_type_sensitive. Qed.

Theorem C06_ordering_needs_same_type :
  forall op l r, In op [LT; LTE; GT; GTE] ->
    is_comparable l = true -> is_comparable r = true -> is_undefined l = false -> is_undefined r = false ->
    otype_eqb (type_of l) (type_of r) = false -> eval_infix op l r = EErr.
Proof. exact ordering_needs_same_type. Qed.

(* a NULL-typed attribute exists; a missing attribute does not exist and has no type *)
Theorem C06_null_attribute_exists :
  call_cond_function (bs "attributeExists") [VNull false] = TRUE /\
  call_cond_function (bs "attributeNotExists") [VNull false] = FALSE /\
  call_cond_function (bs "attributeExists") [UNDEFINED] = FALSE /\
  call_cond_function (bs "attributeNotExists") [UNDEFINED] = TRUE /\
  call_cond_function (bs "attributeType") [VNull false; VStr (bs "NULL")] = TRUE /\
  (forall t, call_cond_function (bs "attributeType") [UNDEFINED; VStr t] = (if mem_str t dynamodb_types then FALSE else EErr)).
Proof. exact null_attribute_exists. Qed.

Theorem C06_connectives :
  forall a b, eval_infix AND (VBool a) (VBool b) = of_bool (a && b) /\ eval_infix OR (VBool a) (VBool b) = of_bool (a || b).
Proof. exact connectives. Qed.

(* the precedence chain as the parser applies it: with any of the six comparators in each position,
   "NOT a c1 :x AND b c2 :y OR c c3 :z" parses as (((NOT (a c1 :x)) AND (b c2 :y)) OR (c c3 :z)) and
   "a c1 :x OR b c2 :y AND NOT c c3 :z" as ((a c1 :x) OR ((b c2 :y) AND (NOT (c c3 :z)))), without parser errors
   (a finite sweep - 216 combinations, fixed operand names - evaluated in the kernel) *)
Theorem C06_precedence_grouping :
  forall c1 c2 c3, In c1 comparators -> In c2 comparators -> In c3 comparators -> groups_by_precedence c1 c2 c3 = true.
Proof. exact precedence_grouping. Qed.
