(* C03  Secondary indexes always mirror the base table. *)
From Coq Require Import List Bool.
From Minidyn Require Import Base.Str Base.FMap Base.Outcome Model.Value Model.Key Model.Index Model.Table Model.Client.
From Minidyn Require Import Proofs.FMapFacts Proofs.SortFacts Proofs.TableInv Proofs.IndexInv Proofs.TableIndexInv Proofs.ClientInv Proofs.ClientIndexInv.
Import ListNotations.

(* In every state reachable by any history of writes, clears, table and index creations/deletions (for every
   interpreter, both SDKs) every index satisfies IInv:
     refs = { primary key -> index key } over exactly the stored items that have the index's key attributes,
     sortedKeys = the sorted multiset of those index keys (so count() is the number of such items).
   No side condition: UpdateTable / AddIndex can not re-type a key attribute (Table.CheckAttributeDefinition, fix c854008). *)
Theorem C03_index_invariant_reachable :
  forall lm lu sdk ops cn tn c t,
    lookup cn (fst (run lm lu sdk [] ops)) = Some c -> lookup tn (c_tables c) = Some t -> XInv t.
Proof. exact XInv_reachable. Qed.

(* the one-step facts behind it, for an arbitrary table state *)
Theorem C03_put_refiles_item :
  forall defs data ix key it ix', wf data -> IInv defs data ix -> ix_put defs key it ix = inr ix' -> IInv defs (insert key it data) ix'.
Proof. exact IInv_put. Qed.

Theorem C03_delete_unfiles_item :
  forall defs data ix key, wf data -> IInv defs data ix -> IInv defs (remove key data) (ix_remove key ix).
Proof. exact IInv_remove. Qed.

(* an index created on a non-empty table contains the existing items *)
Theorem C03_index_creation_backfills :
  forall t ppr d t', XInv t -> add_global_index t ppr d = Some t' -> XInv t'.
Proof. exact XInv_add_global_index. Qed.

(* the per-index item count (ix_count, what DescribeTable reports for the index) is the number of stored items that have
   the index's key attributes; with IInv for every reachable state this is the last clause of the property *)
From Minidyn Require Import Proofs.IndexWalk.

Theorem C03_index_count_is_number_of_indexed_items :
  forall defs data ix, wf data -> IInv defs data ix -> ix_count ix = List.length (filter (indexed (ix_ks ix) defs) data).
Proof. exact index_count_is_indexed_items. Qed.
