(* C04  Paginating with any Limit yields the same result as one unpaginated read  (partial: see DESIGN.md) *)
From Coq Require Import List Bool Arith.
From Minidyn Require Import Base.Str Base.FMap Base.Outcome Model.Value Model.Key Model.Index Model.Table.
From Minidyn Require Import Proofs.Paging.
Import ListNotations.

(* the next page starts at the first entry ordered after the exclusive start key, in the scan direction: the
   decision is an order comparison, so it does not depend on the item named by the key still being stored *)
Theorem C04_resume_by_position_forward :
  forall k pk sik spk, after_start_key k pk sik spk true = true <-> (str_lt sik k \/ (k = sik /\ str_lt spk pk)).
Proof. exact after_start_key_forward. Qed.

Theorem C04_resume_by_position_backward :
  forall k pk sik spk, after_start_key k pk sik spk false = true <-> (str_lt k sik \/ (k = sik /\ str_lt pk spk)).
Proof. exact after_start_key_backward. Qed.

(* a page never holds more items than the Limit (for every interpreter, table state, index and start key) *)
Theorem C04_page_size_at_most_limit :
  forall lm c t q items lek f,
    q_cond q = None -> 0 < q_limit q -> search_data lm c t q = Ok (items, lek, f) -> List.length items <= q_limit q.
Proof. exact page_size_le_limit. Qed.
