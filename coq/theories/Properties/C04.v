(* C04  Paginating with any Limit yields the same result as one unpaginated read
   (complete for the base table; per-page facts for indexes: see DESIGN.md) *)
From Coq Require Import List Bool Arith.
From Minidyn Require Import Base.Str Base.FMap Base.Outcome Model.Value Model.Key Model.Index Model.Table.
From Minidyn Require Import Proofs.Paging Proofs.TableInv Proofs.KeyInv Proofs.Pagination.
Import ListNotations.

(* the next page starts at the first entry ordered after the exclusive start key, in the scan direction: the
   decision is an order comparison, so it does not depend on the item named by the key still being stored *)
Theorem C04_resume_by_position_forward :
  forall k pk sik spk, after_start_key k pk sik spk true = true <-> (str_lt sik k \/ (k = sik /\ str_lt spk pk)).
Proof. exact after_start_key_forward. Qed.

Theorem C04_resume_by_position_backward :
  forall k pk sik spk, after_start_key k pk sik spk false = true <-> (str_lt k sik \/ (k = sik /\ str_lt pk spk)).
Proof. exact after_start_key_backward. Qed.

(* a page never holds more items than the Limit (for every interpreter, table state, index and start key) *)
Theorem C04_page_size_at_most_limit :
  forall lm c t q items lek f,
    q_cond q = None -> 0 < q_limit q -> search_data lm c t q = Ok (items, lek, f) -> List.length items <= q_limit q.
Proof. exact page_size_le_limit. Qed.

(* Base table, any interpreter, any key condition / filter, both directions, any Limit >= 1:
   following LastEvaluatedKey until none is returned ends within |keys|+1 pages and the pages concatenate to exactly
   the items the unpaginated request returns, in the same order.  [pages] is the client-side loop; [ev k] is what the
   request's expressions yield on the item stored under k (they evaluate without error); KInv: items are stored under
   their own key (C13).  Non-vacuity: Witness/W04.v. *)
Theorem C04_pagination_complete_base :
  forall lm c t q ev,
    q_index q = None -> q_cond q = None -> secondary (t_ks t) = false ->
    TInv t -> KInv t ->
    (forall k, In k (t_sorted t) -> match_key lm c t q (get_item t k) = Ok (ev k)) ->
    forall L, 0 < L ->
    exists items f, search_data lm c t (with_page q 0 []) = Ok (items, [], f) /\
                    pages lm c t q (S (List.length (t_sorted t))) L [] = Some items.
Proof. exact pagination_complete_base. Qed.

(* Resuming from ANY exclusive start key, whether or not an item is still stored under it (it may have been deleted
   between two pages), returns every matching item positioned after that key in the scan direction, and only those *)
Theorem C04_resume_returns_all_after_start_key :
  forall lm c t q ev,
    q_index q = None -> q_cond q = None -> secondary (t_ks t) = false ->
    TInv t -> KInv t ->
    (forall k, In k (t_sorted t) -> match_key lm c t q (get_item t k) = Ok (ev k)) ->
    forall L esk, 0 < L ->
    pages lm c t q (S (List.length (t_sorted t))) L esk =
    Some (map (get_item t)
           (filter (matched ev)
              (if has_start_key (t_ks t) (t_defs t) esk
               then filter (aftb (q_forward q) (parse_start_key (t_ks t) (t_defs t) esk)) (ks t q)
               else ks t q))).
Proof. exact resume_complete_base. Qed.

(* Through a secondary index (global or local), any interpreter, key condition / filter, both directions, Limit >= 1:
   the loop over LastEvaluatedKey ends within |index entries|+1 pages and the pages concatenate to exactly the
   unpaginated read through the index - every entry once, in (index key, primary key) order, page boundaries inside
   runs of equal index keys included.  IInv: the index mirrors the table (C03, every reachable state); KInv as above.
   Non-vacuity: Witness/W04.v. *)
From Minidyn Require Import Proofs.IndexInv Proofs.PaginationIndex.

Theorem C04_pagination_complete_index :
  forall lm c t q ev n ix,
    q_index q = Some n -> lookup n (t_indexes t) = Some ix -> q_cond q = None ->
    secondary (t_ks t) = false -> KInv t -> IInv (t_defs t) (t_data t) ix ->
    (forall e, In e (ies q ix) -> match_key lm c t q (get_item t (snd e)) = Ok (ev (snd e))) ->
    forall L, 0 < L ->
    exists items f, search_data lm c t (with_page q 0 []) = Ok (items, [], f) /\
                    ipages lm c t q (S (ix_count ix)) L [] = Some items.
Proof. exact index_pagination_equals_unpaginated. Qed.

(* the page accounting the theorems above reason about IS the code: the four functions of core/table.go, translated
   from the Go source on every run (Gen/Funcs.v), compute what the model's SearchData computes *)
From Minidyn Require Import Gen.Funcs Proofs.GenFuncs.

Theorem C04_page_accounting_is_the_code :
  (forall k pk sik spk fwd, go_afterStartKey k pk sik spk fwd = after_start_key k pk sik spk fwd) /\
  (forall ety (matched : bool) cnt,
     (match ety with ENone | EFilter => S cnt | EKey => if matched then S cnt else cnt | ECond => cnt end) =
     (if go_shouldCountItem (etype_str ety) matched then S cnt else cnt)) /\
  (forall limit cnt, negb (Nat.eqb limit 0) && Nat.eqb limit cnt = go_shouldBreakPage cnt limit) /\
  (forall (last : item) limit scanned size cnt,
     (match last with [] => false | _ => if Nat.eqb limit 0 then false else Nat.leb scanned size && Nat.leb limit cnt end) =
     go_shouldReturnNextKey last cnt scanned limit size).
Proof.
  exact (conj after_start_key_is_code (conj count_rule_is_code (conj break_rule_is_code lek_rule_is_code))).
Qed.

(* ... and resuming through an index from ANY exclusive start key that carries the index key and the table key -
   whether or not the item it names is still stored (deleted between two pages) - returns every matching entry
   positioned after it in the scan direction, and only those *)
From Minidyn Require Import Proofs.PageLoop.

Theorem C04_index_resume_returns_all_after_start_key :
  forall lm c t q ev n ix,
    q_index q = Some n -> lookup n (t_indexes t) = Some ix -> q_cond q = None ->
    secondary (t_ks t) = false -> KInv t -> IInv (t_defs t) (t_data t) ix ->
    (forall e, In e (ies q ix) -> match_key lm c t q (get_item t (snd e)) = Ok (ev (snd e))) ->
    forall L esk, 0 < L -> esk_positioned t ix esk ->
    ipages lm c t q (S (List.length (ies q ix))) L esk =
    Some (map (eitem t) (filter (ematched ev) (filter (aft2b (q_forward q) (esk_pos t ix esk)) (ies q ix)))).
Proof. exact index_resume_complete. Qed.

(* On reachable states: after ANY history (any interpreter, either SDK flavour) whose updates keep the key attributes (UK)
   and whose table updates do not re-type attributes (EK, EX), pagination of any table of any client is complete - the
   invariants the theorems above assume are established by the histories themselves *)
From Minidyn Require Import Model.Client Proofs.ClientInv Proofs.ClientIndexInv Proofs.PaginationReach.
From Minidyn Require Import Model.Client Proofs.StartKey.

Theorem C04_pagination_complete_in_every_reachable_state_base :
  forall lm lu sdk ops cn tn c t,
    run_env (UK lu) lm lu sdk [] ops ->
    lookup cn (fst (run lm lu sdk [] ops)) = Some c -> lookup tn (c_tables c) = Some t ->
    forall q ev,
    q_index q = None -> q_cond q = None ->
    (forall k, In k (t_sorted t) -> match_key lm (ctx_of c) t q (get_item t k) = Ok (ev k)) ->
    forall L, 0 < L ->
    exists items f, search_data lm (ctx_of c) t (with_page q 0 []) = Ok (items, [], f) /\
                    pages lm (ctx_of c) t q (S (List.length (t_sorted t))) L [] = Some items.
Proof. exact pagination_reachable_base. Qed.

Theorem C04_pagination_complete_in_every_reachable_state_index :
  forall lm lu sdk ops cn tn c t,
    run_env (UK lu) lm lu sdk [] ops ->
    lookup cn (fst (run lm lu sdk [] ops)) = Some c -> lookup tn (c_tables c) = Some t ->
    forall q ev n ix,
    q_index q = Some n -> lookup n (t_indexes t) = Some ix -> q_cond q = None ->
    (forall e, In e (ies q ix) -> match_key lm (ctx_of c) t q (get_item t (snd e)) = Ok (ev (snd e))) ->
    forall L, 0 < L ->
    exists items f, search_data lm (ctx_of c) t (with_page q 0 []) = Ok (items, [], f) /\
                    ipages lm (ctx_of c) t q (S (ix_count ix)) L [] = Some items.
Proof. exact pagination_reachable_index. Qed.

(* the ExclusiveStartKey of a request is validated (fix 9111e82): it is either rejected with a validation error or it
   positions the read; it is never dropped silently, which restarted the read from the first item and made a
   "while LastEvaluatedKey != nil" loop over a mistyped key spin for ever *)
Theorem C04_start_key_accepted_iff :
  forall t oix esk,
    valid_start_key t oix esk = true <->
    esk = [] \/
    ((exists k, get_key (t_ks t) (t_defs t) esk = inr k) /\
     (forall n ix, oix = Some n -> lookup n (t_indexes t) = Some ix -> exists k, get_key (ix_ks ix) (t_defs t) esk = inr k)).
Proof. exact valid_start_key_spec. Qed.

Theorem C04_accepted_start_key_positions_the_read :
  forall t oix esk, valid_start_key t oix esk = true -> esk <> [] -> has_start_key (t_ks t) (t_defs t) esk = true.
Proof. exact accepted_start_key_positions. Qed.

Theorem C04_rejected_start_key_is_an_error :
  forall lm sdk c t q,
    valid_start_key t (match q_index q with Some [] => None | o => o end) (q_esk q) = false ->
    (match q_index q with Some n => mem n (t_indexes t) = true \/ n = [] | None => True end) ->
    run_search lm sdk c t q = (c, err_obs Validation).
Proof. exact rejected_start_key_is_an_error. Qed.
