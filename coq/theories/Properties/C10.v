(* C10  Attribute values survive a write/read round trip unchanged. *)
From Coq Require Import List Bool.
From Minidyn Require Import Base.Str Base.FMap Base.Outcome Model.Value Model.Key Model.Index Model.Table Model.Client.
From Minidyn Require Import Proofs.KV Proofs.Mappers.
Import ListNotations.

(* what PutItem stores is the item it was given (for every interpreter) *)
Theorem C10_put_stores_the_item :
  forall lm c t it cond names vals t' r key,
    t_put lm c t it cond names vals = (t', r) -> is_ok r = true ->
    get_key (t_ks t) (t_defs t) it = inr key -> get_item t' key = it.
Proof. exact put_then_get. Qed.

(* SDK v1: the output mapper is the identity on every item *)
Theorem C10_v1_output_identity : forall i, out_item V1 i = i.
Proof. exact out_item_v1_id. Qed.

(* SDK v2: the output mapper is the identity on every value tree (any depth) without empty binary/set/list/map *)
Theorem C10_v2_output_identity : forall v, no_empty v = true -> v2_out v = v.
Proof. exact v2_out_id. Qed.

Theorem C10_v2_output_identity_items : forall i, item_no_empty i = true -> out_item V2 i = i.
Proof. exact out_item_v2_id. Qed.

(* GetItem returns the stored item through that mapper *)
Theorem C10_get_returns_stored :
  forall lm lu s c tn key names proj t k,
    preamble s c tn names [] [proj] = inr t -> get_key (t_ks t) (t_defs t) key = inr k ->
    snd (step lm lu s c (OGet tn key names proj)) = ok_obs (PItem (out_item s (get_item t k))) [].
Proof. exact get_returns_stored. Qed.

(* known finding C10-1: through SDK v2 empty containers come back as NULL *)
Theorem C10_v2_empty_containers_refuted :
  v2_out (AL []) = ANULL /\ v2_out (AM []) = ANULL /\ v2_out (AB []) = ANULL.
Proof. repeat split; reflexivity. Qed.
