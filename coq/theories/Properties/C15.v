(* C15  Emulated failures fail every data call, change nothing, and are reversible. *)
From Coq Require Import List Bool.
From Minidyn Require Import Base.Str Base.FMap Base.Outcome Model.Value Model.Key Model.Index Model.Table Model.Client.
From Minidyn Require Import Proofs.ClientFacts Proofs.Lifecycle Proofs.FailureAll.
Import ListNotations.

Theorem C15_failure_blocks_and_changes_nothing :
  forall lm lu sdk c o f,
    c_failure c = Some f -> single_data_op o = true -> v1_name_ok sdk (name_of o) = true ->
    (match o with OBatchGet _ _ => sdk = V2 | _ => True end) ->
    fst (step lm lu sdk c o) = c /\
    o_res (snd (step lm lu sdk c o)) = RErr (failure_err f).
Proof. exact failure_blocks. Qed.

Theorem C15_toggles_touch_only_the_flag :
  forall lm lu sdk c o,
    (match o with OEmulateFailure _ | OActivateForce | ODeactivateForce => True | _ => False end) ->
    exists f, fst (step lm lu sdk c o) = set_failure c f.
Proof. exact failure_toggle_only_flag. Qed.

(* activate, run any data calls, deactivate: the client is exactly what it was *)
Theorem C15_failure_erasable :
  forall lm lu sdk c f ops,
    c_failure c = None ->
    Forall (fun o => single_data_op o = true /\ v1_name_ok sdk (name_of o) = true /\
                     match o with OBatchGet _ _ => sdk = V2 | _ => True end) ops ->
    set_failure (fold_left (fun c o => fst (step lm lu sdk c o)) ops (set_failure c (Some f))) None = c.
Proof. exact failure_erasable. Qed.

(* a batch write under the emulated internal-server failure applies nothing and reports every request as unprocessed:
   each request is either applied or returned, never dropped (both SDKs) *)
Theorem C15_batch_under_failure_all_unprocessed :
  forall lm s c tn rs,
    c_failure c = Some FInternal -> rs <> [] ->
    batch_write lm s c [(tn, rs)] = (c, ok_obs (PBatchWrite [(tn, rs)]) []).
Proof. exact batch_under_failure_all_unprocessed. Qed.

(* ... and so for any number of tables, any requests (well-formed or not) and any size: the client is unchanged and the
   unprocessed map holds every table entry that has requests, with all of them *)
Theorem C15_batch_under_failure_general :
  forall lm s c reqs,
    c_failure c = Some FInternal ->
    batch_write lm s c reqs = (c, ok_obs (PBatchWrite (all_unprocessed reqs [])) []).
Proof. exact batch_under_failure_general. Qed.

(* under the deprecated forced failure a batch write returns the configured error and changes nothing, whatever it holds -
   also when it holds no request at all (the failure used to be noticed only while a request was looked at) *)
Theorem C15_batch_under_forced_failure :
  forall lm s c reqs,
    c_failure c = Some FDeprecated ->
    batch_write lm s c reqs = (c, err_obs ForcedFailure).
Proof. exact batch_under_forced_failure. Qed.

(* ... so the erasure holds for episodes that contain batch writes too: activate, run ANY data calls (single operations,
   batch reads, batch writes of any composition - empty, malformed, oversized), deactivate: the client is what it was *)
Theorem C15_failure_erasable_with_batches :
  forall lm lu sdk c f ops,
    c_failure c = None ->
    Forall (fun o => data_op o = true /\ v1_name_ok sdk (name_of o) = true /\
                     match o with OBatchGet _ _ => sdk = V2 | _ => True end) ops ->
    set_failure (fold_left (fun c o => fst (step lm lu sdk c o)) ops (set_failure c (Some f))) None = c.
Proof. exact failure_erasable_all. Qed.
