(* C01  Single-item operations behave as a sequential key-to-item map.
   All theorems hold for every interpreter (lm, lu), hence also with native overrides installed. *)
From Coq Require Import List Bool.
From Minidyn Require Import Base.Str Base.FMap Base.Outcome Model.Value Model.Key Model.Index Model.Table Model.Client.
From Minidyn Require Import Proofs.FMapFacts Proofs.TableInv Proofs.KV Proofs.ClientInv Proofs.ClientFacts.
Import ListNotations.

(* SortedKeys is exactly the strictly sorted, duplicate-free key set of Data in every reachable state *)
Theorem C01_table_invariant_reachable :
  forall lm lu sdk ops cn tn c t,
    lookup cn (fst (run lm lu sdk [] ops)) = Some c -> lookup tn (c_tables c) = Some t -> TInv t.
Proof. exact TInv_reachable. Qed.

(* a successful Put stores the item under its key: a later read of that key returns exactly it *)
Theorem C01_put_then_get :
  forall lm c t it cond names vals t' r key,
    t_put lm c t it cond names vals = (t', r) -> is_ok r = true ->
    get_key (t_ks t) (t_defs t) it = inr key -> get_item t' key = it.
Proof. exact put_then_get. Qed.

(* writes never change what is stored under another key *)
Theorem C01_put_frame :
  forall lm c t it cond names vals key k',
    get_key (t_ks t) (t_defs t) it = inr key -> k' <> key ->
    lookup k' (t_data (fst (t_put lm c t it cond names vals))) = lookup k' (t_data t).
Proof. exact put_frame. Qed.

Theorem C01_update_frame :
  forall lm lu c t k e cond names vals key k',
    get_key (t_ks t) (t_defs t) k = inr key -> k' <> key ->
    lookup k' (t_data (fst (t_update lm lu c t k e cond names vals))) = lookup k' (t_data t).
Proof. exact update_frame. Qed.

Theorem C01_delete_frame :
  forall lm c t k cond names vals key k',
    get_key (t_ks t) (t_defs t) k = inr key -> k' <> key ->
    lookup k' (t_data (fst (t_delete lm c t k cond names vals))) = lookup k' (t_data t).
Proof. exact delete_frame. Qed.

(* Update stores the interpreter's result computed from the stored item, or from the key attributes when the
   item is absent (upsert); the returned item is the stored one *)
Theorem C01_update_effect :
  forall lm lu c t k e cond names vals t' it' f,
    t_update lm lu c t k e cond names vals = (t', WOk (Some it') f) ->
    exists key, get_key (t_ks t) (t_defs t) k = inr key /\ t_data t' = insert key it' (t_data t) /\
                exists f', interp_update lu c (t_name t) e
                              (match lookup key (t_data t) with Some i => i | None => Key.key_item (t_ks t) k end) vals names = Ok (it', f').
Proof. exact update_effect. Qed.

(* Delete removes exactly the key and returns the old item; on an absent key it succeeds without effect *)
Theorem C01_delete_effect :
  forall lm c t k cond names vals t' old f,
    TInv t -> t_delete lm c t k cond names vals = (t', WOk old f) ->
    exists key, get_key (t_ks t) (t_defs t) k = inr key /\ old = lookup key (t_data t) /\ t_data t' = remove key (t_data t).
Proof. exact delete_effect. Qed.

Theorem C01_delete_absent_noop :
  forall lm c t k names vals key,
    get_key (t_ks t) (t_defs t) k = inr key -> lookup key (t_data t) = None ->
    t_delete lm c t k None names vals = (t, WOk None []).
Proof. exact delete_absent_noop. Qed.

(* PutItem reports the item it replaced, which is the item the map semantics holds under the key before the write
   (nothing when the key held nothing), and the client hands it out only when ReturnValues = ALL_OLD asks for it
   (fix e014a0c: it used to answer the item just written, whatever was asked) *)
Theorem C01_put_returns_replaced :
  forall lm c t it cond names vals t' old f,
    t_put lm c t it cond names vals = (t', WOk old f) ->
    exists key, get_key (t_ks t) (t_defs t) it = inr key /\ old = lookup key (t_data t).
Proof. exact put_returns_replaced. Qed.

Theorem C01_put_item_payload :
  forall lm sdk c tn it cond names vals ro,
    o_res (snd (put_item lm sdk c tn it cond names vals ro)) = ROk ->
    exists t old,
      lookup tn (c_tables c) = Some t /\
      (exists t' f, t_put lm (ctx_of c) t it cond names vals = (t', WOk old f)) /\
      o_pay (snd (put_item lm sdk c tn it cond names vals ro)) =
      match old with Some i => if ro then PItem (out_item sdk i) else PNone | None => PNone end.
Proof. exact put_item_payload. Qed.
