(* C13  Primary keys identify items faithfully and are enforced. *)
From Coq Require Import List Bool Strings.String.
From Minidyn Require Import Base.Str Base.FMap Base.Outcome Model.Value Model.Key Model.Index Model.Table Model.Client.
From Minidyn Require Import Proofs.KeyFacts Proofs.TableInv Proofs.ClientInv Proofs.KeyInv Proofs.KeyTyped.
Import ListNotations.

Theorem C13_key_injective_hash_only :
  forall ks defs it1 it2 k,
    rangek ks = [] -> (def_type defs (hashk ks) = bs "S" \/ def_type defs (hashk ks) = bs "N") ->
    key_value ks defs it1 = inr k -> key_value ks defs it2 = inr k ->
    lookup (hashk ks) it1 = lookup (hashk ks) it2.
Proof. exact key_inj_hash_only. Qed.

Theorem C13_key_injective_dot_free_hash :
  forall h1 r1 h2 r2, no_dot h1 -> no_dot h2 -> h1 ++ [dot] ++ r1 = h2 ++ [dot] ++ r2 -> h1 = h2 /\ r1 = r2.
Proof. exact key_inj_dotfree. Qed.

(* a key that lacks a key attribute or carries it with another type than declared is rejected, and only such keys *)
Theorem C13_bad_key_rejected_iff :
  forall ks defs it,
    secondary ks = false ->
    (lookup (hashk ks) it = None \/ (exists v, lookup (hashk ks) it = Some v /\ go_value v (def_type defs (hashk ks)) = None) \/
     (rangek ks <> [] /\ (lookup (rangek ks) it = None \/
                          exists v, lookup (rangek ks) it = Some v /\ go_value v (def_type defs (rangek ks)) = None))) <->
    exists e, get_key ks defs it = inl e.
Proof. exact bad_key_rejected. Qed.

(* known finding C13-1: with a "." in the hash value two distinct keys share one key string *)
Theorem C13_key_collision_refuted :
  exists ks defs it1 it2,
    lookup (hashk ks) it1 <> lookup (hashk ks) it2 /\ key_value ks defs it1 = key_value ks defs it2 /\
    exists k, key_value ks defs it1 = inr k.
Proof. exact key_collision_refuted. Qed.

(* the key attributes of a stored item equal the key under which it is retrievable, in every state reachable by a
   history (any interpreter, both SDKs) in which no UpdateItem changes a key attribute (UK; an update that does is the
   known finding C13-2); UpdateTable can not re-type the key attributes (fix c854008) *)
Theorem C13_stored_under_own_key_reachable :
  forall lm lu sdk ops cn tn c t,
    run_env (UK lu) lm lu sdk [] ops ->
    lookup cn (fst (run lm lu sdk [] ops)) = Some c -> lookup tn (c_tables c) = Some t ->
    TInv t /\ (forall k it, lookup k (t_data t) = Some it -> get_key (t_ks t) (t_defs t) it = inr k) /\
    secondary (t_ks t) = false.
Proof. exact KInv_reachable. Qed.

(* the key map of a request and the item it names have the same key string *)
Theorem C13_key_item_same_key :
  forall ks defs it, get_key ks defs (key_item ks it) = get_key ks defs it.
Proof. exact get_key_key_item. Qed.

(* a key attribute is declared with a key type - S, N or B - (fix d92fdf4: with BOOL, a set, a list or a map the key string
   was built from a pointer value and equal keys never met): the schema check of CreateTable / AddTable / index creation
   refuses anything else, and so the key attributes of every table have a key type in every reachable state, for
   every history (UpdateTable can not re-type them) *)
Theorem C13_schema_check_demands_key_types :
  forall defs oh orr h r,
    check_schema defs oh orr = Some (h, r) -> key_typed defs h = true /\ (r = [] \/ key_typed defs r = true).
Proof. exact check_schema_key_typed. Qed.

Theorem C13_non_key_type_refused :
  forall defs oh orr h, oh = Some h -> key_typed defs h = false -> check_schema defs oh orr = None.
Proof. exact non_key_type_refused. Qed.

Theorem C13_key_types_reachable :
  forall lm lu sdk ops cn tn c t,
    lookup cn (fst (run lm lu sdk [] ops)) = Some c -> lookup tn (c_tables c) = Some t ->
    key_typed (t_defs t) (hashk (t_ks t)) = true /\ (rangek (t_ks t) = [] \/ key_typed (t_defs t) (rangek (t_ks t)) = true).
Proof. exact key_types_reachable. Qed.
