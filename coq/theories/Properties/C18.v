(* C18  Table lifecycle and metadata stay coherent. *)
From Coq Require Import List Bool.
From Minidyn Require Import Base.Str Base.FMap Base.Outcome Model.Value Model.Key Model.Index Model.Table Model.Client.
From Minidyn Require Import Proofs.FMapFacts Proofs.TableInv Proofs.ClientInv Proofs.ClientFacts Proofs.Lifecycle.
Import ListNotations.

(* operations addressed to one table never affect another table of the client *)
Theorem C18_table_frame :
  forall lm lu sdk c o tn n,
    CInv (fun _ => True) c ->
    (match o with
     | OPut t _ _ _ _ _ | OUpdate t _ _ _ _ _ _ | ODelete t _ _ _ _ _ | OClearTable t | ODeleteTable t
     | OUpdateTable t _ _ _ | OAddIndex t _ _ _ | OGet t _ _ _ | OQuery t _ _ _ _ _ _ _ _ _ | OScan t _ _ _ _ _ _ _ | ODescribeTable t => t = tn
     | _ => False
     end) ->
    n <> tn -> lookup n (c_tables (fst (step lm lu sdk c o))) = lookup n (c_tables c).
Proof. exact table_frame. Qed.

(* ItemCount is the number of stored items: SortedKeys is the duplicate-free key set of Data in every reachable state *)
Theorem C18_item_count_is_number_of_items :
  forall lm lu sdk ops cn tn c t,
    lookup cn (fst (run lm lu sdk [] ops)) = Some c -> lookup tn (c_tables c) = Some t ->
    d_count (describe t) = List.length (t_data t).
Proof.
  intros lm lu sdk ops cn tn c t Hc Ht. destruct (TInv_reachable lm lu sdk ops cn tn c t Hc Ht) as [_ Hs].
  cbn. rewrite Hs. unfold keys. apply map_length.
Qed.

(* creating a table that exists fails with ResourceInUse and changes nothing *)
Theorem C18_create_existing_in_use :
  forall s c ct, ct_names_ok s ct = true -> mem (ct_table ct) (c_tables c) = true -> create_table s c ct = (c, err_obs InUse).
Proof. exact create_existing_in_use. Qed.

(* a created table starts empty; its description is the description of that empty table *)
Theorem C18_create_starts_empty :
  forall s c ct c' d, create_table s c ct = (c', ok_obs (PDesc d) []) ->
    exists t, lookup (ct_table ct) (c_tables c') = Some t /\ t_data t = [] /\ t_sorted t = [] /\ d = describe t /\ d_count d = 0.
Proof. exact create_starts_empty. Qed.

(* operating on a table that does not exist fails with ResourceNotFound *)
Theorem C18_missing_table_not_found :
  forall s c tn names vals exprs,
    v1_name_ok s tn = true -> c_failure c = None -> validate_expr_attrs (keys names) (keys vals) exprs = true ->
    lookup tn (c_tables c) = None -> preamble s c tn names vals exprs = inl NotFound.
Proof. exact missing_table_not_found. Qed.

Theorem C18_describe_missing_not_found :
  forall lm lu s c tn, lookup tn (c_tables c) = None -> step lm lu s c (ODescribeTable tn) = (c, err_obs NotFound).
Proof. exact describe_missing_not_found. Qed.

Theorem C18_delete_missing_not_found :
  forall lm lu s c tn, v1_name_ok s tn = true -> lookup tn (c_tables c) = None -> step lm lu s c (ODeleteTable tn) = (c, err_obs NotFound).
Proof. exact delete_missing_not_found. Qed.

(* DeleteTable removes the table (a later CreateTable builds the empty table of C18_create_starts_empty) *)
Theorem C18_delete_removes_table :
  forall lm lu s c tn t, v1_name_ok s tn = true -> wf (c_tables c) -> lookup tn (c_tables c) = Some t ->
    lookup tn (c_tables (fst (step lm lu s c (ODeleteTable tn)))) = None.
Proof. exact delete_removes_table. Qed.

(* ClearTable empties the table and every index *)
Theorem C18_clear_empties_table_and_indexes :
  forall lm lu s c tn t, lookup tn (c_tables c) = Some t -> t_name t = tn ->
    exists t', lookup tn (c_tables (fst (step lm lu s c (OClearTable tn)))) = Some t' /\ t_data t' = [] /\ t_sorted t' = [] /\
               forall n ix, In (n, ix) (t_indexes t') -> ix_sorted ix = [] /\ ix_refs ix = [].
Proof. exact clear_empties. Qed.

(* separate clients share no state *)
Theorem C18_clients_independent :
  forall lm lu s w co other, other <> fst co -> lookup other (fst (wstep lm lu s w co)) = lookup other w.
Proof. exact clients_independent. Qed.
