(* C18  Table lifecycle and metadata stay coherent. *)
From Coq Require Import List Bool.
From Minidyn Require Import Base.Str Base.FMap Base.Outcome Model.Value Model.Key Model.Index Model.Table Model.Client.
From Minidyn Require Import Proofs.FMapFacts Proofs.TableInv Proofs.ClientInv Proofs.ClientFacts.
Import ListNotations.

(* operations addressed to one table never affect another table of the client *)
Theorem C18_table_frame :
  forall lm lu sdk c o tn n,
    CInv (fun _ => True) c ->
    (match o with
     | OPut t _ _ _ _ | OUpdate t _ _ _ _ _ _ | ODelete t _ _ _ _ _ | OClearTable t | ODeleteTable t
     | OUpdateTable t _ _ _ | OAddIndex t _ _ _ | OGet t _ | OQuery t _ _ _ _ _ _ _ _ | OScan t _ _ _ _ _ _ | ODescribeTable t => t = tn
     | _ => False
     end) ->
    n <> tn -> lookup n (c_tables (fst (step lm lu sdk c o))) = lookup n (c_tables c).
Proof. exact table_frame. Qed.

(* ItemCount is the number of stored items: SortedKeys is the duplicate-free key set of Data in every reachable state *)
Theorem C18_item_count_is_number_of_items :
  forall lm lu sdk ops cn tn c t,
    lookup cn (fst (run lm lu sdk [] ops)) = Some c -> lookup tn (c_tables c) = Some t ->
    d_count (describe t) = List.length (t_data t).
Proof.
  intros lm lu sdk ops cn tn c t Hc Ht. destruct (TInv_reachable lm lu sdk ops cn tn c t Hc Ht) as [_ Hs].
  cbn. rewrite Hs. unfold keys. apply map_length.
Qed.
