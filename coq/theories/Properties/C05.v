(* C05  Conditional writes are decided on the target item only, atomically. *)
From Coq Require Import List Bool.
From Minidyn Require Import Base.Str Base.FMap Base.Outcome Model.Value Model.Key Model.Index Model.Table Model.Client.
From Minidyn Require Import Proofs.KV.
Import ListNotations.

(* locality: two tables that agree on the item stored under the request's own key refuse the write alike,
   whatever other items they hold (for every interpreter) *)
Theorem C05_put_condition_local :
  forall lm c t1 t2 it cond names vals key,
    t_name t1 = t_name t2 -> t_ks t1 = t_ks t2 -> t_defs t1 = t_defs t2 ->
    get_key (t_ks t1) (t_defs t1) it = inr key -> lookup key (t_data t1) = lookup key (t_data t2) ->
    is_cond_failed (snd (t_put lm c t1 it cond names vals)) = is_cond_failed (snd (t_put lm c t2 it cond names vals)).
Proof. exact put_cond_local. Qed.

Theorem C05_update_condition_local :
  forall lm lu c t1 t2 k e cond names vals key,
    t_name t1 = t_name t2 -> t_ks t1 = t_ks t2 -> t_defs t1 = t_defs t2 ->
    get_key (t_ks t1) (t_defs t1) k = inr key -> lookup key (t_data t1) = lookup key (t_data t2) ->
    is_cond_failed (snd (t_update lm lu c t1 k e cond names vals)) = is_cond_failed (snd (t_update lm lu c t2 k e cond names vals)).
Proof. exact update_cond_local. Qed.

Theorem C05_delete_condition_local :
  forall lm c t1 t2 k cond names vals key,
    t_name t1 = t_name t2 -> t_ks t1 = t_ks t2 -> t_defs t1 = t_defs t2 ->
    get_key (t_ks t1) (t_defs t1) k = inr key -> lookup key (t_data t1) = lookup key (t_data t2) ->
    is_cond_failed (snd (t_delete lm c t1 k cond names vals)) = is_cond_failed (snd (t_delete lm c t2 k cond names vals)).
Proof. exact delete_cond_local. Qed.

(* atomicity: a refused write leaves the table, its sorted keys and every index exactly as they were;
   the failure of an update carries the stored item *)
Theorem C05_refused_put_changes_nothing :
  forall lm c t it cond names vals cur f,
    snd (t_put lm c t it cond names vals) = WCondFailed cur f -> fst (t_put lm c t it cond names vals) = t.
Proof. exact cond_false_unchanged_put. Qed.

Theorem C05_refused_update_changes_nothing :
  forall lm lu c t k e cond names vals cur f,
    snd (t_update lm lu c t k e cond names vals) = WCondFailed cur f ->
    fst (t_update lm lu c t k e cond names vals) = t /\
    cur = match lookup (match get_key (t_ks t) (t_defs t) k with inr key => key | inl _ => [] end) (t_data t) with Some i => i | None => [] end.
Proof. exact cond_false_unchanged_update. Qed.

Theorem C05_refused_delete_changes_nothing :
  forall lm c t k cond names vals cur f,
    snd (t_delete lm c t k cond names vals) = WCondFailed cur f -> fst (t_delete lm c t k cond names vals) = t.
Proof. exact cond_false_unchanged_delete. Qed.
