(* C07  Update expressions apply exactly their actions and nothing else. *)
From Coq Require Import List Bool Arith.
From Minidyn Require Import Base.Str Base.FMap Base.Outcome Model.Value Model.Token Gen.Tables Model.Lexer Model.Parser
  Model.Object Model.Eval Model.Update Model.Language.
From Minidyn Require Import Proofs.UpdateFrame.
Import ListNotations.

(* FRAME: for every update expression (any clauses and paths), item and bindings: an attribute that no action targets
   comes out with the value it went in with, passed through the evaluator's representation *)
Theorem C07_untargeted_attributes_keep_their_value :
  forall expr it vals names it' tok acts k,
    wf it -> lang_update expr it vals names = Ok it' ->
    parse_upd expr = Some (EUpdate tok (Some acts), 0) ->
    mem k vals = false ->
    (forall a, In a acts -> action_target names a <> Some k) ->
    lookup k it' = match lookup k it with Some v => pass_through v | None => None end.
Proof. exact update_frame. Qed.

(* an attribute literally named like a value placeholder of the request is out of the expression's reach: unchanged *)
Theorem C07_placeholder_named_attribute_kept_exactly :
  forall expr it vals names it' k,
    lang_update expr it vals names = Ok it' -> mem k vals = true -> lookup k it' = lookup k it.
Proof. exact update_frame_placeholder_named. Qed.

(* one action changes only the attribute it targets *)
Theorem C07_action_frame :
  forall e a e' k, eval_action e a = Some e' -> action_target (aliases e) a <> Some k ->
    lookup k (store e') = lookup k (store e) /\ aliases e' = aliases e.
Proof. exact eval_action_frame. Qed.

(* removed attributes are gone; SET stores (a copy of) the value of its right-hand side *)
Theorem C07_removed_is_gone :
  forall e t id e', eval_action e (EAction t (EIdent id) ENil) = Some e' -> ty t = REMOVE -> wf (store e) ->
    lookup (resolve e (lit id)) (store e') = None.
Proof. exact removed_is_gone. Qed.

Theorem C07_set_stores_value :
  forall e t id r e' v, eval_action e (EAction t (EIdent id) r) = Some e' -> ty t = SET -> eval_upd e r = EVal v ->
    lookup (resolve e (lit id)) (store e') = Some (copy_obj v).
Proof. exact set_stores_value. Qed.

(* ... and for "plain" values - any nesting of strings, binaries, booleans, NULL, lists, maps, canonically written
   numbers, sorted string sets, duplicate-free binary sets - passing through the evaluator is the identity, so such an
   attribute keeps EXACTLY its prior value (a non-canonical numeral such as "2.50" is re-rendered: known finding C12-1) *)
From Minidyn Require Import Proofs.PassThrough.

Theorem C07_plain_values_pass_through_unchanged : forall v, plain v = true -> pass_through v = Some v.
Proof. exact plain_pass_through. Qed.

Theorem C07_untargeted_plain_attribute_kept_exactly :
  forall expr it vals names it' tok acts k v,
    wf it -> lang_update expr it vals names = Ok it' ->
    parse_upd expr = Some (EUpdate tok (Some acts), 0) ->
    mem k vals = false ->
    (forall a, In a acts -> action_target names a <> Some k) ->
    lookup k it = Some v -> plain v = true -> lookup k it' = Some v.
Proof. exact plain_attribute_kept. Qed.
