(* C20  Native-interpreter overrides are dispatched exactly and fall back safely. *)
From Coq Require Import List Bool.
From Minidyn Require Import Base.Str Base.FMap Base.Outcome Model.Value Model.Key Model.Index Model.Table.
From Minidyn Require Import Proofs.Native.
Import ListNotations.

(* two expression texts share a registration key iff they are the same sequence of words: equality up to
   surrounding and repeated whitespace, and nothing coarser (no anagrams) *)
Theorem C20_key_is_text_up_to_whitespace : forall a b, norm_expr a = norm_expr b <-> fields a = fields b.
Proof. exact norm_expr_eq_iff. Qed.

Theorem C20_normalisation_idempotent : forall a, norm_expr (norm_expr a) = norm_expr a.
Proof. exact norm_expr_idempotent. Qed.

(* after a registration, a request finds it iff table, kind and word sequence agree; otherwise the registry answers as before *)
Theorem C20_lookup_after_registration :
  forall r t' k' e' id v t k e,
    lookup (reg_key t e) (reg_matchers (add_matcher r t' k' e' id v) k) =
    if ekind_eqb k k' && str_eqb (reg_key t e) (reg_key t' e') then Some (id, v)
    else lookup (reg_key t e) (reg_matchers r k).
Proof. exact lookup_add_matcher. Qed.

Theorem C20_registration_matches_exactly :
  forall t' k' e' t k e,
    (ekind_eqb k k' && str_eqb (reg_key t e) (reg_key t' e') = true) <-> (k = k' /\ t = t' /\ fields e = fields e').
Proof. exact registration_matches_exactly. Qed.

(* the registered verdict is what the operation uses, and exactly that callback ran *)
Theorem C20_native_hit :
  forall lm c tn k e it vals names id v,
    use_native c = true -> lookup (reg_key tn e) (reg_matchers (reg c) k) = Some (id, v) ->
    interp_match lm c tn k e it vals names = Ok (v, [id]).
Proof. exact native_hit. Qed.

(* no registered matcher, or native interpreter off: the built-in interpreter decides and no callback runs *)
Theorem C20_native_miss_falls_back :
  forall lm c tn k e it vals names,
    use_native c = false \/ lookup (reg_key tn e) (reg_matchers (reg c) k) = None ->
    interp_match lm c tn k e it vals names = lang_only lm e it vals names.
Proof. exact native_miss_falls_back. Qed.

(* an update with no registered updater fails with the unsupported-feature error and the table is untouched *)
Theorem C20_update_without_updater :
  forall lm lu c t k e names vals key,
    use_native c = true -> lookup (reg_key (t_name t) e) (r_upd (reg c)) = None ->
    get_key (t_ks t) (t_defs t) k = inr key ->
    t_update lm lu c t k e None names vals = (t, WErr Unsupported).
Proof. exact native_update_miss_untouched. Qed.
