(* C19  Batch operations equal their item-by-item decomposition. *)
From Coq Require Import List Bool.
From Minidyn Require Import Base.Str Base.FMap Base.Outcome Model.Value Model.Key Model.Index Model.Table Model.Client.
From Minidyn Require Import Proofs.Batch.
Import ListNotations.

(* a batch whose requests all succeed leaves exactly the state of the single PutItem/DeleteItem calls applied in order,
   with nothing unprocessed; over several tables likewise *)
Theorem C19_batch_requests_are_a_fold :
  forall lm s rs c tn un,
    all_ok lm s c tn rs ->
    batch_write_reqs lm s c tn rs un = (fold_left (fun c r => fst (single lm s c tn r)) rs c, un, None).
Proof. exact batch_reqs_is_fold. Qed.

Theorem C19_batch_tables_are_a_fold :
  forall lm s ts c un,
    (forall pre tn rs post, ts = pre ++ (tn, rs) :: post ->
       all_ok lm s (fold_left (fun c tr => fold_left (fun c r => fst (single lm s c (fst tr) r)) (snd tr) c) pre c) tn rs) ->
    batch_write_tables lm s c ts un =
    (fold_left (fun c tr => fold_left (fun c r => fst (single lm s c (fst tr) r)) (snd tr) c) ts c, un, None).
Proof. exact batch_tables_is_fold. Qed.
