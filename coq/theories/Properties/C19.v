(* C19  Batch operations equal their item-by-item decomposition. *)
From Coq Require Import List Bool.
From Minidyn Require Import Base.Str Base.FMap Base.Outcome Model.Value Model.Key Model.Index Model.Table Model.Client.
From Minidyn Require Import Proofs.Batch Proofs.BatchClosure Proofs.BatchAtomic.
Import ListNotations.

(* a batch whose requests all succeed leaves exactly the state of the single PutItem/DeleteItem calls applied in order,
   with nothing unprocessed; over several tables likewise *)
Theorem C19_batch_requests_are_a_fold :
  forall lm s rs c tn un,
    all_ok lm s c tn rs ->
    batch_write_reqs lm s c tn rs un = (fold_left (fun c r => fst (single lm s c tn r)) rs c, un, None).
Proof. exact batch_reqs_is_fold. Qed.

Theorem C19_batch_tables_are_a_fold :
  forall lm s ts c un,
    (forall pre tn rs post, ts = pre ++ (tn, rs) :: post ->
       all_ok lm s (fold_left (fun c tr => fold_left (fun c r => fst (single lm s c (fst tr) r)) (snd tr) c) pre c) tn rs) ->
    batch_write_tables lm s c ts un =
    (fold_left (fun c tr => fold_left (fun c r => fst (single lm s c (fst tr) r)) (snd tr) c) ts c, un, None).
Proof. exact batch_tables_is_fold. Qed.

(* BatchGetItem (SDK v2; the v1 client has none: known finding C19-2): with no emulated failure it answers, per table and
   in request order, exactly with the items the individual GetItem calls return for the requested keys, and leaves the
   client unchanged.  (That it ALSO lists the keys without a stored item as unprocessed is known finding C19-1.) *)
Theorem C19_batch_get_is_the_individual_gets :
  forall c reqs opts,
    c_failure c = None -> batch_get_errors c reqs opts = [] ->
    exists unprocessed,
      batch_get V2 c reqs opts =
      (c, ok_obs (PBatchGet (map (fun tk => (fst tk, gets c (fst tk) (fst (opts_of opts (fst tk))) (snd (opts_of opts (fst tk))) (snd tk))) reqs) unprocessed) []).
Proof. exact batch_get_is_gets. Qed.

(* a BatchGetItem whose table entry breaks the expression rules, or names a table that does not exist, is rejected as a
   whole and nothing is reported as unprocessed (fixes 2aa9a7b, 91e5142): retrying such keys could never succeed *)
Theorem C19_batch_get_invalid_rejected :
  forall c reqs opts e es,
    c_failure c = None -> batch_get_errors c reqs opts = e :: es ->
    batch_get V2 c reqs opts = (c, {| o_res := RErr e; o_pay := PAlt (e :: es); o_fired := [] |}).
Proof. exact batch_get_invalid_rejected. Qed.

(* THE first sentence of the property, with no hypothesis on the requests or on the state: a BatchWriteItem that answers
   success with nothing unprocessed has left exactly the client that performing its put and delete requests individually,
   in order, across all its tables, leaves - and each of those individual requests succeeds in the state it meets *)
Theorem C19_successful_batch_is_its_decomposition :
  forall lm s c reqs c',
    batch_write lm s c reqs = (c', ok_obs (PBatchWrite []) []) ->
    c' = fold_left (fun c tr => fold_left (fun c r => fst (single lm s c (fst tr) r)) (snd tr) c) reqs c /\
    each_table_ok lm s c reqs.
Proof. exact successful_batch_is_its_decomposition. Qed.

(* ... and which batches succeed is decided up front: in any client of any history, with no failure emulated, a batch of
   well-formed requests within the limit whose tables exist and whose keys and index keys are valid (exactly what the
   validation in front of the loop looks at) succeeds with nothing unprocessed - no request of it can fail any more *)
Theorem C19_validated_batch_succeeds :
  forall lm lu s ops cn c reqs,
    lookup cn (fst (run lm lu s [] ops)) = Some c ->
    c_failure c = None -> (forall tn, In tn (keys reqs) -> v1_name_ok s tn = true) ->
    (s = V1 -> reqs <> []) ->
    forallb wreq_ok (flat_map snd reqs) = true -> Nat.ltb batch_limit (List.length (flat_map snd reqs)) = false ->
    flat_map (prevalidate_table c) reqs = [] ->
    exists c1, batch_write lm s c reqs = (c1, ok_obs (PBatchWrite []) []).
Proof. exact validated_batch_succeeds_reachable. Qed.
