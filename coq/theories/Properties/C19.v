(* C19  Batch operations equal their item-by-item decomposition. *)
From Coq Require Import List Bool.
From Minidyn Require Import Base.Str Base.FMap Base.Outcome Model.Value Model.Key Model.Index Model.Table Model.Client.
From Minidyn Require Import Proofs.Batch.
Import ListNotations.

(* a batch whose requests all succeed leaves exactly the state of the single PutItem/DeleteItem calls applied in order,
   with nothing unprocessed; over several tables likewise *)
Theorem C19_batch_requests_are_a_fold :
  forall lm s rs c tn un,
    all_ok lm s c tn rs ->
    batch_write_reqs lm s c tn rs un = (fold_left (fun c r => fst (single lm s c tn r)) rs c, un, None).
Proof. exact batch_reqs_is_fold. Qed.

Theorem C19_batch_tables_are_a_fold :
  forall lm s ts c un,
    (forall pre tn rs post, ts = pre ++ (tn, rs) :: post ->
       all_ok lm s (fold_left (fun c tr => fold_left (fun c r => fst (single lm s c (fst tr) r)) (snd tr) c) pre c) tn rs) ->
    batch_write_tables lm s c ts un =
    (fold_left (fun c tr => fold_left (fun c r => fst (single lm s c (fst tr) r)) (snd tr) c) ts c, un, None).
Proof. exact batch_tables_is_fold. Qed.

(* BatchGetItem (SDK v2; the v1 client has none: known finding C19-2): with no emulated failure it answers, per table and
   in request order, exactly with the items the individual GetItem calls return for the requested keys, and leaves the
   client unchanged.  (That it ALSO lists the keys without a stored item as unprocessed is known finding C19-1.) *)
Theorem C19_batch_get_is_the_individual_gets :
  forall c reqs opts,
    c_failure c = None -> batch_get_errors c reqs opts = [] ->
    exists unprocessed,
      batch_get V2 c reqs opts =
      (c, ok_obs (PBatchGet (map (fun tk => (fst tk, gets c (fst tk) (fst (opts_of opts (fst tk))) (snd (opts_of opts (fst tk))) (snd tk))) reqs) unprocessed) []).
Proof. exact batch_get_is_gets. Qed.

(* a BatchGetItem whose table entry breaks the expression rules, or names a table that does not exist, is rejected as a
   whole and nothing is reported as unprocessed (fixes 2aa9a7b, 91e5142): retrying such keys could never succeed *)
Theorem C19_batch_get_invalid_rejected :
  forall c reqs opts e es,
    c_failure c = None -> batch_get_errors c reqs opts = e :: es ->
    batch_get V2 c reqs opts = (c, {| o_res := RErr e; o_pay := PAlt (e :: es); o_fired := [] |}).
Proof. exact batch_get_invalid_rejected. Qed.
