(* C11  The client is safe for concurrent use and its operations are atomic  (PARTIAL: see DESIGN.md) *)
From Coq Require Import List Bool.
From Minidyn Require Import Base.Str Gen.Locks Model.Conc.
From Minidyn Require Import Proofs.ConcFacts.
Import ListNotations.

(* the lock discipline, read from the sources of both clients on every run: every access to the client's shared
   fields happens while the mutex is held, and no function holding the mutex calls one that takes it *)
Theorem C11_clients_follow_the_lock_discipline : well_locked lock_table_v1 = true /\ well_locked lock_table_v2 = true.
Proof. exact clients_well_locked. Qed.

Theorem C11_no_public_method_touches_shared_state_unlocked :
  forallb (fun m => negb (m_public m) || match m_unlocked m with [] => true | _ => false end) (lock_table_v1 ++ lock_table_v2) = true.
Proof. exact no_public_unlocked_access. Qed.

(* every public method - the batch calls, table management and the test helpers included - enters at most one critical
   section per call (an upper bound computed over the call graph read from the sources; a callee inside a loop counts
   as several): that section is the instant at which the call takes effect.  Before the repairs aae4d34 / 14eb346 the
   batch calls entered one section per request and this theorem was false of the generated tables. *)
Theorem C11_one_critical_section_per_call :
  one_section_per_call lock_table_v1 = true /\ one_section_per_call lock_table_v2 = true.
Proof. exact clients_one_section_per_call. Qed.

(* the same discipline for the registry of native expressions, which has a lock of its own (fix 46de73f): its maps are only
   touched under that lock and the lock is never taken twice on one call path *)
Theorem C11_native_registry_follows_the_lock_discipline : well_locked lock_table_native = true.
Proof. exact native_registry_well_locked. Qed.

(* under the mutex semantics, the accesses of any concurrent execution are ordered as a serial execution of whole
   critical sections (each data operation is one critical section) *)
Theorem C11_mutex_serializes :
  forall tr s s', crun s tr = Some s' -> flat s' = flat s ++ events tr.
Proof. exact mutex_serializes. Qed.

Theorem C11_mutex_excludes : forall s t e s', cstep s (t, Ev e) = Some s' -> exists l, cur s = Some (t, l).
Proof. exact mutex_excludes. Qed.
