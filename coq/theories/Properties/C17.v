(* C17  The SDK v1 and SDK v2 clients are behaviourally equivalent. *)
From Coq Require Import List Bool.
From Minidyn Require Import Base.Str Base.FMap Base.Outcome Model.Value Model.Key Model.Index Model.Table Model.Client.
From Minidyn Require Import Proofs.Mappers Proofs.Flavours.
Import ListNotations.

(* for every interpreter and every request that passes the SDK v1 parameter validation (BatchGetItem excepted: the
   v1 client has none) the two clients make the same state transition and answer with the same result class *)
Theorem C17_same_transition_and_class :
  forall lm lu c o,
    names_ok o = true -> (match o with OBatchGet _ _ => False | _ => True end) ->
    fst (step lm lu V1 c o) = fst (step lm lu V2 c o) /\
    o_res (snd (step lm lu V1 c o)) = o_res (snd (step lm lu V2 c o)).
Proof. exact clients_same_transition. Qed.

(* ... lifted to whole histories over any number of clients: after every history of admissible requests the two worlds
   (all clients, all tables, all indexes, failure flags, registries) are equal and the result classes are the same
   sequence *)
Theorem C17_same_world_after_every_history :
  forall lm lu ops w,
    Forall v1_admissible ops ->
    fst (run lm lu V1 w ops) = fst (run lm lu V2 w ops) /\
    map o_res (snd (run lm lu V1 w ops)) = map o_res (snd (run lm lu V2 w ops)).
Proof. exact clients_same_history. Qed.

(* returned items differ only by the v2 output mapper, which is the identity without empty containers *)
Theorem C17_output_mappers_agree : forall i, item_no_empty i = true -> out_item V2 i = out_item V1 i.
Proof. intros i H. rewrite out_item_v2_id by exact H. reflexivity. Qed.
