(* C12  Numbers behave as exact decimals, not floats or strings  (mostly refuted on the unchanged tree: known finding) *)
From Coq Require Import List Bool Arith.
From Coq Require Import Strings.String.
From Minidyn Require Import Base.Str Base.F64.
From Minidyn Require Import Proofs.ExprFacts.
Import ListNotations.

(* what does hold: canonical integers below 2000 survive the float64 round trip every number takes in an update
   (finite domain, checked exhaustively inside the kernel); notations of one value are normalised to one text *)
Theorem C12_small_integers_exact : forall n, n < 2000 -> renumber (decimal n) = Some (decimal n).
Proof. exact small_integers_exact. Qed.

Theorem C12_notation_normalised :
  renumber (bs "1e2") = Some (bs "100") /\ renumber (bs "007") = Some (bs "7") /\ renumber (bs "2.50") = Some (bs "2.5").
Proof. exact numeral_notation_normalised. Qed.

(* what does not: 38-digit precision and exact decimal arithmetic (known finding C12-1) *)
Theorem C12_big_integer_changes_refuted : renumber (bs "9007199254740993") = Some (bs "9007199254740992").
Proof. exact big_integer_changes_refuted. Qed.

Theorem C12_decimal_addition_inexact_refuted :
  option_map (fun a => option_map (fun b => format_float (f64_add a b)) (parse_float (bs "0.2"))) (parse_float (bs "0.1"))
  = Some (Some (bs "0.30000000000000004")).
Proof. exact decimal_addition_inexact_refuted. Qed.
