(* C16  DynamoDB usage restrictions are detected. *)
From Coq Require Import List Bool Arith.
From Coq Require Import Strings.Byte Strings.String.
From Minidyn Require Import Base.Str Base.FMap Base.Outcome Model.Value Model.Key Model.Index Model.Table Model.Client
  Model.Token Gen.Tables Model.Lexer Model.Parser Model.Object Model.Eval Model.Language.
From Minidyn Require Import Proofs.Restrictions Proofs.BatchAtomic.
Import ListNotations.

(* the reserved-word table read from the sources: 573 distinct upper-case words (DynamoDB's documented count) *)
Theorem C16_reserved_table :
  List.length reserved_words = 573 /\
  forallb (fun w => str_eqb (to_upper w) w) reserved_words = true /\ nodup_b reserved_words = true.
Proof. exact reserved_table_facts. Qed.

(* every casing of a reserved word is reserved *)
Theorem C16_reserved_any_case : forall w, is_reserved (to_upper w) = is_reserved w.
Proof. exact is_reserved_any_case. Qed.

(* a reserved word in a bare position makes the evaluation fail: as a whole operand, on either side of a
   comparison or connective, as the base of a document path, as a function argument *)
Theorem C16_reserved_operand : forall e t, is_reserved (lit t) = true -> eval e (EIdent t) = EErr.
Proof. exact reserved_ident_rejected. Qed.
Theorem C16_reserved_left : forall e op t r, is_reserved (lit t) = true -> eval e (EInfix op (EIdent t) r) = EErr.
Proof. exact reserved_in_comparison_left. Qed.
Theorem C16_reserved_right : forall e op l t, is_reserved (lit t) = true -> eval e (EInfix op l (EIdent t)) = EErr.
Proof. exact reserved_in_comparison_right. Qed.
Theorem C16_reserved_path_base : forall e t0 t idx, is_reserved (lit t) = true -> eval e (EIndex t0 (EIdent t) idx) = EErr.
Proof. exact reserved_as_path_base. Qed.
Theorem C16_reserved_argument :
  forall e t0 f t rest, is_reserved (lit t) = true -> eval e (ECall t0 (EIdent f) (Some (EIdent t :: rest))) = EErr.
Proof. exact reserved_as_first_argument. Qed.

(* batch size: more than 25 write requests are rejected, 25 or fewer never on that account *)
Theorem C16_batch_limit_exact :
  forall lm s c reqs,
    c_failure c = None ->
    forallb wreq_ok (flat_map snd reqs) = true ->
    (25 <? List.length (flat_map snd reqs) = true -> snd (batch_write lm s c reqs) = err_obs Validation) /\
    (25 <? List.length (flat_map snd reqs) = false ->
     snd (batch_write lm s c reqs) = err_obs Validation -> False \/
     flat_map (prevalidate_table c) reqs <> [] \/
     exists c' un o, batch_write_tables lm s c reqs [] = (c', un, Some o)).
Proof. exact batch_limit_exact. Qed.

Theorem C16_batch_limit_is_25_in_both_clients : batch_limit_v1 = 25 /\ batch_limit_v2 = 25.
Proof. exact batch_limits_agree. Qed.

(* a write request that is neither or both put and delete is rejected, nothing is written *)
Theorem C16_write_request_shape :
  forall lm s c reqs, c_failure c = None -> forallb wreq_ok (flat_map snd reqs) = false -> batch_write lm s c reqs = (c, err_obs Validation).
Proof. exact write_request_shape. Qed.

(* an expression attribute name that no expression uses, or whose key is malformed, is rejected *)
Theorem C16_unused_name_rejected :
  forall names vals exprs n, In n names -> contains_sub (trim (join (bs " ") exprs)) n = false -> validate_expr_attrs names vals exprs = false.
Proof. exact unused_name_rejected. Qed.

Theorem C16_malformed_name_rejected :
  forall names vals exprs n, In n names -> placeholder_ok "#"%byte n = false -> validate_expr_attrs names vals exprs = false.
Proof. exact malformed_name_rejected. Qed.

Theorem C16_placeholder_patterns_in_both_clients :
  names_regex_v1 = bs "^#[A-Za-z0-9_]+$" /\ names_regex_v2 = bs "^#[A-Za-z0-9_]+$" /\
  values_regex_v1 = bs "^:[A-Za-z0-9_]+$" /\ values_regex_v2 = bs "^:[A-Za-z0-9_]+$".
Proof. exact regexes_agree. Qed.

(* a name placeholder that the expressions use and the request does not define is rejected (fix 1740da6) *)
Theorem C16_undefined_name_rejected :
  forall names vals exprs,
    undefined_name_in (trim (join (bs " ") exprs)) names = true -> validate_expr_attrs names vals exprs = false.
Proof. exact undefined_name_rejected. Qed.

(* a reserved word used as an attribute name is rejected in every expression of the request, wherever it stands: the
   check works on the tokens of the expression (fix fb4521f), and finds every identifier that is a reserved word and
   is not a function name (not followed by an opening parenthesis) *)
Theorem C16_reserved_word_rejected :
  forall names vals exprs e,
    In e exprs -> reserved_word_in e = true -> trim (join (bs " ") exprs) <> [] -> validate_expr_attrs names vals exprs = false.
Proof. exact reserved_word_rejected. Qed.

Theorem C16_reserved_word_found_in_every_position :
  forall pre a b post,
    ty a = IDENT -> ty b <> LPAREN -> is_reserved (lit a) = true -> reserved_in_tokens (pre ++ a :: b :: post) = true.
Proof. exact reserved_in_tokens_spec. Qed.

(* "a request that respects these rules is never rejected on their account", for batches: in any client of any history,
   with no failure emulated, a batch whose write requests are each a put or a delete (not both, not neither), that holds
   at most 25 of them, and whose tables exist and keys are valid, is not rejected at all: it succeeds, nothing unprocessed *)
Theorem C16_wellformed_batch_is_not_rejected :
  forall lm lu s ops cn c reqs,
    lookup cn (fst (run lm lu s [] ops)) = Some c ->
    c_failure c = None -> (forall tn, In tn (keys reqs) -> v1_name_ok s tn = true) ->
    (s = V1 -> reqs <> []) ->
    forallb wreq_ok (flat_map snd reqs) = true -> Nat.ltb batch_limit (List.length (flat_map snd reqs)) = false ->
    flat_map (prevalidate_table c) reqs = [] ->
    exists c1, batch_write lm s c reqs = (c1, ok_obs (PBatchWrite []) []).
Proof. exact validated_batch_succeeds_reachable. Qed.
