(* C02  Query and Scan return exactly the matching items, in sort-key order. *)
From Coq Require Import List Bool.
From Minidyn Require Import Base.Str Base.FMap Base.Outcome Model.Value Model.Key Model.Index Model.Table.
From Minidyn Require Import Proofs.TableInv Proofs.Search.
From Minidyn Require Import Model.Client Proofs.StartKey.
Import ListNotations.

(* An unlimited read of the base table evaluates the request's expressions on every stored item, in key order
   (reverse key order for a backward query), and returns exactly the items for which they hold: none missing, none
   extra, each once. For every interpreter, in every state satisfying TInv (all reachable states, see C01). *)
Theorem C02_unlimited_read_is_selection :
  forall lm c t q,
    TInv t -> q_index q = None -> unlimited q ->
    search_data lm c t q =
    omap (fun '(l, f) => (l, [], f))
         (select_items lm c t q (map (get_item t) (if q_forward q then t_sorted t else rev (t_sorted t)))).
Proof. exact search_unlimited_base. Qed.

(* when the expressions evaluate without error the result is the filter of the sorted items, with no LastEvaluatedKey *)
Theorem C02_unlimited_read_is_filter :
  forall lm c t q verdict,
    TInv t -> q_index q = None -> unlimited q ->
    (forall k, In k (t_sorted t) -> exists e, match_key lm c t q (get_item t k) = Ok (e, verdict (get_item t k), [])) ->
    search_data lm c t q =
    Ok (filter verdict (map (get_item t) (if q_forward q then t_sorted t else rev (t_sorted t))), [], []).
Proof. exact search_unlimited_base_filter. Qed.

(* Through a secondary index (global or local) satisfying IInv - every index of every reachable state does, C03 - an
   unlimited read evaluates the request on the index's entries in (index key, primary key) order (reverse when
   backward) and returns exactly the matching ones ... *)
From Minidyn Require Import Proofs.IndexInv Proofs.IndexWalk.

Theorem C02_unlimited_index_read_is_selection :
  forall lm c t q n ix,
    q_index q = Some n -> lookup n (t_indexes t) = Some ix -> IInv (t_defs t) (t_data t) ix -> unlimited q ->
    search_data lm c t q =
    omap (fun '(l, f) => (l, [], f))
         (select_items lm c t q (map (fun r : str * str => get_item t (fst r)) (sorted_refs ix (q_forward q)))).
Proof. exact search_unlimited_index. Qed.

(* ... where the entries are exactly the stored items that have the index's key attributes, each once (pk, index key) ... *)
Theorem C02_index_entries_are_the_indexed_items :
  forall defs data ix (fwd : bool) pk ik,
    IInv defs data ix ->
    (In (pk, ik) (sorted_refs ix fwd) <-> exists it, lookup pk data = Some it /\ index_key_of (ix_ks ix) defs it = Some ik).
Proof. exact sorted_refs_In. Qed.

(* ... strictly ordered by index key, ties broken by primary key (so equal index keys come in primary-key order) *)
Theorem C02_index_entries_strictly_ordered :
  forall refs, wf refs -> Sorted.StronglySorted rlt (asc_refs refs).
Proof. exact asc_refs_strict. Qed.

(* Count equals the number of items returned, for every Query and every Scan (any table, index, expressions, limit) *)
Theorem C02_query_count_is_number_of_items :
  forall lm sdk c tn ix kc fl names vals lim esk fw proj its n lek,
    o_pay (snd (query_op lm sdk c tn ix kc fl names vals lim esk fw proj)) = PItems its n lek -> n = List.length its.
Proof. exact query_count_is_length. Qed.

Theorem C02_scan_count_is_number_of_items :
  forall lm sdk c tn ix fl names vals lim esk proj its n lek,
    o_pay (snd (scan_op lm sdk c tn ix fl names vals lim esk proj)) = PItems its n lek -> n = List.length its.
Proof. exact scan_count_is_length. Qed.
