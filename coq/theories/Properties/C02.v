(* C02  Query and Scan return exactly the matching items, in sort-key order. *)
From Coq Require Import List Bool.
From Minidyn Require Import Base.Str Base.FMap Base.Outcome Model.Value Model.Key Model.Index Model.Table.
From Minidyn Require Import Proofs.TableInv Proofs.Search.
Import ListNotations.

(* An unlimited read of the base table evaluates the request's expressions on every stored item, in key order
   (reverse key order for a backward query), and returns exactly the items for which they hold: none missing, none
   extra, each once. For every interpreter, in every state satisfying TInv (all reachable states, see C01). *)
Theorem C02_unlimited_read_is_selection :
  forall lm c t q,
    TInv t -> q_index q = None -> unlimited q ->
    search_data lm c t q =
    omap (fun '(l, f) => (l, [], f))
         (select_items lm c t q (map (get_item t) (if q_forward q then t_sorted t else rev (t_sorted t)))).
Proof. exact search_unlimited_base. Qed.

(* when the expressions evaluate without error the result is the filter of the sorted items, with no LastEvaluatedKey *)
Theorem C02_unlimited_read_is_filter :
  forall lm c t q verdict,
    TInv t -> q_index q = None -> unlimited q ->
    (forall k, In k (t_sorted t) -> exists e, match_key lm c t q (get_item t k) = Ok (e, verdict (get_item t k), [])) ->
    search_data lm c t q =
    Ok (filter verdict (map (get_item t) (if q_forward q then t_sorted t else rev (t_sorted t))), [], []).
Proof. exact search_unlimited_base_filter. Qed.
